#!/venv/bin/python
"""Entry point of every registered check:  tools/check.py --property Cxx [--tier quick|thorough] [--replay FILE]

Steps (DESIGN.md section 6):
 1. regenerate the Lean files that are derived from /repo's working tree (translators A and B), build the
    property's Lean modules and the driver (under a file lock);
 2. audit: forbidden tokens, `#print axioms` of every theorem of the property file;
 3. correspondence run (implementation in-process vs the compiled Lean model);
 4. broken obligation or disagreement -> failing-input search -> VIOLATION / KNOWN-FINDING lines;
 5. evidence file.
Exit 0: held; 1: violation; 2: infrastructure problem / timeout.
"""
from __future__ import annotations

import argparse
import fcntl
import hashlib
import importlib
import json
import os
import random
import re
import subprocess
import sys
import time
import traceback

HERE = os.path.dirname(os.path.abspath(__file__))
VERIF = os.path.dirname(HERE)
LEAN = os.path.join(VERIF, "lean")
REPO = os.environ.get("GEOMETER_REPO", "/repo")
sys.path.insert(0, HERE)
sys.path.insert(0, REPO)
os.environ.setdefault("GEOMETER_VERIF", "1")

FORBIDDEN = re.compile(r"\b(sorry|admit|native_decide|bv_decide|implemented_by|unsafe)\b|^\s*axiom\s|maxHeartbeats\s+0\b")
ALLOWED_AXIOMS = {"propext", "Classical.choice", "Quot.sound"}
TRUSTED_BASE = [
    "Lean 4.33.0 kernel; axioms propext, Classical.choice, Quot.sound only (audited by #print axioms on every run)",
    "Mathlib v4.33.0 as a library of kernel-checked proofs",
    "translator A (tools/extract.py: Python ast -> lean/Geo/Gen/*.lean) and translator B (tools/trace.py: recorded tensor diagrams -> lean/Geo/Gen/Diagrams.lean)",
    "correspondence harness (tools/props/*.py, tools/proto.py) and the driver's parser/printer (lean/Main.lean, Geo/Proto.lean)",
    "modelled, not verified: IEEE-754 rounding, numpy.einsum/broadcasting/fancy indexing, LAPACK, sqrt/cbrt/cos/arccos/log/frexp/ldexp, CPython set order for small ints, tolerances as exact zero tests",
]


class Ctx:
    """what a property module gets: rng, tier, counters, disagreement sink"""

    def __init__(self, prop, tier, seed):
        self.prop, self.tier, self.seed = prop, tier, seed
        self.rng = random.Random(f"{prop}:{seed}")
        self.evaluations = 0
        self.distinct = set()
        self.dist = {}
        self.samples = []
        self.disagreements = []
        self.notes = []
        self.exhaustive = False
        self.deadline = None
        self.t0 = time.time()

    def out_of_time(self):
        """deep search only: stop when a failing input has been found or the time cap is reached"""
        return self.deadline is not None and (bool(self.disagreements) or time.time() > self.deadline)

    def count(self, key, n=1):
        self.dist[key] = self.dist.get(key, 0) + n

    def case(self, desc, nontrivial=True):
        """register one executed case (desc: a short canonical string)"""
        self.evaluations += 1
        if nontrivial:
            self.distinct.add(hashlib.sha1(desc.encode()).hexdigest()[:16])
        if len(self.samples) < 6 and (self.evaluations % 37 == 1):
            self.samples.append(desc[:600])

    def disagree(self, sig, desc, expected, observed, replay=None):
        """model/implementation disagreement = the property fails on this input (see DESIGN 6)"""
        self.disagreements.append({"sig": sig, "case": desc[:2000], "expected": str(expected)[:1000],
                                   "observed": str(observed)[:1000], "replay": replay})

    def budget(self, quick, thorough):
        return thorough if self.tier == "thorough" else quick


def sh(cmd, cwd=None, timeout=3000):
    p = subprocess.run(cmd, cwd=cwd, shell=isinstance(cmd, str), capture_output=True, text=True, timeout=timeout)
    return p.returncode, p.stdout + p.stderr


def theorem_names(path):
    """fully qualified names of the (non-private) theorems of a Lean file"""
    names = []
    stack = []
    if os.path.exists(path):
        for line in open(path):
            m = re.match(r"\s*namespace\s+(\S+)", line)
            if m:
                stack.append(m.group(1))
                continue
            m = re.match(r"\s*end\s+(\S+)\s*$", line)
            if m and stack and stack[-1] == m.group(1):
                stack.pop()
                continue
            m = re.match(r"\s*(?:@\[[^\]]*\]\s*)?theorem\s+([^\s:({\[]+)", line)   # private helpers are covered transitively
            if m:
                names.append(".".join(stack + [m.group(1)]))
    return names


def theorem_at(path, lineno):
    """name of the theorem/example enclosing a line of a Lean file"""
    last = None
    for i, line in enumerate(open(path), 1):
        m = re.match(r"\s*(?:@\[[^\]]*\]\s*)?(?:private\s+|protected\s+)?(theorem|example|lemma|def)\s*([^\s:({\[]*)", line)
        if m:
            last = (m.group(2) or f"example@{i}")
        if i >= lineno:
            break
    return last or f"line{lineno}"


def regenerate():
    """translators A and B: rewrite generated Lean files only when their content changes"""
    report = {}
    for mod in ("extract", "effects", "trace"):
        if os.path.exists(os.path.join(HERE, mod + ".py")):
            m = importlib.import_module(mod)
            report[mod] = m.regenerate(REPO, os.path.join(LEAN, "Geo", "Gen"))
    return report


def build(prop, targets):
    """returns (ok, broken_theorems, log, gen_report)"""
    os.makedirs(os.path.join(LEAN, "Geo", "Gen"), exist_ok=True)
    lock = open(os.path.join(VERIF, ".build.lock"), "w")
    fcntl.flock(lock, fcntl.LOCK_EX)
    try:
        gen = regenerate()
        rc, log = sh(["lake", "build", "geodriver"], cwd=LEAN)
        if rc != 0:
            raise RuntimeError("driver build failed:\n" + log[-3000:])
        broken = []
        rc, log = sh(["lake", "build"] + targets, cwd=LEAN)
        if rc != 0:
            for m in re.finditer(r"error: ([^\s:]+\.lean):(\d+):(\d+)", log):
                f, ln = m.group(1), int(m.group(2))
                path = f if os.path.isabs(f) else os.path.join(LEAN, f)
                name = theorem_at(path, ln) if os.path.exists(path) else "?"
                item = f"{os.path.relpath(path, LEAN)}:{name}"
                if item not in broken:
                    broken.append(item)
            if not broken:
                raise RuntimeError("lake build failed without a located error:\n" + log[-3000:])
        # a fragment / scenario the translators could not regenerate from the current source is a broken tie for every
        # property whose theorems mention it (the theorem then talks about the baseline text, or is vacuous)
        text = ""
        for t in targets:
            fp = os.path.join(LEAN, t.replace(".", "/") + ".lean")
            if os.path.exists(fp):
                text += open(fp).read()
        stale = []
        for kind, rep in gen.items():
            for name, status in (rep or {}).items():
                if isinstance(status, str) and status.startswith("NOT regenerated"):
                    frag = name.split(":")[-1]
                    if re.search(r"\bGen\." + re.escape(frag) + r"\b", text):
                        stale.append(f"translator({kind}):{frag}: {status[:160]}")
        broken += stale
        return rc == 0 and not stale, broken, log, gen
    finally:
        fcntl.flock(lock, fcntl.LOCK_UN)
        lock.close()


def audit(prop, files):
    """forbidden tokens + axioms of every theorem in the property file"""
    problems = []
    for root, _, fs in os.walk(os.path.join(LEAN, "Geo")):
        for f in fs:
            if f.endswith(".lean"):
                p = os.path.join(root, f)
                incomment = False
                for i, line in enumerate(open(p), 1):
                    s = line
                    if "/-" in s and "-/" not in s:
                        incomment = True
                    if incomment:
                        if "-/" in s:
                            incomment = False
                        continue
                    s = re.sub(r"/-.*?-/", "", s)
                    s = s.split("--")[0]
                    if FORBIDDEN.search(s):
                        problems.append(f"forbidden token in {os.path.relpath(p, LEAN)}:{i}: {line.strip()[:80]}")
    names = []
    for f in files:
        names += theorem_names(os.path.join(LEAN, f))
    auditdir = os.path.join(LEAN, "Audit")
    os.makedirs(auditdir, exist_ok=True)
    mods = [f[:-5].replace("/", ".") for f in files]
    src = "".join(f"import {m}\n" for m in mods) + "".join(f"#print axioms {n}\n" for n in names)
    ap = os.path.join(auditdir, f"{prop}.lean")
    if not os.path.exists(ap) or open(ap).read() != src:
        open(ap, "w").write(src)
    rc, out = sh(["lake", "env", "lean", ap], cwd=LEAN)
    if rc != 0:
        problems.append("audit file failed to elaborate: " + out[-500:])
    checked = 0
    for m in re.finditer(r"^'(.+)' (depends on axioms: \[([^\]]*)\]|does not depend on any axioms)", out, re.M):
        checked += 1
        axs = set(a.strip() for a in (m.group(3) or "").split(",") if a.strip())
        extra = axs - ALLOWED_AXIOMS
        if extra:
            problems.append(f"theorem {m.group(1)} depends on {sorted(extra)}")
    return names, checked, problems


LEANCHECKER = {"ran": False}


def load_findings():
    p = os.path.join(VERIF, "known_findings.json")
    if os.path.exists(p):
        return json.load(open(p))
    return {"findings": [], "fixed": []}


def main():
    ap = argparse.ArgumentParser()
    ap.add_argument("--property", required=True)
    ap.add_argument("--tier", default=os.environ.get("VERIF_TIER", "quick"))
    ap.add_argument("--replay")
    ap.add_argument("--no-build", action="store_true")
    a = ap.parse_args()
    prop, tier = a.property, a.tier if a.tier in ("quick", "thorough") else "quick"
    seed = int(os.environ.get("VERIF_SEED", "0") or 0)
    t0 = time.time()
    try:
        mod = importlib.import_module("props." + prop.lower())
        files = getattr(mod, "LEAN_FILES", [f"Geo/Props/{prop}.lean"])
        targets = [f[:-5].replace("/", ".") for f in files]
        ok, broken, log, gen = (True, [], "", {}) if a.no_build else build(prop, targets)
        names, checked, problems = audit(prop, files) if ok else (sum((theorem_names(os.path.join(LEAN, f)) for f in files), []), 0, [])
        if ok and tier == "thorough" and not a.no_build:
            # independent re-check of the compiled property modules (and everything they import) by leanchecker
            rc, out = sh(["lake", "env", "leanchecker"] + targets, cwd=LEAN, timeout=3000)
            if rc != 0:
                problems.append("leanchecker rejected the compiled modules: " + out[-500:])
            LEANCHECKER["ran"] = True
        ctx = Ctx(prop, tier if ok else "thorough", seed)   # a broken obligation triggers the deep search
        ctx.requested_tier = tier
        # the deep search after a broken obligation in the quick tier is time-capped: it stops at the first failing input or after
        # 6 minutes (the violation is then reported with `no-failing-input-found`)
        ctx.deadline = (time.time() + 360) if (not ok and tier == "quick") else None
        try:
            if a.replay:
                mod.replay(ctx, json.load(open(a.replay)))
            else:
                mod.correspondence(ctx)
                if not getattr(mod, "NO_STALE_STREAM", False):
                    # query-then-move differential on this property's own operations (tools/stalelib.py)
                    import stalelib
                    stalelib.run(ctx, prop, [prop])
                    # the same coordinates as int64 / float64 / complex128 arrays give the same answers (tools/dtypelib.py)
                    import dtypelib
                    dtypelib.run_for(ctx, prop, ctx.budget(60, 600))
        except Exception as e:  # noqa: BLE001
            # an exception that escapes from the implementation (a frame inside /repo) is a finding about the
            # implementation, not an infrastructure problem
            tb = traceback.extract_tb(e.__traceback__)
            inside = [f for f in tb if os.path.abspath(f.filename).startswith(os.path.abspath(REPO) + os.sep)]
            if not inside:
                raise
            where = f"{os.path.relpath(inside[-1].filename, REPO)}:{inside[-1].name}"
            ctx.disagree(f"{prop}:uncaught:{type(e).__name__}:{where}", "".join(traceback.format_exception(e))[-1500:],
                         "no exception", f"{type(e).__name__}: {e}")
    except subprocess.TimeoutExpired as e:
        print(f"INFRA timeout: {e}")
        sys.exit(2)
    except Exception:
        traceback.print_exc()
        print("INFRA error (not a verdict)")
        sys.exit(2)

    kf = load_findings()
    known = {f["sig"]: f for f in kf.get("findings", []) if f.get("property") == prop and f.get("status", "open") == "open"}
    os.makedirs(os.path.join(VERIF, "replays", prop), exist_ok=True)
    violations, known_hit = [], {}
    for d in ctx.disagreements:
        if d["sig"] in known:
            known_hit.setdefault(d["sig"], d)
        else:
            violations.append(d)
    lines = []
    for sig, d in known_hit.items():
        lines.append(f"KNOWN-FINDING: property={prop} {known[sig]['what']} [{sig}] e.g. {' '.join(d['case'][:160].split())}")
    # findings listed but not reproduced this run are said so (they stay demonstrated only when exhibited)
    for sig, f in known.items():
        if sig not in known_hit:
            ctx.notes.append(f"known finding {sig} not exhibited in this run")
    seen = set()
    for d in violations:
        if d["sig"] in seen:
            continue
        seen.add(d["sig"])
        h = hashlib.sha1((d["sig"] + d["case"]).encode()).hexdigest()[:12]
        rp = os.path.join(VERIF, "replays", prop, f"{h}.json")
        json.dump({"property": prop, "seed": seed, "tier": tier, "kind": "input", "sig": d["sig"], "case": d["case"],
                   "ops": d.get("replay"), "expected": d["expected"], "observed": d["observed"], "broken": broken}, open(rp, "w"), indent=1)
        lines.append(f"VIOLATION property={prop} replay={rp}")
    if (broken or problems) and not violations:
        h = hashlib.sha1(("|".join(broken + problems)).encode()).hexdigest()[:12]
        rp = os.path.join(VERIF, "replays", prop, f"obligation-{h}.json")
        json.dump({"property": prop, "seed": seed, "tier": tier, "kind": "obligation", "broken": broken, "audit_problems": problems,
                   "build_log_tail": log[-4000:], "searched": {"evaluations": ctx.evaluations, "tier": ctx.tier}}, open(rp, "w"), indent=1)
        lines.append(f"VIOLATION property={prop} replay={rp} no-failing-input-found")
    nviol = len([l for l in lines if l.startswith("VIOLATION")])

    n_obl = len(names) + len(getattr(mod, "EXTRA_OBLIGATIONS", []))
    n_dis = (checked if ok else 0)
    ev = {
        "property_id": prop, "tier": tier, "seed": seed, "level": "proof",
        "coverage": {
            "obligations": max(n_obl, 1), "discharged": n_dis if not problems else max(0, n_dis - len(problems)),
            "checker_cmd": f"cd lean && lake build {' '.join(targets)} && lake env lean Audit/{prop}.lean  (run by tools/check.py --property {prop})",
            "trusted_base": TRUSTED_BASE + list(getattr(mod, "TRUSTED_EXTRA", [])),
            "theorems": names, "broken_obligations": broken, "audit_problems": problems,
            "generated_from_source": gen,
            "evaluations": ctx.evaluations, "distinct_nontrivial": len(ctx.distinct),
            "rule": getattr(mod, "RULE", ""), "samples": ctx.samples or ["(none)"],
            "distribution": ctx.dist, "exhaustive": ctx.exhaustive,
            "correspondence_disagreements": len(ctx.disagreements), "known_findings_exhibited": sorted(known_hit),
            "notes": ctx.notes + list(getattr(mod, "NOTES", [])) + (["compiled modules re-checked by leanchecker"] if LEANCHECKER["ran"] else []),
        },
        "assumptions": list(getattr(mod, "ASSUMPTIONS", [])) + ["see trusted_base"],
        "wall_s": round(time.time() - t0, 2), "violations": nviol,
    }
    os.makedirs(os.path.join(VERIF, "evidence"), exist_ok=True)
    json.dump(ev, open(os.path.join(VERIF, "evidence", f"{prop}.json"), "w"), indent=1)
    for l in lines:
        print(l)
    print(f"{prop} tier={tier} seed={seed} theorems={n_dis}/{n_obl} cases={ctx.evaluations} distinct={len(ctx.distinct)} "
          f"disagreements={len(ctx.disagreements)} violations={nviol} wall={time.time()-t0:.1f}s")
    sys.exit(1 if nviol else 0)


if __name__ == "__main__":
    main()
