#!/venv/bin/python
"""run stored seeded changes against the registered quick checks in parallel, without touching /repo:
each worker has its own copy of /verif (with build output) under /tmp/vw/<k>/verif and its own scratch worktree of /repo's
HEAD under /tmp/vw/<k>/repo; the checks are pointed at the worktree with GEOMETER_REPO.

usage: tools/seedpar.py [-j N] [--update-meta] <seed-id>[:<prop>,<prop>...] ...
       tools/seedpar.py --cleanup
prints one JSON line per (seed, property): exit code, number of VIOLATION lines, first signature.
--update-meta: for seeds whose stored meta.json says 'not caught' for that property, record the new result under
`after_strengthening` (first_attempt = missed)."""
import json, os, subprocess, sys, threading, queue

WORK = "/tmp/vw"


def sh(cmd, **kw):
    return subprocess.run(cmd, shell=True, capture_output=True, text=True, **kw)


def cleanup():
    if os.path.isdir(WORK):
        for k in os.listdir(WORK):
            sh(f"git -C /repo worktree remove --force {WORK}/{k}/repo")
        sh(f"rm -rf {WORK}")
    sh("git -C /repo worktree prune")


def prepare(k):
    d = f"{WORK}/{k}"
    os.makedirs(d, exist_ok=True)
    sh(f"rsync -a --delete --exclude .git --exclude replays --exclude seeded /verif/ {d}/verif/")
    if not os.path.isdir(f"{d}/repo"):
        sh(f"git -C /repo worktree add --detach {d}/repo HEAD")
    sh(f"git -C {d}/repo checkout -q --detach $(git -C /repo rev-parse HEAD); git -C {d}/repo checkout -- .; git -C {d}/repo clean -fdq")
    return d


def run_one(d, sid, prop):
    patch = f"/verif/seeded/{sid}/patch.diff"
    sh(f"git -C {d}/repo checkout -- .")
    r = sh(f"git -C {d}/repo apply {patch}")
    if r.returncode != 0:
        return {"seed": sid, "property": prop, "exit": None, "error": "patch does not apply: " + r.stderr[:200]}
    try:
        env = dict(os.environ, GEOMETER_REPO=f"{d}/repo")
        r = subprocess.run(["/venv/bin/python", f"{d}/verif/tools/check.py", "--property", prop], capture_output=True, text=True,
                           env=env, cwd=f"{d}/verif", timeout=3000)
        lines = [l for l in r.stdout.splitlines() if l.startswith(("VIOLATION", "KNOWN", "INFRA"))]
        sig = ""
        for l in lines:
            if l.startswith("VIOLATION"):
                rp = l.split("replay=")[1].split()[0]
                try:
                    j = json.load(open(rp))
                    sig = j.get("sig") or ";".join(j.get("broken") or [])
                except Exception:  # noqa: BLE001
                    pass
                break
        return {"seed": sid, "property": prop, "exit": r.returncode, "violations": sum(l.startswith("VIOLATION") for l in lines),
                "first_sig": sig[:160], "lines": lines[:3], "tail": r.stdout.splitlines()[-1:] if r.returncode not in (0, 1) else []}
    finally:
        sh(f"git -C {d}/repo checkout -- .")


def main():
    args = sys.argv[1:]
    if args and args[0] == "--cleanup":
        cleanup()
        return
    n = 6
    update = False
    if args and args[0] == "-j":
        n = int(args[1]); args = args[2:]
    if args and args[0] == "--update-meta":
        update = True; args = args[1:]
    jobs = queue.Queue()
    for a in args:
        sid, _, props = a.partition(":")
        for p in (props.split(",") if props else [sid.split("-")[0]]):
            jobs.put((sid, p))
    n = min(n, jobs.qsize())
    lock = threading.Lock()

    def worker(k):
        d = prepare(k)
        while True:
            try:
                sid, p = jobs.get_nowait()
            except queue.Empty:
                return
            res = run_one(d, sid, p)
            with lock:
                print(json.dumps(res), flush=True)
                if update and res.get("exit") in (0, 1):
                    mp = f"/verif/seeded/{sid}/meta.json"
                    m = json.load(open(mp))
                    first = m.get("checks_run", {}).get(p, {}).get("exit")
                    if first is None and "after_strengthening" not in m:
                        m.setdefault("checks_run", {})[p] = {"exit": res["exit"], "lines": res.get("lines", []), "first_sig": res.get("first_sig", "")}
                        json.dump(m, open(mp, "w"), indent=1)
                    elif first == 0 or "after_strengthening" in m:
                        m["first_attempt"] = "missed"
                        m["after_strengthening"] = {"property": p, "exit": res["exit"], "first_sig": res.get("first_sig", "")}
                        json.dump(m, open(mp, "w"), indent=1)

    ts = [threading.Thread(target=worker, args=(k,)) for k in range(n)]
    for t in ts:
        t.start()
    for t in ts:
        t.join()


if __name__ == "__main__":
    main()
