#!/usr/bin/env python3
"""Summarise a full regression run of the stored seeds (output of `tools/seedpar.py <all seeds>`, one JSON line per seed) as
seeded/REGRESSION.md: caught / patch no longer applies to the current /repo (the place was rewritten by a later `fix:` commit) /
no longer breaks the property (the demo of the seed passes on the patched current tree) / missed."""
from __future__ import annotations

import json
import pathlib
import sys

ROOT = pathlib.Path(__file__).resolve().parent.parent


def main():
    log = pathlib.Path(sys.argv[1])
    benign = set(sys.argv[2:])          # seeds shown (by their own demo) to be harmless on the current tree
    rows = {}
    for line in log.read_text().splitlines():
        line = line.strip()
        if not line.startswith("{"):
            continue
        r = json.loads(line)
        rows[r["seed"]] = r             # a later line for the same seed (a re-run) wins
    caught, stale, harmless, missed = [], [], [], []
    for s, r in sorted(rows.items()):
        if r.get("error"):
            stale.append((s, r["error"].splitlines()[0][:100]))
        elif r.get("exit") == 1 and r.get("violations", 0) > 0:
            caught.append((s, r.get("first_sig", "")))
        elif s in benign:
            harmless.append(s)
        else:
            missed.append(s)
    out = ["# Regression of the stored seeds against the final checks", "",
           f"Run with `tools/seedpar.py -j 10 <every directory under seeded/>` (scratch copies, /repo untouched): {len(rows)} seeds.", "",
           f"* caught (exit 1 with VIOLATION lines): **{len(caught)}**",
           f"* patch no longer applies to the current /repo (the code it changed was rewritten by a later `fix:` commit): **{len(stale)}**",
           f"* patch applies but no longer breaks the property on the current tree (its own demo passes): **{len(harmless)}**",
           f"* missed: **{len(missed)}**", ""]
    if missed:
        out += ["## Missed", ""] + [f"* {s}" for s in missed] + [""]
    if harmless:
        out += ["## No longer property-breaking", ""] + [f"* {s}" for s in harmless] + [""]
    out += ["## Patch no longer applies", ""] + [f"* {s}: {e}" for s, e in stale] + [""]
    out += ["## Caught (first signature)", ""] + [f"* {s}: `{sig}`" for s, sig in caught] + [""]
    (ROOT / "seeded" / "REGRESSION.md").write_text("\n".join(out))
    print(f"seeds={len(rows)} caught={len(caught)} stale={len(stale)} harmless={len(harmless)} missed={len(missed)}")
    return 1 if missed else 0


if __name__ == "__main__":
    sys.exit(main())
