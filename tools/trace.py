"""Translator B: run the real API once per scenario with numpy.einsum wrapped (from this process; nothing in
/repo is changed), record the einsum calls that TensorDiagram.calculate issues — operand roles by object
identity / value, subscripts, output subscripts, result index types — and write them as Lean terms to
lean/Geo/Gen/Diagrams.lean.  Theorems in Geo/Props/*.lean are stated about these generated terms."""
from __future__ import annotations

import os

import numpy as np


def _close_up_to_scale(a, b):
    a = np.asarray(a, dtype=complex).ravel()
    b = np.asarray(b, dtype=complex).ravel()
    if a.shape != b.shape or not a.size:
        return False
    k = int(np.argmax(np.abs(a)))
    if abs(a[k]) == 0 or abs(b[k]) == 0:
        return False
    return bool(np.allclose(a * b[k], b * a[k], rtol=1e-12, atol=1e-12))


class Recorder:
    def __init__(self, args):
        self.args = args          # list of implementation objects (arrays looked up by identity)
        self.calls = []
        self.results = []

    def role(self, a):
        from geometer.base import LeviCivitaTensor
        for k, x in enumerate(self.args):
            arr = getattr(x, "array", x)
            if a is arr:
                return f".arg {k}"
        for n, arr in LeviCivitaTensor._cache.items():
            # instances hold a copy of the cached array (identity no longer holds): recognise the epsilon tensor by dtype, shape and value
            if a is arr or (getattr(a, "dtype", None) == arr.dtype and np.shape(a) == arr.shape and np.array_equal(a, arr)):
                return f".eps {n}"
        for j, r in enumerate(self.results):
            if a is r:
                return f".prev {j}"
        for k, x in enumerate(self.args):
            arr = np.asarray(getattr(x, "array", x))
            if arr.shape == np.shape(a) and np.array_equal(arr, a):
                return f".arg {k}"
        for j, r in enumerate(self.results):
            if np.shape(r) == np.shape(a) and _close_up_to_scale(r, a):
                return f".prev {j}"
        for k, x in enumerate(self.args):
            arr = np.asarray(getattr(x, "array", x))
            if arr.ndim == 2 and arr.shape[0] == arr.shape[1] and arr.shape == np.shape(a):
                try:
                    if np.allclose(np.linalg.inv(arr), a, rtol=1e-9, atol=1e-12):
                        return f".inv {k}"
                except np.linalg.LinAlgError:
                    pass
        return ".unknown"

    def einsum(self, real, *ops):
        arrays = list(ops[0:-1:2])
        subs = [list(map(int, s)) for s in ops[1:-1:2]]
        out = list(map(int, ops[-1]))
        res = real(*ops)
        self.calls.append({"roles": [self.role(a) for a in arrays], "operands": subs,
                           "shapes": [list(np.shape(a)) for a in arrays], "out": out, "res": res})
        self.results.append(res)
        return res


def record(fn, args):
    """run fn(*args) with einsum recorded; returns the list of calls (with nFree/nCov of each result filled in)"""
    import geometer.base as gb
    rec = Recorder(args)
    real = np.einsum
    real_calc = gb.TensorDiagram.calculate

    def calc(self):
        r = real_calc(self)
        if rec.calls and "nFree" not in rec.calls[-1]:
            rec.calls[-1]["nFree"] = r.free_indices
            rec.calls[-1]["nCov"] = r.tensor_shape[0]
        return r
    np.einsum = lambda *ops, **kw: rec.einsum(real, *ops)
    gb.TensorDiagram.calculate = calc
    try:
        fn(*args)
    finally:
        np.einsum = real
        gb.TensorDiagram.calculate = real_calc
    return rec.calls


def scenarios():
    import geometer as g
    from geometer.curve import Quadric
    P2 = lambda *c: g.Point(np.array(c))
    p2a, p2b, p2c = P2(1, 2, 1), P2(3, -1, 2), P2(0, 1, 1)
    l2a, l2b = g.Line(np.array([1, 2, 3])), g.Line(np.array([2, -1, 1]))
    p3a, p3b, p3c, p3d = (g.Point(np.array(c)) for c in ([1, 2, 3, 1], [0, 1, -1, 2], [2, 0, 1, 1], [1, 1, 1, 3]))
    e3a, e3b, e3c = (g.Plane(np.array(c)) for c in ([1, 2, 3, 1], [0, 1, -1, 2], [2, 0, 1, 1]))
    L1 = g.Line(p3a, p3b)
    L2 = g.Line(p3a, p3c)        # coplanar with L1 (common point)
    t2 = g.Transformation(np.array([[2, 1, 0], [1, 3, 1], [0, 1, 1]]))
    t3 = g.Transformation(np.array([[2, 1, 0, 1], [1, 3, 1, 0], [0, 1, 1, 2], [1, 0, 0, 1]]))
    q2 = Quadric(np.array([[1, 2, 0], [2, -1, 1], [0, 1, 3]]))
    q3 = Quadric(np.array([[1, 2, 0, 1], [2, -1, 1, 0], [0, 1, 3, 1], [1, 0, 1, 2]]))
    q2d = Quadric(np.array([[1, 2, 0], [2, -1, 1], [0, 1, 3]]), is_dual=True)
    pc = g.PointCollection(np.array([[1, 2, 1], [0, 3, 1]]))
    S = {
        "join_P2P2": (g.join, [p2a, p2b]),
        "join_P3P3": (g.join, [p3a, p3b]),
        "join_P3P3P3": (g.join, [p3a, p3b, p3c]),
        "join_L3P3": (g.join, [L1, p3c]),
        "join_P3L3": (g.join, [p3c, L1]),
        "join_L3L3": (g.join, [L1, L2]),
        "meet_L2L2": (g.meet, [l2a, l2b]),
        "meet_EE": (g.meet, [e3a, e3b]),
        "meet_EEE": (g.meet, [e3a, e3b, e3c]),
        "meet_L3E": (g.meet, [L1, e3c]),
        "meet_EL3": (g.meet, [e3c, L1]),
        "meet_L3L3": (g.meet, [L1, L2]),
        "covariant_tensor": (lambda l: l.covariant_tensor, [L1]),
        "is_coplanar": (lambda a, b: a.is_coplanar(b), [L1, L2]),
        "contains_L2P2": (lambda s, p: s.contains(p), [l2a, p2a]),
        "contains_E3P3": (lambda s, p: s.contains(p), [e3a, p3a]),
        "contains_L3P3": (lambda s, p: s.contains(p), [L1, p3a]),
        "contains_E3L3": (lambda s, l: s.contains(l), [e3a, L1]),
        "apply_P2": (lambda t, x: t * x, [t2, p2a]),
        "apply_L2": (lambda t, x: t * x, [t2, l2a]),
        "apply_P3": (lambda t, x: t * x, [t3, p3a]),
        "apply_E3": (lambda t, x: t * x, [t3, e3a]),
        "apply_L3": (lambda t, x: t * x, [t3, L1]),
        "apply_Q2": (lambda t, x: t * x, [t2, q2]),
        "apply_Q3": (lambda t, x: t * x, [t3, q3]),
        "apply_Q2dual": (lambda t, x: t * x, [t2, q2d]),
        "pow3_T2": (lambda t: t ** 3, [t2]),
        "join_P2cP2": (g.join, [pc, p2c]),
    }
    return S


def lean_list(xs, f=str):
    return "[" + ", ".join(f(x) for x in xs) + "]"


def regenerate(repo, gendir):
    import sys
    if repo not in sys.path:
        sys.path.insert(0, repo)
    out = ["/- GENERATED by tools/trace.py from the einsum calls the library issues; do not edit. -/",
           "import Geo.Traced", "namespace Geo.Gen", ""]
    report = {}
    for name, (fn, args) in scenarios().items():
        try:
            calls = record(fn, args)
            ok = bool(calls) and all(".unknown" not in c["roles"] and "nFree" in c for c in calls)
            err = None
        except Exception as e:  # noqa: BLE001
            calls, ok, err = [], False, f"{type(e).__name__}: {e}"
        if ok:
            items = []
            for c in calls:
                items.append("⟨" + ", ".join([lean_list(c["roles"]), lean_list(c["operands"], lean_list), lean_list(c["shapes"], lean_list),
                                              lean_list(c["out"]), str(c["nFree"]), str(c["nCov"])]) + "⟩")
            out.append(f"def {name} : Traced := some [" + ",\n    ".join(items) + "]")
            report[name] = f"regenerated ({len(calls)} einsum call(s))"
        else:
            out.append(f"def {name} : Traced := none   -- not regenerated: {err or 'operand role not recognised'}")
            report[name] = "NOT regenerated: " + (err or "operand role not recognised")
        out.append("")
    out.append("end Geo.Gen")
    text = "\n".join(out) + "\n"
    path = os.path.join(gendir, "Diagrams.lean")
    if not os.path.exists(path) or open(path).read() != text:
        open(path, "w").write(text)
    return report


if __name__ == "__main__":
    import json
    import sys
    here = os.path.dirname(os.path.abspath(__file__))
    print(json.dumps(regenerate(os.environ.get("GEOMETER_REPO", "/repo"), os.path.join(here, "..", "lean", "Geo", "Gen")), indent=1))
