"""Transformations in the correspondence harness: exact invertible matrices, all transformable object kinds,
requests for the `apply/compose/pow/inverse` model ops, projective comparison per collection position."""
from __future__ import annotations

import itertools
from fractions import Fraction

import numpy as np

from geolib import Gen, Obj, call_impl, stack, G
from proto import ET, dec_tens, proj_close, proj_close_nn, run_driver


def fdet(m):
    """exact determinant of a list-of-lists of Fractions"""
    n = len(m)
    if n == 1:
        return m[0][0]
    s = Fraction(0)
    for j in range(n):
        if m[0][j] == 0:
            continue
        minor = [r[:j] + r[j + 1:] for r in m[1:]]
        s += (-1) ** j * m[0][j] * fdet(minor)
    return s


def rand_matrix(rng, n, kind=None):
    """invertible exact matrix: generic integer / affine / projective with small entries / diagonal scale"""
    kind = kind or rng.choice(["generic", "generic", "affine", "shear", "scaled", "tiny-perspective", "translation-w", "diag-w", "perspective-only", "block-w"])
    while True:
        m = [[Fraction(rng.randint(-3, 3)) for _ in range(n)] for _ in range(n)]
        if kind == "affine":
            m[-1] = [Fraction(0)] * (n - 1) + [Fraction(1)]
        elif kind == "shear":
            m = [[Fraction(int(i == j)) for j in range(n)] for i in range(n)]
            i, j = rng.sample(range(n), 2)
            m[i][j] = Fraction(rng.choice([-2, -1, 1, 2, 3]))
            k = rng.randrange(n - 1)
            m[k][k] = Fraction(rng.choice([1, 2, -1]))
        elif kind == "tiny-perspective":
            # almost affine: perspective coefficients 2^-28 (exactly representable, far below 1e-8)
            m = [[Fraction(int(i == j)) for j in range(n)] for i in range(n)]
            m[-1][rng.randrange(n - 1)] = Fraction(rng.choice([1, -1, 3]), 2 ** 28)
            if rng.random() < 0.5:
                m[0][1] = Fraction(rng.randint(-2, 2))
        elif kind in ("translation-w", "diag-w", "perspective-only", "block-w"):
            # matrices with a special block structure (what the constructors of the library produce, but with a corner entry w != 1
            # or a perspective row): any shortcut that recognises "a translation", "a linear map", "an affine map" by part of the
            # structure only is exercised on its boundary
            m = [[Fraction(int(i == j)) for j in range(n)] for i in range(n)]
            w = Fraction(rng.choice([2, 4, -1, -3, 1]), rng.choice([1, 2]))
            if kind == "translation-w":
                for i in range(n - 1):
                    m[i][-1] = Fraction(rng.randint(-3, 3))
                m[-1][-1] = w if w != 1 else Fraction(2)
            elif kind == "diag-w":
                m[-1][-1] = w if w != 1 else Fraction(4)
            elif kind == "perspective-only":
                for i in range(n - 1):
                    for j in range(n - 1):
                        m[i][j] = Fraction(rng.randint(-2, 2)) if rng.random() < 0.5 else m[i][j]
                m[-1][rng.randrange(n - 1)] = Fraction(rng.choice([1, -1, 2]), rng.choice([2, 4, 5]))
            else:
                for i in range(n - 1):
                    for j in range(n - 1):
                        m[i][j] = Fraction(rng.randint(-3, 3))
                m[-1][-1] = w
        elif kind == "scaled":
            lam = Fraction(rng.choice([2, -1, -3, 5]), rng.choice([1, 2]))
            m = [[lam * x for x in row] for row in m]
        if fdet(m) != 0:
            return m


class TM:
    """exact transformation (collection): ET of shape free + (n, n)"""

    def __init__(self, data: ET, nfree=0):
        self.data, self.nfree = data, nfree
        self._impl = None

    @staticmethod
    def of(m):
        n = len(m)
        return TM(ET((n, n), [x for r in m for x in r]))

    @staticmethod
    def coll(ms, shape):
        n = len(ms[0])
        return TM(ET(tuple(shape) + (n, n), [x for m in ms for r in m for x in r]), len(shape))

    def impl(self):
        if self._impl is None:
            import geometer as g
            a = self.data.numpy()
            self._impl = g.Transformation(a) if self.nfree == 0 else g.TransformationCollection(a)
        return self._impl

    def enc(self):
        return f"{self.nfree}|{self.data.enc()}"


# ------------------------------------------------------------------ transformable objects

class XObj:
    """object to transform: kind in P L E Lc Q Qd S G H (segment, polygon, polyhedron)"""

    def __init__(self, kind, data: ET, nfree, ncov, ncon, dual=False):
        self.kind, self.data, self.nfree, self.ncov, self.ncon, self.dual = kind, data, nfree, ncov, ncon, dual
        self._impl = None

    def enc(self):
        return f"{self.nfree}|{self.ncov}|{self.ncon}|{self.data.enc()}"

    def impl(self):
        if self._impl is None:
            import geometer as g
            from geometer.curve import Quadric, QuadricCollection
            a = self.data.numpy()
            k = self.kind
            if k in ("P", "L", "E", "Lc"):
                self._impl = Obj("L" if k == "Lc" else k, self.data, self.nfree, cov=(k in ("P", "Lc"))).impl()
            elif k in ("Q", "Qd"):
                self._impl = (Quadric if self.nfree == 0 else QuadricCollection)(a, is_dual=(k == "Qd"))
            elif k == "S":
                self._impl = g.Segment(a) if a.ndim == 2 else g.SegmentCollection(a)
            elif k == "G":
                self._impl = g.Polygon(a) if a.ndim == 2 else g.PolygonCollection(a)
            elif k == "H":
                self._impl = g.Polyhedron(a)
        return self._impl


def gen_xobj(g: Gen, dim, kind=None, coll=None):
    r = g.rng
    kinds = ["P", "L", "Q", "Qd", "S", "G"] if dim == 2 else ["P", "L", "E", "Lc", "Q", "Qd", "S", "G", "H"]
    kind = kind or r.choice(kinds)
    n = dim + 1
    shape = () if not (coll if coll is not None else r.random() < 0.3) else (r.randint(1, 3),)
    k = int(np.prod(shape)) if shape else 1

    def one():
        if kind == "P":
            return g.point(dim, cplx=False).data
        if kind == "L" and dim == 2:
            return g.hyper(2, cplx=False).data
        if kind == "E":
            return g.hyper(3, cplx=False).data
        if kind in ("L", "Lc"):
            L = g.line3(p=g.point(3, cplx=False), q=g.point(3, cplx=False))[0]
            while L is None:
                L = g.line3(p=g.point(3, cplx=False), q=g.point(3, cplx=False))[0]
            if kind == "L":
                return L.data
            # covariant form: eps_{ijkl} L^{ij} (exact)
            from geolib import perm_sign
            ents = [[Fraction(0)] * 4 for _ in range(4)]
            Lm = [[L.data.entries[4 * i + j][0] for j in range(4)] for i in range(4)]
            for perm in itertools.permutations(range(4)):
                i, j, kk, l = perm
                ents[kk][l] += perm_sign(perm) * Lm[i][j]
            return ET((4, 4), [x for row in ents for x in row])
        if kind in ("Q", "Qd"):
            while True:
                a = [[Fraction(r.randint(-3, 3)) for _ in range(n)] for _ in range(n)]
                m = [[a[i][j] + a[j][i] for j in range(n)] for i in range(n)]
                if fdet(m) != 0 or r.random() < 0.2:
                    return ET((n, n), [x for row in m for x in row])
        if kind == "S":
            while True:
                p, q = g.point(dim, cplx=False, inf=False), g.point(dim, cplx=False, inf=False)
                if not proj_close_nn(p.data.cnumpy(), q.data.cnumpy()):
                    return ET((2, n), p.data.entries + q.data.entries)
        if kind == "G":
            # convex-ish quadrilateral in the plane z=1 (2D) or in a random plane (3D): affine image of a square
            pts = [(0, 0), (2, 0), (2, 2), (0, 2)] if r.random() < 0.5 else [(0, 0), (3, 0), (3, 1), (1, 1), (0, 3)][:4]
            if dim == 2:
                ox, oy = r.randint(-2, 2), r.randint(-2, 2)
                w = r.choice([1, 1, 2, -1])
                return ET((4, 3), [c for (x, y) in pts for c in ((x + ox) * w, (y + oy) * w, w)])
            while True:
                u = [r.randint(-2, 2) for _ in range(3)]
                v = [r.randint(-2, 2) for _ in range(3)]
                cr = [u[1] * v[2] - u[2] * v[1], u[2] * v[0] - u[0] * v[2], u[0] * v[1] - u[1] * v[0]]
                if any(cr):
                    break
            o = [r.randint(-2, 2) for _ in range(3)]
            return ET((4, 4), [c for (x, y) in pts for c in (o[0] + x * u[0] + y * v[0], o[1] + x * u[1] + y * v[1], o[2] + x * u[2] + y * v[2], 1)])
        if kind == "H":
            import geometer as gm
            o = [r.randint(-2, 2) for _ in range(3)]
            cube = gm.Cuboid(gm.Point(*o), gm.Point(o[0] + 1, o[1], o[2]), gm.Point(o[0], o[1] + 2, o[2]), gm.Point(o[0], o[1], o[2] + 1))
            return ET.of(np.asarray(cube.array).astype(int))
        raise ValueError(kind)

    if kind == "H":
        shape, k = (), 1
    datas = [one() for _ in range(k)]
    tshape = datas[0].shape
    ents = [e for d in datas for e in d.entries]
    data = ET(tuple(shape) + tshape, ents)
    if kind in ("P",):
        return XObj(kind, data, len(shape), 1, 0)
    if kind in ("L", "E") and len(tshape) == 1:
        return XObj(kind, data, len(shape), 0, 1)
    if kind == "L":
        return XObj(kind, data, len(shape), 0, 2)
    if kind == "Lc":
        return XObj(kind, data, len(shape), 2, 0)
    if kind == "Q":
        return XObj(kind, data, len(shape), 0, 2)
    if kind == "Qd":
        return XObj(kind, data, len(shape), 2, 0, dual=True)
    # polytopes: every axis but the last is a collection axis for the tensor action
    return XObj(kind, data, len(data.shape) - 1, 1, 0)


def proj_equal_positions(a, b, ntensor, rtol=1e-9):
    """two implementation arrays equal up to a scalar at every collection position (ntensor trailing axes)"""
    a, b = np.asarray(a), np.asarray(b)
    if a.shape != b.shape:
        return False
    tshape = a.shape[a.ndim - ntensor:]
    fa = a.reshape((-1,) + tuple(tshape))
    fb = b.reshape((-1,) + tuple(tshape))
    return all(proj_close_nn(x, y, rtol) for x, y in zip(fa, fb))


def exact_close_positions(exp: ET, arr, ntensor, rtol=1e-9):
    arr = np.asarray(arr)
    if tuple(arr.shape) != exp.shape:
        return False
    tshape = exp.shape[len(exp.shape) - ntensor:]
    size = int(np.prod(tshape, dtype=int))
    flat = arr.reshape((-1,) + tuple(tshape))
    return all(proj_close(ET(tshape, exp.entries[k * size:(k + 1) * size]), flat[k], rtol) for k in range(flat.shape[0]))
