#!/bin/bash
# usage: tools/seedrun.sh <seed-id> [<prop> ...]   — apply seeded/<id>/patch.diff to /repo, run the quick check(s), undo; one line per check
id=$1; shift
props=${@:-${id%%-*}}
patch=/verif/seeded/$id/patch.diff
if ! git -C /repo apply --check $patch 2>/dev/null; then echo "$id NOAPPLY"; exit 3; fi
git -C /repo apply $patch
cd /verif
for p in $props; do
  out=$(/venv/bin/python tools/check.py --property $p 2>&1); rc=$?
  nv=$(echo "$out" | grep -c '^VIOLATION')
  first=$(echo "$out" | grep '^VIOLATION' | head -1 | sed 's/.*replay=//' | awk '{print $1}')
  sig=""
  [ -n "$first" ] && [ -f "$first" ] && sig=$(python3 -c "import json,sys; d=json.load(open('$first')); print(d.get('sig') or d.get('broken'))" 2>/dev/null | cut -c1-100)
  echo "$id $p exit=$rc violations=$nv sig=$sig"
done
git -C /repo checkout -- .
