"""join / meet scenarios shared by C01, C02, C04 (and reused by C03, C07)."""
from __future__ import annotations

import itertools
from fractions import Fraction

import numpy as np
from proto import proj_close_nn

from geolib import Gen, Obj, call_impl, compare_obj, compare_mask, stack, pluecker, G
from proto import ET, run_driver

SCENARIOS = ["J_P2P2", "J_P3P3", "J_P3P3P3", "J_L3P3", "J_P3L3", "J_L3L3",
             "M_L2L2", "M_EE", "M_EEE", "M_L3E", "M_EL3", "M_L3L3"]


def single_case(g: Gen, sc: str, degenerate: str | None = None):
    """one configuration of single objects for a scenario.  degenerate: None (whatever the draw gives),
    or one of 'equal', 'multiple', 'incident', 'skew', 'zero', 'same-object'"""
    r = g.rng
    op = "join" if sc[0] == "J" else "meet"
    kinds = sc[2:]

    def hyper3():
        return g.hyper(3)

    if sc == "J_P2P2":
        a = g.point(2); b = g.point(2)
        args = [a, b]
    elif sc == "J_P3P3":
        args = [g.point(3), g.point(3)]
    elif sc == "J_P3P3P3":
        args = [g.point(3), g.point(3), g.point(3)]
        if degenerate == "incident":
            args[2] = g.lincomb(args[:2])
            r.shuffle(args)
    elif sc in ("J_L3P3", "J_P3L3"):
        L, p, q = g.line3()
        x = g.point(3)
        if degenerate == "incident":
            x = g.lincomb([p, q])
        args = [L, x] if sc == "J_L3P3" else [x, L]
    elif sc in ("J_L3L3", "M_L3L3"):
        p = g.point(3)
        L, _, q = g.line3(p=p)
        if degenerate == "skew":
            M, _, _ = g.line3()
        elif degenerate in ("equal", "multiple"):
            M, _, _ = g.line3(p=g.lincomb([p, q]), q=q)
            if M is None:
                M = L.scaled(2)
        else:
            M, _, _ = g.line3(p=p)        # through the common point p: coplanar
            if r.random() < 0.3:
                M, _, _ = g.line3(p=g.lincomb([p, q]))   # meets L somewhere else
        args = [L, M]
    elif sc == "M_L2L2":
        args = [g.hyper(2), g.hyper(2)]
    elif sc == "M_EE":
        args = [hyper3(), hyper3()]
    elif sc == "M_EEE":
        args = [hyper3(), hyper3(), hyper3()]
        if degenerate == "incident":
            args[2] = g.lincomb(args[:2])
            r.shuffle(args)
    elif sc in ("M_L3E", "M_EL3"):
        L, p, q = g.line3()
        e = hyper3()
        if degenerate == "incident":
            # a plane containing the line: through p, q and a third point
            x = g.point(3)
            # plane coordinates = eps^{ijkl} p_i q_j x_k  (exact)
            L2 = pluecker(p.data.entries, q.data.entries)
            ents = []
            for l in range(4):
                acc = (Fraction(0), Fraction(0))
                for k in range(4):
                    t = (L2[k][l][0] * x.data.entries[k][0] - L2[k][l][1] * x.data.entries[k][1],
                         L2[k][l][0] * x.data.entries[k][1] + L2[k][l][1] * x.data.entries[k][0])
                    acc = (acc[0] + t[0], acc[1] + t[1])
                ents.append(acc)
            if any(v != (0, 0) for v in ents):
                e = Obj("E", ET((4,), ents))
        args = [L, e] if sc == "M_L3E" else [e, L]
    else:
        raise ValueError(sc)

    if degenerate == "equal" and sc not in ("J_L3L3", "M_L3L3", "J_L3P3", "J_P3L3", "M_L3E", "M_EL3"):
        args[-1] = Obj(args[0].kind, args[0].data, 0, args[0].cov)
    elif degenerate == "multiple" and sc not in ("J_L3L3", "M_L3L3", "J_L3P3", "J_P3L3", "M_L3E", "M_EL3"):
        args[-1] = args[0].scaled(r.choice([2, -1, Fraction(1, 2), -3]))
    elif degenerate == "zero":
        k = r.randrange(len(args))
        if args[k].data.shape == (args[k].n,):
            args[k] = Obj(args[k].kind, ET(args[k].data.shape, [0] * args[k].n), 0, args[k].cov)
    elif degenerate == "same-object" and len({a.kind for a in args}) == 1 and args[0].data.shape == args[1].data.shape:
        args[1] = args[0]
    return op, args


def collection_case(g: Gen, sc: str, degen_rate=0.25, mixed_scale=False, big=None):
    """a case whose arguments are collections (or a mix of single objects and collections)"""
    r = g.rng
    shape = g.free_shape() or (r.randint(1, 3),)
    if big:
        shape = big          # at least 64 positions: the size-dependent code paths (batched kernels, fast paths)
    npos = int(np.prod(shape))
    per = []
    for _ in range(npos):
        dg = None
        if r.random() < degen_rate:
            dg = r.choice(["equal", "multiple", "incident", "skew", "zero"])
        per.append(single_case(g, sc, dg))
    op = per[0][0]
    nargs = len(per[0][1])
    if mixed_scale and npos >= 2 and r.random() < 0.3:
        # mixed magnitudes inside one collection: the representatives at one position carry a large homogeneous factor
        # (a power of two: exact in binary floating point), the other positions stay at unit scale
        # one argument by 2^20 or two arguments by 2^17 each: all integer intermediates stay far below 2^63
        pos = r.randrange(npos)
        which = r.sample(range(nargs), r.choice([1, 2]) if nargs >= 2 else 1)
        lam = (2 ** 20 if len(which) == 1 else 2 ** 17) * r.choice([1, 1, -1])
        per[pos] = (per[pos][0], [a.scaled(lam) if i in which else a for i, a in enumerate(per[pos][1])])
    args = []
    single_arg = r.randrange(nargs) if r.random() < 0.4 else None
    for k in range(nargs):
        if k == single_arg:
            args.append(per[0][1][k])
        else:
            sub = shape
            # occasionally a collection with fewer axes that broadcasts from the right
            if len(shape) >= 2 and r.random() < 0.3:
                sub = shape[1:]
                objs = [per[i][1][k] for i in range(int(np.prod(sub)))]
            else:
                objs = [per[i][1][k] for i in range(npos)]
            args.append(stack(objs, sub))
    return op, args


def request(op, args, by_identity=False):
    """by_identity=False: every argument position is its own object (the specification level: what the
    property demands depends on the coordinates only); True: Python object identity is passed on to the
    diagram model (mechanism level, used to explain a failure)"""
    ids = {}
    toks = [op]
    for k, a in enumerate(args):
        ids.setdefault(id(a) if by_identity else k, len(ids) + 1)
        toks.append(a.enc(ids[id(a) if by_identity else k]))
    return " ".join(toks)


def run_impl(op, args):
    import geometer as g
    f = g.join if op == "join" else g.meet
    return call_impl(f, *[a.impl() for a in args])


def check_cases(ctx, cases, sigprefix, tag=lambda c: ""):
    """cases: list of (scenario, op, args). Compare implementation and model."""
    lines = [request(op, args) for (_, op, args) in cases]
    answers = run_driver(lines)
    for (sc, op, args), line, ans in zip(cases, lines, answers):
        res = run_impl(op, args)
        nontriv = True
        ctx.case(line, nontriv)
        a = ans.split(" ")
        ctx.count(f"{sc}:{'ok' if a[0] == 'ok' else a[1]}")
        ctx.count("shape:" + "x".join(str(s) for s in max((x.data.shape[:x.nfree] for x in args), key=len)) or "single")
        msg = compare_obj(ans, res)
        if not msg:
            # the method form of the same call (`a.join(b, ...)` / `a.meet(b, ...)`, as the documentation uses it) must give the
            # same outcome as the function: value, exception class and dependence mask
            impl0 = args[0].impl()
            meth = getattr(impl0, op, None)
            if meth is not None:
                import inspect
                try:
                    inspect.signature(meth).bind(*args[1:])       # the two-argument methods do not exist for three arguments
                except TypeError:
                    meth = None
            if meth is not None:
                resm = call_impl(meth, *[x.impl() for x in args[1:]])
                msgm = compare_obj(ans, resm)
                if msgm:
                    ctx.count("method-form:differs")
                    msg, res = "method form: " + msgm, resm
        if msg:
            kindsig = "value"
            if res[0] == "err" or a[0] == "err":
                kindsig = "error:" + (res[1] if res[0] == "err" else "none") + "/" + (a[1] if a[0] == "err" else "none")
            same = len({id(x) for x in args}) < len(args)
            ctx.disagree(f"{sigprefix}:{op}:{'same-object:' if same else ''}{kindsig}{tag((sc, op, args))}", line, ans[:300], msg, replay=[request(op, args, by_identity=True)])


def parse_request(line):
    """inverse of `request` (for replays)"""
    from proto import dec_tens
    toks = line.split(" ")
    objs = {}
    args = []
    for t in toks[1:]:
        i, k, c, nf, tt = t.split("|")
        if i not in objs:
            objs[i] = Obj(k, dec_tens(tt), int(nf), c == "1")
        args.append(objs[i])
    return toks[0], args


def l3_shape_stream(ctx, n, prefix):
    """join / meet of coplanar lines of 3-space for the shape patterns the generic stream visits rarely: a single line FIRST against
    a collection, (m,) against (k, m), two collection axes with a second axis longer than 1 — value at every position against the
    single calls, and the exact dependence mask when one position holds equal lines"""
    import geometer as g
    rng = ctx.rng
    for k in range(n):
        o = np.array([float(rng.randint(-2, 2)) for _ in range(3)])
        def line_through_o():
            while True:
                d = np.array([float(rng.randint(-3, 3)) for _ in range(3)])
                if d.any():
                    return g.Line(g.Point(*o), g.Point(*(o + d)))
        pattern = rng.choice(["single-first", "m-vs-km", "km-vs-km", "single-first-dependent"])
        kk, m = rng.randint(2, 3), rng.randint(2, 4)
        op = rng.choice(["join", "meet"])
        f = g.join if op == "join" else g.meet
        if pattern.startswith("single-first"):
            a = [line_through_o()]
            b = [line_through_o() for _ in range(m)]
            if pattern.endswith("dependent"):
                b[rng.randrange(m)] = g.Line(np.asarray(a[0].array) * 2.0)
            A, B = a[0], g.LineCollection(np.stack([np.asarray(x.array) for x in b]))
            pairs, shape = [(a[0], x) for x in b], (m,)
        elif pattern == "m-vs-km":
            a = [line_through_o() for _ in range(m)]
            b = [line_through_o() for _ in range(kk * m)]
            A = g.LineCollection(np.stack([np.asarray(x.array) for x in a]))
            B = g.LineCollection(np.stack([np.asarray(x.array) for x in b]).reshape(kk, m, 4, 4))
            pairs, shape = [(a[j % m], b[j]) for j in range(kk * m)], (kk, m)
        else:
            a = [line_through_o() for _ in range(kk * m)]
            b = [line_through_o() for _ in range(kk * m)]
            A = g.LineCollection(np.stack([np.asarray(x.array) for x in a]).reshape(kk, m, 4, 4))
            B = g.LineCollection(np.stack([np.asarray(x.array) for x in b]).reshape(kk, m, 4, 4))
            pairs, shape = list(zip(a, b)), (kk, m)
        singles = [call_impl(f, x, y) for x, y in pairs]
        dep = np.array([s_[0] == "err" and s_[1] == "LinearDependence" for s_ in singles]).reshape(shape)
        desc = f"{op} of coplanar lines of space through {o.tolist()}, pattern {pattern}, shape {shape}: " \
               f"{[np.round(np.asarray(x.array), 3).tolist() for x in (a[:2] + b[:2])]}"
        ctx.case(desc)
        ctx.count(f"l3-shape:{pattern}:{op}")
        r = call_impl(f, A, B)
        if dep.any():
            ok = r[0] == "err" and r[1] == "LinearDependence" and np.array_equal(np.asarray(getattr(r[2], "dependent_values", None)), dep)
            if not ok:
                ctx.disagree(f"{prefix}:l3-shape:{pattern}:mask", desc, dep.tolist(), r[1:3] if r[0] != "ok" else "no error", replay=[desc])
            continue
        ok = r[0] == "ok" and tuple(np.asarray(r[1].array).shape[:len(shape)]) == shape
        if ok:
            arr = np.asarray(r[1].array).reshape((len(pairs),) + np.asarray(r[1].array).shape[len(shape):])
            ok = all(s_[0] == "ok" and proj_close_nn(arr[j], np.asarray(s_[1].array), 1e-8) for j, s_ in enumerate(singles))
        if not ok:
            ctx.disagree(f"{prefix}:l3-shape:{pattern}:value", desc, "the single-pair results at every position",
                         r[1:3] if r[0] != "ok" else np.asarray(r[1].array).shape, replay=[desc])
