#!/venv/bin/python
"""confirm a seeded change in a scratch worktree of /repo's HEAD and store it under /verif/seeded/<id>/.
usage: tools/confirm_seed.py <Cxx> <mN> [<check-prop> ...]"""
import json, os, shutil, subprocess, sys
prop, m = sys.argv[1], sys.argv[2]
checks = sys.argv[3:] or [prop]
src = os.environ.get("SEED_SRC") or (f"/tmp/wt/{prop}/_seed" if os.path.isdir(f"/tmp/wt/{prop}/_seed") else f"/tmp/seeds_backup/{prop}")
store_as = os.environ.get("SEED_AS") or m
wt = os.environ.get("CONFIRM_WT", "/tmp/wt/confirm")
def sh(cmd, **kw):
    return subprocess.run(cmd, shell=True, capture_output=True, text=True, **kw)
if not os.path.isdir(wt):
    sh(f"git -C /repo worktree add --detach {wt} HEAD")
sh(f"git -C {wt} checkout --detach -q $(git -C /repo rev-parse HEAD) && git -C {wt} checkout -- . && git -C {wt} clean -fdq")
meta = json.load(open(f"{src}/{m}.json"))
res = {}
r = sh(f"git -C {wt} apply {src}/{m}.diff"); res["applies_on_head"] = r.returncode == 0
if r.returncode != 0:
    print("does not apply:", r.stderr[:300]); sys.exit(1)
r = sh(f"cd {wt} && PYTHONPATH={wt} /venv/bin/python -m pytest -q -p no:cacheprovider --timeout=900 tests 2>&1 | tail -1"); res["suite_with_change"] = r.stdout.strip()
r = sh(f"cd {wt} && PYTHONPATH={wt} /venv/bin/python {src}/{m}_demo.py"); res["demo_with_change_exit"] = r.returncode
sh(f"git -C {wt} checkout -- .")
r = sh(f"cd {wt} && PYTHONPATH={wt} /venv/bin/python {src}/{m}_demo.py"); res["demo_without_change_exit"] = r.returncode
ok = "126 passed" in res["suite_with_change"] and res["demo_with_change_exit"] != 0 and res["demo_without_change_exit"] == 0
res["confirmed"] = ok
print(json.dumps(res))
if not ok:
    sys.exit(1)
sid = f"{prop}-{store_as}"
dst = f"/verif/seeded/{sid}"
os.makedirs(dst, exist_ok=True)
shutil.copy(f"{src}/{m}.diff", f"{dst}/patch.diff")
shutil.copy(f"{src}/{m}_demo.py", f"{dst}/demo.py")
# run the registered checks against it in /repo
caught = {}
if os.environ.get("NO_CHECKS"):
    checks = []   # the registered checks are run afterwards by tools/seedpar.py (parallel scratch copies, /repo untouched)
else:
    sh(f"git -C /repo apply {dst}/patch.diff")
try:
    for c in checks:
        r = sh(f"cd /verif && /venv/bin/python tools/check.py --property {c}")
        lines = [l for l in r.stdout.splitlines() if l.startswith(("VIOLATION", "KNOWN", "INFRA"))]
        caught[c] = {"exit": r.returncode, "lines": lines[:3]}
finally:
    if not os.environ.get("NO_CHECKS"):
        sh("git -C /repo checkout -- .")
json.dump({"id": sid, "property": prop, "summary": meta.get("summary"), "needs": meta.get("needs"), "files": meta.get("files"),
           "confirmed_by": "tools/confirm_seed.py: applied on a scratch worktree of /repo HEAD; full pytest suite passes with the change; demo exits non-zero with it and 0 without",
           "confirmation": res, "checks_run": caught}, open(f"{dst}/meta.json", "w"), indent=1)
print(sid, {c: v["exit"] for c, v in caught.items()})
