"""dtype metamorphic stream (shared): the same coordinates given as int64, float64 and complex128 arrays.

The operations of tools/colllib.py are run on valid single-object tuples whose coordinates are integers; every argument is then
rebuilt from its array cast to the other dtypes (`type(x)(x.array.astype(...))`, keeping `is_dual` / index types), and the
answers must agree (projectively for objects, numerically for numbers, as sets for lists).  A result that depends on the
dtype of a representative — an integer matrix that truncates a non-integer entry, a float array that drops an imaginary
part, an integer contraction that overflows where the float one does not — shows up as a disagreement.
"""
from __future__ import annotations

import numpy as np

import colllib
from geolib import call_impl


def _recast(x, dtype):
    import geometer as g
    from geometer.curve import QuadricTensor
    from geometer.shapes import PolytopeTensor
    arr = np.asarray(x.array)
    if dtype is np.int64:
        if not np.all(np.isreal(arr)) or not np.allclose(np.real(arr), np.round(np.real(arr))):
            return None
        new = np.round(np.real(arr)).astype(np.int64)
    elif dtype is np.float64:
        if not np.all(np.isreal(arr)):
            return None
        new = np.real(arr).astype(np.float64)
    else:
        new = arr.astype(dtype)
    y = x.copy()
    y.array = new
    if isinstance(x, PolytopeTensor):
        # polytopes cache supporting lines / planes: rebuild through the constructor
        try:
            return type(x)(new)
        except Exception:  # noqa: BLE001
            return None
    if isinstance(x, QuadricTensor):
        return type(x)(new, is_dual=x.is_dual) if type(x).__name__ in ("Quadric", "Conic", "QuadricCollection") else None
    return y


def run(ctx, n, prefix, only=None):
    rng = ctx.rng
    table = [t for t in colllib.ops(rng) if only is None or t[0] in only]
    for _ in range(n):
        name, f, gen, kw = table[rng.randrange(len(table))]
        try:
            tup = gen()
        except Exception:  # noqa: BLE001
            continue
        base = call_impl(f, *tup)
        if base[0] != "ok":
            continue
        for dtype, label in ((np.int64, "int"), (np.float64, "float"), (np.complex128, "complex")):
            args = [_recast(a, dtype) for a in tup]
            if any(a is None for a in args):
                continue
            if all(np.asarray(a.array).dtype == np.asarray(b.array).dtype for a, b in zip(args, tup)):
                continue
            desc = f"{name} with every argument given as {label}: {[np.round(np.asarray(a.array), 6).tolist() for a in tup]}"
            ctx.case(desc)
            ctx.count(f"dtype:{name}:{label}")
            r = call_impl(f, *args)
            tol = max(kw.get("tol", 1e-8), 1e-8)
            if r[0] != "ok":
                ctx.disagree(f"{prefix}:dtype:{name}:{label}:raises:{r[1]}", desc, "the answer for the original arrays", f"{r[1]}: {str(r[2])[:200]}", replay=[desc])
                continue
            exp, got = base[1], r[1]
            if isinstance(exp, tuple):
                exp, got = list(exp), list(got) if isinstance(got, (list, tuple)) else got
                ok = isinstance(got, list) and len(got) == len(exp) and all(colllib.same_value(x, y, tol, kw.get("absval", False), kw.get("modpi", False)) for x, y in zip(got, exp))
            else:
                ok = colllib.same_value(got, exp, tol, kw.get("absval", False), kw.get("modpi", False))
            if not ok:
                ctx.disagree(f"{prefix}:dtype:{name}:{label}", desc, str(exp)[:200], str(got)[:200], replay=[desc])


def props_of(name):
    """the properties whose statement an operation of colllib belongs to"""
    table = [(("quadric.tangent", "conic.tangent", "quadric.polar", "conic.is_tangent", "conic.intersect", "conic.dual", "quadric.dual"), ["C14"]),
             (("quadric.contains", "conic.contains"), ["C13", "C14"]),
             (("crossratio", "harmonic_set"), ["C11"]), (("angle", "dist-", "polygon.dist", "triangle.dist", "polygon3.dist", "polygon.angles"), ["C09"]),
             (("is_", "line.", "plane.", "line3.", "angle_bisectors"), ["C10"]), (("point.arith",), ["C19"]), (("t*",), ["C06", "C07"]),
             (("segment.contains", "segment3.contains", "triangle.contains", "polygon3.contains", "polygon3.area-then", "polygon3.expand"), ["C16"]),
             (("segment.props", "polygon.area", "polygon.eq"), ["C17"]), (("segment3.intersect",), ["C18"]),
             (("join-pp", "meet-ll"), ["C01", "C03"]), (("quadric.from_planes", "quadric3.degenerate"), ["C15"])]
    out = []
    for prefixes, props in table:
        if name.startswith(prefixes):
            out += props
    return out


def run_for(ctx, prop, n):
    names = {t[0] for t in colllib.ops(ctx.rng) if prop in props_of(t[0])}
    if names:
        run(ctx, n, prop, only=names)
