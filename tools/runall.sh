#!/bin/bash
# usage: tools/runall.sh "<seeds>" [tier]   — run every claimed check for each seed (8 at a time), print one line each
cd /verif
tier=${2:-quick}
props=$(python3 -c "import json;print(' '.join(c['property_id'] for c in json.load(open('MANIFEST.json'))['checks']))")
for s in $1; do for p in $props; do echo "$s $p"; done; done | xargs -P 8 -L 1 bash -c 'out=$(VERIF_SEED=$0 /venv/bin/python tools/check.py --property $1 --tier '$tier' 2>&1 | grep -E "VIOLATION|INFRA|tier=" | tr "\n" " "); echo "seed=$0 $out"' | grep -v conda | sort
