"""Query-then-move differential (shared by the property checks).

Two object families are built from the same data: a *warm* one, on which every query of the vocabulary is asked once, and
a *cold* one that is never queried.  Both are then moved in the same way (projective transformation, `+ Point`,
`expand_dims`, `copy`, in-place item assignment on points) and every query is asked of both.  The moved warm object and the
moved cold object hold identical coordinate data, so every answer must be identical; a difference means that some state
computed before the move (a memoised attribute carried along by the shallow `Tensor.copy()`, a cache keyed on an array
identity, a stale supporting line / plane) leaks into answers about the moved object — the mechanism of C12's "same answer
whether asked first or after any sequence of other queries", observed through each property's own operations.

Every query carries the ids of the properties whose statement it belongs to; `run(ctx, prefix, props)` executes the queries
tagged with one of `props` and reports disagreements as `<prefix>:stale:<kind>:<move>:<query>`.
"""
from __future__ import annotations

import numpy as np

from geolib import call_impl


def _same(a, b, depth=0):
    """structural equality of two answers computed from identical coordinate data"""
    def tagged(t):
        return isinstance(t, tuple) and len(t) == 2 and isinstance(t[0], str) and t[0] in ("ok", "err")
    if depth == 0 and tagged(a) and tagged(b):
        if a[0] != b[0]:
            return False
        return _same(a[1], b[1], depth + 1) if a[0] == "ok" else a[1] == b[1]
    if hasattr(a, "array") and hasattr(b, "array"):
        return type(a) is type(b) and _same(np.asarray(a.array), np.asarray(b.array), depth + 1) and \
            getattr(a, "is_dual", None) == getattr(b, "is_dual", None)
    if isinstance(a, (list, tuple)) and isinstance(b, (list, tuple)):
        return len(a) == len(b) and all(_same(x, y, depth + 1) for x, y in zip(a, b))
    try:
        x, y = np.asarray(a), np.asarray(b)
        if x.shape != y.shape:
            return False
        if x.dtype == object or y.dtype == object:
            return depth < 6 and all(_same(p, q, depth + 1) for p, q in zip(x.ravel().tolist(), y.ravel().tolist()))
        if x.dtype.kind in "US" or y.dtype.kind in "US":
            return bool(np.all(x == y))
        return bool(np.allclose(x, y, rtol=1e-9, atol=1e-9, equal_nan=True))
    except Exception:  # noqa: BLE001
        return repr(a) == repr(b)


def _q(fn):
    r = call_impl(fn)
    return ("ok", r[1]) if r[0] == "ok" else ("err", r[1])


# ---------------------------------------------------------------------------------------------------------------------------
# object families: name -> builder(g, rng) -> dict of objects ("x" is the object under test, the rest are partners)

def _fam_point2(g, rng):
    w = rng.choice([1.0, 2.0, -3.0, 0.5])
    return {"x": g.Point(np.array([1.0 * w, 2.0 * w, w])), "pt": g.Point(4.0, -1.0), "ln": g.Line(1.0, -2.0, 3.0)}


def _fam_point3(g, rng):
    w = rng.choice([2.0, -3.0, 0.5])
    return {"x": g.Point(np.array([1.0 * w, 2.0 * w, -1.0 * w, w])), "pt": g.Point(4.0, -1.0, 2.0), "pl": g.Plane(1.0, -2.0, 3.0, 1.0)}


def _fam_pointcoll3(g, rng):
    return {"x": g.PointCollection(np.array([[2.0, 4.0, -2.0, 2.0], [1.0, 0.0, 3.0, 1.0], [-3.0, 3.0, 6.0, -3.0]])), "pt": g.Point(4.0, -1.0, 2.0),
            "pl": g.Plane(1.0, -2.0, 3.0, 1.0)}


def _fam_line2(g, rng):
    return {"x": g.Line(g.Point(1.0, 2.0), g.Point(4.0, 6.0)), "pt": g.Point(4.0, -1.0), "on": g.Point(-2.0, -2.0), "ln": g.Line(2.0, 1.0, -3.0)}


def _fam_line3(g, rng):
    a, b = g.Point(1.0, 2.0, 3.0), g.Point(3.0, 3.0, 5.0)
    return {"x": g.Line(a, b), "pt": g.Point(4.0, -1.0, 2.0), "on": g.Point(5.0, 4.0, 7.0), "pl": g.Plane(a, b, g.Point(0.0, 1.0, -2.0)),
            "pl2": g.Plane(1.0, 1.0, -1.0, 2.0), "ln": g.Line(a, g.Point(0.0, 5.0, 1.0))}


def _fam_linecoll3(g, rng):
    A = g.PointCollection(np.array([[1.0, 2.0, 3.0, 1.0], [0.0, 1.0, 1.0, 1.0]]))
    B = g.PointCollection(np.array([[3.0, 3.0, 5.0, 1.0], [2.0, -1.0, 4.0, 1.0]]))
    return {"x": g.LineCollection(A, B), "pt": g.Point(4.0, -1.0, 2.0), "pl2": g.Plane(1.0, 1.0, -1.0, 2.0)}


def _fam_plane(g, rng):
    return {"x": g.Plane(g.Point(1.0, 0.0, 2.0), g.Point(0.0, 3.0, 1.0), g.Point(2.0, 2.0, 2.0)), "pt": g.Point(4.0, -1.0, 2.0),
            "on": g.Point(1.0, 0.0, 2.0), "ln": g.Line(g.Point(1.0, 0.0, 2.0), g.Point(0.0, 3.0, 1.0)), "pl2": g.Plane(1.0, 1.0, -1.0, 2.0)}


def _fam_circle(g, rng):
    return {"x": g.Circle(g.Point(1.0, 2.0), 5.0), "on": g.Point(4.0, 6.0), "pt": g.Point(9.0, 3.0), "ln": g.Line(g.Point(4.0, 6.0), g.Point(-2.0, -2.0)),
            "c2": g.Circle(g.Point(3.0, 2.0), 4.0)}


def _fam_ellipse(g, rng):
    return {"x": g.Ellipse(g.Point(1.0, -1.0), 5.0, 3.0), "on": g.Point(6.0, -1.0), "pt": g.Point(9.0, 3.0), "ln": g.Line(g.Point(6.0, -1.0), g.Point(1.0, 2.0))}


def _fam_conic5(g, rng):
    P = [g.Point(0.0, 1.0), g.Point(2.0, 0.0), g.Point(-1.0, -1.0), g.Point(3.0, 3.0), g.Point(-2.0, 2.0)]
    return {"x": g.Conic.from_points(*P), "on": P[0], "pt": g.Point(5.0, 1.0), "ln": g.Line(P[0], P[1])}


def _fam_linepair(g, rng):
    return {"x": g.Conic.from_lines(g.Line(1.0, 2.0, -3.0), g.Line(2.0, -1.0, 1.0)), "pt": g.Point(5.0, 1.0), "c2": g.Circle(g.Point(0.0, 0.0), 3.0)}


def _fam_sphere(g, rng):
    return {"x": g.Sphere(g.Point(1.0, 2.0, -2.0), 3.0), "on": g.Point(3.0, 4.0, -1.0), "pt": g.Point(9.0, 3.0, 1.0),
            "ln": g.Line(g.Point(3.0, 4.0, -1.0), g.Point(1.0, 2.0, 1.0)), "pl2": g.Plane(0.0, 0.0, 1.0, -1.0)}


def _fam_segment2(g, rng):
    return {"x": g.Segment(g.Point(0.0, 0.0), g.Point(4.0, 2.0)), "on": g.Point(2.0, 1.0), "pt": g.Point(1.0, 3.0),
            "sg": g.Segment(g.Point(0.0, 2.0), g.Point(4.0, 0.0)), "ln": g.Line(g.Point(0.0, 2.0), g.Point(4.0, 0.0))}


def _fam_segment3(g, rng):
    return {"x": g.Segment(g.Point(0.0, 0.0, 1.0), g.Point(4.0, 2.0, 3.0)), "on": g.Point(2.0, 1.0, 2.0), "pt": g.Point(1.0, 3.0, 0.0),
            "sg": g.Segment(g.Point(0.0, 2.0, 2.0), g.Point(4.0, 0.0, 2.0)), "pl2": g.Plane(0.0, 0.0, 1.0, -2.0)}


def _fam_polygon2(g, rng):
    vs = [(0, 0), (4, 0), (4, 3), (2, 1), (0, 3)]
    return {"x": g.Polygon(*[g.Point(float(a), float(b)) for a, b in vs]), "in": g.Point(1.0, 0.5), "out": g.Point(2.0, 2.5),
            "ln": g.Line(g.Point(-1.0, 0.5), g.Point(5.0, 0.5)), "sg": g.Segment(g.Point(1.0, 0.5), g.Point(6.0, 0.5))}


def _fam_polygon3(g, rng):
    vs = [(0, 0), (4, 0), (4, 3), (2, 1), (0, 3)]
    return {"x": g.Polygon(*[g.Point(float(a), float(b), 2.0) for a, b in vs]), "in": g.Point(1.0, 0.5, 2.0), "out": g.Point(2.0, 2.5, 2.0),
            "ln": g.Line(g.Point(1.0, 0.5, 0.0), g.Point(1.0, 0.5, 5.0)), "sg": g.Segment(g.Point(1.0, 0.5, 1.0), g.Point(1.0, 0.5, 4.0)),
            "pt": g.Point(1.0, 0.5, 5.0)}


def _fam_polycoll3(g, rng):
    sq = lambda z, s: [[0.0, 0.0, z, 1.0], [s, 0.0, z, 1.0], [s, s, z, 1.0], [0.0, s, z, 1.0]]
    return {"x": g.PolygonCollection(np.array([sq(1.0, 2.0), sq(2.0, 4.0), sq(0.0, 3.0)])), "in": g.Point(1.0, 1.0, 1.0),
            "ln": g.Line(g.Point(0.5, 0.5, -1.0), g.Point(0.5, 0.5, 5.0)), "pt": g.Point(1.0, 1.0, 7.0)}


def _fam_triangle2(g, rng):
    return {"x": g.Triangle(g.Point(0.0, 0.0), g.Point(4.0, 0.0), g.Point(1.0, 3.0)), "in": g.Point(1.5, 1.0), "out": g.Point(4.0, 3.0),
            "ln": g.Line(g.Point(-1.0, 1.0), g.Point(5.0, 1.0))}


def _fam_triangle3(g, rng):
    return {"x": g.Triangle(g.Point(0.0, 0.0, 1.0), g.Point(4.0, 0.0, 1.0), g.Point(1.0, 3.0, 1.0)), "in": g.Point(1.5, 1.0, 1.0), "out": g.Point(4.0, 3.0, 1.0),
            "ln": g.Line(g.Point(1.5, 1.0, 0.0), g.Point(1.5, 1.0, 3.0))}


def _fam_regular(g, rng):
    return {"x": g.RegularPolygon(g.Point(1.0, 2.0), 2.0, 5), "in": g.Point(1.0, 2.0), "out": g.Point(4.0, 2.0)}


def _fam_cuboid(g, rng):
    return {"x": g.Cuboid(g.Point(0.0, 0.0, 0.0), g.Point(2.0, 0.0, 0.0), g.Point(0.0, 3.0, 0.0), g.Point(0.0, 0.0, 1.0)),
            "ln": g.Line(g.Point(1.0, 1.0, -1.0), g.Point(1.0, 1.0, 4.0)), "pt": g.Point(1.0, 1.0, 5.0)}


FAMILIES = {"point2": _fam_point2, "point3": _fam_point3, "pointcoll3": _fam_pointcoll3, "line2": _fam_line2, "line3": _fam_line3,
            "linecoll3": _fam_linecoll3, "plane": _fam_plane, "circle": _fam_circle, "ellipse": _fam_ellipse, "conic5": _fam_conic5,
            "linepair": _fam_linepair, "sphere": _fam_sphere, "segment2": _fam_segment2, "segment3": _fam_segment3, "polygon2": _fam_polygon2,
            "polygon3": _fam_polygon3, "polycoll3": _fam_polycoll3, "triangle2": _fam_triangle2, "triangle3": _fam_triangle3,
            "regular": _fam_regular, "cuboid": _fam_cuboid}

# ---------------------------------------------------------------------------------------------------------------------------
# queries: (name, kinds, properties, fn(g, o) )   — o is the family dict

def _queries(g):
    Q = []
    def add(name, kinds, props, fn):
        Q.append((name, set(kinds), set(props), fn))
    pts = ["point2", "point3", "pointcoll3"]
    add("normalized_array", pts, ["C03", "C19"], lambda o: o["x"].normalized_array)
    add("isinf", pts, ["C19"], lambda o: o["x"].isinf)
    add("plus-point", pts, ["C19"], lambda o: o["x"] + o["pt"])
    add("minus-point", pts, ["C19"], lambda o: o["x"] - o["pt"])
    add("times-3", pts, ["C19"], lambda o: o["x"] * 3)
    add("div-2", pts, ["C19"], lambda o: o["x"] / 2)
    add("neg", pts, ["C19"], lambda o: -o["x"])
    add("np.add", pts, ["C19"], lambda o: np.add(o["x"], o["pt"]))
    add("dist-point", pts, ["C09"], lambda o: g.dist(o["x"], o["pt"]))
    add("join-point", ["point2", "point3", "pointcoll3"], ["C01"], lambda o: g.join(o["x"], o["pt"]))
    add("dist-line", ["point2"], ["C09"], lambda o: g.dist(o["x"], o["ln"]))
    add("dist-plane", ["point3", "pointcoll3"], ["C09"], lambda o: g.dist(o["x"], o["pl"]))
    add("plane-contains", ["point3", "pointcoll3"], ["C01", "C07"], lambda o: o["pl"].contains(o["x"]))
    # lines of the plane
    add("base_point", ["line2", "line3", "linecoll3"], ["C10", "C04"], lambda o: o["x"].base_point)
    add("direction", ["line2", "line3", "linecoll3"], ["C10", "C04"], lambda o: o["x"].direction)
    add("basis_matrix", ["line2", "line3", "linecoll3", "plane"], ["C10", "C04"], lambda o: o["x"].basis_matrix)
    add("contains-point", ["line2", "line3", "plane"], ["C01", "C07"], lambda o: (o["x"].contains(o["on"]), o["x"].contains(o["pt"])))
    add("perpendicular-off", ["line2", "line3", "plane", "linecoll3"], ["C10"], lambda o: o["x"].perpendicular(o["pt"]))
    add("perpendicular-on", ["line2", "line3", "plane"], ["C10"], lambda o: o["x"].perpendicular(o["on"]))
    add("parallel", ["line2", "line3", "plane"], ["C10"], lambda o: o["x"].parallel(o["pt"]))
    add("project", ["line2", "line3", "plane", "linecoll3"], ["C10"], lambda o: o["x"].project(o["pt"]))
    add("mirror", ["line2", "line3", "plane"], ["C10"], lambda o: o["x"].mirror(o["pt"]))
    add("meet-line", ["line2"], ["C01"], lambda o: o["x"].meet(o["ln"]))
    add("angle-line", ["line2"], ["C09"], lambda o: g.angle(o["x"], o["ln"]))
    add("is_perpendicular", ["line2"], ["C10"], lambda o: g.is_perpendicular(o["x"], o["ln"]))
    add("is_parallel", ["line2"], ["C10"], lambda o: o["x"].is_parallel(o["ln"]))
    add("dist-point-to", ["line2", "line3", "plane", "linecoll3"], ["C09"], lambda o: g.dist(o["pt"], o["x"]))
    add("covariant_tensor", ["line3", "linecoll3"], ["C01"], lambda o: o["x"].covariant_tensor)
    add("contravariant_tensor", ["line3", "linecoll3"], ["C01"], lambda o: o["x"].contravariant_tensor)
    add("plane-contains-line", ["line3"], ["C01", "C07", "C11"], lambda o: (o["pl"].contains(o["x"]), o["pl2"].contains(o["x"])))
    add("meet-plane", ["line3", "linecoll3"], ["C01"], lambda o: o["x"].meet(o["pl2"]))
    add("join-point", ["line3"], ["C01"], lambda o: o["x"].join(o["pt"]))
    add("meet-line3", ["line3"], ["C01", "C02"], lambda o: o["x"].meet(o["ln"]))
    add("is_coplanar", ["line3"], ["C02", "C10"], lambda o: o["x"].is_coplanar(o["ln"]))
    add("angle-line3", ["line3"], ["C09"], lambda o: g.angle(o["x"], o["ln"]))
    add("contains-line", ["plane"], ["C01", "C07"], lambda o: o["x"].contains(o["ln"]))
    add("meet-plane2", ["plane"], ["C01"], lambda o: o["x"].meet(o["pl2"]))
    add("angle-plane", ["plane"], ["C09"], lambda o: g.angle(o["x"], o["pl2"]))
    # quadrics
    conics = ["circle", "ellipse", "conic5"]
    add("contains", conics + ["sphere", "linepair"], ["C13", "C07"], lambda o: (o["x"].contains(o.get("on", o["pt"])), o["x"].contains(o["pt"])))
    add("tangent-at", conics + ["sphere"], ["C14"], lambda o: o["x"].tangent(o["on"]))
    add("tangent-from", conics, ["C14"], lambda o: o["x"].tangent(o["pt"]))
    add("polar", conics, ["C14"], lambda o: o["x"].polar(o["pt"]))
    add("dual", conics + ["sphere"], ["C14"], lambda o: o["x"].dual)
    add("dual-dual", conics + ["sphere"], ["C14"], lambda o: o["x"].dual.dual)
    add("is_tangent", conics, ["C14"], lambda o: o["x"].is_tangent(o["x"].tangent(o["on"])))
    add("intersect-line", conics + ["sphere", "linepair"], ["C14", "C15"], lambda o: o["x"].intersect(o.get("ln") or g.Line(1.0, 1.0, -1.0)))
    add("intersect-conic", ["circle", "linepair"], ["C15"], lambda o: o["x"].intersect(o["c2"]))
    add("is_degenerate", conics + ["linepair", "sphere"], ["C15"], lambda o: o["x"].is_degenerate)
    add("components", ["linepair"], ["C15"], lambda o: o["x"].components)
    add("foci", ["circle", "ellipse", "conic5"], ["C13"], lambda o: o["x"].foci)
    add("center", ["circle", "sphere"], ["C13"], lambda o: o["x"].center)
    add("radius", ["circle", "sphere"], ["C13"], lambda o: o["x"].radius)
    add("area", ["circle", "sphere"], ["C13"], lambda o: o["x"].area)
    add("volume", ["sphere"], ["C13"], lambda o: o["x"].volume)
    # polytopes
    segs = ["segment2", "segment3"]
    add("seg-contains", segs, ["C16"], lambda o: (o["x"].contains(o["on"]), o["x"].contains(o["pt"])))
    add("midpoint", segs, ["C17"], lambda o: o["x"].midpoint)
    add("length", segs, ["C17", "C09"], lambda o: o["x"].length)
    add("seg-intersect-seg", segs, ["C18"], lambda o: o["x"].intersect(o["sg"]))
    add("seg-intersect-line", ["segment2"], ["C18"], lambda o: o["x"].intersect(o["ln"]))
    add("seg-intersect-plane", ["segment3"], ["C18"], lambda o: o["x"].intersect(o["pl2"]))
    add("seg-dist", segs, ["C09"], lambda o: g.dist(o["pt"], o["x"]))
    add("seg-eq", segs, ["C17"], lambda o: o["x"] == o["sg"])
    polys = ["polygon2", "polygon3", "polycoll3", "triangle2", "triangle3", "regular"]
    add("poly-contains", polys, ["C16"], lambda o: (o["x"].contains(o["in"]), o["x"].contains(o.get("out", o.get("pt")))))
    add("poly-area", polys, ["C17"], lambda o: o["x"].area)
    add("poly-centroid", ["polygon2", "polygon3", "triangle2", "triangle3", "regular"], ["C17"], lambda o: o["x"].centroid)
    add("poly-angles", ["polygon2", "triangle2", "regular"], ["C09"], lambda o: o["x"].angles)
    add("poly-vertices", polys, ["C17", "C07"], lambda o: o["x"].vertices)
    add("poly-edges", ["polygon2", "polygon3", "triangle2", "triangle3", "regular"], ["C17"], lambda o: list(o["x"].edges))
    add("poly-intersect-line", ["polygon2", "polygon3", "polycoll3", "triangle2", "triangle3"], ["C18"], lambda o: o["x"].intersect(o["ln"]))
    add("poly-intersect-seg", ["polygon2", "polygon3"], ["C18"], lambda o: o["x"].intersect(o["sg"]))
    add("poly-dist", ["polygon2", "polygon3", "triangle3"], ["C09"], lambda o: g.dist(o.get("pt", o.get("out")), o["x"]))
    add("circumcenter", ["triangle2", "triangle3"], ["C17"], lambda o: o["x"].circumcenter)
    add("reg-center", ["regular"], ["C17"], lambda o: o["x"].center)
    add("reg-radius", ["regular"], ["C17"], lambda o: o["x"].radius)
    add("reg-inradius", ["regular"], ["C17"], lambda o: o["x"].inradius)
    add("cub-area", ["cuboid"], ["C17"], lambda o: o["x"].area)
    add("cub-faces", ["cuboid"], ["C17"], lambda o: o["x"].faces)
    add("cub-edges", ["cuboid"], ["C17"], lambda o: o["x"].edges)
    add("cub-vertices", ["cuboid"], ["C17", "C07"], lambda o: o["x"].vertices)
    add("cub-intersect", ["cuboid"], ["C18"], lambda o: o["x"].intersect(o["ln"]))
    add("cub-dist", ["cuboid"], ["C09"], lambda o: g.dist(o["pt"], o["x"]))
    return Q


# ---------------------------------------------------------------------------------------------------------------------------
# moves: name -> fn(g, obj, dim) -> moved object (applied to every member of a family separately)

def _moves(g, dim):
    M = {}
    if dim == 2:
        M["translation"] = lambda x: g.translation(3.0, -2.0) * x
        M["rotation"] = lambda x: g.rotation(np.arctan2(3.0, 4.0)) * x
        M["affine"] = lambda x: g.Transformation(np.array([[2.0, 1.0, 1.0], [-1.0, 3.0, 2.0], [0.0, 0.0, 1.0]])) * x
        M["plus-point"] = lambda x: x + g.Point(3.0, -2.0)
    else:
        M["translation"] = lambda x: g.translation(3.0, -2.0, 5.0) * x
        M["rotation"] = lambda x: g.rotation(np.arctan2(3.0, 4.0), axis=g.Point(1.0, 2.0, 2.0)) * x
        M["affine"] = lambda x: g.Transformation(np.array([[2.0, 1.0, 0.0, 1.0], [-1.0, 3.0, 1.0, 2.0], [0.0, 1.0, 2.0, -1.0], [0.0, 0.0, 0.0, 1.0]])) * x
        M["plus-point"] = lambda x: x + g.Point(3.0, -2.0, 5.0)
    M["copy"] = lambda x: x.copy()
    return M


def _dim_of(kind):
    return 2 if kind in ("point2", "line2", "circle", "ellipse", "conic5", "linepair", "segment2", "polygon2", "triangle2", "regular") else 3


def _setitem(x):
    """in-place edit of the first coordinates of a point / point collection (the documented mutator)"""
    y = x
    if y.array.ndim == 1:
        y[0] = y.array[0] + 3 * y.array[-1]
    else:
        y[0, 0] = y.array[0, 0] + 3 * y.array[0, -1]
    return y


def run(ctx, prefix, props, kinds=None, rounds=1):
    """execute the query-then-move differential for the queries tagged with one of `props`"""
    import geometer as g
    props = set(props)
    queries = [q for q in _queries(g) if q[2] & props]
    fam_kinds = sorted({k for q in queries for k in q[1]} & set(kinds or FAMILIES))
    for _ in range(rounds):
        for kind in fam_kinds:
            qs = [q for q in queries if kind in q[1]]
            moves = dict(_moves(g, _dim_of(kind)))
            if kind in ("point2", "point3", "pointcoll3"):
                moves["setitem"] = None
            if kind in ("pointcoll3", "linecoll3", "polycoll3"):
                moves["expand_dims"] = lambda x: x.expand_dims(0) if hasattr(x, "expand_dims") else x
            if kind in ("regular", "cuboid", "polycoll3", "linepair"):
                moves.pop("plus-point", None) if kind == "linepair" else None
            for mname, mv in moves.items():
                state = ctx.rng.getstate()
                warm = call_impl(lambda: FAMILIES[kind](g, ctx.rng))
                ctx.rng.setstate(state)
                cold = call_impl(lambda: FAMILIES[kind](g, ctx.rng))
                if warm[0] != "ok" or cold[0] != "ok":
                    ctx.disagree(f"{prefix}:stale:{kind}:constructor", f"{kind}", "objects", warm[1:3], replay=[kind])
                    continue
                warm, cold = warm[1], cold[1]
                for name, _, _, fn in qs:
                    _q(lambda: fn(warm))                       # warm-up: every query once (answers are checked elsewhere)
                if mname == "setitem":
                    mw = call_impl(lambda: {**warm, "x": _setitem(warm["x"])})
                    mc = call_impl(lambda: {**cold, "x": _setitem(cold["x"])})
                else:
                    mw = call_impl(lambda: {k: (mv(v) if (k == "x" or mname not in ("expand_dims",)) else v) for k, v in warm.items()})
                    mc = call_impl(lambda: {k: (mv(v) if (k == "x" or mname not in ("expand_dims",)) else v) for k, v in cold.items()})
                desc0 = f"{kind}: every query, then {mname}, then"
                if mw[0] != "ok" or mc[0] != "ok":
                    if (mw[0], mw[1] if mw[0] != "ok" else None) != (mc[0], mc[1] if mc[0] != "ok" else None):
                        ctx.disagree(f"{prefix}:stale:{kind}:{mname}:move", desc0 + " (the move itself)", mc[1:3], mw[1:3], replay=[desc0])
                    continue
                for name, _, _, fn in qs:
                    rw, rc = _q(lambda: fn(mw[1])), _q(lambda: fn(mc[1]))
                    ctx.case(f"{desc0} {name}")
                    ctx.count(f"stale:{kind}:{mname}")
                    if rc[0] == "err":
                        ctx.count(f"stale:raises:{kind}:{name}:{rc[1]}")
                    if not _same(rw, rc):
                        def short(r):
                            v = r[1]
                            if hasattr(v, "array"):
                                v = np.round(np.real_if_close(np.asarray(v.array, dtype=complex)), 6).tolist()
                            return f"{r[0]} {str(v)[:300]}"
                        ctx.disagree(f"{prefix}:stale:{kind}:{mname}:{name}", f"{desc0} {name}",
                                     "the answer of the never-queried twin: " + short(rc), short(rw), replay=[desc0 + " " + name])
