"""Line protocol between the Python harness and the Lean driver (lean/Main.lean).

Exact scalars are fractions.Fraction or GQ (Gaussian rational).  Exact tensors are ET.
"""
from __future__ import annotations

import itertools
import os
import subprocess
from fractions import Fraction

import numpy as np

VERIF = os.path.dirname(os.path.dirname(os.path.abspath(__file__)))
LEAN = os.path.join(VERIF, "lean")
DRIVER = os.path.join(LEAN, ".lake", "build", "bin", "geodriver")


def F(x):
    if isinstance(x, Fraction):
        return x
    if isinstance(x, (int, np.integer)):
        return Fraction(int(x))
    if isinstance(x, (float, np.floating)):
        return Fraction(float(x))
    raise TypeError(type(x))


class ET:
    """exact tensor: shape + flat list of (re, im) Fractions (row-major)"""

    def __init__(self, shape, entries):
        self.shape = tuple(int(s) for s in shape)
        self.entries = [e if isinstance(e, tuple) else (F(e), Fraction(0)) for e in entries]
        assert len(self.entries) == int(np.prod(self.shape, dtype=int)), (self.shape, len(self.entries))

    @staticmethod
    def of(arr):
        """from a nested list / ndarray of ints, Fractions, complex (with integer-valued or dyadic parts)"""
        a = np.asarray(arr, dtype=object) if not isinstance(arr, np.ndarray) else arr
        ents = []
        for x in a.ravel().tolist() if a.dtype != object else a.ravel():
            if isinstance(x, tuple):
                ents.append((F(x[0]), F(x[1])))
            elif isinstance(x, (complex, np.complexfloating)):
                ents.append((F(x.real), F(x.imag)))
            else:
                ents.append((F(x), Fraction(0)))
        return ET(a.shape, ents)

    @property
    def is_complex(self):
        return any(e[1] != 0 for e in self.entries)

    @property
    def is_integral(self):
        return all(e[0].denominator == 1 and e[1].denominator == 1 for e in self.entries)

    def numpy(self, force=None):
        """the array handed to the implementation (int64 if integral, else float64 / complex128)"""
        if self.is_complex or force == "complex":
            a = np.array([complex(float(r), float(i)) for r, i in self.entries], dtype=np.complex128)
        elif self.is_integral and force != "float":
            a = np.array([int(r) for r, _ in self.entries], dtype=np.int64)
        else:
            a = np.array([float(r) for r, _ in self.entries], dtype=np.float64)
        return a.reshape(self.shape)

    def cnumpy(self):
        return np.array([complex(float(r), float(i)) for r, i in self.entries], dtype=np.complex128).reshape(self.shape)

    def enc(self):
        def q(x):
            return str(x.numerator) if x.denominator == 1 else f"{x.numerator}/{x.denominator}"
        def e(p):
            return q(p[0]) if p[1] == 0 else q(p[0]) + "_" + q(p[1])
        sh = "x".join(map(str, self.shape)) if self.shape else "-"
        return f"T:{sh}:" + ",".join(e(p) for p in self.entries)

    def tolist(self):
        def q(x):
            return int(x) if x.denominator == 1 else str(x)
        return {"shape": list(self.shape), "entries": [q(r) if i == 0 else [q(r), q(i)] for r, i in self.entries]}

    def __repr__(self):
        return self.enc()


def dec_q(s):
    if "_" in s:
        r, i = s.split("_")
        return (Fraction(r), Fraction(i))
    return (Fraction(s), Fraction(0))


def dec_tens(tok):
    tag, sh, es = tok.split(":")
    assert tag == "T", tok
    shape = () if sh == "-" else tuple(int(x) for x in sh.split("x"))
    ents = [dec_q(x) for x in es.split(",")] if es else []
    return ET(shape, ents)


def dec_bools(tok):
    tag, sh, bits = tok.split(":")
    assert tag == "B", tok
    shape = () if sh == "-" else tuple(int(x) for x in sh.split("x"))
    return np.array([c == "1" for c in bits], dtype=bool).reshape(shape)


def natlist(l, sep="."):
    l = list(l)
    return sep.join(str(int(x)) for x in l) if l else "-"


def dec_natlist(s, sep="."):
    return [] if s in ("-", "") else [int(x) for x in s.split(sep)]


def _run_driver_chunk(lines, timeout):
    p = subprocess.run([DRIVER], input="\n".join(lines) + "\n", capture_output=True, text=True, timeout=timeout)
    if p.returncode != 0:
        raise RuntimeError(f"driver failed rc={p.returncode}: {p.stderr[:500]}")
    out = p.stdout.split("\n")
    if out and out[-1] == "":
        out.pop()
    if len(out) != len(lines):
        raise RuntimeError(f"driver answered {len(out)} lines for {len(lines)} requests")
    return out


def run_driver(lines, timeout=900):
    """send all request lines to the compiled driver, return the answer lines (the driver is stateless per line, so large
    batches are split over several driver processes)"""
    if not lines:
        return []
    if not os.path.exists(DRIVER):
        raise RuntimeError("driver not built: " + DRIVER)
    lines = list(lines)
    if len(lines) < 600:
        return _run_driver_chunk(lines, timeout)
    from concurrent.futures import ThreadPoolExecutor
    workers = min(8, max(1, len(lines) // 300))
    # interleave so that expensive requests (which tend to cluster) are spread over the workers
    chunks = [lines[i::workers] for i in range(workers)]
    with ThreadPoolExecutor(max_workers=workers) as ex:
        outs = list(ex.map(lambda c: _run_driver_chunk(c, timeout), chunks))
    res = [None] * len(lines)
    for i, o in enumerate(outs):
        res[i::workers] = o
    return res


# ---------------------------------------------------------------- comparison helpers

def arr_close(exact: ET, impl, rtol=1e-9):
    """entrywise equality of an exact tensor and an implementation array"""
    impl = np.asarray(impl)
    if tuple(impl.shape) != exact.shape:
        return False
    e = exact.cnumpy()
    scale = max(1.0, float(np.max(np.abs(e))) if e.size else 1.0)
    return bool(np.all(np.abs(e - impl) <= rtol * scale))


def proj_close(exact: ET, impl, rtol=1e-9):
    """equality up to a non-zero scalar (both non-zero)"""
    impl = np.asarray(impl)
    if tuple(impl.shape) != exact.shape:
        return False
    a = exact.cnumpy().ravel()
    b = impl.astype(np.complex128).ravel()
    na, nb = np.max(np.abs(a)) if a.size else 0, np.max(np.abs(b)) if b.size else 0
    if na == 0 or nb == 0 or not np.all(np.isfinite(b)):
        return bool(na == 0 and nb == 0)
    k = int(np.argmax(np.abs(a)))
    if abs(b[k]) <= rtol * nb:
        return False
    return bool(np.all(np.abs(a * b[k] - b * a[k]) <= rtol * na * nb))


def proj_close_nn(a, b, rtol=1e-9):
    """two numeric arrays equal up to a non-zero scalar"""
    a = np.asarray(a).astype(np.complex128).ravel()
    b = np.asarray(b).astype(np.complex128).ravel()
    if a.shape != b.shape:
        return False
    na, nb = np.max(np.abs(a)), np.max(np.abs(b))
    if na == 0 or nb == 0:
        return bool(na == 0 and nb == 0)
    k = int(np.argmax(np.abs(a)))
    if abs(b[k]) <= rtol * nb:
        return False
    return bool(np.all(np.abs(a * b[k] - b * a[k]) <= rtol * na * nb))
