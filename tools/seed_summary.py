#!/venv/bin/python
"""write /verif/seeded/SUMMARY.md from the meta.json files of the stored seeded changes"""
import glob, json, os
rows = []
for d in sorted(glob.glob("/verif/seeded/C*-m*")):
    m = json.load(open(os.path.join(d, "meta.json")))
    runs = m.get("checks_run", {})
    caught = ", ".join(f"{k}: {'caught' if v.get('exit') == 1 else 'NOT caught' if v.get('exit') == 0 else 'exit ' + str(v.get('exit'))}" for k, v in runs.items())
    if "after_strengthening" in m:
        a = m["after_strengthening"]
        caught = f"first attempt: {m.get('first_attempt')}; now {a['property']}: {'caught' if a['exit'] == 1 else 'NOT caught'} ({a['first_sig'][:60]})"
    rows.append((os.path.basename(d), (m.get("summary") or "").replace("\n", " ").replace("|", "/")[:260], (m.get("needs") or "").replace("\n", " ").replace("|", "/")[:200], caught))
with open("/verif/seeded/SUMMARY.md", "w") as f:
    f.write("# Seeded changes kept under /verif/seeded\n\n"
            "Each directory holds `patch.diff` (applies to /repo's HEAD at the time it was stored), `demo.py` (exits 0 without, non-zero with the change) "
            "and `meta.json`. `-m1/-m2` = first round (pinned tree + early fixes), `-m3/-m4` = second round (repaired HEAD, less obvious code paths), `-m5/-m6`, `-m7/-m8`, `-m9/-m10`, `-m11/-m12`, `-m13/-m14`, `-m15/-m16`, `-m17/-m18`, `-m19/-m20` = rounds three to ten. "
            "The last column is the result of the registered quick check(s) run with the patch applied to /repo (exit 1 + VIOLATION line = caught); "
            "seeds that were missed at first were used to strengthen the checks and re-run (DESIGN.md 12.5-12.16).\n\n"
            "| seed | change | needs | checks |\n|---|---|---|---|\n")
    for r in rows:
        f.write("| " + " | ".join(r) + " |\n")
print(len(rows), "seeds")
