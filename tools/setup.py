#!/venv/bin/python
"""setup_cmd: regenerate the source-derived Lean files and build everything (offline)."""
import os, subprocess, sys
HERE = os.path.dirname(os.path.abspath(__file__))
sys.path.insert(0, HERE)
import check
os.makedirs(os.path.join(check.LEAN, "Geo", "Gen"), exist_ok=True)
print(check.regenerate())
r = subprocess.run(["lake", "build", "geodriver"], cwd=check.LEAN)
if r.returncode != 0:
    sys.exit(r.returncode)
# property files: a failure here is reported by the individual checks, not by setup
subprocess.run(["lake", "build", "Geo"], cwd=check.LEAN)
props = sorted(f[:-5] for f in os.listdir(os.path.join(check.LEAN, "Geo", "Props")) if f.endswith(".lean"))
subprocess.run(["lake", "build"] + [f"Geo.Props.{p}" for p in props], cwd=check.LEAN)
sys.exit(0)
