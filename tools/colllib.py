"""position-wise comparison of collection calls with single-object calls of the real library (used by C04).

For an operation f and k valid argument tuples of single objects, the arguments are stacked into collections of shape
(k,), (1,) (first tuple only), (k, 1) and (1, k), f is called on the collections, and the result at every position is
compared with f on the single objects of that position.  The single-object results are tied to the model by the other
properties' checks; here the oracle is "the same library, one object at a time"."""
from __future__ import annotations

import os

import itertools
from fractions import Fraction

import numpy as np

from geolib import call_impl
from proto import proj_close_nn


def coll_class(x):
    import geometer as g
    from geometer.curve import QuadricCollection, QuadricTensor
    from geometer.point import LineTensor, PlaneTensor, PointTensor
    from geometer.shapes import PolygonTensor, SegmentTensor
    from geometer.transformation import TransformationTensor
    if isinstance(x, PointTensor):
        return g.PointCollection
    if isinstance(x, LineTensor):
        return g.LineCollection
    if isinstance(x, PlaneTensor):
        return g.PlaneCollection
    if isinstance(x, QuadricTensor):
        return QuadricCollection
    if isinstance(x, TransformationTensor):
        return g.TransformationCollection
    if isinstance(x, SegmentTensor):
        return g.SegmentCollection
    if isinstance(x, PolygonTensor):
        return g.PolygonCollection
    raise TypeError(type(x))


def stack_objs(objs, shape):
    """collection of the given shape (row-major) from single objects of one kind"""
    import geometer as g
    from geometer.curve import QuadricCollection
    arr = np.stack([np.asarray(o.array) for o in objs]).reshape(tuple(shape) + np.asarray(objs[0].array).shape)
    cls = coll_class(objs[0])
    if cls is QuadricCollection:
        return cls(arr, is_dual=objs[0].is_dual)
    if cls is g.LineCollection and objs[0].dim > 2:
        return cls(arr, covariant=len(objs[0]._covariant_indices) > 0)
    return cls(arr)


def kind_of(x):
    from geometer.base import Tensor
    if isinstance(x, Tensor):
        return "obj"
    if isinstance(x, (list, tuple)):
        return "list"
    return "num"


def at(x, idx):
    """position idx of a collection-valued result (parts that do not depend on a collection argument stay single)"""
    if isinstance(x, (list, tuple)):
        return [at(y, idx) for y in x]
    # a part that depends only on arguments with fewer collection axes has fewer axes itself: aligned from the right
    if kind_of(x) == "obj":
        return x[idx[len(idx) - x.free_indices:]] if x.free_indices > 0 else x
    a = np.asarray(x)
    return a[idx[len(idx) - a.ndim:]] if a.ndim > 0 else a


def family(x):
    from geometer.curve import QuadricTensor
    from geometer.point import LineTensor, PlaneTensor, PointTensor
    from geometer.shapes import PolygonTensor, PolytopeTensor, SegmentTensor
    from geometer.transformation import TransformationTensor
    if isinstance(x, (LineTensor, PlaneTensor)) and x.dim == 2:
        return "Hyperplane2"        # there is no conic collection class: QuadricCollection.tangent / polar give planes of dimension 2
    for name, cls in (("Point", PointTensor), ("Line", LineTensor), ("Plane", PlaneTensor), ("Quadric", QuadricTensor),
                      ("Transformation", TransformationTensor), ("Segment", SegmentTensor), ("Polygon", PolygonTensor),
                      ("Polytope", PolytopeTensor)):
        if isinstance(x, cls):
            return name
    return type(x).__name__


def same_value(a, b, tol, absval=False, modpi=False):
    ka, kb = kind_of(a), kind_of(b)
    if ka != kb:
        return False
    if ka == "list":
        # as sets: a double point may be reported once or twice
        return all(any(same_value(x, y, tol, absval, modpi) for y in b) for x in a) and all(any(same_value(x, y, tol, absval, modpi) for y in a) for x in b)
    if ka == "obj":
        if a.tensor_shape != b.tensor_shape or a.free_indices != b.free_indices or family(a) != family(b):
            return False
        if getattr(a, "is_dual", None) != getattr(b, "is_dual", None):
            return False
        from geometer.shapes import PolytopeTensor
        if isinstance(a, PolytopeTensor):
            xa, xb = np.asarray(a.array), np.asarray(b.array)
            return xa.shape == xb.shape and all(proj_close_nn(u, v, tol) for u, v in zip(xa.reshape(-1, xa.shape[-1]), xb.reshape(-1, xb.shape[-1])))
        return np.asarray(a.array).shape == np.asarray(b.array).shape and proj_close_nn(np.asarray(a.array), np.asarray(b.array), tol)
    x, y = np.asarray(a), np.asarray(b)
    if x.shape != y.shape:
        return False
    if x.dtype == bool or y.dtype == bool:
        return bool(np.array_equal(x, y))
    if absval:
        x, y = np.abs(x), np.abs(y)
    if modpi and np.all(np.isfinite(x)) and np.all(np.isfinite(y)):
        d = np.abs(np.real(x) - np.real(y))
        return bool(np.all(np.minimum(d, np.abs(d - np.pi)) <= 1e-6))
    if np.iscomplexobj(x) or np.iscomplexobj(y) or not (np.all(np.isfinite(x)) and np.all(np.isfinite(y))):
        # an infinite value of a quotient has no meaningful sign / imaginary part (-inf for real input, inf+nanj for the same input
        # given as complex numbers), and a division by an exact zero gives inf where a division by a rounded zero (another summation
        # order of the same contraction) gives something of the order 1e16: both mean "infinite" (the one point at infinity of the
        # projective line of values); infinite positions only have to coincide.  nan stays nan (compared by equal_nan below).
        with np.errstate(invalid="ignore"):
            ix = np.isinf(x) | (np.abs(np.nan_to_num(x, nan=0.0, posinf=np.inf, neginf=np.inf)) > 1e12)
            iy = np.isinf(y) | (np.abs(np.nan_to_num(y, nan=0.0, posinf=np.inf, neginf=np.inf)) > 1e12)
        if np.iscomplexobj(x) or np.iscomplexobj(y):
            ix, iy = ix | ~np.isfinite(x), iy | ~np.isfinite(y)
        if not np.array_equal(ix, iy):
            return False
        x, y = np.where(ix, 0, x), np.where(iy, 0, y)
    return bool(np.allclose(x, y, rtol=tol, atol=tol, equal_nan=True))


# ---------------------------------------------------------------------------------------------------------------------
# operations with generators of valid single-object argument tuples

def rat(rng, lo=-4, hi=4):
    return float(Fraction(rng.randint(lo * 2, hi * 2), 2))


def ops(rng):
    import geometer as g
    UNIT3 = [(2 / 3, 1 / 3, 2 / 3), (1.0, 0.0, 0.0), (0.0, 0.6, 0.8), (-2 / 7, 3 / 7, 6 / 7), (0.0, 0.0, -1.0)]
    UNIT2 = [(0.6, 0.8), (1.0, 0.0), (-0.8, 0.6), (0.0, -1.0), (5 / 13, 12 / 13)]

    def pt2(w=None):
        w = w if w is not None else rng.choice([1.0, 2.0, -1.0, 0.5])
        return g.Point(np.array([rat(rng) * w, rat(rng) * w, w]))

    def pt3():
        w = rng.choice([1.0, 2.0, -1.0, 0.5])
        return g.Point(np.array([rat(rng) * w, rat(rng) * w, rat(rng) * w, w]))

    def line2():
        while True:
            a, b = rng.randint(-3, 3), rng.randint(-3, 3)
            if a or b:
                return g.Line(np.array([a, b, rng.randint(-5, 5)], dtype=float))

    def plane3():
        while True:
            n = [rng.randint(-3, 3) for _ in range(3)]
            if any(n):
                return g.Plane(np.array(n + [rng.randint(-5, 5)], dtype=float))

    def line3():
        while True:
            p, q = pt3(), pt3()
            if not p == q:
                return g.Line(p, q)

    def sphere_and_point():
        c = [float(rng.randint(-3, 3)) for _ in range(3)]
        r = float(rng.randint(1, 4))
        u = rng.choice(UNIT3)
        return g.Sphere(g.Point(*c), r), g.Point(*[ci + r * ui for ci, ui in zip(c, u)])

    def circle_and_point():
        c = [float(rng.randint(-3, 3)) for _ in range(2)]
        r = float(rng.randint(1, 4))
        u = rng.choice(UNIT2)
        return g.Circle(g.Point(*c), r), g.Point(*[ci + r * ui for ci, ui in zip(c, u)])

    def collinear(dim, n=4):
        while True:
            a = np.array([float(rng.randint(-3, 3)) for _ in range(dim)] + [1.0])
            d = np.array([float(rng.randint(-2, 2)) for _ in range(dim)] + [0.0])
            if d.any():
                ts = rng.sample([-2, -1, 0, 1, 2, 3, 4], n)
                return tuple(g.Point((a + t * d) * rng.choice([1.0, 2.0, -1.0])) for t in ts)

    def tri():
        while True:
            v = [(rng.randint(-4, 4), rng.randint(-4, 4)) for _ in range(3)]
            if (v[1][0] - v[0][0]) * (v[2][1] - v[0][1]) - (v[1][1] - v[0][1]) * (v[2][0] - v[0][0]) != 0:
                return g.Polygon(*[g.Point(float(x), float(y)) for x, y in v])

    def seg(dim):
        while True:
            p, q = (pt2(), pt2()) if dim == 2 else (pt3(), pt3())
            if not p == q:
                return g.Segment(p, q)

    def trafo(dim):
        while True:
            m = np.array([[float(rng.randint(-2, 2)) for _ in range(dim + 1)] for _ in range(dim + 1)])
            if abs(np.linalg.det(m)) > 0.5:
                return g.Transformation(m)

    def on_seg(s):
        a, b = np.asarray(s.normalized_array)
        t = rng.choice([-0.5, 0.0, 0.25, 0.5, 1.0, 1.5])
        return g.Point((a + t * (b - a)) * rng.choice([1.0, 2.0, -1.0]))

    T = []

    def add(name, f, gen, **kw):
        T.append((name, f, gen, kw))
    add("quadric.tangent", lambda q, p: q.tangent(at=p), sphere_and_point, nomix=True)
    add("conic.tangent", lambda q, p: q.tangent(at=p), circle_and_point, nomix=True)
    add("quadric.polar", lambda q, p: q.polar(p), lambda: (sphere_and_point()[0], pt3()))
    add("quadric.contains", lambda q, p: q.contains(p), lambda: rng.choice([sphere_and_point(), (sphere_and_point()[0], pt3())]))
    add("conic.contains", lambda q, p: q.contains(p), lambda: rng.choice([circle_and_point(), (circle_and_point()[0], pt2())]))
    add("conic.is_tangent", lambda q, l: q.is_tangent(l), lambda: (lambda qp: (qp[0], rng.choice([qp[0].tangent(at=qp[1]), line2()])))(circle_and_point()))
    add("conic.intersect", lambda q, l: q.intersect(l), lambda: (circle_and_point()[0], line2()), tol=1e-6)
    add("crossratio2", lambda a, b, c, d: g.crossratio(a, b, c, d), lambda: collinear(2))
    add("crossratio3", lambda a, b, c, d: g.crossratio(a, b, c, d), lambda: collinear(3))
    def fdet3(p, q, r):
        p, q, r = [[Fraction(float(x)) for x in np.asarray(v.array)] for v in (p, q, r)]
        return p[0] * (q[1] * r[2] - q[2] * r[1]) - p[1] * (q[0] * r[2] - q[2] * r[0]) + p[2] * (q[0] * r[1] - q[1] * r[0])

    def cr_from():
        # the cross ratio seen from o is [o,a,c][o,b,d] / ([o,a,d][o,b,c]); tuples where numerator AND denominator vanish exactly
        # (e.g. o collinear with a, b, c) have no cross ratio: one object at a time the library returns a quotient of two rounding
        # errors, in a 64-collection (exact Sarrus determinant) nan — neither is a value to compare
        while True:
            a, b, c, d, o = pt2(), pt2(), pt2(), pt2(), pt2()
            if not (fdet3(o, a, c) * fdet3(o, b, d) == 0 and fdet3(o, a, d) * fdet3(o, b, c) == 0):
                return a, b, c, d, o

    def angle_pts(pt):
        # the angle at a between the lines ab and ac needs b != a and c != a
        while True:
            a, b, c = pt(), pt(), pt()
            if not a == b and not a == c:
                return a, b, c
    add("crossratio-from", lambda a, b, c, d, o: g.crossratio(a, b, c, d, o), cr_from)
    add("harmonic_set", lambda a, b, c: g.harmonic_set(a, b, c), lambda: collinear(2, 3))
    add("harmonic_set3", lambda a, b, c: g.harmonic_set(a, b, c), lambda: collinear(3, 3))
    # angles of unoriented lines are defined modulo pi (the sign of +-pi/2 is the sign of a floating-point zero); in space the
    # sign depends on the orientation of an SVD basis (KF-C03-1)
    add("angle2", lambda a, b, c: g.angle(a, b, c), lambda: angle_pts(pt2), modpi=True)
    add("angle3", lambda a, b, c: g.angle(a, b, c), lambda: angle_pts(pt3), absval=True, modpi=True)
    add("angle-lines", lambda l, m: g.angle(l, m), lambda: (line2(), line2()), modpi=True)
    add("angle-planes", lambda e, f: g.angle(e, f), lambda: (plane3(), plane3()), absval=True, modpi=True)
    add("dist-pp2", lambda p, q: g.dist(p, q), lambda: (pt2(), pt2()))
    add("dist-pp3", lambda p, q: g.dist(p, q), lambda: (pt3(), pt3()))
    add("dist-pl2", lambda p, l: g.dist(p, l), lambda: (pt2(), line2()))
    add("dist-pe3", lambda p, e: g.dist(p, e), lambda: (pt3(), plane3()))
    add("dist-pl3", lambda p, l: g.dist(p, l), lambda: (pt3(), line3()))
    add("is_perpendicular", lambda l, m: g.is_perpendicular(l, m), lambda: (lambda l: (l, rng.choice([line2(), l.perpendicular(pt2())])))(line2()))
    add("is_parallel", lambda l, m: l.is_parallel(m), lambda: (lambda l: (l, rng.choice([line2(), l.parallel(pt2())])))(line2()))
    add("is_collinear", lambda a, b, c: g.is_collinear(a, b, c), lambda: rng.choice([collinear(2, 3), (pt2(), pt2(), pt2())]))
    add("is_cocircular", lambda a, b, c, d: g.is_cocircular(a, b, c, d), lambda: (pt2(), pt2(), pt2(), pt2()))
    add("line.project", lambda l, p: l.project(p), lambda: (line2(), pt2()))
    add("line.perpendicular", lambda l, p: l.perpendicular(p), lambda: (line2(), pt2()))
    add("line.parallel", lambda l, p: l.parallel(p), lambda: (line2(), pt2()))
    add("line.mirror", lambda l, p: l.mirror(p), lambda: (line2(), pt2()))
    add("plane.project", lambda e, p: e.project(p), lambda: (plane3(), pt3()))
    add("plane.perpendicular", lambda e, p: e.perpendicular(p), lambda: (plane3(), pt3()))
    add("plane.mirror", lambda e, p: e.mirror(p), lambda: (plane3(), pt3()))
    add("plane.parallel", lambda e, p: e.parallel(p), lambda: (plane3(), pt3()))
    add("line3.project", lambda l, p: l.project(p), lambda: (line3(), pt3()))
    add("line.props2", lambda l: (l.base_point, l.direction), lambda: (line2(),))
    add("line.props3", lambda l: (l.contains(l.base_point), l.direction), lambda: (line3(),))
    add("point.arith", lambda p, q: (p + q, p - q, p * 2, p / 2, p.isinf), lambda: (pt2(), pt2()))
    add("t*point", lambda t, p: t * p, lambda: (trafo(2), pt2()))
    add("t*line", lambda t, l: t * l, lambda: (trafo(2), line2()))
    add("t*plane", lambda t, e: t * e, lambda: (trafo(3), plane3()))
    add("t*line3", lambda t, l: t * l, lambda: (trafo(3), line3()))
    add("t*conic", lambda t, q: t * q, lambda: (trafo(2), circle_and_point()[0]))
    add("t*t", lambda t, s: (t * s, t.inverse()), lambda: (trafo(2), trafo(2)))
    add("segment.contains", lambda s, p: s.contains(p), lambda: (lambda s: (s, rng.choice([on_seg(s), pt2()])))(seg(2)))
    add("segment3.contains", lambda s, p: s.contains(p), lambda: (lambda s: (s, rng.choice([on_seg(s), pt3()])))(seg(3)))
    add("segment.props2", lambda s: (s.midpoint, s.length), lambda: (seg(2),))
    add("segment.props3", lambda s: (s.midpoint, s.length), lambda: (seg(3),))
    add("triangle.contains", lambda t, p: t.contains(p), lambda: (tri(), pt2(1.0)))

    def tri_edge():
        # a 2-D triangle (either orientation) and a point on one of its edges, at a vertex or just outside
        while True:
            v = [(rng.randint(-4, 4), rng.randint(-4, 4)) for _ in range(3)]
            if (v[1][0] - v[0][0]) * (v[2][1] - v[0][1]) - (v[1][1] - v[0][1]) * (v[2][0] - v[0][0]) != 0:
                break
        i = rng.randrange(3)
        a, b = np.array(v[i], dtype=float), np.array(v[(i + 1) % 3], dtype=float)
        t = rng.choice([0.0, 0.5, 0.25, 1.0, 1.5, -0.5])
        p = a + t * (b - a)
        return g.Triangle(*[g.Point(float(x), float(y)) for x, y in v]), g.Point(float(p[0]), float(p[1]))
    add("triangle.contains-edge", lambda t, p: t.contains(p), tri_edge, nomix=True)
    add("polygon.area", lambda t: t.area, lambda: (tri(),))
    def poly3():
        # a planar quadrilateral in the plane z = a x + b y + c (not through the origin)
        a, b, c = rng.randint(-2, 2), rng.randint(-2, 2), rng.randint(1, 4)
        x0, y0 = rng.randint(-3, 3), rng.randint(-3, 3)
        w, h = rng.randint(1, 4), rng.randint(1, 4)
        vs = [(x0, y0), (x0 + w, y0), (x0 + w, y0 + h), (x0, y0 + h)]
        lift = lambda x, y: g.Point(float(x), float(y), float(a * x + b * y + c))
        pt = rng.choice([(x0 + w / 2, y0 + h / 2), (x0, y0), (x0 + w + 1, y0), (x0 + w / 2, y0)])
        return g.Polygon(*[lift(x, y) for x, y in vs]), lift(*pt)

    def plane_pair_or_cone():
        if rng.random() < 0.5:
            return g.Cone(g.Point(float(rng.randint(-2, 2)), float(rng.randint(-2, 2)), 0.0), g.Point(float(rng.randint(-2, 2)), float(rng.randint(-2, 2)), 2.0), 1.0)
        while True:
            e, f = plane3(), plane3()
            if np.linalg.matrix_rank(np.stack([e.array, f.array])) == 2:
                return g.Quadric.from_planes(e, f)

    # reading .area first must not change what contains answers (and both agree with the single polygons)
    add("polygon3.area-then-contains", lambda t, p: (t.area, t.contains(p)), poly3, nomix=True)
    add("polygon3.contains", lambda t, p: t.contains(p), poly3)
    add("quadric3.degenerate-intersect", lambda q, l: q.intersect(l), lambda: (plane_pair_or_cone(), line3()), tol=1e-6, nomix=True)
    add("conic.dual", lambda q: (q.dual, q.dual.dual), lambda: (circle_and_point()[0],))
    add("quadric.dual", lambda q: (q.dual, q.dual.dual), lambda: (sphere_and_point()[0],))
    # polygons of the plane / of space against points: distance, angles, equality up to rolling (per element)
    def quad2():
        x0, y0, w, h = rng.randint(-3, 3), rng.randint(-3, 3), rng.randint(1, 4), rng.randint(1, 4)
        sh = rng.randint(0, 2)
        vs = [(x0, y0), (x0 + w, y0), (x0 + w + sh, y0 + h), (x0 + sh, y0 + h)]
        return g.Polygon(*[g.Point(float(x), float(y)) for x, y in vs])
    def roll(p, r):
        return g.Polygon(np.roll(np.asarray(p.array), r, axis=0))
    add("polygon.dist-point", lambda t, p: g.dist(t, p), lambda: (quad2(), pt2(1.0)))
    add("triangle.dist-point", lambda t, p: g.dist(t, p), lambda: (tri(), pt2(1.0)))
    add("polygon3.dist-point", lambda t, p: g.dist(t, p), lambda: (poly3()[0], pt3()))
    add("polygon.angles", lambda t: list(t.angles), lambda: (quad2(),), modpi=True)
    add("polygon.eq-rolled", lambda t, u: bool(np.all(t == u)), lambda: (lambda q: (q, rng.choice([roll(q, rng.randint(0, 3)), quad2()])))(quad2()), nomix=True, whole=True)
    def seg3_pair():
        # two segments of space: crossing in a point, coplanar but apart, or skew
        a = np.array([float(rng.randint(-3, 3)) for _ in range(3)])
        u = np.array([float(rng.randint(1, 3)), float(rng.randint(-2, 2)), 0.0])
        v = np.array([float(rng.randint(-2, 2)), float(rng.randint(1, 3)), float(rng.randint(-1, 1))])
        kind = rng.choice(["cross", "apart", "skew"])
        P = lambda x: g.Point(*[float(c) for c in x])
        s1 = g.Segment(P(a - u), P(a + u))
        if kind == "cross":
            s2 = g.Segment(P(a - v), P(a + 2 * v))
        elif kind == "apart":
            s2 = g.Segment(P(a + 3 * u + v), P(a + 3 * u + 2 * v))
        else:
            w = np.cross(u, v)
            s2 = g.Segment(P(a + w - v), P(a + w + v))
        return s1, s2
    add("segment3.intersect-segment", lambda s, t: s.intersect(t), seg3_pair, nomix=True, flat=True, tol=1e-7)
    def plane_pair():
        while True:
            e, f = plane3(), plane3()
            if np.linalg.matrix_rank(np.stack([e.array, f.array])) == 2:
                return e, f
    def from_planes(e, f):
        from geometer.curve import Quadric, QuadricCollection
        return (QuadricCollection if (e.free_indices or f.free_indices) else Quadric).from_planes(e, f)
    add("quadric.from_planes", from_planes, plane_pair, nomix=True)
    add("polygon3.expand_dims-contains", lambda t, p: (t.expand_dims(0).contains(p) if t.free_indices else t.contains(p)), poly3, nomix=True, squeeze0=True)
    def pencil3():
        while True:
            o, p, q = pt3(), pt3(), pt3()
            if np.linalg.matrix_rank(np.stack([np.asarray(x.normalized_array, dtype=float) for x in (o, p, q)])) == 3:
                return g.Line(o, p), g.Line(o, q)
    # the two bisectors are returned in an order that depends on the square root's branch: compare as a set
    add("angle_bisectors3", lambda l, m: list(g.angle_bisectors(l, m)), pencil3, tol=1e-6, nomix=True, as_set=True)
    add("join-pp", lambda p, q: g.join(p, q), lambda: (lambda p: (p, g.Point(np.asarray(p.normalized_array) + np.array([1.0, rat(rng), 0.0]))))(pt2(1.0)))
    add("meet-ll", lambda l, m: g.meet(l, m), lambda: (lambda l: (l, g.Line(np.asarray(l.array) + np.array([1.0, -1.0, rat(rng)]))))(line2()))
    return T


SHAPES = ["k", "1", "k1", "1k", "mixed", "mk", "mk1"]
PERPENDICULAR_FAMILY = ("dist-pl2", "dist-pl3", "dist-pe3", "line.perpendicular", "line.project", "line.mirror", "line3.project",
                        "plane.project", "plane.perpendicular", "plane.mirror", "polygon3.contains", "polygon3.area-then-contains",
                        "polygon.dist-point", "triangle.dist-point", "polygon3.dist-point")


def run(ctx, n, prefix="C04", only=None, patterns=None):
    """n cases per call; every case = one operation, one shape pattern.  Patterns: all arguments of shape (k,), (1,), (k,1),
    (1,k); "mixed" = one argument is a single object; "mk" = one argument has shape (m,k), the others (k,) (collections
    with different numbers of collection axes, aligned from the right)"""
    rng = ctx.rng
    table = [t for t in ops(rng) if only is None or t[0] in only]
    for _ in range(n):
        name, f, gen, kw = table[rng.randrange(len(table))]
        pattern = rng.choice(patterns or SHAPES)
        if patterns is None and rng.random() < float(os.environ.get("VERIF_K_PROB", "0.04")):
            pattern = "K"            # 64 and more positions: the size-dependent branches of the numeric kernels (det / adjugate / inv)
        k = 1 if pattern == "1" else rng.choice([64, 70]) if pattern == "K" else rng.randint(2, 3)
        m = rng.randint(2, 3)
        try:
            tuples = [gen() for _ in range(k * (m if pattern in ("mk", "mk1") else 1))]
        except Exception:  # noqa: BLE001
            continue
        nargs = len(tuples[0])
        if pattern in ("mixed", "mk", "mk1") and (nargs < 2 or kw.get("nomix")):
            pattern = "k"
            tuples = tuples[:k]
        shape = {"k": (k,), "K": (k,), "1": (1,), "k1": (k, 1), "1k": (1, k), "mixed": (k,), "mk": (m, k), "mk1": (m, k)}[pattern]
        single_pos = rng.randrange(nargs) if pattern in ("mixed", "mk", "mk1") else None
        try:
            colls = []
            if pattern == "mk1":
                # argument single_pos: a collection of shape (m, k); every other argument: one single object
                grid = [tuple(tuples[i][a] if a == single_pos else tuples[0][a] for a in range(nargs)) for i in range(m * k)]
                for a in range(nargs):
                    colls.append(stack_objs([t[a] for t in tuples], (m, k)) if a == single_pos else tuples[0][a])
                tuples = grid
                single_pos = f"(m,k) argument {single_pos}, others single"
            elif pattern == "mk":
                # argument single_pos: all m*k objects; every other argument: the k objects of the first row
                grid = []
                for i in range(m):
                    for j in range(k):
                        grid.append(tuple(tuples[i * k + j][a] if a == single_pos else tuples[j][a] for a in range(nargs)))
                for a in range(nargs):
                    if a == single_pos:
                        colls.append(stack_objs([t[a] for t in tuples], (m, k)))
                    else:
                        colls.append(stack_objs([tuples[j][a] for j in range(k)], (k,)))
                tuples = grid
                single_pos = f"(m,k) argument {single_pos}"
            else:
                for j in range(nargs):
                    if j == single_pos:
                        colls.append(tuples[0][j])
                        for t in tuples[1:]:
                            t_l = list(t)
                            t_l[j] = tuples[0][j]
                            tuples[tuples.index(t)] = tuple(t_l)
                    else:
                        colls.append(stack_objs([t[j] for t in tuples], shape))
        except Exception as e:  # noqa: BLE001
            ctx.notes.append(f"colllib: could not stack for {name}: {type(e).__name__}: {e}") if len(ctx.notes) < 20 else None
            continue
        desc = (f"{name} shape={shape} pattern={pattern} single_arg={single_pos} args="
                f"{[[np.round(np.asarray(o.array), 6).tolist() for o in t] for t in tuples]}")
        ctx.case(desc, nontrivial=True)
        ctx.count(f"coll:{name}:{pattern}")
        singles = [call_impl(f, *t) for t in tuples]
        res = call_impl(f, *colls)
        if any(s[0] != "ok" for s in singles):
            # some position is degenerate for the single objects: the collection call must not silently succeed with
            # a different error class; anything else is outside this stream (C02 covers the masks)
            continue
        if res[0] != "ok":
            if pattern in ("mk", "mk1") and name in PERPENDICULAR_FAMILY:
                # recorded finding: the mask-based construction of perpendiculars does not broadcast collections with
                # different numbers of collection axes
                ctx.disagree(f"{prefix}:coll:perpendicular-family:mk:raises", desc, "values of the single calls", f"{res[1]}: {str(res[2])[:200]}", replay=[desc])
                continue
            ctx.disagree(f"{prefix}:coll:{name}:{pattern}:raises:{res[1]}", desc, "values of the single calls", f"{res[1]}: {str(res[2])[:200]}", replay=[desc])
            continue
        idxs = list(itertools.product(*[range(s) for s in shape]))
        tol = kw.get("tol", 1e-8)
        bad = None
        if kw.get("flat"):
            # the collection call returns one flat list: the union of the single-object lists
            exp = [x for s_ in singles for x in (s_[1] if isinstance(s_[1], (list, tuple)) else [s_[1]])]
            got = list(res[1]) if isinstance(res[1], (list, tuple)) else [res[1]]
            if not same_value(got, exp, tol):
                ctx.disagree(f"{prefix}:coll:{name}:{pattern}", desc, f"the {len(exp)} point(s) of the single calls: {str(exp)[:200]}", f"{len(got)} point(s): {str(got)[:200]}", replay=[desc])
            continue
        if kw.get("whole"):
            # the collection call answers for the whole collection: the conjunction of the single answers
            exp = all(bool(s_[1]) for s_ in singles)
            if bool(res[1]) != exp:
                ctx.disagree(f"{prefix}:coll:{name}:{pattern}", desc, f"{exp} (single answers {[bool(s_[1]) for s_ in singles]})", bool(res[1]), replay=[desc])
            continue
        if kw.get("squeeze0"):
            res = (res[0], np.asarray(res[1])[0] if np.asarray(res[1]).ndim == len(shape) + 1 else res[1])
        for idx, s in zip(idxs, singles):
            try:
                got = at(res[1], idx)
            except Exception as e:  # noqa: BLE001
                bad = (idx, f"result cannot be indexed at {idx}: {type(e).__name__}: {e}; result={str(res[1])[:200]}")
                break
            exp = s[1]
            if isinstance(exp, tuple):
                exp = list(exp)
                got = list(got) if isinstance(got, (list, tuple)) else got
                ok = isinstance(got, list) and len(got) == len(exp) and all(same_value(x, y, tol, kw.get("absval", False)) for x, y in zip(got, exp))
            else:
                ok = same_value(got, exp, tol, kw.get("absval", False), kw.get("modpi", False))
            if not ok:
                bad = (idx, f"position {idx}: collection gives {str(got)[:200]}, single objects give {str(exp)[:200]}")
                break
        if bad:
            ctx.disagree(f"{prefix}:coll:{name}:{pattern}", desc, "the single-object result at every position", bad[1], replay=[desc])


def big(ctx, n, prefix="C04"):
    """collections beyond the internal batch threshold (64 matrices), with one or two collection axes, integer / float dtype and
    unit / small overall scale: T * line and T.inverse() at every position against the single transformations"""
    import geometer as g
    rng = ctx.rng
    for k in range(n):
        shape = rng.choice([(64,), (70,), (8, 8), (4, 16)])
        size = int(np.prod(shape))
        dtype = rng.choice([int, float])
        scale = 1 if dtype is int else rng.choice([1.0, 1e-3])
        mats = []
        while len(mats) < size:
            m = np.array([[rng.randint(-3, 3) for _ in range(3)] for _ in range(3)])
            if abs(round(np.linalg.det(m))) >= 1:
                mats.append(m)
        arr = np.array(mats, dtype=dtype).reshape(shape + (3, 3)) * scale
        T = g.TransformationCollection(arr)
        l = g.Line(float(rng.randint(1, 4)), float(rng.randint(-4, 4)), float(rng.randint(-4, 4)))
        desc = f"big collection shape={shape} dtype={dtype.__name__} scale={scale}: T * {l} and T.inverse(); first matrix {mats[0].tolist()}"
        ctx.case(desc, nontrivial=True)
        ctx.count(f"coll:big:{len(shape)}axes:{dtype.__name__}:{scale}")
        r = call_impl(lambda: (T * l, T.inverse()))
        if r[0] != "ok":
            ctx.disagree(f"{prefix}:coll:big:raises:{r[1]}", desc, "the results of the single transformations", f"{r[1]}: {str(r[2])[:200]}", replay=[desc])
            continue
        a = np.asarray(r[1][0].array, dtype=float).reshape(size, 3)
        inv = np.asarray(r[1][1].array, dtype=float).reshape(size, 3, 3)
        flat = arr.reshape(size, 3, 3)
        for i in rng.sample(range(size), 12):
            t = g.Transformation(flat[i])
            if not proj_close_nn(a[i], np.asarray((t * l).array, dtype=float), 1e-8) or not proj_close_nn(inv[i], np.asarray(t.inverse().array, dtype=float), 1e-8):
                ctx.disagree(f"{prefix}:coll:big:value", desc, f"position {i}: what Transformation({flat[i].tolist()}) gives", "differs", replay=[desc])
                break
