"""C15 — degenerate quadrics split into their components; conics meet in their (at most four) common points."""
from __future__ import annotations

import itertools
from fractions import Fraction

import math

import numpy as np

from geolib import call_impl
from proto import proj_close_nn
from props.c13 import five_points, on, resid
from trlib import fdet

ID = "C15"
LEAN_FILES = ["Geo/Props/C15.lean"]
RULE = ("Conic.from_lines over all pairs of distinct lines with coordinates in [-2,2]^3 (thorough: all; quick: sample) and any homogeneous "
        "scale / sign pattern: is_degenerate and components = the pair; Quadric.from_planes over random plane pairs (all sign patterns); "
        "non-degenerate conics / quadrics are not degenerate; cones raise NotReducible; mixed collections; conic x conic: pairs through "
        "four common lattice points (expected exactly these four), tangent conics, concentric circles, pencils with a repeated root, a "
        "degenerate member as either operand; every returned point must lie on both conics (scale-free residual) and every expected common "
        "point must be returned; non-trivial = distinct components / distinct conics")
ASSUMPTIONS = ["complex common points compared with 1e-6 (double roots are conditioned like sqrt(eps))"]


def match_set(got, expected, tol=1e-6):
    used = [False] * len(got)
    for e in expected:
        hit = [i for i, p in enumerate(got) if not used[i] and proj_close_nn(e, p, tol)]
        if not hit:
            return False
        used[hit[0]] = True
    return all(used)


def lines_stream(ctx, n):
    import geometer as g
    rng = ctx.rng
    vecs = [v for v in itertools.product(range(-2, 3), repeat=3) if any(v)]
    pairs = [(a, b) for a in vecs for b in vecs if np.any(np.cross(a, b))]
    if ctx.tier != "thorough":
        rng.shuffle(pairs)
        pairs = pairs[:n]
    else:
        ctx.exhaustive = True
    for a, b in pairs:
        desc = f"from_lines {list(a)} {list(b)}"
        ctx.case(desc)
        ctx.count("from_lines")
        c = call_impl(lambda: g.Conic.from_lines(g.Line(np.array(a, dtype=float)), g.Line(np.array(b, dtype=float))))
        if c[0] != "ok":
            ctx.disagree("C15:from_lines:error", desc, "a degenerate conic", c[1:3], replay=[desc])
            continue
        deg = call_impl(lambda: bool(c[1].is_degenerate))
        comp = call_impl(lambda: c[1].components)
        ok = deg[0] == "ok" and deg[1] is True and comp[0] == "ok" and len(comp[1]) == 2
        if ok:
            got = [np.asarray(x.array) for x in comp[1]]
            ok = match_set(got, [np.array(a, dtype=float), np.array(b, dtype=float)], 1e-7)
        if not ok:
            zero = "zero-coordinate" if (0 in a or 0 in b) else "generic"
            ctx.disagree(f"C15:from_lines:components:{zero}", desc, [list(a), list(b)], comp[1:3] if comp[0] != "ok" else [np.round(np.asarray(x.array), 6).tolist() for x in comp[1]], replay=[desc])


def complex_lines_stream(ctx, n):
    """Conic.from_lines for two lines with complex coefficients (not conjugate to each other): degenerate, components = the pair"""
    import geometer as g
    rng = ctx.rng
    for k in range(n):
        a = np.array([complex(rng.randint(-2, 2), rng.randint(-2, 2)) for _ in range(3)])
        b = np.array([complex(rng.randint(-2, 2), rng.randint(-2, 2)) for _ in range(3)])
        if np.linalg.matrix_rank(np.stack([a, b])) < 2 or not (np.any(a.imag) or np.any(b.imag)):
            continue
        desc = f"from_lines complex {a.tolist()} {b.tolist()}"
        ctx.case(desc)
        ctx.count("from_lines:complex")
        c = call_impl(lambda: g.Conic.from_lines(g.Line(a), g.Line(b)))
        if c[0] != "ok":
            ctx.disagree("C15:from_lines:complex:error", desc, "a degenerate conic", c[1:3], replay=[desc])
            continue
        A = np.asarray(c[1].array)
        # every point of either line lies on the conic: x^T A x = 2 (a.x)(b.x)
        xs = [np.cross(a, v) for v in (np.array([1, 2, 3.0]), np.array([0, 1, -1.0]))] + [np.cross(b, v) for v in (np.array([1, 2, 3.0]), np.array([2, 0, 1.0]))]
        res = max(abs(x @ A @ x) / (np.linalg.norm(x) ** 2 * np.linalg.norm(A)) for x in xs if np.linalg.norm(x) > 0)
        comp = call_impl(lambda: c[1].components)
        ok = res <= 1e-9 and comp[0] == "ok" and len(comp[1]) == 2 and match_set([np.asarray(x.array) for x in comp[1]], [a, b], 1e-7)
        if not ok:
            ctx.disagree("C15:from_lines:complex", desc, [a.tolist(), b.tolist()],
                         {"residual of points of the lines": float(res), "components": comp[1:3] if comp[0] != "ok" else [np.round(np.asarray(x.array), 6).tolist() for x in comp[1]]}, replay=[desc])


def complex_planes_stream(ctx, n):
    """rank-2 quadrics of space whose two planes are complex (conjugate pairs x ± i c y = 0, also given by the real matrix):
    degenerate, components = exactly the two planes"""
    import geometer as g
    from geometer.curve import Quadric
    rng = ctx.rng
    for k in range(n):
        c = float(rng.choice([1, 2, 3]))
        i, j = rng.sample(range(4), 2)
        e, f = np.zeros(4, dtype=complex), np.zeros(4, dtype=complex)
        e[i], f[i] = 1.0, 1.0
        e[j], f[j] = 1j * c, -1j * c
        how = rng.choice(["from_planes", "matrix"])
        desc = f"complex plane pair {e.tolist()} / {f.tolist()} given by {how}"
        ctx.case(desc)
        ctx.count("planes:complex")
        def run():
            q = Quadric.from_planes(g.Plane(e), g.Plane(f)) if how == "from_planes" else Quadric(np.real(np.outer(e, f) + np.outer(f, e)))
            return bool(q.is_degenerate), [np.asarray(x.array) for x in q.components]
        r = call_impl(run)
        if r[0] != "ok" or r[1][0] is not True or len(r[1][1]) != 2 or not match_set(r[1][1], [e, f], 1e-7):
            ctx.disagree("C15:planes:complex", desc, [e.tolist(), f.tolist()], r[1:3] if r[0] != "ok" else [np.round(x, 5).tolist() for x in r[1][1]], replay=[desc])


def homothetic_conics_stream(ctx, n):
    """two non-degenerate conics with proportional quadratic parts (translated hyperbolas x y = c, translated parabolas, circles):
    every returned point lies on both, and the known common points are among them"""
    import geometer as g
    rng = ctx.rng
    for k in range(n):
        kind = rng.choice(["xy", "xy", "parabola"])
        dx, dy = float(rng.choice([1, -1, 2])), float(rng.choice([2, -2, 1, 3]))
        if kind == "xy":
            c = float(rng.choice([1, 2, -1]))
            M = lambda u, v: np.array([[0, .5, -v / 2], [.5, 0, -u / 2], [-v / 2, -u / 2, u * v - c]])      # (x - u)(y - v) = c
            A, B = M(0.0, 0.0), M(dx, dy)
            known = [np.array([1.0, 0, 0]), np.array([0, 1.0, 0])]                                         # the two common points at infinity
        else:
            M = lambda u, v: np.array([[1.0, 0, -u], [0, 0, -.5], [-u, -.5, u * u + v]])                   # y - v = (x - u)^2
            A, B = M(0.0, 0.0), M(dx, dy)
            known = [np.array([0, 1.0, 0])]
        if rng.random() < 0.5:
            A, B = B, A
        desc = f"conics with proportional quadratic parts ({kind}, shift ({dx},{dy})): {A.tolist()} / {B.tolist()}"
        ctx.case(desc)
        ctx.count("conic-conic:homothetic:" + kind)
        r = call_impl(lambda: [np.asarray(p.array) for p in g.Conic(A).intersect(g.Conic(B))])
        ok = r[0] == "ok" and 1 <= len(r[1]) <= 4 and all(np.all(np.isfinite(p)) for p in r[1])
        if ok:
            res = lambda M_, p: abs(p @ M_ @ p) / (np.linalg.norm(p) ** 2 * np.linalg.norm(M_))
            ok = all(res(A, p) <= 1e-6 and res(B, p) <= 1e-6 for p in r[1]) and all(any(proj_close_nn(q, p, 1e-6) for p in r[1]) for q in known)
        if not ok:
            ctx.disagree("C15:conic-conic:homothetic:" + kind, desc, "points on both conics, including " + str([q.tolist() for q in known]),
                         r[1:3] if r[0] != "ok" else [np.round(p, 5).tolist() for p in r[1]], replay=[desc])


def planes_stream(ctx, n):
    import geometer as g
    from geometer.curve import Quadric
    rng = ctx.rng
    for k in range(n):
        e = [rng.randint(-4, 4) for _ in range(4)]
        f = [rng.randint(-4, 4) for _ in range(4)]
        if np.linalg.matrix_rank(np.array([e, f], dtype=float)) < 2:
            continue
        desc = f"from_planes {e} {f}"
        ctx.case(desc)
        ctx.count("from_planes")
        q = call_impl(lambda: Quadric.from_planes(g.Plane(np.array(e, dtype=float)), g.Plane(np.array(f, dtype=float))))
        if q[0] != "ok":
            ctx.disagree("C15:from_planes:error", desc, "a degenerate quadric", q[1:3], replay=[desc])
            continue
        deg = call_impl(lambda: bool(q[1].is_degenerate))
        comp = call_impl(lambda: q[1].components)
        ok = deg[0] == "ok" and deg[1] is True and comp[0] == "ok" and len(comp[1]) == 2
        if ok:
            ok = match_set([np.asarray(x.array) for x in comp[1]], [np.array(e, dtype=float), np.array(f, dtype=float)], 1e-7)
        if not ok:
            ctx.disagree("C15:from_planes:components", desc, [e, f], comp[1:3] if comp[0] != "ok" else [np.round(np.asarray(x.array), 6).tolist() for x in comp[1]], replay=[desc])


def nondegenerate_stream(ctx, n):
    import geometer as g
    from geometer.curve import Quadric, QuadricCollection
    rng = ctx.rng
    for k in range(n):
        dim = rng.choice([2, 3])
        nn = dim + 1
        a = [[0] * nn for _ in range(nn)]
        for i in range(nn):
            for j in range(i, nn):
                a[i][j] = a[j][i] = rng.randint(-3, 3)
        A = np.array(a, dtype=float)
        d = np.linalg.det(A)
        if abs(d) < 0.5:
            continue
        desc = f"non-degenerate dim={dim} {A.astype(int).tolist()}"
        ctx.case(desc)
        ctx.count("nondegenerate")
        Q = g.Conic(A.astype(int)) if dim == 2 else Quadric(A.astype(int))
        deg = call_impl(lambda: bool(Q.is_degenerate))
        if deg[0] != "ok" or deg[1] is not False:
            ctx.disagree("C15:is_degenerate:false-positive", desc, False, deg[1:3], replay=[desc])
    # irreducible degenerate quadrics in 3-D (cones, cylinders): NotReducible; also inside a mixed collection
    cone = g.Cone(g.Point(1.0, 0.0, 2.0), g.Point(1.0, 2.0, 2.0), 1.0)
    pp = Quadric.from_planes(g.Plane(1.0, 2.0, 3.0, 4.0), g.Plane(4.0, 3.0, 2.0, 1.0))
    for name, q in (("cone", cone), ("cylinder", g.Cylinder(g.Point(0.0, 1.0, 0.0), g.Point(1.0, 2.0, 2.0), 2.0))):
        desc = f"irreducible {name}"
        ctx.case(desc)
        ctx.count("irreducible")
        r = call_impl(lambda: q.components)
        if not (r[0] == "err" and r[1] == "NotReducible"):
            ctx.disagree(f"C15:NotReducible:{name}", desc, "NotReducible", r[1:3] if r[0] != "ok" else [np.round(np.asarray(x.array), 4).tolist() for x in r[1]], replay=[desc])
    desc = "mixed collection [plane pair, cone]"
    ctx.case(desc)
    coll = QuadricCollection(np.stack([np.asarray(pp.array, dtype=float), np.asarray(cone.array, dtype=float)]))
    r = call_impl(lambda: coll.components)
    if not (r[0] == "err" and r[1] == "NotReducible"):
        ctx.disagree("C15:NotReducible:mixed-collection", desc, "NotReducible", r[1:3] if r[0] != "ok" else "components returned", replay=[desc])


def conic_from5(g, pts):
    return g.Conic.from_points(*[g.Point(float(p[0]), float(p[1])) for p in pts])


def conic_conic_stream(ctx, n):
    import geometer as g
    rng = ctx.rng
    for k in range(n):
        # four common lattice points in general position + one extra point for each conic
        while True:
            base = [[rng.randint(-4, 4), rng.randint(-4, 4)] for _ in range(4)]
            e1 = [rng.randint(-5, 5), rng.randint(-5, 5)]
            e2 = [rng.randint(-5, 5), rng.randint(-5, 5)]
            ok = True
            for extra in (e1, e2):
                pts = [[Fraction(x), Fraction(y), Fraction(1)] for x, y in base + [extra]]
                if not all(fdet([pts[i] for i in idx]) != 0 for idx in itertools.combinations(range(5), 3)):
                    ok = False
            if ok:
                break
        c1 = call_impl(lambda: conic_from5(g, base + [e1]))
        c2 = call_impl(lambda: conic_from5(g, base + [e2]))
        if c1[0] != "ok" or c2[0] != "ok":
            continue
        A1, A2 = np.asarray(c1[1].array, dtype=float), np.asarray(c2[1].array, dtype=float)
        if proj_close_nn(A1, A2, 1e-9) or abs(np.linalg.det(A1)) < 1e-9 or abs(np.linalg.det(A2)) < 1e-9:
            continue
        desc = f"conic-conic common={base} extra1={e1} extra2={e2}"
        ctx.case(desc)
        ctx.count("conic-conic:4pts")
        r = call_impl(lambda: c1[1].intersect(c2[1]))
        if r[0] != "ok":
            ctx.disagree(f"C15:conic-conic:error:{r[1]}", desc, base, r[1:3], replay=[desc])
            continue
        got = [np.asarray(x.array) for x in r[1]]
        exp = [np.array([x, y, 1.0]) for x, y in base]
        sound = all(resid(A1, p) < 1e-6 and resid(A2, p) < 1e-6 for p in got)
        complete = all(any(proj_close_nn(e, p, 1e-5) for p in got) for e in exp)
        if len(got) > 4 or not sound or not complete:
            why = "too-many" if len(got) > 4 else ("unsound" if not sound else "incomplete")
            ctx.disagree(f"C15:conic-conic:{why}", desc, base, [np.round(p, 5).tolist() for p in got], replay=[desc])
    # special pencils: circle x ellipse (4 real points), tangent circles (double point), concentric circles (I, J double), line pair x conic
    specials = [("circle-ellipse", lambda: (g.Circle(g.Point(0.0, 0.0), 5.0), g.Ellipse(g.Point(0.0, 0.0), 10.0, 2.5))),
                ("tangent-circles", lambda: (g.Circle(g.Point(0.0, 0.0), 2.0), g.Circle(g.Point(3.0, 0.0), 1.0))),
                ("crossing-circles", lambda: (g.Circle(g.Point(0.0, 0.0), 5.0), g.Circle(g.Point(6.0, 0.0), 5.0))),
                ("linepair-second", lambda: (g.Circle(g.Point(0.0, 0.0), 5.0), g.Conic.from_lines(g.Line(1.0, 0.0, -3.0), g.Line(0.0, 1.0, -4.0)))),
                ("linepair-first", lambda: (g.Conic.from_lines(g.Line(1.0, 0.0, -3.0), g.Line(0.0, 1.0, -4.0)), g.Circle(g.Point(0.0, 0.0), 5.0))),
                ("linepair-linepair", lambda: (g.Conic.from_lines(g.Line(1.0, 0.0, -3.0), g.Line(0.0, 1.0, -4.0)), g.Conic.from_lines(g.Line(1.0, 1.0, 0.0), g.Line(1.0, -1.0, -1.0))))]
    expected = {"circle-ellipse": None, "tangent-circles": [[2.0, 0.0, 1.0]], "crossing-circles": [[3.0, 4.0, 1.0], [3.0, -4.0, 1.0]],
                "linepair-second": [[3.0, 4.0, 1.0], [3.0, -4.0, 1.0], [-3.0, 4.0, 1.0]], "linepair-first": [[3.0, 4.0, 1.0], [3.0, -4.0, 1.0], [-3.0, 4.0, 1.0]],
                # x = 3 or y = 4, against x + y = 0 or x - y = 1: the four pairwise meets
                "linepair-linepair": [[3.0, -3.0, 1.0], [3.0, 2.0, 1.0], [-4.0, 4.0, 1.0], [5.0, 4.0, 1.0]]}
    for name, mk in specials:
        desc = f"conic-conic special {name}"
        ctx.case(desc)
        ctx.count("conic-conic:" + name)
        a, b = mk()
        r = call_impl(lambda: a.intersect(b))
        if r[0] != "ok":
            ctx.disagree(f"C15:conic-conic:{name}:error:{r[1]}", desc, expected[name], r[1:3], replay=[desc])
            continue
        got = [np.asarray(x.array) for x in r[1]]
        A1, A2 = np.asarray(a.array, dtype=float), np.asarray(b.array, dtype=float)
        sound = all(np.all(np.isfinite(p)) and np.linalg.norm(p) > 0 and resid(A1, p) < 1e-5 and resid(A2, p) < 1e-5 for p in got)
        complete = expected[name] is None or all(any(proj_close_nn(np.array(e), p, 1e-5) for p in got) for e in expected[name])
        if len(got) > 4 or not sound or not complete:
            why = "too-many" if len(got) > 4 else ("unsound" if not sound else "incomplete")
            ctx.disagree(f"C15:conic-conic:{name}:{why}", desc, expected[name], [np.round(p, 5).tolist() for p in got], replay=[desc])


def moved_stream(ctx, n):
    """components / intersect of a degenerate conic that was moved AFTER its components had been asked for once"""
    import geometer as g
    rng = ctx.rng
    for k in range(n):
        a = [rng.randint(-3, 3), rng.randint(-3, 3), rng.randint(-3, 3)]
        b = [rng.randint(-3, 3), rng.randint(-3, 3), rng.randint(-3, 3)]
        if not (any(a[:2]) and any(b[:2])) or not np.any(np.cross(a, b)):
            continue
        shift = [float(rng.randint(-4, 4)), float(rng.randint(1, 4))]
        desc = f"moved degenerate conic lines {a} {b} shift {shift}"
        ctx.case(desc)
        ctx.count("moved-components")
        def run():
            c = g.Conic.from_lines(g.Line(np.array(a, dtype=float)), g.Line(np.array(b, dtype=float)))
            first = c.components                      # ask once before moving
            moved = g.translation(*shift) * c
            return first, moved, moved.components
        r = call_impl(run)
        if r[0] != "ok":
            ctx.disagree(f"C15:moved:error:{r[1]}", desc, "components of the moved conic", r[1:3], replay=[desc])
            continue
        # the moved lines: l' = (a0, a1, a2 - a0 s0 - a1 s1)
        exp = [np.array([v[0], v[1], v[2] - v[0] * shift[0] - v[1] * shift[1]], dtype=float) for v in (a, b)]
        got = [np.asarray(x.array) for x in r[1][2]]
        if not match_set(got, exp, 1e-7):
            ctx.disagree("C15:moved:components", desc, [e.tolist() for e in exp], [np.round(x, 6).tolist() for x in got], replay=[desc])


def touching_stream(ctx, n):
    """two proper conics that touch in one point and cross in two others: C2 = C1 + t l^T + l t^T with t the tangent of C1 at a
    point p of C1 and l a secant; the pencil cubic has an (exactly representable) double root.  Common points: p, and C1 ∩ l"""
    import geometer as g
    rng = ctx.rng
    base = [np.array([[1.0, 0, 0], [0, 0, -0.5], [0, -0.5, 0]]),          # y = x^2
            np.array([[0, 0.5, 0], [0.5, 0, 0], [0, 0, -1.0]]),            # x y = 1
            np.array([[1.0, 0, 0], [0, 1.0, 0], [0, 0, -25.0]])]            # x^2 + y^2 = 25
    pts = [[(0, 0), (1, 1), (-2, 4), (2, 4)], [(1, 1), (2, 0.5), (-1, -1), (0.5, 2)], [(3, 4), (-4, 3), (0, 5), (5, 0)]]
    for k in range(n):
        i = rng.randrange(3)
        A = base[i]
        p = np.array(list(pts[i][rng.randrange(4)]) + [1.0])
        t = A @ p
        q1, q2 = (np.array(list(x) + [1.0]) for x in rng.sample([x for x in pts[i] if not np.allclose(x, p[:2])], 2))
        l = np.cross(q1, q2)
        c = rng.choice([0.25, 0.5, -0.5, 1.0])
        B = A + c * (np.outer(t, l) + np.outer(l, t)) / 2
        if abs(np.linalg.det(B)) < 1e-6:
            continue
        desc = f"touching conics base={i} p={p.tolist()} secant through {q1.tolist()} {q2.tolist()} c={c}"
        ctx.case(desc)
        ctx.count("touching")
        for order in ("ab", "ba"):
            c1, c2 = (g.Conic(A), g.Conic(B)) if order == "ab" else (g.Conic(B), g.Conic(A))
            r = call_impl(lambda: c1.intersect(c2))
            if r[0] != "ok":
                ctx.disagree(f"C15:touching:error:{r[1]}", desc, "common points", r[1:3], replay=[desc])
                break
            got = [np.asarray(x.array, dtype=complex) for x in r[1]]
            res = lambda M, x: abs(x @ M @ x) / (np.linalg.norm(x) ** 2 * np.linalg.norm(M))
            on_both = all(res(A, x) < 1e-6 and res(B, x) < 1e-6 for x in got)
            found = all(any(proj_close_nn(e, x, 1e-5) for x in got) for e in (p, q1, q2))
            if not on_both or not found or len(got) > 4:
                ctx.disagree("C15:touching:common-points", desc + f" order={order}", [p.tolist(), q1.tolist(), q2.tolist()], [np.round(x, 5).tolist() for x in got], replay=[desc])
                break


def far_and_scaled_stream(ctx, n):
    """(a) proper circles / spheres whose centre is far from the origin compared with their radius (badly conditioned matrices, ordinary
    geometry): not degenerate, and two such circles meet in their two common points plus I, J; (b) conic x conic with the receiver or
    the argument given by a representative scaled by 1e4 ... 1e6: the same common points"""
    import geometer as g
    rng = ctx.rng
    for k in range(n):
        if k % 2 == 0:
            d = rng.choice([100.0, 300.0, 600.0, 1000.0])
            c = rng.choice([(d, 0.0), (0.0, -d), (d / 2, d / 2), (-d, d / 4)])
            r = float(rng.choice([1, 2, 5]))
            desc = f"circle centre {c} radius {r} / sphere centre {(c[0], c[1], 0.0)}"
            ctx.case(desc)
            ctx.count("far:is_degenerate")
            C1 = g.Circle(g.Point(*c), r)
            S1 = g.Sphere(g.Point(c[0], c[1], 0.0), r)
            deg = call_impl(lambda: (bool(C1.is_degenerate), bool(S1.is_degenerate)))
            if deg[0] != "ok" or deg[1] != (False, False):
                ctx.disagree("C15:is_degenerate:far-from-origin", desc, (False, False), deg[1:3], replay=[desc])
                continue
            # a second circle of the same radius whose centre is shifted by (2r * 3/5, 2r * 4/5) * 1/2: common points known exactly
            u = np.array([0.6, 0.8]) * r          # half the distance of the centres: |u| = r -> hmm tangent; use 0.6 r
            u = np.array([0.6 * r, 0.0])
            C2 = g.Circle(g.Point(c[0] + 2 * u[0], c[1]), r)
            h = math.sqrt(r * r - u[0] * u[0])
            exp = [np.array([c[0] + u[0], c[1] + h, 1.0]), np.array([c[0] + u[0], c[1] - h, 1.0])]
            res = call_impl(lambda: C1.intersect(C2))
            ctx.count("far:circle-circle")
            ok = res[0] == "ok" and len(res[1]) <= 4
            if ok:
                got = [np.asarray(x.array) for x in res[1]]
                ok = all(any(proj_close_nn(e, p, 1e-6) for p in got) for e in exp)
            if not ok:
                ctx.disagree("C15:conic-conic:far-from-origin", desc + f" x the same circle shifted by {2 * u[0]}", [e.tolist() for e in exp],
                             res[1:3] if res[0] != "ok" else [np.round(np.asarray(x.array), 5).tolist() for x in res[1]], replay=[desc])
        else:
            # large factors only: a factor 1e-3 puts det(lam M) = lam^3 det M below the library's absolute tolerance (its documented regime)
            lam = rng.choice([1e4, 1e5, 1e6, -1e5, 3e4])
            which = rng.choice(["receiver", "argument"])
            M = np.diag([1.0, 1.0, -float(rng.choice([4, 9, 16]))])
            E = g.Ellipse(g.Point(float(rng.randint(-1, 1)), rng.choice([0.5, 0.0, -0.5])), 3.0, 1.0)
            base = call_impl(lambda: g.Conic(M).intersect(E))
            if base[0] != "ok":
                continue
            bp = [np.asarray(x.array) for x in base[1]]
            if any(proj_close_nn(bp[i], bp[j], 1e-3) for i in range(len(bp)) for j in range(i)):
                # the two conics touch (e.g. the circle of radius 3 and the ellipse with semi-axis 3 about the same centre): a common
                # point of multiplicity two moves by sqrt(rounding error) under any perturbation, so "the same points to 1e-5" is not
                # what the statement promises there; only simple common points are compared
                ctx.count("scaled:conic-conic:skipped-tangent")
                continue
            A, B = (g.Conic(lam * M), E) if which == "receiver" else (g.Conic(M), type(E)(lam * np.asarray(E.array)) if False else g.Conic(lam * np.asarray(E.array)))
            desc = f"conic diag{np.diag(M).tolist()} x ellipse {np.round(np.asarray(E.array), 4).tolist()}, {which} scaled by {lam}"
            ctx.case(desc)
            ctx.count("scaled:conic-conic:" + which)
            res = call_impl(lambda: A.intersect(B))
            exp = [np.asarray(x.array) for x in base[1]]
            ok = res[0] == "ok" and len(res[1]) <= 4
            if ok:
                got = [np.asarray(x.array) for x in res[1]]
                ok = all(any(proj_close_nn(e, p, 1e-5) for p in got) for e in exp) and all(any(proj_close_nn(e, p, 1e-5) for e in exp) for p in got)
            if not ok:
                ctx.disagree(f"C15:conic-conic:scaled-{which}", desc, [np.round(e, 5).tolist() for e in exp],
                             res[1:3] if res[0] != "ok" else [np.round(np.asarray(x.array), 5).tolist() for x in res[1]], replay=[desc])


def correspondence(ctx):
    far_and_scaled_stream(ctx, ctx.budget(40, 400))
    complex_planes_stream(ctx, ctx.budget(30, 300))
    homothetic_conics_stream(ctx, ctx.budget(40, 400))
    complex_lines_stream(ctx, ctx.budget(50, 500))
    touching_stream(ctx, ctx.budget(30, 300))
    moved_stream(ctx, ctx.budget(40, 400))
    lines_stream(ctx, ctx.budget(300, 0))
    planes_stream(ctx, ctx.budget(150, 2000))
    nondegenerate_stream(ctx, ctx.budget(80, 800))
    conic_conic_stream(ctx, ctx.budget(80, 1500))


def replay(ctx, rec):
    correspondence(ctx)
