"""C16 — segment, polygon and triangle membership is the closed Cartesian point set."""
from __future__ import annotations

import itertools
from fractions import Fraction

import numpy as np

from geolib import call_impl
from proto import ET, dec_bools, proj_close_nn, run_driver

ID = "C16"
LEAN_FILES = ["Geo/Props/C16.lean", "Geo/Props/C16b.lean", "Geo/Props/C16c.lean"]
RULE = ("simple polygons with 3-5 vertices on the 4x4 lattice (quick: random sample; thorough: every one up to translation) x every "
        "lattice and half-lattice query point of [-1,4]^2 (edges, vertices, extensions of edges, level with a vertex), every rotation "
        "and reversal of the vertex cycle; Triangle.contains on the triangles; copies embedded in 3-space under rational affine maps with "
        "points off the plane and at infinity; PolygonCollection; segments and rays in 2-D/3-D with parameters -1..2 in steps of 1/4 and "
        "points off the line; compared with the exact S-layer membership; non-trivial = query on the boundary or within 1/2 of it")
ASSUMPTIONS = ["exact rational inputs keep the implementation's determinants exact (dyadic coordinates)"]


def vt(v):
    return ET((len(v),), list(v)).enc()


def seg_intersect(p, q, r, s):
    """do closed segments pq and rs intersect (exact)?"""
    def orient(a, b, c):
        return (b[0] - a[0]) * (c[1] - a[1]) - (b[1] - a[1]) * (c[0] - a[0])
    def on(a, b, c):
        return orient(a, b, c) == 0 and min(a[0], b[0]) <= c[0] <= max(a[0], b[0]) and min(a[1], b[1]) <= c[1] <= max(a[1], b[1])
    o1, o2, o3, o4 = orient(p, q, r), orient(p, q, s), orient(r, s, p), orient(r, s, q)
    if ((o1 > 0) != (o2 > 0)) and o1 != 0 and o2 != 0 and ((o3 > 0) != (o4 > 0)) and o3 != 0 and o4 != 0:
        return True
    return on(p, q, r) or on(p, q, s) or on(r, s, p) or on(r, s, q)


def is_simple(vs):
    n = len(vs)
    for i in range(n):
        a, b, c = vs[i], vs[(i + 1) % n], vs[(i + 2) % n]
        if (b[0] - a[0]) * (c[1] - a[1]) - (b[1] - a[1]) * (c[0] - a[0]) == 0:
            return False                      # consecutive collinear vertices (degenerate)
    for i in range(n):
        for j in range(i + 1, n):
            if j == i or (j + 1) % n == i or (i + 1) % n == j:
                continue
            if seg_intersect(vs[i], vs[(i + 1) % n], vs[j], vs[(j + 1) % n]):
                return False
    return True


def polygons(rng, count, exhaustive=False):
    pts = [(x, y) for x in range(4) for y in range(4)]
    out = []
    if exhaustive:
        seen = set()
        for k in (3, 4, 5):
            for combo in itertools.combinations(pts, k):
                first = combo[0]
                for perm in itertools.permutations(combo[1:]):
                    if perm[0] > perm[-1]:
                        continue                  # direction
                    vs = (first,) + perm
                    mx, my = min(v[0] for v in vs), min(v[1] for v in vs)
                    key = tuple((v[0] - mx, v[1] - my) for v in vs)
                    if key in seen:
                        continue
                    if is_simple(vs):
                        seen.add(key)
                        out.append(list(vs))
        rng.shuffle(out)
        return out[:count] if count else out
    while len(out) < count:
        k = rng.choice([3, 4, 4, 5, 5])
        vs = rng.sample(pts, k)
        if is_simple(vs):
            out.append(vs)
    return out


QUERIES = [(Fraction(x, 2), Fraction(y, 2)) for x in range(-2, 9) for y in range(-2, 9)]


def polygon_stream(ctx, npoly, exhaustive):
    import geometer as g
    rng = ctx.rng
    polys = polygons(rng, npoly, exhaustive)
    reqs = []
    for vs in polys:
        for qx, qy in QUERIES:
            reqs.append("spec.inpolygon " + " ".join(vt(v) for v in vs) + " " + vt((qx, qy)))
    answers = run_driver(reqs, timeout=3000)
    # the executable model of PolygonTensor.contains (Geo/Shapes.lean over the regenerated Geo/Gen/Shapes.lean) on the same cases:
    # T16_3_polygon_contains says it equals the specification; the run confirms the compiled definitions do (and thereby ties
    # the model, not only the specification, to the implementation compared below)
    manswers = run_driver([r.replace("spec.inpolygon", "m.polycontains", 1) for r in reqs], timeout=3000)
    for r_, a_, m_ in zip(reqs, answers, manswers):
        if a_ != m_:
            ctx.disagree("C16:model-vs-spec:polygon", r_, a_, m_, replay=[r_])
            break
    ctx.count("model-vs-spec:polygon", len(reqs))
    nq = len(QUERIES)
    Q2 = g.PointCollection(np.array([[float(x), float(y), 1.0] for x, y in QUERIES]))
    for pi, vs in enumerate(polys):
        if ctx.out_of_time():
            break
        exp = np.array([bool(dec_bools(a.split(" ")[1])) for a in answers[pi * nq:(pi + 1) * nq]])
        desc0 = f"polygon {vs}"
        variants = [("as-given", vs)]
        r = rng.randrange(len(vs))
        variants.append(("rolled", vs[r:] + vs[:r]))
        variants.append(("reversed", list(reversed(vs))))
        for vname, vv in variants:
            P = [g.Point(float(x), float(y)) for x, y in vv]
            poly = call_impl(lambda: g.Polygon(*P))
            ctx.case(f"{desc0} {vname}")
            ctx.count(f"polygon:{len(vs)}:{vname}")
            if poly[0] != "ok":
                ctx.disagree("C16:polygon:constructor", f"{desc0} {vname}", "a polygon", poly[1:3], replay=[desc0])
                continue
            r1 = call_impl(lambda: poly[1].contains(Q2))
            if r1[0] != "ok" or not np.array_equal(np.asarray(r1[1]).astype(bool), exp):
                bad = None
                if r1[0] == "ok":
                    idx = int(np.argmax(np.asarray(r1[1]).astype(bool) != exp))
                    bad = (QUERIES[idx], bool(exp[idx]), classify(vs, QUERIES[idx]))
                ctx.disagree(f"C16:polygon:contains:{bad[2] if bad else 'error'}", f"{desc0} {vname} query={[str(c) for c in bad[0]] if bad else ''}",
                             bad[1] if bad else "booleans", r1[1:3] if r1[0] != "ok" else (not bad[1]), replay=[desc0])
                continue
            # single-point calls on a sample (scalar code path)
            for idx in rng.sample(range(nq), 6):
                qx, qy = QUERIES[idx]
                rs = call_impl(lambda: bool(poly[1].contains(g.Point(float(qx), float(qy)))))
                if rs[0] != "ok" or rs[1] != bool(exp[idx]):
                    ctx.disagree(f"C16:polygon:contains-single:{classify(vs, QUERIES[idx])}", f"{desc0} {vname} query={qx},{qy}", bool(exp[idx]), rs[1:3], replay=[desc0])
                    break
            if len(vv) == 3:
                mt = run_driver(["m.tricontains " + " ".join(vt(v) for v in vv) + " " + vt(q) for q in QUERIES])
                mexp = np.array([bool(dec_bools(a.split(" ")[1])) for a in mt])
                if not np.array_equal(mexp, exp):
                    ctx.disagree("C16:model-vs-spec:triangle", f"triangle {vv}", exp.astype(int).tolist(), mexp.astype(int).tolist(), replay=[desc0])
                tri = call_impl(lambda: g.Triangle(*P))
                rt = call_impl(lambda: tri[1].contains(Q2)) if tri[0] == "ok" else tri
                ctx.count("triangle:" + vname)
                if rt[0] != "ok" or not np.array_equal(np.asarray(rt[1]).astype(bool), exp):
                    idx = int(np.argmax(np.asarray(rt[1]).astype(bool) != exp)) if rt[0] == "ok" else 0
                    ctx.disagree(f"C16:triangle:contains:{classify(vs, QUERIES[idx])}", f"triangle {vv} query={QUERIES[idx]}", bool(exp[idx]), rt[1:3] if rt[0] != "ok" else "differs", replay=[desc0])
                else:
                    for idx in rng.sample(range(nq), 6):
                        qx, qy = QUERIES[idx]
                        rs = call_impl(lambda: bool(tri[1].contains(g.Point(float(qx), float(qy)))))
                        if rs[0] != "ok" or rs[1] != bool(exp[idx]):
                            ctx.disagree(f"C16:triangle:contains-single:{classify(vs, QUERIES[idx])}", f"triangle {vv} query={qx},{qy}", bool(exp[idx]), rs[1:3], replay=[desc0])
                            break
        if pi % 3 == 0:
            embedded(ctx, vs, exp)


def classify(vs, q):
    """where the query point lies relative to the polygon: vertex / edge / edge-extension / level-with-vertex / generic"""
    n = len(vs)
    if any(Fraction(v[0]) == q[0] and Fraction(v[1]) == q[1] for v in vs):
        return "vertex"
    for i in range(n):
        a, b = vs[i], vs[(i + 1) % n]
        o = (b[0] - a[0]) * (q[1] - a[1]) - (b[1] - a[1]) * (q[0] - a[0])
        if o == 0:
            if min(a[0], b[0]) <= q[0] <= max(a[0], b[0]) and min(a[1], b[1]) <= q[1] <= max(a[1], b[1]):
                return "edge"
            return "edge-extension"
    if any(Fraction(v[1]) == q[1] for v in vs):
        return "level-with-vertex"
    return "generic"


AFFINE3 = [([1, 0, 0], [0, 1, 0], [0, 0, 0]), ([1, 0, 2], [0, 1, -1], [1, 2, 3]), ([2, 1, 0], [0, 1, 1], [-3, 0, 5]), ([0, 1, 1], [1, 0, 1], [0, 0, 7]),
           ([1, 1, 0], [0, 0, 1], [2, -2, 0]), ([0, 1, 0], [0, 0, 1], [5, -1, -1]), ([1, 0, 0], [0, 0, 1], [-1, 7, -2]),
           ([0, 1, 0], [1, 0, 1], [-6, -1, -1])]


def embedded(ctx, vs, exp):
    """the same polygon in a plane of 3-space: images of the queries, points off the plane, points at infinity"""
    import geometer as g
    rng = ctx.rng
    u, v, o = rng.choice(AFFINE3)
    def emb(x, y):
        return [float(o[j] + x * u[j] + y * v[j]) for j in range(3)]
    P = [g.Point(*emb(x, y)) for x, y in vs]
    poly = call_impl(lambda: g.Polygon(*P))
    desc = f"polygon3d {vs} u={u} v={v} o={o}"
    ctx.case(desc)
    ctx.count("polygon:3d")
    if poly[0] != "ok":
        ctx.disagree("C16:polygon3d:constructor", desc, "a polygon", poly[1:3], replay=[desc])
        return
    Q3 = g.PointCollection(np.array([emb(float(x), float(y)) + [1.0] for x, y in QUERIES]))
    r = call_impl(lambda: poly[1].contains(Q3))
    if r[0] != "ok" or not np.array_equal(np.asarray(r[1]).astype(bool), exp):
        idx = int(np.argmax(np.asarray(r[1]).astype(bool) != exp)) if r[0] == "ok" else 0
        ctx.disagree(f"C16:polygon3d:contains:{classify(vs, QUERIES[idx])}", desc + f" query={QUERIES[idx]}", bool(exp[idx]), r[1:3] if r[0] != "ok" else "differs", replay=[desc])
        return
    if len(vs) == 3:
        tri = call_impl(lambda: g.Triangle(*P))
        rt = call_impl(lambda: tri[1].contains(Q3)) if tri[0] == "ok" else tri
        ctx.count("triangle:3d")
        if rt[0] != "ok" or not np.array_equal(np.asarray(rt[1]).astype(bool), exp):
            ctx.disagree("C16:triangle3d:contains" + (":error:" + rt[1] if rt[0] != "ok" else ""), desc, "the closed triangle", rt[1:3] if rt[0] != "ok" else "differs", replay=[desc])
    nrm = np.cross(u, v)
    off = g.PointCollection(np.array([list(np.array(emb(float(x), float(y))) + nrm) + [1.0] for x, y in QUERIES[::7]]))
    r = call_impl(lambda: poly[1].contains(off))
    if r[0] != "ok" or np.any(np.asarray(r[1])):
        ctx.disagree("C16:polygon3d:off-plane", desc, "all False", r[1:3], replay=[desc])
    inf = g.PointCollection(np.array([[float(c) for c in u] + [0.0], [float(c) for c in v] + [0.0], [float(a + b) for a, b in zip(u, v)] + [0.0]]))
    r = call_impl(lambda: poly[1].contains(inf))
    if r[0] != "ok" or np.any(np.asarray(r[1])):
        ctx.disagree("C16:polygon3d:at-infinity", desc, "all False", r[1:3], replay=[desc])


def segment_stream(ctx, n):
    import geometer as g
    rng = ctx.rng
    reqs, todo = [], []
    for k in range(n):
        dim = rng.choice([2, 3])
        a = [Fraction(rng.randint(-4, 4)) for _ in range(dim)]
        d = [Fraction(rng.randint(-3, 3)) for _ in range(dim)]
        if not any(d):
            continue
        ray = (k % 5 == 0)
        b = [x + y for x, y in zip(a, d)]
        ts = [Fraction(t, 4) for t in range(-4, 9)]
        qs = [[x + t * y for x, y in zip(a, d)] for t in ts]
        # points off the line
        e = [Fraction(rng.randint(-2, 2)) for _ in range(dim)]
        if any(e[i] * d[(i + 1) % dim] != e[(i + 1) % dim] * d[i] for i in range(dim)):
            qs += [[x + Fraction(1, 2) * y + z for x, y, z in zip(a, d, e)]]
        for q in qs:
            reqs.append((f"spec.onray {vt(a)} {vt(d)} {vt(q)}" if ray else f"spec.onsegment {vt(a)} {vt(b)} {vt(q)}"))
        todo.append((dim, a, b, d, ray, qs))
    answers = run_driver(reqs)
    mreqs = [r.replace("spec.onsegment", "m.segcontains", 1) for r in reqs if r.startswith("spec.onsegment") and r.count(":2:") == 3]
    mans = dict(zip(mreqs, run_driver(mreqs))) if mreqs else {}
    for r_, a_ in zip(reqs, answers):
        k_ = r_.replace("spec.onsegment", "m.segcontains", 1)
        if k_ in mans and mans[k_] != a_:
            ctx.disagree("C16:model-vs-spec:segment", r_, a_, mans[k_], replay=[r_])
            break
    ctx.count("model-vs-spec:segment", len(mreqs))
    pos = 0
    for dim, a, b, d, ray, qs in todo:
        exp = np.array([bool(dec_bools(x.split(" ")[1])) for x in answers[pos:pos + len(qs)]])
        pos += len(qs)
        wa, wb = Fraction(rng.choice([1, 1, 2, 3, -1, -2])), Fraction(rng.choice([1, 1, 2, -1]))
        A = g.Point(np.array([float(x * wa) for x in a] + [float(wa)]))
        B = g.Point(np.array([float(x) for x in d] + [0.0])) if ray else g.Point(np.array([float(x * wb) for x in b] + [float(wb)]))
        desc = f"segment dim={dim} a={[str(x) for x in a]} {'dir' if ray else 'b'}={[str(x) for x in (d if ray else b)]}"
        ctx.case(desc)
        ctx.count("segment:" + ("ray" if ray else f"{dim}d"))
        for order in ("ab", "ba"):
            S = call_impl(lambda: g.Segment(A, B) if order == "ab" else g.Segment(B, A))
            if S[0] != "ok":
                ctx.disagree("C16:segment:constructor", desc, "a segment", S[1:3], replay=[desc])
                break
            Q = g.PointCollection(np.array([[float(c) for c in q] + [1.0] for q in qs]))
            r = call_impl(lambda: S[1].contains(Q))
            good = r[0] == "ok" and np.array_equal(np.asarray(r[1]).astype(bool), exp)
            if good:
                k0 = rng.randrange(len(qs))
                rs = call_impl(lambda: bool(S[1].contains(g.Point(np.array([float(c) * 2 for c in qs[k0]] + [2.0])))))
                good = rs[0] == "ok" and rs[1] == bool(exp[k0])
            if not good:
                ctx.disagree(f"C16:segment:contains:{'ray' if ray else str(dim) + 'd'}:{order}", desc + f" queries t=-1..2 step 1/4", exp.astype(int).tolist(),
                             r[1:3] if r[0] != "ok" else np.asarray(r[1]).astype(int).tolist(), replay=[desc])
                break


def collection_stream(ctx, n):
    """PolygonCollection.contains = per polygon"""
    import geometer as g
    rng = ctx.rng
    for k in range(n):
        polys = [p for p in polygons(rng, 2) if True]
        if len(polys[0]) != len(polys[1]):
            continue
        arr = np.array([[[float(x), float(y), 1.0] for x, y in vs] for vs in polys])
        PC = call_impl(lambda: g.PolygonCollection(arr))
        q = rng.choice(QUERIES)
        desc = f"polygon-collection {polys} query={q}"
        ctx.case(desc)
        ctx.count("polygon:collection")
        if PC[0] != "ok":
            continue
        P = g.Point(float(q[0]), float(q[1]))
        r = call_impl(lambda: PC[1].contains(P))
        singles = [call_impl(lambda vs=vs: bool(g.Polygon(*[g.Point(float(x), float(y)) for x, y in vs]).contains(P))) for vs in polys]
        if r[0] != "ok" or [bool(x) for x in np.asarray(r[1])] != [s[1] for s in singles]:
            ctx.disagree("C16:polygon-collection", desc, [s[1] for s in singles], r[1:3], replay=[desc])


def element_stream(ctx, n):
    """elements taken out of a PolygonCollection (by index and by iteration; four-vertex elements are typed Rectangle whatever
    their shape) answer `contains` like the Polygon built from the same vertices — non-convex quadrilaterals included"""
    import geometer as g
    rng = ctx.rng
    DARTS = [[(0, 0), (2, 1), (4, 0), (2, 3)], [(0, 0), (4, 0), (4, 3), (2, 1)], [(0, 0), (3, 0), (1, 1), (0, 3)], [(0, 0), (2, 0), (3, 2), (0, 1)]]
    for k in range(n):
        quads = []
        for _ in range(rng.randint(2, 3)):
            q = rng.choice(DARTS)
            dx, dy, r = rng.randint(-3, 3), rng.randint(-3, 3), rng.randrange(4)
            q = [(x + dx, y + dy) for x, y in q]
            quads.append(q[r:] + q[:r])
        arr = np.array([[[float(x), float(y), 1.0] for x, y in q] for q in quads])
        i = rng.randrange(len(quads))
        base = quads[i]
        cx, cy = sum(x for x, _ in base) / 4, sum(y for _, y in base) / 4
        qs = [(cx, cy), (base[0][0] + 0.5, base[0][1] + 0.5), ((base[0][0] + base[1][0]) / 2, (base[0][1] + base[1][1]) / 2), (cx + 0.25, cy - 0.5), (base[2][0] - 0.5, base[2][1])]
        desc = f"element {i} of a PolygonCollection of quadrilaterals {quads}"
        ctx.case(desc)
        ctx.count("polygon:collection-element")
        def run():
            PC = g.PolygonCollection(arr)
            ref = g.Polygon(*[g.Point(float(x), float(y)) for x, y in base])
            by_index, by_iter = PC[i], list(PC)[i]
            return [(bool(ref.contains(g.Point(float(a), float(b)))), bool(by_index.contains(g.Point(float(a), float(b)))),
                     bool(by_iter.contains(g.Point(float(a), float(b))))) for a, b in qs]
        r = call_impl(run)
        if r[0] != "ok" or any(len(set(t)) != 1 for t in r[1]):
            ctx.disagree("C16:polygon-collection-element", desc + f" queries {qs}", "(Polygon, coll[i], iterated element) agree", r[1:3], replay=[desc])


def subcollection_stream(ctx, n):
    """sub-collections taken out of a PolygonCollection by a slice or an index array (triangles, quadrilaterals, pentagons) are
    collections again and answer `contains` position by position like the polygons themselves"""
    import geometer as g
    rng = ctx.rng
    SHAPES = {3: [[(0, 0), (4, 0), (0, 3)], [(0, 0), (3, 1), (1, 4)]], 4: [[(0, 0), (2, 1), (4, 0), (2, 3)], [(0, 0), (4, 0), (4, 3), (0, 3)]],
              5: [[(0, 0), (4, 0), (4, 3), (2, 1), (0, 3)]]}
    for k in range(n):
        nv = rng.choice([3, 3, 4, 5])
        m = rng.randint(2, 4)
        polys = []
        for _ in range(m):
            q = rng.choice(SHAPES[nv])
            dx, dy = rng.randint(-3, 3), rng.randint(-3, 3)
            polys.append([(x + dx, y + dy) for x, y in q])
        arr = np.array([[[float(x), float(y), 1.0] for x, y in q] for q in polys])
        how = rng.choice(["slice", "slice-all", "array"])
        index = slice(0, m - 1) if how == "slice" else slice(None) if how == "slice-all" else np.array(sorted(rng.sample(range(m), 2)))
        picked = list(range(m))[index] if not isinstance(index, np.ndarray) else index.tolist()
        q0 = polys[picked[0]]
        pt = (sum(x for x, _ in q0) / nv, sum(y for _, y in q0) / nv) if k % 2 else (q0[0][0] + 0.25, q0[0][1] + 0.25)
        desc = f"PolygonCollection of {m} {nv}-gons {polys} [{index if isinstance(index, slice) else index.tolist()}] .contains(Point{pt})"
        ctx.case(desc)
        ctx.count(f"polygon:subcollection:{nv}")
        P = g.Point(float(pt[0]), float(pt[1]))
        def run():
            sub = g.PolygonCollection(arr)[index]
            return type(sub).__name__, sub.shape, [bool(x) for x in np.atleast_1d(sub.contains(P))]
        r = call_impl(run)
        exp = [bool(g.Polygon(*[g.Point(float(x), float(y)) for x, y in polys[i]]).contains(P)) for i in picked]
        if r[0] != "ok" or r[1][1] != (len(picked), nv, 3) or r[1][2] != exp:
            ctx.disagree("C16:polygon-subcollection", desc, ("a collection of shape", (len(picked), nv, 3), exp), r[1:3] if r[0] != "ok" else r[1], replay=[desc])


def complex_segment_stream(ctx, n, prefix="C16"):
    """segments whose end points have complex coordinates: a + x (b − a) is contained exactly for real 0 <= x <= 1; for prefix C18
    also the intersection with a line through such a point"""
    import geometer as g
    rng = ctx.rng
    for k in range(n):
        dim = rng.choice([2, 2, 3])
        def cp():
            return np.array([complex(rng.randint(-3, 3), rng.randint(-3, 3)) for _ in range(dim)])
        a, b = cp(), cp()
        if np.allclose(a, b) or not (np.any(a.imag) or np.any(b.imag)):
            continue
        d = b - a
        if abs(d @ d) < 1e-9:
            continue                      # isotropic direction: the bilinear Gram determinant vanishes (outside the statement)
        ha, hb = np.append(a, 1.0), np.append(b, 1.0)
        gram = (ha @ ha) * (hb @ hb) - (ha @ hb) ** 2
        if abs(gram) < 1e-9:
            continue                      # the same for the homogeneous vectors: (a x b).(a x b) = 0, an isotropic supporting line
        xs = [0.0, 0.25, 0.5, 1.0, 1.5, 3.0, -0.5]
        exp = [0 <= x <= 1 for x in xs]
        desc = f"complex segment {a.tolist()} -> {b.tolist()}, parameters {xs}"
        ctx.case(desc)
        ctx.count("segment:complex")
        S = call_impl(lambda: g.Segment(g.Point(*a), g.Point(*b)))
        if S[0] != "ok":
            continue
        r = call_impl(lambda: [bool(S[1].contains(g.Point(*(a + x * d)))) for x in xs])
        if r[0] != "ok" or r[1] != exp:
            ctx.disagree(f"{prefix}:segment:complex:contains", desc, exp, r[1:3], replay=[desc])
            continue
        if prefix == "C18" and dim == 2:
            # a line through the point of parameter x (and a point off the supporting line): the point is returned iff 0 <= x <= 1
            # a point OFF the (complex) supporting line: a + n + (i/2) d with n = (-d_y, d_x), independent of d because d.d != 0
            off = a + np.array([-d[1], d[0]]) + 0.5 * d * 1j
            for x in (0.5, 1.5):
                p = a + x * d
                L = call_impl(lambda: g.Line(g.Point(*p), g.Point(*off)))
                if L[0] != "ok":
                    continue
                ri = call_impl(lambda: S[1].intersect(L[1]))
                got = [np.asarray(q.array) for q in ri[1]] if ri[0] == "ok" else None
                good = ri[0] == "ok" and ((x <= 1 and len(got) == 1 and proj_close_nn(np.append(p, 1.0), got[0], 1e-7)) or (x > 1 and len(got) == 0))
                if not good:
                    ctx.disagree(f"{prefix}:segment:complex:intersect", desc + f" line through parameter {x}", "the point" if x <= 1 else "[]",
                                 ri[1:3] if ri[0] != "ok" else [np.round(q, 5).tolist() for q in got], replay=[desc])
                    break


def moved_stream(ctx, n):
    """a polygon of space obtained by moving another one (translation out of its plane, rotation): membership must follow the
    moved vertices (cached supporting plane / edges)"""
    import geometer as g
    rng = ctx.rng
    for k in range(n):
        w, h = rng.randint(1, 4), rng.randint(1, 4)
        z0 = rng.randint(-2, 2)
        base = g.Polygon(g.Point(0.0, 0.0, float(z0)), g.Point(float(w), 0.0, float(z0)), g.Point(float(w), float(h), float(z0)), g.Point(0.0, float(h), float(z0)))
        shift = [float(rng.randint(-3, 3)), float(rng.randint(-3, 3)), float(rng.choice([-3, -2, 2, 3, 5]))]
        how = rng.choice(["translation", "plus-point", "rotation"])
        if how == "translation":
            moved = call_impl(lambda: g.translation(*shift) * base)
            img = lambda x, y: [x + shift[0], y + shift[1], z0 + shift[2]]
        elif how == "plus-point":
            moved = call_impl(lambda: base + g.Point(*shift))
            img = lambda x, y: [x + shift[0], y + shift[1], z0 + shift[2]]
        else:
            # quarter turn about the x-axis through the origin: (x, y, z) -> (x, z, -y) or (x, -z, y); decided from the image of one vertex
            moved = call_impl(lambda: g.rotation(np.pi / 2, axis=g.Point(1.0, 0.0, 0.0)) * base)
            v = np.real(np.asarray(moved[1].normalized_array))[2][:3] if moved[0] == "ok" else None
            sgn = 1.0 if v is not None and abs(v[1] - z0) < 1e-9 and abs(v[2] + h) < 1e-9 else -1.0
            img = lambda x, y: [x, sgn * z0, -sgn * y]
        desc = f"moved polygon ({how}) rectangle {w}x{h} at z={z0} shift={shift}"
        ctx.case(desc)
        ctx.count(f"moved:{how}")
        if moved[0] != "ok":
            ctx.disagree(f"C16:moved:{how}:error", desc, "a polygon", moved[1:3], replay=[desc])
            continue
        inside, outside, old = img(w / 2, h / 2), img(w + 1.0, h / 2), [w / 2, h / 2, float(z0)]
        r = call_impl(lambda: (bool(moved[1].contains(g.Point(*inside))), bool(moved[1].contains(g.Point(*outside))), bool(moved[1].contains(g.Point(*old)))))
        exp_old = all(abs(a - b) < 1e-9 for a, b in zip(old, inside))
        if r[0] != "ok" or r[1][0] is not True or r[1][1] is not False or (r[1][2] and not exp_old):
            ctx.disagree(f"C16:moved:{how}", desc, (True, False, exp_old), r[1:3], replay=[desc])


def moved2d_stream(ctx, n):
    """a polygon of the plane that has already answered a query is moved (translation, + Point) and asked again"""
    import geometer as g
    rng = ctx.rng
    for k in range(n):
        vs = [(0, 0), (4, 0), (4, 3), (2, 1), (0, 3)] if k % 2 else [(0, 0), (3, 0), (3, 2), (0, 2)]
        sh = [float(rng.choice([10, -7, 5])), float(rng.choice([20, 6, -9]))]
        inside = (1.0, 0.5)
        desc = f"2-D polygon {vs}: contains, then moved by {sh}, then contains"
        ctx.case(desc)
        ctx.count("moved2d")
        def run():
            P = g.Polygon(*[g.Point(float(x), float(y)) for x, y in vs])
            before = bool(P.contains(g.Point(*inside)))
            Q = g.translation(*sh) * P if k % 3 else P + g.Point(*sh)
            return before, bool(Q.contains(g.Point(inside[0] + sh[0], inside[1] + sh[1]))), bool(Q.contains(g.Point(*inside))), bool(P.contains(g.Point(*inside)))
        r = call_impl(run)
        if r[0] != "ok" or r[1] != (True, True, False, True):
            ctx.disagree("C16:moved2d", desc, (True, True, False, True), r[1:3], replay=[desc])


def correspondence(ctx):
    moved2d_stream(ctx, ctx.budget(20, 200))
    moved_stream(ctx, ctx.budget(40, 400))
    if ctx.tier == "thorough" and ctx.deadline is None:
        polygon_stream(ctx, 0, True)
    else:
        # quick tier, or the time-capped deep search after a broken obligation
        polygon_stream(ctx, 45 if ctx.tier != "thorough" else 400, False)
    segment_stream(ctx, ctx.budget(200, 3000))
    collection_stream(ctx, ctx.budget(60, 600))
    complex_segment_stream(ctx, ctx.budget(40, 400))
    subcollection_stream(ctx, ctx.budget(30, 300))
    from props import c17
    c17.collinear_start_stream(ctx, ctx.budget(10, 100), prefix="C16")
    element_stream(ctx, ctx.budget(40, 400))
    import colllib
    colllib.run(ctx, ctx.budget(200, 2500), prefix="C16",
                only={"polygon3.area-then-contains", "polygon3.contains", "segment.contains", "segment3.contains", "triangle.contains", "triangle.contains-edge"},
                patterns=["k", "1", "k1", "1k", "mixed"])      # collections with different numbers of axes: C04 (KF-C04-1)
    # membership does not depend on the representatives of the vertices / of the point (vertex-wise factors of both signs)
    from props import c03
    c03.directed(ctx, prefix="C16")


def replay(ctx, rec):
    correspondence(ctx)
