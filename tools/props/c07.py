"""C07 — transformations preserve incidence and commute with join and meet."""
from __future__ import annotations

import numpy as np

import jmlib
from geolib import Gen, Obj, call_impl, classify_impl
from proto import ET, proj_close_nn
from trlib import TM, XObj, gen_xobj, proj_equal_positions, rand_matrix, fdet

ID = "C07"
LEAN_FILES = ["Geo/Props/C07.lean"]
RULE = ("generic invertible exact matrices (not isometries; incl. shear/squeeze with |det|=1, scaled representatives, projective) x the "
        "12 join/meet scenarios (single and collection): t*join(..) vs join(t*..), t*meet(..) vs meet(t*..); contains of point/line in "
        "line/plane before vs after; quadric contains / is_tangent before vs after (points constructed on the quadric and off it); "
        "cross ratio of 4 collinear points and of 4 concurrent lines (also under maps sending the vertex to infinity); polytope vertices "
        "in order; non-trivial = non-degenerate configuration")
ASSUMPTIONS = ["projective comparison rtol 1e-9; predicates compared only when the exact decision quantity is 0 or clearly non-zero (lattice inputs)"]


def tr(T, o):
    return T * o


def commute_stream(ctx, n):
    import geometer as g
    gen = Gen(ctx.rng, gaussian=0)
    rng = ctx.rng
    for sc in jmlib.SCENARIOS:
        dim = 2 if "2" in sc else 3
        for k in range(n):
            if k % 4 == 3:
                op, args = jmlib.collection_case(gen, sc, degen_rate=0.0)
            else:
                op, args = jmlib.single_case(gen, sc)
            t = TM.of(rand_matrix(rng, dim + 1))
            T = t.impl()
            f = g.join if op == "join" else g.meet
            line = f"commute {sc} {t.enc()} " + jmlib.request(op, args)
            ctx.case(line)
            base = call_impl(f, *[a.impl() for a in args])
            if base[0] != "ok":
                ctx.count(f"{sc}:degenerate")
                continue
            lhs = call_impl(lambda: T * base[1])
            rhs = call_impl(lambda: f(*[T * a.impl() for a in args]))
            ctx.count(f"{sc}:ok")
            if lhs[0] != "ok" or rhs[0] != "ok":
                ctx.disagree(f"C07:commute:{op}:error", line, "both sides defined", (lhs[1:3] if lhs[0] != "ok" else "ok", rhs[1:3] if rhs[0] != "ok" else "ok"), replay=[line])
                continue
            kl, cl, nfl, al = classify_impl(lhs[1])
            kr, cr, nfr, ar = classify_impl(rhs[1])
            nt = al.ndim - nfl
            if (kl, cl, nfl) != (kr, cr, nfr) or not proj_equal_positions(al, ar, nt):
                ctx.disagree(f"C07:commute:{op}:{sc}", line, np.asarray(ar).tolist(), np.asarray(al).tolist(), replay=[line])


def incidence_stream(ctx, n):
    """contains / is_tangent are invariant"""
    import geometer as g
    from geometer.curve import Quadric
    gen = Gen(ctx.rng, gaussian=0)
    rng = ctx.rng
    for k in range(n):
        dim = rng.choice([2, 3])
        t = TM.of(rand_matrix(rng, dim + 1))
        T = t.impl()
        which = k % 4
        if which == 0:      # point in line / plane
            h = gen.hyper(dim, cplx=False)
            on = rng.random() < 0.5
            if on:
                # a point on h: combination of two points on h found by crossing with random vectors (2D) or solving
                hv = [e[0] for e in h.data.entries]
                i = max(range(dim + 1), key=lambda j: abs(hv[j]))
                p = [rng.randint(-3, 3) for _ in range(dim + 1)]
                num = sum(hv[j] * p[j] for j in range(dim + 1) if j != i)
                p = [x * hv[i] for x in p]
                p[i] = -num
                if not any(p):
                    continue
                P = g.Point(np.array([float(x) for x in p]))
            else:
                P = gen.point(dim, cplx=False).impl()
            H = h.impl()
            before = call_impl(lambda: bool(H.contains(P)))
            after = call_impl(lambda: bool((T * H).contains(T * P)))
            desc = f"contains {t.enc()} {h} {np.asarray(P.array).tolist()}"
        elif which == 1 and dim == 3:      # line in plane
            p, q, r = gen.point(3, cplx=False), gen.point(3, cplx=False), gen.point(3, cplx=False)
            Lr = call_impl(lambda: g.join(p.impl(), q.impl()))
            if Lr[0] != "ok":
                continue
            third = r if rng.random() < 0.5 else None
            Er = call_impl(lambda: g.join(p.impl(), q.impl(), r.impl())) if third is not None else call_impl(lambda: gen.hyper(3, cplx=False).impl())
            if Er[0] != "ok":
                continue
            L, E = Lr[1], Er[1]
            before = call_impl(lambda: bool(E.contains(L)))
            after = call_impl(lambda: bool((T * E).contains(T * L)))
            desc = f"contains-line {t.enc()} {p} {q} {r if third is not None else 'random plane'}"
        else:               # quadric: point on it / tangent hyperplane
            x = gen_xobj(gen, dim, kind="Q", coll=False)
            A = np.array(x.data.numpy(), dtype=float)
            if abs(np.linalg.det(A)) < 0.5:
                continue
            Q = x.impl()
            # a point of the quadric: intersect with a random line through two lattice points, if rational
            p0 = np.array([rng.randint(-3, 3) for _ in range(dim + 1)], dtype=float)
            onq = rng.random() < 0.6
            if onq:
                # make p0 lie on the quadric, keeping all magnitudes moderate (the library's tolerance is absolute):
                # p0 gets last coordinate 1 and the corner entry of A absorbs the value p0^T A p0
                p0[-1] = 1.0
                val = float(p0 @ A @ p0)
                A2 = A.copy()
                A2[-1, -1] -= val
                if abs(np.linalg.det(A2)) < 0.5 or np.max(np.abs(A2)) > 60:
                    continue
                Q = Quadric(A2.astype(int))
            P = g.Point(p0)
            if which == 2:
                before = call_impl(lambda: bool(Q.contains(P)))
                after = call_impl(lambda: bool((T * Q).contains(T * P)))
                desc = f"quadric-contains {t.enc()} {np.asarray(Q.array).tolist()} {p0.tolist()}"
            else:
                # tangent hyperplane at P (if on the quadric) or a random hyperplane
                Hh = Q.tangent(P) if onq else gen.hyper(dim, cplx=False).impl()
                before = call_impl(lambda: bool(Q.is_tangent(Hh)))
                after = call_impl(lambda: bool((T * Q).is_tangent(T * Hh)))
                desc = f"is-tangent {t.enc()} {np.asarray(Q.array).tolist()} {np.asarray(Hh.array).tolist()}"
        ctx.case(desc)
        ctx.count(desc.split(" ")[0] + ":" + str(before[1] if before[0] == "ok" else before[1]))
        if before[0] != "ok" or after[0] != "ok" or before[1] != after[1]:
            ctx.disagree(f"C07:{desc.split(' ')[0]}", desc, before[1:3], after[1:3], replay=[desc])


def dual_quadric_stream(ctx, n, prefix="C07"):
    """dual quadrics (type (2,0)) under transformations: t * (C.dual) is the dual of t * C, and a hyperplane tangent to C is
    contained in the dual before and after (the dual transforms with t on both indices, not with the inverse)"""
    import geometer as g
    rng = ctx.rng
    for k in range(n):
        dim = 2 if k % 3 else 3
        t = TM.of(rand_matrix(rng, dim + 1))
        T = t.impl()
        if dim == 2:
            cx, cy, r = rng.randint(-3, 3), rng.randint(-3, 3), rng.choice([5, 5, 13])
            C = g.Circle(g.Point(float(cx), float(cy)), float(r)) if k % 2 else g.Ellipse(g.Point(float(cx), float(cy)), float(r), float(rng.choice([2, 3])))
            on = g.Point(float(cx + (3 if r == 5 else 5)), float(cy + (4 if r == 5 else 12))) if k % 2 else g.Point(float(cx + r), float(cy))
        else:
            c = [rng.randint(-3, 3) for _ in range(3)]
            C = g.Sphere(g.Point(*[float(x) for x in c]), 7.0)
            on = g.Point(float(c[0] + 2), float(c[1] + 3), float(c[2] + 6))
        desc = f"dual quadric dim={dim} {t.enc()} {np.asarray(C.array).tolist()}"
        ctx.case(desc)
        ctx.count(f"dual-quadric:{dim}d")
        def run():
            D = C.dual
            h = C.tangent(on)
            TD, TC = T * D, T * C
            # "t * dual = dual of the image" is judged projectively with a relative tolerance (the library's == applies an absolute
            # tolerance to the entries, which misjudges matrices with entries of very different magnitude)
            same = proj_close_nn(np.asarray(TD.array, dtype=complex), np.asarray(TC.dual.array, dtype=complex), 1e-7)
            return (bool(D.is_dual), bool(TD.is_dual), bool(D.contains(h)), bool(TD.contains(T * h)), bool(same), bool(TC.is_tangent(T * h)),
                    type(TD).__name__ == type(D).__name__)
        r = call_impl(run)
        if r[0] != "ok" or r[1] != (True, True, True, True, True, True, True):
            ctx.disagree(f"{prefix}:dual-quadric", desc, "(dual, dual, tangent in dual, image tangent in image dual, t*dual = dual of image, is_tangent, same class)",
                         r[1:3], replay=[desc])


def axes_stream(ctx, n, prefix="C07"):
    """collection axes of transformation and object that differ in number: (A) transformations of shape (2, 1) on collections of
    coplanar lines of space of shape (m,): meet / join commute position by position over the (2, m) grid; (B) transformations of shape
    (k,) — also identity(dim, (k,)) and t**0 — on line / plane collections of shape (a, b, k): position (i, j, l) is T[l] applied
    to X[i, j, l], the identity changes nothing, (S*T)*X = S*(T*X)"""
    import geometer as g
    rng = ctx.rng
    def tmat(dim):
        while True:
            mm = np.array([[float(rng.randint(-2, 2)) for _ in range(dim + 1)] for _ in range(dim + 1)])
            if abs(np.linalg.det(mm)) > 0.5:
                return mm
    for k in range(n):
        if k % 2 == 0:
            m = rng.randint(2, 4)
            o = np.array([float(rng.randint(-2, 2)) for _ in range(3)])
            def lines():
                out = []
                while len(out) < m:
                    d = np.array([float(rng.randint(-3, 3)) for _ in range(3)])
                    if d.any():
                        out.append(np.asarray(g.Line(g.Point(*o), g.Point(*(o + d))).array))
                return out
            la, lb = lines(), lines()
            if any(np.linalg.matrix_rank(np.stack([x.ravel(), y.ravel()])) < 2 for x, y in zip(la, lb)):
                continue
            A, B = g.LineCollection(np.stack(la)), g.LineCollection(np.stack(lb))
            mats = [tmat(3), tmat(3)]
            T = g.TransformationCollection(np.stack(mats).reshape(2, 1, 4, 4))
            op = rng.choice(["meet", "join"])
            f = g.meet if op == "meet" else g.join
            desc = f"{op}(T*a, T*b) with T of shape (2,1), a, b coplanar lines through {o.tolist()} of shape ({m},); T={[x.tolist() for x in mats]}"
            ctx.case(desc)
            ctx.count(f"axes:transformed-{op}")
            r = call_impl(lambda: (f(T * A, T * B), T * f(A, B)))
            ok = r[0] == "ok" and np.asarray(r[1][0].array).shape[:2] == (2, m) and np.asarray(r[1][1].array).shape[:2] == (2, m)
            if ok:
                x, y = np.asarray(r[1][0].array), np.asarray(r[1][1].array)
                ok = all(proj_close_nn(x[i, j], y[i, j], 1e-7) for i in range(2) for j in range(m))
            if not ok:
                ctx.disagree(f"{prefix}:axes:transformed-{op}", desc, "equal at every position of the (2, m) grid",
                             r[1:3] if r[0] != "ok" else (np.asarray(r[1][0].array).shape, np.asarray(r[1][1].array).shape), replay=[desc])
        else:
            a, b, kk = rng.choice([(2, 2, 2), (2, 3, 2), (3, 2, 3), (2, 2, 3)])
            dim = rng.choice([2, 3])
            kind = rng.choice(["line", "plane"]) if dim == 3 else "line"
            arr = np.array([[float(rng.randint(-3, 3)) for _ in range(dim + 1)] for _ in range(a * b * kk)])
            arr[np.all(arr[:, :-1] == 0, axis=1), 0] = 1.0
            X = (g.PlaneCollection if (dim == 3) else g.LineCollection)(arr.reshape(a, b, kk, dim + 1))
            mats = [tmat(dim) for _ in range(kk)]
            T = g.TransformationCollection(np.stack(mats))
            S = g.TransformationCollection(np.stack([tmat(dim) for _ in range(kk)]))
            desc = f"transformations of shape ({kk},) on a {'plane' if dim == 3 else 'line'} collection of shape ({a},{b},{kk}) dim={dim}"
            ctx.case(desc)
            ctx.count("axes:abk")
            def run():
                I = g.identity(dim, (kk,))
                return (T * X, I * X, (T ** 0) * X, (S * T) * X, S * (T * X))
            r = call_impl(run)
            ok = r[0] == "ok" and all(np.asarray(z.array).shape == (a, b, kk, dim + 1) for z in r[1])
            if ok:
                tx, ix, px, stx, s_tx = (np.asarray(z.array) for z in r[1])
                xa = np.asarray(X.array)
                for i in range(a):
                    for j in range(b):
                        for l in range(kk):
                            single = np.asarray((g.Transformation(mats[l]) * type(X[i, j, l])(xa[i, j, l])).array)
                            ok = ok and proj_close_nn(tx[i, j, l], single, 1e-8) and proj_close_nn(ix[i, j, l], xa[i, j, l], 1e-9) \
                                and proj_close_nn(px[i, j, l], xa[i, j, l], 1e-9) and proj_close_nn(stx[i, j, l], s_tx[i, j, l], 1e-7)
            if not ok:
                ctx.disagree(f"{prefix}:axes:abk", desc, "position (i,j,l) = T[l] applied to X[i,j,l]; identity; associativity",
                             r[1:3] if r[0] != "ok" else [np.asarray(z.array).shape for z in r[1]], replay=[desc])


def crossratio_stream(ctx, n):
    import geometer as g
    from fractions import Fraction
    gen = Gen(ctx.rng, gaussian=0)
    rng = ctx.rng
    for k in range(n):
        dim = rng.choice([2, 3])
        t = TM.of(rand_matrix(rng, dim + 1))
        T = t.impl()
        a, b = gen.point(dim, cplx=False), gen.point(dim, cplx=False)
        xs = rng.sample([-3, -2, -1, 1, 2, 3, 4, 5], 4)
        av = np.array([float(e[0]) for e in a.data.entries])
        bv = np.array([float(e[0]) for e in b.data.entries])
        if np.linalg.matrix_rank(np.stack([av, bv])) < 2:
            continue
        pts = [g.Point(av + x * bv) for x in xs]
        expected = Fraction((xs[0] - xs[2]) * (xs[1] - xs[3]), (xs[0] - xs[3]) * (xs[1] - xs[2]))
        desc = f"crossratio dim={dim} {t.enc()} a={av.tolist()} b={bv.tolist()} xs={xs}"
        ctx.case(desc)
        c0 = call_impl(lambda: g.crossratio(*pts))
        c1 = call_impl(lambda: g.crossratio(*[T * p for p in pts]))
        ctx.count("crossratio:points")
        ok = c0[0] == "ok" and c1[0] == "ok" and np.isfinite(c0[1]) and abs(c0[1] - float(expected)) < 1e-7 * max(1, abs(float(expected))) \
            and abs(c1[1] - c0[1]) < 1e-7 * max(1, abs(c0[1]))
        if not ok:
            ctx.disagree("C07:crossratio:points", desc, float(expected), (c0[1:3], c1[1:3]), replay=[desc])
        if dim == 2 and k % 2 == 0:
            # four concurrent lines through a vertex o and the four points; also with t sending o to infinity
            o = gen.point(2, cplx=False, inf=False)
            ov = np.array([float(e[0]) for e in o.data.entries])
            if abs(np.linalg.det(np.stack([ov, av, bv]))) < 1e-9:
                continue
            lines = [g.join(g.Point(ov), p) for p in pts]
            l0 = call_impl(lambda: g.crossratio(*lines))
            ts = [T]
            # a projective map that sends o to infinity: last row orthogonal to o
            m = rand_matrix(rng, 3)
            for _ in range(20):
                row = [rng.randint(-3, 3) for _ in range(3)]
                row[2] = 0
                if ov[2] != 0 and any(row[:2]):
                    # choose row with row . o = 0
                    row = [ov[1], -ov[0], 0] if (ov[0] or ov[1]) else [1, 0, 0]
                    mm = [m[0], m[1], [Fraction(float(r)).limit_denominator(1000) for r in row]]
                    if fdet(mm) != 0:
                        ts.append(TM.of(mm).impl())
                        break
            for Tn in ts:
                l1 = call_impl(lambda: g.crossratio(*[Tn * l for l in lines]))
                ctx.count("crossratio:lines")
                if l0[0] == "ok" and np.isfinite(l0[1]) and abs(l0[1] - float(expected)) < 1e-7 * max(1, abs(float(expected))):
                    if not (l1[0] == "ok" and np.isfinite(l1[1]) and abs(l1[1] - l0[1]) < 1e-6 * max(1, abs(l0[1]))):
                        ctx.disagree("C07:crossratio:lines", desc + f" o={ov.tolist()} T={np.asarray(Tn.array).tolist()}", l0[1], l1[1:3], replay=[desc])
                else:
                    ctx.count("crossratio:lines:base-not-defined")     # C11's concern (base point = vertex)


def polytope_stream(ctx, n):
    import geometer as g
    gen = Gen(ctx.rng, gaussian=0)
    rng = ctx.rng
    for k in range(n):
        dim = rng.choice([2, 3])
        x = gen_xobj(gen, dim, kind=rng.choice(["S", "G"] + (["H"] if dim == 3 else [])), coll=False)
        t = TM.of(rand_matrix(rng, dim + 1))
        T, X = t.impl(), x.impl()
        desc = f"vertices {x.kind} {t.enc()} {x.enc()}"
        ctx.case(desc)
        ctx.count("vertices:" + x.kind)
        y = call_impl(lambda: T * X)
        if y[0] != "ok":
            ctx.disagree("C07:vertices:error", desc, "ok", y[1:3], replay=[desc])
            continue
        vs = X.vertices
        ws = y[1].vertices
        good = len(vs) == len(ws) and all(proj_equal_positions((T * v).array, w.array, 1) for v, w in zip(vs, ws))
        if not good:
            ctx.disagree(f"C07:vertices:{x.kind}", desc, [np.asarray((T * v).array).tolist() for v in vs], [np.asarray(w.array).tolist() for w in ws], replay=[desc])


def big_collection_stream(ctx, n):
    """collections of >= 64 transformations (the batched branch of utils.math.inv) with integer / float matrices:
    t * join(p, q) == join(t * p, t * q) and incidence at every position"""
    import geometer as g
    rng = ctx.rng
    for k in range(n):
        shape = rng.choice([(64,), (65,), (70,), (8, 8), (4, 16)])
        size = int(np.prod(shape))
        dtype = rng.choice([int, float])
        scale = 1 if dtype is int else rng.choice([1.0, 1e-3])
        mats = []
        while len(mats) < size:
            m = np.array([[rng.randint(-3, 3) for _ in range(3)] for _ in range(3)])
            if abs(round(np.linalg.det(m))) >= 2:
                mats.append(m)
        T = g.TransformationCollection(np.array(mats, dtype=dtype).reshape(shape + (3, 3)) * scale)
        p, q = g.Point(float(rng.randint(-4, 4)), float(rng.randint(-4, 4))), g.Point(float(rng.randint(-4, 4)), float(rng.randint(5, 9)))
        desc = f"{shape} transformations ({dtype.__name__}, scale {scale}) on the line through {p} {q}; first matrix {mats[0].tolist()}"
        ctx.case(desc)
        ctx.count(f"big-collection:{dtype.__name__}")
        r = call_impl(lambda: (T * g.join(p, q), g.join(T * p, T * q)))
        if r[0] != "ok":
            ctx.disagree(f"C07:big-collection:error:{r[1]}", desc, "lines", r[1:3], replay=[desc])
            continue
        a, b = np.asarray(r[1][0].array, dtype=float).reshape(size, 3), np.asarray(r[1][1].array, dtype=float).reshape(size, 3)
        bad = [i for i in range(size) if not proj_close_nn(a[i], b[i], 1e-8)]
        if bad:
            ctx.disagree(f"C07:big-collection:commute:{dtype.__name__}", desc, np.round(b[bad[0]], 6).tolist(), np.round(a[bad[0]], 6).tolist(), replay=[desc])


def edited_stream(ctx, n):
    """t * line, then t is edited in place through __setitem__ (the documented mutator of one's own object), then t * line again:
    the second image belongs to the edited matrix, incidence with the images of the points is kept"""
    import geometer as g
    rng = ctx.rng
    for k in range(n):
        while True:
            M = np.array([[float(rng.randint(-3, 3)) for _ in range(3)] for _ in range(3)])
            M2 = M.copy()
            M2[0, 2] = M2[0, 2] + rng.choice([4.0, -3.0])
            if abs(np.linalg.det(M)) > 0.5 and abs(np.linalg.det(M2)) > 0.5:
                break
        a, b = g.Point(float(rng.randint(-4, 4)), float(rng.randint(-4, 4))), g.Point(float(rng.randint(-4, 4)), float(rng.randint(5, 9)))
        desc = f"in-place edit of a transformation {M.tolist()} -> entry (0,2) = {M2[0, 2]}"
        ctx.case(desc)
        ctx.count("edited")
        def run():
            t = g.Transformation(M)
            l = g.join(a, b)
            first = t * l
            inv1 = t.inverse()
            t[0, 2] = M2[0, 2]
            return first, t * l, t * a, t * b, t.inverse(), inv1
        r = call_impl(run)
        if r[0] != "ok":
            ctx.disagree(f"C07:edited:error:{r[1]}", desc, "images", r[1:3], replay=[desc])
            continue
        first, second, ta, tb, inv2, inv1 = r[1]
        fresh = g.Transformation(M2)
        ok = proj_close_nn(np.asarray(second.array), np.asarray((fresh * g.join(a, b)).array), 1e-9) and bool(second.contains(ta)) and bool(second.contains(tb)) \
            and proj_close_nn(np.asarray(inv2.array), np.linalg.inv(M2), 1e-9) and proj_close_nn(np.asarray(inv1.array), np.linalg.inv(M), 1e-9)
        if not ok:
            ctx.disagree("C07:edited:stale", desc, "the image under the edited matrix", np.asarray(second.array).tolist(), replay=[desc])


def correspondence(ctx):
    from props import c06
    c06.collection_on_polytope_stream(ctx, ctx.budget(15, 150), prefix="C07")      # images of the original vertices, in order
    axes_stream(ctx, ctx.budget(40, 400))
    dual_quadric_stream(ctx, ctx.budget(45, 500))
    edited_stream(ctx, ctx.budget(20, 200))
    commute_stream(ctx, ctx.budget(30, 500))
    incidence_stream(ctx, ctx.budget(300, 5000))
    crossratio_stream(ctx, ctx.budget(150, 2500))
    polytope_stream(ctx, ctx.budget(100, 1500))
    import colllib
    colllib.run(ctx, ctx.budget(200, 2500), prefix="C07", only={"t*point", "t*line", "t*plane", "t*line3", "t*conic"})
    big_collection_stream(ctx, ctx.budget(6, 60))


def replay(ctx, rec):
    correspondence(ctx)
