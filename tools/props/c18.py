"""C18 — polytope intersections return exactly the common points."""
from __future__ import annotations

import itertools
from fractions import Fraction

import numpy as np

from geolib import call_impl
from proto import ET, dec_bools, dec_tens, proj_close_nn, run_driver
from props.c16 import AFFINE3, polygons, vt

ID = "C18"
LEAN_FILES = ["Geo/Props/C18.lean", "Geo/Props/C18b.lean"]
RULE = ("segment x segment in the plane (every pair of lattice segments on the 3x3 grid in the thorough tier: crossing, touching at "
        "endpoints, T-junctions, parallel, collinear overlapping / disjoint), in 3-space (coplanar crossing, skew, parallel), segment x line, "
        "segment x plane; convex and non-convex lattice polygons x transversal lines / segments through vertices, along edges, missing; 3-D "
        "polygons pierced inside / outside / through an edge / by an in-plane line; cuboids x lines through faces, edges, vertices, missing, "
        "segments ending inside; the expected common points are computed exactly (meets by the Lean model, membership by the S-layer); "
        "each common point must be returned exactly once and nothing else; non-trivial = operands whose supporting subspaces meet")
ASSUMPTIONS = ["returned points are matched projectively (1e-8)"]

Fr = Fraction


def fl(v):
    return np.array([float(x) for x in v])


def same(p, q):
    return proj_close_nn(fl(p), np.real_if_close(np.asarray(q, dtype=complex)), 1e-8)


def compare_sets(ctx, sig, desc, expected, got):
    """expected: list of exact homogeneous points; got: implementation result (list of points / collections)"""
    if got[0] != "ok":
        ctx.disagree(f"{sig}:error:{got[1]}", desc, [[str(x) for x in e] for e in expected], got[1:3], replay=[desc])
        return
    pts = []
    from geometer.point import PointTensor
    for x in got[1]:
        if not isinstance(x, PointTensor):
            ctx.disagree(f"{sig.split(':')[0]}:result-class", desc, "Point / PointCollection objects", type(x).__name__, replay=[desc])
            return
        arr = np.asarray(x.array)
        if arr.ndim == 1:
            pts.append(arr)
        else:
            pts.extend(list(arr.reshape(-1, arr.shape[-1])))
    used = [False] * len(pts)
    ok = True
    for e in expected:
        hit = [i for i, p in enumerate(pts) if not used[i] and same(e, p)]
        if len(hit) == 0:
            ok = False
            why = "missing"
            break
        used[hit[0]] = True
    else:
        if not all(used):
            ok = False
            extra = [p for i, p in enumerate(pts) if not used[i]]
            why = "duplicate" if any(same(e, extra[0]) for e in expected) else "spurious"
    if not ok:
        ctx.disagree(f"{sig}:{why}", desc, [[str(x) for x in e] for e in expected], [np.round(np.real_if_close(p), 6).tolist() for p in pts], replay=[desc])


def on_segment_batch(triples):
    """exact closed-segment membership from the S-layer (affine coordinate lists)"""
    ans = run_driver([f"spec.onsegment {vt(a)} {vt(b)} {vt(p)}" for a, b, p in triples])
    return [bool(dec_bools(x.split(" ")[1])) for x in ans]


def line_meet_2d(a, b, c, d):
    """intersection of lines ab and cd in the plane, exact; None if parallel"""
    r = [b[0] - a[0], b[1] - a[1]]
    s = [d[0] - c[0], d[1] - c[1]]
    den = r[0] * s[1] - r[1] * s[0]
    if den == 0:
        return None
    t = ((c[0] - a[0]) * s[1] - (c[1] - a[1]) * s[0]) / den
    return [a[0] + t * r[0], a[1] + t * r[1]]


def segseg_stream(ctx, n):
    import geometer as g
    rng = ctx.rng
    grid = [(x, y) for x in range(3) for y in range(3)]
    segs = [(p, q) for p, q in itertools.combinations(grid, 2)]
    pairs = list(itertools.product(segs, segs))
    if ctx.tier != "thorough":
        rng.shuffle(pairs)
        pairs = pairs[:n]
    else:
        ctx.exhaustive = True
    cand, triples = [], []
    for (a, b), (c, d) in pairs:
        a, b, c, d = ([Fr(t) for t in p] for p in (a, b, c, d))
        x = line_meet_2d(a, b, c, d)
        cand.append(x)
        if x is not None:
            triples += [(a, b, x), (c, d, x)]
    mem = on_segment_batch(triples)
    # the executable model of SegmentTensor.intersect (Geo/Shapes.lean:segIntersect; theorems T18_segIntersect_sound / _complete /
    # T18_parallel_none) on the same pairs: must agree with the specification-level expectation computed here
    mres = run_driver([f"m.segintersect {vt([Fr(t) for t in a])} {vt([Fr(t) for t in b])} {vt([Fr(t) for t in c])} {vt([Fr(t) for t in d])}"
                       for (a, b), (c, d) in pairs])
    k = 0
    for idx_, (((a, b), (c, d)), x) in enumerate(zip(pairs, cand)):
        if a == b or c == d:
            continue
        ok_x = x is not None and mem[k] and mem[k + 1]
        if x is not None:
            k += 2
        m = mres[idx_].split(" ")
        if m[1] == "none":
            good = not ok_x
        else:
            from proto import dec_tens
            v = [r for r, _ in dec_tens(m[1]).entries]
            good = ok_x and v[2] != 0 and [v[0] / v[2], v[1] / v[2]] == [Fr(t) for t in x]
        if not good:
            ctx.disagree("C18:model-vs-spec:segintersect", f"{a}-{b} x {c}-{d}", str(x) if ok_x else "none", mres[idx_], replay=[mres[idx_]])
            break
    ctx.count("model-vs-spec:segintersect", len(pairs))
    k = 0
    for ((a, b), (c, d)), x in zip(pairs, cand):
        if x is None:
            exp = []
            kind = "parallel-or-collinear"
        else:
            exp = [x + [Fr(1)]] if (mem[k] and mem[k + 1]) else []
            k += 2
            kind = "meeting-lines"
        desc = f"segment-segment {a}-{b} x {c}-{d}"
        ctx.case(desc, nontrivial=(x is not None))
        ctx.count("segseg:" + kind + (":hit" if exp else ":miss"))
        def hp(v):
            # any homogeneous representative of the endpoint (negative ones too)
            w = rng.choice([1, 1, 2, -1, -2])
            return g.Point(np.array([float(t) * w for t in v] + [float(w)]))
        S1 = g.Segment(hp(a), hp(b))
        S2 = g.Segment(hp(c), hp(d))
        if (a, b) == (c, d) or (a, b) == (d, c):
            continue
        compare_sets(ctx, f"C18:segseg:2d:{kind}", desc, exp, call_impl(lambda: S1.intersect(S2)))
        # segment x line (the supporting line of the second segment)
        if x is not None:
            expl = [x + [Fr(1)]] if mem[k - 2] else []
            compare_sets(ctx, "C18:segline:2d", desc + " (second as a line)", expl, call_impl(lambda: S1.intersect(g.Line(g.Point(*map(float, c)), g.Point(*map(float, d))))))


def seg3d_stream(ctx, n):
    import geometer as g
    rng = ctx.rng
    todo, triples = [], []
    for k in range(n):
        x = [Fr(rng.randint(-3, 3)) for _ in range(3)]
        u = [Fr(rng.randint(-2, 2)) for _ in range(3)]
        v = [Fr(rng.randint(-2, 2)) for _ in range(3)]
        if not any(np.cross(fl(u), fl(v))):
            continue
        kind = ["crossing", "crossing", "skew", "touching"][k % 4]
        s0, s1 = Fr(rng.randint(-3, 0)), Fr(rng.randint(0, 3))
        t0, t1 = Fr(rng.randint(-3, 1)), Fr(rng.randint(1, 3))
        if kind == "touching":
            t0 = Fr(0)
        if s0 == s1 or t0 == t1:
            continue
        a = [x[j] + s0 * u[j] for j in range(3)]
        b = [x[j] + s1 * u[j] for j in range(3)]
        c = [x[j] + t0 * v[j] for j in range(3)]
        d = [x[j] + t1 * v[j] for j in range(3)]
        if kind == "skew":
            w = np.cross(fl(u), fl(v))
            c = [c[j] + Fr(int(w[j])) for j in range(3)]
            d = [d[j] + Fr(int(w[j])) for j in range(3)]
        todo.append((kind, a, b, c, d, x, u))
        triples += [(a, b, x), (c, d, x)]
    mem = on_segment_batch(triples)
    for i, (kind, a, b, c, d, x, u) in enumerate(todo):
        exp = [x + [Fr(1)]] if (kind != "skew" and mem[2 * i] and mem[2 * i + 1]) else []
        desc = f"segment-segment-3d {kind} {[str(t) for t in a]}-{[str(t) for t in b]} x {[str(t) for t in c]}-{[str(t) for t in d]}"
        ctx.case(desc)
        ctx.count("segseg3d:" + kind + (":hit" if exp else ":miss"))
        S1 = g.Segment(g.Point(*map(float, a)), g.Point(*map(float, b)))
        S2 = g.Segment(g.Point(*map(float, c)), g.Point(*map(float, d)))
        compare_sets(ctx, f"C18:segseg:3d:{kind}", desc, exp, call_impl(lambda: S1.intersect(S2)))
        # the same against the supporting LINE of the second segment
        L2 = g.Line(g.Point(*map(float, c)), g.Point(*map(float, d)))
        expl = [x + [Fr(1)]] if (kind != "skew" and mem[2 * i]) else []
        compare_sets(ctx, f"C18:segline:3d:{kind}", desc + " (second as a line)", expl, call_impl(lambda: S1.intersect(L2)))
        # segment x plane through x with normal chosen so that the segment is transversal
        nrm = [Fr(rng.randint(-2, 2)) for _ in range(3)]
        dn = sum(nrm[j] * u[j] for j in range(3))
        if dn != 0:
            off = -sum(nrm[j] * x[j] for j in range(3))
            E = g.Plane(*map(float, nrm), float(off))
            expp = [x + [Fr(1)]] if mem[2 * i] else []
            compare_sets(ctx, "C18:segplane", desc + f" plane={[str(t) for t in nrm]},{off}", expp, call_impl(lambda: S1.intersect(E)))
        else:
            if any(nrm):
                off = -sum(nrm[j] * x[j] for j in range(3)) + 1          # parallel plane missing the segment
                E = g.Plane(*map(float, nrm), float(off))
                compare_sets(ctx, "C18:segplane:parallel", desc + f" parallel plane={[str(t) for t in nrm]},{off}", [], call_impl(lambda: S1.intersect(E)))


def polygon_stream(ctx, n):
    import geometer as g
    rng = ctx.rng
    polys = polygons(rng, n)
    for vs in polys:
        m = len(vs)
        V = [[Fr(x), Fr(y)] for x, y in vs]
        # transversal through two random half-lattice points (often through vertices / along edges)
        mode = rng.choice(["generic", "through-vertex", "along-edge", "miss"])
        if mode == "through-vertex":
            p = V[rng.randrange(m)]
            q = [Fr(rng.randint(-2, 8), 2), Fr(rng.randint(-2, 8), 2)]
        elif mode == "along-edge":
            i = rng.randrange(m)
            p, q = V[i], V[(i + 1) % m]
        elif mode == "miss":
            p, q = [Fr(-3), Fr(rng.randint(-2, 5))], [Fr(-2), Fr(rng.randint(-2, 5))]
        else:
            p = [Fr(rng.randint(-2, 8), 2), Fr(rng.randint(-2, 8), 2)]
            q = [Fr(rng.randint(-2, 8), 2), Fr(rng.randint(-2, 8), 2)]
        if p == q:
            continue
        cands, triples = [], []
        for i in range(m):
            a, b = V[i], V[(i + 1) % m]
            x = line_meet_2d(a, b, p, q)
            cands.append(x)
            if x is not None:
                triples += [(a, b, x), (p, q, x)]
        mem = on_segment_batch(triples)
        exp_line, exp_seg = [], []
        k = 0
        for x in cands:
            if x is None:
                continue
            one, onq = mem[k], mem[k + 1]
            k += 2
            if one and not any(x == e[:2] for e in exp_line):
                exp_line.append(x + [Fr(1)])
            if one and onq and not any(x == e[:2] for e in exp_seg):
                exp_seg.append(x + [Fr(1)])
        desc = f"polygon {vs} x line {[str(t) for t in p]}-{[str(t) for t in q]} ({mode})"
        ctx.case(desc)
        ctx.count(f"polygon2d:{mode}:{len(exp_line)}")
        poly = g.Polygon(*[g.Point(float(x), float(y)) for x, y in vs])
        L = g.Line(g.Point(*map(float, p)), g.Point(*map(float, q)))
        S = g.Segment(g.Point(*map(float, p)), g.Point(*map(float, q)))
        compare_sets(ctx, f"C18:polygon2d:line:{mode}", desc, exp_line, call_impl(lambda: poly.intersect(L)))
        # the compiled Lean model of Polygon.intersect(line) (Geo.Shapes.polyIntersectLine, about which T18_polyIntersectLine_sound is):
        # its points, duplicates removed, are the same exact set
        lcoef = [p[1] - q[1], q[0] - p[0], p[0] * q[1] - p[1] * q[0]]
        ans = run_driver(["m.polyintersectline " + " ".join(vt(v) for v in V) + " " + vt(lcoef)])[0].split(" ")
        ctx.count("model:polyintersectline")
        okm = ans[0] == "ok"
        if okm:
            ent = dec_tens(ans[1]).entries
            mpts = [[ent[3 * i + j][0] for j in range(3)] for i in range(len(ent) // 3)]
            okm = all(any(same(e, np.array([float(x) for x in mp])) for mp in mpts) for e in exp_line) and \
                all(any(same(e, np.array([float(x) for x in mp])) for e in exp_line) for mp in mpts)
        if not okm:
            ctx.disagree(f"C18:model:polyintersectline:{mode}", desc, [[str(x) for x in e] for e in exp_line], " ".join(ans)[:300], replay=[desc])
        compare_sets(ctx, f"C18:polygon2d:segment:{mode}", desc + " (as segment)", exp_seg, call_impl(lambda: poly.intersect(S)))
        # the same polygon in 3-space pierced by a line through the image of a chosen plane point
        u, v, o = rng.choice(AFFINE3)
        def emb(x, y):
            return [Fr(o[j]) + x * u[j] + y * v[j] for j in range(3)]
        poly3 = g.Polygon(*[g.Point(*map(float, emb(Fr(x), Fr(y)))) for x, y in vs])
        target = [Fr(rng.randint(-2, 8), 2), Fr(rng.randint(-2, 8), 2)]
        nrm = np.cross(u, v)
        X = emb(*target)
        w = [Fr(int(nrm[j])) + rng.randint(-1, 1) * u[j] for j in range(3)]
        if sum(w[j] * int(nrm[j]) for j in range(3)) == 0:
            continue
        A = [X[j] - 2 * w[j] for j in range(3)]
        B = [X[j] + w[j] for j in range(3)]
        inside = bool(dec_bools(run_driver(["spec.inpolygon " + " ".join(vt(t) for t in V) + " " + vt(target)])[0].split(" ")[1]))
        desc3 = f"polygon3d {vs} u={u} v={v} o={o} pierced at plane point {[str(t) for t in target]}"
        ctx.case(desc3)
        ctx.count("polygon3d:" + ("inside" if inside else "outside"))
        L3 = g.Line(g.Point(*map(float, A)), g.Point(*map(float, B)))
        compare_sets(ctx, "C18:polygon3d:line", desc3, [X + [Fr(1)]] if inside else [], call_impl(lambda: poly3.intersect(L3)))
        # the same polygon obtained by moving another one (translation out of its plane, rotation): cached plane / edges follow
        shift = [1.0, -2.0, 3.0]
        poly_a = g.Polygon(*[g.Point(*[float(c) - s for c, s in zip(emb(Fr(x), Fr(y)), shift)]) for x, y in vs])
        moved = call_impl(lambda: g.translation(*shift) * poly_a)
        if moved[0] == "ok":
            compare_sets(ctx, "C18:polygon3d:line:moved-polygon", desc3 + " (polygon obtained by translation)", [X + [Fr(1)]] if inside else [],
                         call_impl(lambda: moved[1].intersect(L3)))
        else:
            ctx.disagree("C18:polygon3d:translation-error", desc3, "a polygon", moved[1:3], replay=[desc3])
        S3 = g.Segment(g.Point(*map(float, A)), g.Point(*map(float, B)))
        compare_sets(ctx, "C18:polygon3d:segment", desc3 + " (segment through)", [X + [Fr(1)]] if inside else [], call_impl(lambda: poly3.intersect(S3)))
        S4 = g.Segment(g.Point(*map(float, A)), g.Point(*[float(X[j] - w[j]) for j in range(3)]))
        compare_sets(ctx, "C18:polygon3d:segment-short", desc3 + " (segment ending before the plane)", [], call_impl(lambda: poly3.intersect(S4)))
        # a line inside the supporting plane: no spurious points
        Lin = g.Line(g.Point(*map(float, emb(Fr(0), Fr(1, 2)))), g.Point(*map(float, emb(Fr(3), Fr(5, 2)))))
        compare_sets(ctx, "C18:polygon3d:in-plane-line", desc3 + " (line in the plane)", [], call_impl(lambda: poly3.intersect(Lin)))


def cuboid_stream(ctx, n):
    import geometer as g
    rng = ctx.rng
    for k in range(n):
        o = [Fr(rng.randint(-3, 3)) for _ in range(3)]
        w = [Fr(rng.randint(1, 3)) for _ in range(3)]
        cube = g.Cuboid(g.Point(*map(float, o)), g.Point(float(o[0] + w[0]), float(o[1]), float(o[2])), g.Point(float(o[0]), float(o[1] + w[1]), float(o[2])),
                        g.Point(float(o[0]), float(o[1]), float(o[2] + w[2])))
        mode = rng.choice(["generic", "generic", "through-vertex", "along-edge-direction", "miss", "diagonal"])
        if mode == "through-vertex":
            p = [o[j] + rng.choice([0, 1]) * w[j] for j in range(3)]
            d = [Fr(rng.randint(-2, 2)) for _ in range(3)]
        elif mode == "diagonal":
            p, d = list(o), list(w)
        elif mode == "miss":
            p = [o[0] - 5, o[1] - 5, o[2]]
            d = [Fr(0), Fr(0), Fr(1)]
        elif mode == "along-edge-direction":
            p = [o[j] + Fr(rng.randint(0, 2), 2) * w[j] for j in range(3)]
            d = [Fr(0), Fr(0), Fr(1)]
        else:
            p = [o[j] + Fr(rng.randint(-1, 3), 2) * w[j] for j in range(3)]
            d = [Fr(rng.randint(-2, 2)) for _ in range(3)]
        if not any(d):
            continue
        # exact slab clipping: parameters where the line enters / leaves the closed box
        pts = []
        for ax in range(3):
            if d[ax] == 0:
                continue
            for face in (o[ax], o[ax] + w[ax]):
                t = (face - p[ax]) / d[ax]
                x = [p[j] + t * d[j] for j in range(3)]
                if all(o[j] <= x[j] <= o[j] + w[j] for j in range(3)) and x not in pts:
                    pts.append(x)
        desc = f"cuboid o={[str(t) for t in o]} w={[str(t) for t in w]} line p={[str(t) for t in p]} d={[str(t) for t in d]} ({mode})"
        ctx.case(desc)
        ctx.count(f"cuboid:{mode}:{len(pts)}")
        L = g.Line(g.Point(*map(float, p)), g.Point(*[float(p[j] + d[j]) for j in range(3)]))
        compare_sets(ctx, f"C18:cuboid:line:{mode}", desc, [x + [Fr(1)] for x in pts], call_impl(lambda: cube.intersect(L)))
        # after reading the area (a query) the answer must be the same
        _ = call_impl(lambda: cube.area)
        compare_sets(ctx, f"C18:cuboid:line-after-area:{mode}", desc + " after .area", [x + [Fr(1)] for x in pts], call_impl(lambda: cube.intersect(L)))


def collection_stream(ctx, n):
    """collections of polygons of space intersected element-wise with collections of segments / with one line: exactly the
    piercing points of the pairs (coplanar pairs and segments that stop short contribute nothing); pierce points level with a
    vertex of the projected polygon included"""
    import geometer as g
    rng = ctx.rng
    for k in range(n):
        kind = rng.choice(["mixed-segments", "vertex-level-line"])
        if kind == "mixed-segments":
            w, h = rng.randint(2, 4), rng.randint(2, 4)
            zs = rng.sample([0, 1, 2, 3, 5], 3)
            rect = lambda z: np.array([[0.0, 0, z, 1], [w, 0, z, 1], [w, h, z, 1], [0, h, z, 1]])
            P = g.PolygonCollection(np.array([rect(z) for z in zs]))
            cx, cy = w / 2, h / 2
            segs = [np.array([[-1.0, cy, zs[0], 1], [w + 1.0, cy, zs[0], 1]]),                    # in the plane of polygon 0
                    np.array([[cx, cy, zs[1] - 2.0, 1], [cx, cy, zs[1] - 0.5, 1]]),               # stops short of polygon 1
                    np.array([[cx, cy, zs[2] - 2.0, 1], [cx, cy, zs[2] + 3.0, 1]])]               # pierces polygon 2
            order = [0, 1, 2]
            rng.shuffle(order)
            P = g.PolygonCollection(np.array([rect(zs[i]) for i in order]))
            S = g.SegmentCollection(np.array([segs[i] for i in order]))
            exp = [[Fr(cx), Fr(cy), Fr(zs[2]), Fr(1)]]
            desc = f"polygon collection x segment collection rect {w}x{h} z={zs} order={order}"
            ctx.case(desc)
            ctx.count("collection:mixed-segments")
            for name, f in (("P.intersect(S)", lambda: P.intersect(S)), ("S.intersect(P)", lambda: S.intersect(P))):
                compare_sets(ctx, f"C18:collection:mixed-segments", desc + " " + name, exp, call_impl(f))
        else:
            # isosceles triangles pierced on their symmetry axis: the projected pierce point is level with the apex
            b, hh = rng.randint(1, 3), rng.randint(2, 4)
            zs = rng.sample([0, 1, 2, 4], 2)
            tri = lambda z: np.array([[0.0, 0, z, 1], [2.0 * b, 0, z, 1], [float(b), hh, z, 1]])
            P = g.PolygonCollection(np.array([tri(z) for z in zs]))
            y = Fr(rng.choice([1, 2, hh * 2 - 1]), 2)
            L = g.Line(g.Point(float(b), float(y), -5.0), g.Point(float(b), float(y), 7.0))
            exp = [[Fr(b), y, Fr(z), Fr(1)] for z in zs]
            desc = f"triangle collection base {2 * b} height {hh} at z={zs} pierced by the vertical line through ({b}, {y})"
            ctx.case(desc)
            ctx.count("collection:vertex-level-line")
            compare_sets(ctx, "C18:collection:vertex-level-line", desc, exp, call_impl(lambda: P.intersect(L)))
            # the same question after the measures of the collection have been read (planes not through the origin): same answer
            def again():
                _ = (P.area, list(P.vertices))
                return P.intersect(L)
            compare_sets(ctx, "C18:collection:after-area", desc + " asked again after .area", exp, call_impl(again))
            singles = []
            for z in zs:
                r = call_impl(lambda: g.Polygon(tri(z)).intersect(L))
                singles += [[Fr(b), y, Fr(z), Fr(1)]] if r[0] == "ok" and len(r[1]) == 1 else []
            if len(singles) != len(exp):
                ctx.disagree("C18:collection:vertex-level-line:single", desc, "one point per triangle", f"{len(singles)} points from the single polygons", replay=[desc])


def moved2d_stream(ctx, n):
    """intersect on a polygon of the plane, then move it, then intersect again; and a polygon of space whose vertices carry
    different homogeneous factors pierced level with a vertex"""
    import geometer as g
    rng = ctx.rng
    for k in range(n):
        w, h = rng.randint(2, 5), rng.randint(2, 4)
        sh = [float(rng.choice([10, -7, 5])), float(rng.choice([0, 6, -9]))]
        y = Fr(rng.randint(1, 2 * h - 1), 2)
        desc = f"rectangle {w}x{h}: intersect y={y}, then moved by {sh}, then intersect y={y}+{sh[1]}"
        ctx.case(desc)
        ctx.count("moved2d")
        def run():
            P = g.Polygon(g.Point(0.0, 0.0), g.Point(float(w), 0.0), g.Point(float(w), float(h)), g.Point(0.0, float(h)))
            first = P.intersect(g.Line(0.0, 1.0, -float(y)))
            Q = g.translation(*sh) * P
            return first, Q.intersect(g.Line(0.0, 1.0, -(float(y) + sh[1])))
        r = call_impl(run)
        exp = [[Fr(0) + Fr(sh[0]), y + Fr(sh[1]), Fr(1)], [Fr(w) + Fr(sh[0]), y + Fr(sh[1]), Fr(1)]]
        compare_sets(ctx, "C18:moved2d", desc, exp, ("ok", r[1][1]) if r[0] == "ok" else r)
        # mixed vertex factors in space, pierce point level with a vertex of the projected polygon
        z = float(rng.randint(1, 4))
        fac = [rng.choice([1.0, -1.0, 2.0, -0.5]) for _ in range(4)]
        verts = [np.array([0.0, 0, z, 1]), np.array([2.0, -2, z, 1]), np.array([4.0, 0, z, 1]), np.array([2.0, 2, z, 1])]       # a diamond
        D = g.Polygon(np.array([v * f for v, f in zip(verts, fac)]))
        px = rng.choice([1.0, 2.0, 3.0, 5.0, -1.0])
        L = g.Line(g.Point(px, 0.0, z - 3.0), g.Point(px, 0.0, z + 2.0))
        expd = [[Fr(px), Fr(0), Fr(z), Fr(1)]] if 0 <= px <= 4 else []
        descd = f"diamond at z={z} with vertex factors {fac} pierced at ({px}, 0)"
        ctx.case(descd)
        ctx.count("mixed-factors-3d")
        compare_sets(ctx, "C18:mixed-factors-3d", descd, expd, call_impl(lambda: D.intersect(L)))


def partly_in_plane_stream(ctx, n):
    """a SINGLE polygon of space against a line / segment collection of which one member lies in the polygon's plane, and polygon
    collections / cuboids against a SINGLE segment that lies in the plane of some faces: the in-plane pairs contribute nothing, the
    other pairs their piercing points — what the pairwise single calls return"""
    import geometer as g
    rng = ctx.rng
    for k in range(n):
        a, b, h = rng.randint(2, 4), rng.randint(2, 4), float(rng.randint(-2, 2))
        sq = [(0.0, 0.0), (float(a), 0.0), (float(a), float(b)), (0.0, float(b))]
        poly = g.Polygon(*[g.Point(x, y, h) for x, y in sq])
        px, py = a / 2, b / 2
        pierce = (g.Point(px, py, h - 1), g.Point(px, py, h + 1))
        inplane = (g.Point(0.5, 0.5, h), g.Point(a + 3.0, 0.5, h))
        miss = (g.Point(a + 2.0, py, h - 1), g.Point(a + 2.0, py, h + 1))
        members = [pierce, inplane, miss]
        rng.shuffle(members)
        exp = [[px, py, h, 1.0]]
        for kind in ("lines", "segments"):
            coll = g.LineCollection([g.Line(p, q) for p, q in members]) if kind == "lines" else g.SegmentCollection([g.Segment(p, q) for p, q in members])
            desc = f"single polygon {sq} at z={h} x {kind} collection [piercing, in the plane, missing] in some order"
            ctx.case(desc)
            ctx.count("partly-in-plane:polygon-x-" + kind)
            compare_sets(ctx, "C18:partly-in-plane:polygon-x-" + kind, desc, [[Fr(x).limit_denominator(1000) for x in e] for e in exp], call_impl(lambda: poly.intersect(coll)))
        # a cuboid / polygon collection against one segment lying in the plane of its bottom face and leaving through a side face
        cube = g.Cuboid(g.Point(0.0, 0.0, h), g.Point(float(a), 0.0, h), g.Point(0.0, float(b), h), g.Point(0.0, 0.0, h + 2.0))
        seg = g.Segment(g.Point(px, py, h), g.Point(a + 3.0, py, h))
        desc = f"cuboid [0,{a}]x[0,{b}]x[{h},{h + 2}] x single segment in the plane of its bottom face"
        ctx.case(desc)
        ctx.count("partly-in-plane:cuboid-x-segment")
        compare_sets(ctx, "C18:partly-in-plane:cuboid-x-segment", desc, [[Fr(a), Fr(py).limit_denominator(1000), Fr(h).limit_denominator(1000), Fr(1)]], call_impl(lambda: cube.intersect(seg)))
        pc = g.PolygonCollection([np.asarray(poly.array), np.asarray((g.translation(0.0, 0.0, 1.0) * poly).array)])
        seg2 = g.Segment(g.Point(px, py, h), g.Point(px, py, h + 2.0))        # starts in the first polygon's plane?? no: it pierces the second, touches the first at its end point
        seg3 = g.Segment(g.Point(0.5, 0.5, h), g.Point(a + 3.0, 0.5, h))      # lies in the plane of the first polygon, parallel to the second
        desc = f"two parallel polygons x single segment in the plane of the first"
        ctx.case(desc)
        ctx.count("partly-in-plane:collection-x-segment")
        compare_sets(ctx, "C18:partly-in-plane:collection-x-segment", desc, [], call_impl(lambda: pc.intersect(seg3)))


def correspondence(ctx):
    partly_in_plane_stream(ctx, ctx.budget(12, 120))
    from props import c16 as _c16
    _c16.complex_segment_stream(ctx, ctx.budget(40, 400), prefix="C18")
    import colllib as _cl
    _cl.run(ctx, ctx.budget(60, 600), prefix="C18", only={"segment3.intersect-segment"}, patterns=["k", "k1", "1k"])
    moved2d_stream(ctx, ctx.budget(20, 200))
    collection_stream(ctx, ctx.budget(30, 300))
    segseg_stream(ctx, ctx.budget(250, 0))
    seg3d_stream(ctx, ctx.budget(160, 3000))
    polygon_stream(ctx, ctx.budget(60, 1200))
    cuboid_stream(ctx, ctx.budget(60, 1200))


def replay(ctx, rec):
    correspondence(ctx)
