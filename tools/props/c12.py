"""C12 — queries are pure: no call changes operands, shared constants or later answers."""
from __future__ import annotations

import copy
import math

import numpy as np

from geolib import call_impl

ID = "C12"
LEAN_FILES = ["Geo/Props/C12.lean"]
RULE = ("random histories (quick 120 x 30 ops, thorough 2000 x 45) over a shared pool of points, lines, planes, conics, circles, spheres, "
        "cones, segments, polygons (2-D, 3-D, collections), cuboids, transformations (single and collections, 2-D and 3-D, int and float "
        "arrays, homogeneous scales != 1); ~70 public operations and property reads; after EVERY call: byte-wise snapshot comparison of the "
        "coordinate arrays and cached attributes (_line, _plane, is_dual, pdim and the arrays inside them) of every pool object, of I, J, infty, "
        "infty_plane, absolute_conic and of the Levi-Civita / Kronecker caches; every query is re-asked at the end of the history and "
        "on deep copies taken before the history: answers must coincide; failing histories are shrunk to a shortest prefix + culprit; "
        "non-trivial = history with >= 5 successful calls")
ASSUMPTIONS = ["answers are compared with numpy.array_equal / allclose(1e-12) after canonical flattening"]


# ------------------------------------------------------------------------------------------------ pool

def make_pool(rng):
    import geometer as g
    from geometer.curve import Quadric, QuadricCollection

    def rp(dim, kind="float"):
        v = [rng.randint(-4, 4) for _ in range(dim)]
        w = rng.choice([1, 1, 2, -1, 3])
        arr = np.array([x * w for x in v] + [w])
        return g.Point(arr.astype(float) if kind == "float" else arr)
    pool = {}
    pool["p2a"], pool["p2b"], pool["p2c"] = rp(2), rp(2, "int"), rp(2)
    pool["p3a"], pool["p3b"], pool["p3c"] = rp(3), rp(3, "int"), rp(3)
    pool["pc2"] = g.PointCollection(np.array([[rng.randint(-3, 3) * w, rng.randint(-3, 3) * w, w] for w in (1.0, 2.0, -1.0)]))
    pool["pc3"] = g.PointCollection(np.array([[rng.randint(-3, 3), rng.randint(-3, 3), rng.randint(-3, 3), 1] for _ in range(3)]).astype(float) * 2.0)
    pool["l2a"] = g.Line(np.array([rng.randint(1, 3), rng.randint(-3, 3), rng.randint(-5, 5)], dtype=float))
    pool["l2b"] = g.Line(np.array([rng.randint(-3, 3), rng.randint(1, 3), rng.randint(-5, 5)]))
    pool["lc2"] = g.LineCollection(np.array([[1.0, 2.0, -3.0], [0.0, 1.0, 4.0]]))
    pool["e3a"] = g.Plane(np.array([rng.randint(1, 3), rng.randint(-3, 3), rng.randint(-3, 3), rng.randint(-6, 6)], dtype=float))
    pool["e3b"] = g.Plane(np.array([rng.randint(-3, 3), rng.randint(1, 3), rng.randint(-3, 3), rng.randint(-6, 6)]))
    pool["l3a"] = g.Line(g.Point(1.0, 2.0, 3.0), g.Point(float(rng.randint(-3, 0)), 1.0, -1.0))
    pool["l3b"] = g.Line(g.Point(1.0, 2.0, 3.0), g.Point(2.0, float(rng.randint(3, 5)), 1.0))
    pool["conic"] = g.Conic(np.array([[2, 1, 0], [1, -1, 1], [0, 1, 3]], dtype=float))
    pool["circle"] = g.Circle(g.Point(float(rng.randint(-3, 3)), float(rng.randint(-3, 3))), float(rng.randint(2, 5)))
    pool["sphere"] = g.Sphere(g.Point(float(rng.randint(-3, 3)), 1.0, -2.0), float(rng.randint(2, 4)))
    pool["cone"] = g.Cone(g.Point(1.0, 0.0, 2.0), g.Point(1.0, 2.0, 3.0), 1.5)
    pool["qc"] = QuadricCollection(np.stack([np.asarray(pool["conic"].array), np.asarray(pool["circle"].array)]))
    pool["seg2"] = g.Segment(g.Point(np.array([0.0, 0.0, 2.0])), g.Point(4.0, 2.0))
    pool["seg3"] = g.Segment(g.Point(0.0, 1.0, 2.0), g.Point(np.array([6.0, 4.0, 2.0, 2.0])))
    pool["segc"] = g.SegmentCollection(np.array([[[0.0, 0.0, 1.0], [2.0, 2.0, 1.0]], [[1.0, 0.0, 1.0], [1.0, 3.0, 1.0]]]))
    pool["poly2"] = g.Polygon(g.Point(0.0, 0.0), g.Point(4.0, 0.0), g.Point(4.0, 3.0), g.Point(2.0, 1.0), g.Point(0.0, 3.0))
    o = [float(rng.randint(1, 4)), float(rng.randint(-3, 3)), float(rng.randint(2, 5))]
    pool["poly3"] = g.Polygon(g.Point(*o), g.Point(o[0] + 2, o[1], o[2] + 1), g.Point(o[0] + 2, o[1] + 2, o[2] + 1), g.Point(o[0], o[1] + 2, o[2]))
    pool["polyc3"] = g.PolygonCollection(np.array([[[1.0, 0, 2, 1], [3, 0, 2, 1], [3, 2, 3, 1], [1, 2, 3, 1]], [[0.0, 1, 5, 1], [2, 1, 5, 1], [2, 3, 5, 1], [0, 3, 5, 1]]]))
    pool["tri"] = g.Triangle(g.Point(0.0, 0.0), g.Point(3.0, 0.0), g.Point(1.0, 3.0))
    pool["cube"] = g.Cuboid(g.Point(1.0, 1.0, 2.0), g.Point(3.0, 1.0, 2.0), g.Point(1.0, 4.0, 2.0), g.Point(1.0, 1.0, 3.0))
    pool["t2"] = g.Transformation(np.array([[2.0, 1, 0], [1, 3, 1], [0, 1, 1]]))
    pool["t3"] = g.Transformation(np.array([[2, 1, 0, 1], [1, 3, 1, 0], [0, 1, 1, 2], [1, 0, 0, 1]]))
    pool["tc2"] = g.TransformationCollection(np.array([[[1.0, 2, 0], [0, 1, 0], [0, 0, 1]], [[0.0, -1, 2], [1, 0, 1], [0, 0, 1]]]))
    return pool


def ops_table():
    import geometer as g
    P2, P3 = ["p2a", "p2b", "p2c"], ["p3a", "p3b", "p3c"]
    T = []

    def add(name, f, *choices):
        T.append((name, f, choices))
    add("join2", lambda a, b: g.join(a, b), P2, P2)
    add("join3", lambda a, b: g.join(a, b), P3, P3)
    add("join3x3", lambda a, b, c: g.join(a, b, c), P3, P3, P3)
    add("meet2", lambda a, b: g.meet(a, b), ["l2a", "l2b"], ["l2a", "l2b", "lc2"])
    add("meet3", lambda a, b: g.meet(a, b), ["e3a", "e3b"], ["e3a", "e3b", "l3a"])
    add("meetL3", lambda a, b: g.meet(a, b), ["l3a"], ["l3b"])
    add("joinL3", lambda a, b: g.join(a, b), ["l3a"], ["l3b", "p3a"])
    add("joincoll", lambda a, b: g.join(a, b), ["pc2"], P2)
    add("contains", lambda s, p: s.contains(p), ["l2a", "l2b", "lc2"], P2 + ["pc2"])
    add("contains3", lambda s, p: s.contains(p), ["e3a", "e3b", "l3a"], P3 + ["pc3"])
    add("dist2", lambda a, b: g.dist(a, b), P2 + ["l2a", "seg2", "poly2"], P2)
    add("dist3", lambda a, b: g.dist(a, b), P3 + ["e3a", "l3a", "seg3", "poly3", "cube"], P3)
    add("distEE", lambda a: g.dist(a, a.parallel(g.Point(1.0, 2.0, 3.0))), ["e3a", "e3b"])
    add("angle", lambda a, b, c: g.angle(a, b, c), P2, P2, P2)
    add("angle3", lambda a, b, c: g.angle(a, b, c), P3, P3, P3)
    add("angleL", lambda a, b: g.angle(a, b), ["l2a"], ["l2b"])
    add("angleE", lambda a, b: g.angle(a, b), ["e3a"], ["e3b"])
    add("perp", lambda s, p: s.perpendicular(p), ["l2a", "l2b", "e3a"], P2)
    add("perp3", lambda s, p: s.perpendicular(p), ["e3a", "e3b", "l3a"], P3)
    add("parallel", lambda s, p: s.parallel(p), ["l2a", "l2b"], P2)
    add("project", lambda s, p: s.project(p), ["l2a", "l2b", "lc2"], P2)
    add("project3", lambda s, p: s.project(p), ["e3a", "l3a"], P3 + ["pc3"])
    add("mirror", lambda s, p: s.mirror(p), ["l2a", "l2b"], P2 + ["pc2"])
    add("mirror3", lambda s, p: s.mirror(p), ["e3a", "e3b", "l3a"], P3)
    add("is_perp", lambda a, b: g.is_perpendicular(a, b), ["l2a"], ["l2b"])
    add("is_par", lambda a, b: a.is_parallel(b), ["l2a", "e3a"], ["l2b", "e3b"])
    add("is_cocircular", lambda a, b, c: g.is_cocircular(a, b, c, g.Point(1.0, 1.0)), P2, P2, P2)
    add("is_collinear", lambda a, b, c: g.is_collinear(a, b, c), P2, P2, P2)
    add("bisectors", lambda a, b: g.angle_bisectors(a, b), ["l2a"], ["l2b"])
    add("crossratio", lambda a, b: g.crossratio(a, b, a + b, a + 2 * b), P2, P2)
    add("harmonic", lambda a, b: g.harmonic_set(a, b, a + b), P2 + P3, P2 + P3)
    add("props-line", lambda l: (l.base_point, l.direction, l.basis_matrix, l.general_point), ["l2a", "l2b", "lc2", "l3a"])
    add("props-plane", lambda e: (e.basis_matrix, e.general_point, e.isinf), ["e3a", "e3b"])
    add("props-point", lambda p: (p.isinf, p.isreal, p.normalized_array, repr(p)), P2 + P3 + ["pc2", "pc3"])
    add("covariant", lambda l: (l.covariant_tensor, l.contravariant_tensor), ["l3a", "l3b"])
    add("arith", lambda a, b: (a + b, a - b, a * 2, a / 2, -a), P2 + ["pc2"], P2)
    add("arith3", lambda a, b: (a + b, a - b, a * 3, a / 2), P3 + ["pc3", "seg3"], P3)
    add("eq", lambda a, b: (a == b, a == a), P2 + ["l2a", "seg2", "poly2", "conic"], P2 + ["l2a", "seg2", "poly2", "conic"])
    add("q-contains", lambda q, p: q.contains(p), ["conic", "circle", "qc"], P2 + ["pc2"])
    add("q-contains3", lambda q, p: q.contains(p), ["sphere", "cone"], P3 + ["pc3"])
    add("q-intersect", lambda q, l: q.intersect(l), ["conic", "circle"], ["l2a", "l2b"])
    add("q-intersect3", lambda q, l: q.intersect(l), ["sphere", "cone"], ["l3a", "l3b"])
    add("q-conic-conic", lambda a, b: a.intersect(b), ["conic"], ["circle"])
    add("q-tangent", lambda q, p: q.tangent(p), ["conic", "circle"], P2)
    add("q-polar", lambda q, p: q.polar(p), ["conic", "circle"], P2)
    add("q-dual", lambda q: (q.dual, q.is_degenerate), ["conic", "circle", "sphere"])
    add("q-is_tangent", lambda q, l: q.is_tangent(l), ["conic", "circle"], ["l2a", "l2b"])
    add("q-props", lambda q: (q.center, q.radius, q.area), ["circle", "sphere"])
    add("q-volume", lambda q: q.volume, ["sphere"])
    add("q-foci", lambda q: q.foci, ["conic", "circle"])
    add("q-components", lambda q: g.Conic.from_lines(q, q.parallel(g.Point(5.0, 5.0))).components, ["l2a", "l2b"])
    add("q-move", lambda q, p: (q + p, q - p), ["conic", "circle"], P2)
    add("q-move3", lambda q, p: (q + p), ["sphere", "cone"], P3)
    add("seg-contains", lambda s, p: s.contains(p), ["seg2", "segc"], P2 + ["pc2"])
    add("seg-contains3", lambda s, p: s.contains(p), ["seg3"], P3)
    add("seg-props", lambda s: (s.midpoint, s.length, s.vertices, s.facets), ["seg2", "seg3", "segc"])
    add("seg-intersect", lambda s, o: s.intersect(o), ["seg2"], ["l2a", "l2b", "seg2", "poly2"])
    add("seg-intersect3", lambda s, o: s.intersect(o), ["seg3"], ["e3a", "e3b", "poly3", "cube"])
    add("poly-contains", lambda s, p: s.contains(p), ["poly2", "tri"], P2 + ["pc2"])
    add("poly-contains3", lambda s, p: s.contains(p), ["poly3", "polyc3"], P3)
    add("poly-area", lambda s: s.area, ["poly2", "poly3", "polyc3", "tri", "cube"])
    add("poly-centroid", lambda s: s.centroid, ["poly2", "poly3", "tri"])
    add("poly-props", lambda s: (s.vertices, s.edges, s.facets, s.angles), ["poly2", "poly3", "tri"])
    add("poly-intersect", lambda s, o: s.intersect(o), ["poly2", "tri"], ["l2a", "l2b", "seg2"])
    add("poly-intersect3", lambda s, o: s.intersect(o), ["poly3", "polyc3", "cube"], ["l3a", "l3b", "seg3"])
    add("tri-props", lambda s: (s.circumcenter, s.volume), ["tri"])
    add("cube-props", lambda s: (s.faces, s.edges, s.vertices, s.area), ["cube"])
    add("getitem", lambda c: (c[0], c[-1], list(c)), ["pc2", "pc3", "lc2", "qc", "segc", "polyc3", "tc2", "cube", "poly2"])
    add("apply2", lambda t, x: t * x, ["t2", "tc2"], P2 + ["l2a", "conic", "circle", "seg2", "poly2", "tri", "pc2"])
    add("apply3", lambda t, x: t * x, ["t3"], P3 + ["e3a", "l3a", "sphere", "cone", "seg3", "poly3", "polyc3", "cube", "pc3"])
    add("t-props", lambda t: (t.inverse(), t ** 2, t ** -1, t ** 0, t * t), ["t2", "t3", "tc2"])
    add("constructors", lambda p: (g.translation(p), g.reflection(g.Line(1.0, 2.0, 3.0)), g.rotation(0.5)), P2)
    add("constructors3", lambda p: (g.translation(p), g.rotation(0.5, axis=p), g.reflection(g.Plane(1.0, 2.0, 3.0, 4.0))), P3)
    add("regular", lambda p: g.RegularPolygon(p, 2.0, 5).area, P2)
    add("circle-from", lambda p: (g.Circle(p, 2.0).contains(p), g.Ellipse(p, 2.0, 1.0).foci), P2)
    add("sphere-from", lambda p: (g.Sphere(p, 2.0).radius, g.Cone(p, p + g.Point(1.0, 2.0, 2.0), 1.0).is_degenerate, g.Cylinder(p, g.Point(1.0, 2.0, 2.0), 1.0).contains(p)), P3)
    add("from_points", lambda a, b: g.Conic.from_points(a, b, g.Point(5.0, 1.0), g.Point(-2.0, 6.0), g.Point(3.0, -7.0)), P2, P2)
    add("diagram", lambda p, l: (l * p, p.tensor_product(l)), P2, ["l2a", "l2b"])
    add("eps", lambda p: (g.base.LeviCivitaTensor(3).array.sum(), g.base.KroneckerDelta(3, 2).array.sum()), P2)
    return T


# ------------------------------------------------------------------------------------------------ snapshots / canonical answers

def arrays_of(obj, depth=0):
    """all numpy arrays reachable from an object: its own array and cached sub-objects"""
    out = []
    if isinstance(obj, np.ndarray):
        return [("", obj)]
    d = getattr(obj, "__dict__", None)
    if d is None or depth > 3:
        return out
    for k, v in sorted(d.items()):
        if isinstance(v, np.ndarray):
            out.append((k, v))
        elif hasattr(v, "__dict__") and hasattr(v, "array"):
            out += [(k + "." + kk, vv) for kk, vv in arrays_of(v, depth + 1)]
        elif isinstance(v, (bool, int, float, str, set, frozenset, tuple)) or v is None:
            out.append((k, np.array(repr(sorted(v)) if isinstance(v, (set, frozenset)) else repr(v))))
    return out


def snapshot(objs):
    snap = {}
    for name, o in objs.items():
        snap[name] = [(k, a.copy(), a.dtype, a.shape) for k, a in arrays_of(o)]
    return snap


def globals_objs():
    import geometer as g
    from geometer import base, curve, point
    objs = {"I": point.I, "J": point.J, "infty": point.infty, "infty_plane": point.infty_plane, "absolute_conic": curve.absolute_conic}
    for n, arr in base.LeviCivitaTensor._cache.items():
        objs[f"eps{n}"] = arr
    for k, arr in base.KroneckerDelta._cache.items():
        objs[f"delta{k}"] = arr
    return objs


def diff_snapshot(snap, objs):
    for name, o in objs.items():
        now = arrays_of(o)
        old = snap.get(name)
        if old is None:
            continue
        if [k for k, _ in now] != [k for k, *_ in old]:
            return f"{name}: attribute set changed {[k for k, *_ in old]} -> {[k for k, _ in now]}"
        for (k, a), (_, b, dt, sh) in zip(now, old):
            if a.dtype != dt or a.shape != sh or not np.array_equal(a, b, equal_nan=(a.dtype.kind in 'fc')):
                return f"{name}.{k or 'array'} changed: {np.asarray(b).ravel()[:6].tolist()} -> {np.asarray(a).ravel()[:6].tolist()}"
    return None


def canon(x, depth=0):
    """canonical comparable form of an answer"""
    if isinstance(x, (list, tuple)):
        return [canon(y, depth + 1) for y in x]
    if hasattr(x, "array") and hasattr(x, "__dict__"):
        return (type(x).__name__, np.asarray(x.array))
    if isinstance(x, np.ndarray):
        return x
    return x


def same_answer(a, b):
    if isinstance(a, list) and isinstance(b, list):
        return len(a) == len(b) and all(same_answer(x, y) for x, y in zip(a, b))
    if isinstance(a, tuple) and isinstance(b, tuple) and len(a) == 2 and isinstance(a[0], str):
        return a[0] == b[0] and same_answer(a[1], b[1])
    if isinstance(a, np.ndarray) or isinstance(b, np.ndarray):
        a, b = np.asarray(a), np.asarray(b)
        return a.shape == b.shape and bool(np.allclose(a, b, rtol=1e-12, atol=1e-12, equal_nan=True)) if a.dtype.kind in "fciub" and b.dtype.kind in "fciub" else bool(np.array_equal(a, b))
    try:
        if isinstance(a, float) and isinstance(b, float):
            if a == b:                       # also +-inf
                return True
            return (math.isnan(a) and math.isnan(b)) or abs(a - b) <= 1e-12 * max(1, abs(a))
        return bool(a == b)
    except Exception:  # noqa: BLE001
        return True


# ------------------------------------------------------------------------------------------------ histories

def run_history(ctx, pool, hist, table, check_each=True):
    """executes the history; returns (failure description | None, index of the culprit call, answers)"""
    objs = dict(pool)
    gsnap_objs = globals_objs()
    snap = snapshot(objs)
    gsnap = snapshot(gsnap_objs)
    answers = []
    for i, (oi, names) in enumerate(hist):
        name, f, _ = table[oi]
        r = call_impl(f, *[pool[n] for n in names])
        answers.append((r[0], canon(r[1]) if r[0] == "ok" else r[1]))
        if check_each:
            d = diff_snapshot(snap, objs)
            if d is None:
                gnow = globals_objs()
                d = diff_snapshot(gsnap, {k: v for k, v in gnow.items() if k in gsnap})
            if d is not None:
                return f"after call {i} {name}({', '.join(names)}): {d}", i, answers
    return None, None, answers


def histories(ctx, nhist, length):
    table = ops_table()
    rng = ctx.rng
    for h in range(nhist):
        if ctx.out_of_time():
            ctx.notes.append(f"deep search stopped after {h} histories (failing input found or time cap)")
            break
        pool_seed = rng.randrange(10 ** 9)
        import random
        pool = make_pool(random.Random(pool_seed))
        hist = []
        for _ in range(length):
            oi = rng.randrange(len(table))
            names = tuple(rng.choice(c) for c in table[oi][2])
            hist.append((oi, names))
        desc = f"history pool_seed={pool_seed} ops={[(table[oi][0],) + names for oi, names in hist]}"
        fail, idx, answers = run_history(ctx, pool, hist, table)
        nok = sum(1 for a in answers if a[0] == "ok")
        ctx.case(desc, nontrivial=nok >= 5)
        for (oi, _), a in zip(hist, answers):
            ctx.count(("ok:" if a[0] == "ok" else "err:") + table[oi][0])
        if fail is not None:
            # shrink: the culprit alone on a fresh pool, else the shortest prefix
            culprit = hist[idx]
            p2 = make_pool(random.Random(pool_seed))
            f2, _, _ = run_history(ctx, p2, [culprit], table)
            short = [culprit] if f2 is not None else hist[:idx + 1]
            sdesc = f"pool_seed={pool_seed} ops={[(table[oi][0],) + names for oi, names in short]}"
            ctx.disagree(f"C12:mutation:{table[culprit[0]][0]}:{'+'.join(culprit[1])}", sdesc, "no pool object / module constant / cache array changes", fail, replay=[sdesc])
            continue
        # the same queries again at the end of the history, and on a fresh pool where each query is the first call
        for j, (oi, names) in enumerate(hist):
            if answers[j][0] != "ok":
                continue
            again = call_impl(table[oi][1], *[pool[n] for n in names])
            fresh_pool = make_pool(random.Random(pool_seed))
            first = call_impl(table[oi][1], *[fresh_pool[n] for n in names])
            ok = again[0] == "ok" and first[0] == "ok" and same_answer(canon(again[1]), answers[j][1]) and same_answer(canon(first[1]), answers[j][1])
            if not ok:
                sdesc = f"pool_seed={pool_seed} query #{j} {table[oi][0]}{names} after {[(table[o][0],) + nn for o, nn in hist[:j]][-6:]}"
                ctx.disagree(f"C12:answer-depends-on-history:{table[oi][0]}", sdesc, "same answer first / in the history / again at the end",
                             (str(answers[j][1])[:150], str(canon(again[1]) if again[0] == "ok" else again[1:3])[:150], str(canon(first[1]) if first[0] == "ok" else first[1:3])[:150]), replay=[sdesc])
                break


def correspondence(ctx):
    histories(ctx, ctx.budget(120, 700), ctx.budget(30, 40))
    # the process-wide ε / δ caches: every tensor asked twice, in two orders (also with swapped arguments), entry by entry
    from props import c05
    c05.eps_delta(ctx, prefix="C12")
    # item assignment on one epsilon / delta object must not reach the process-wide cache; a diagram copy is independent
    c05.eps_instances_independent(ctx, prefix="C12")
    c05.eps_delta(ctx, prefix="C12")


def replay(ctx, rec):
    correspondence(ctx)
