"""C03 — results depend on the projective object, not on its homogeneous representative."""
from __future__ import annotations

import math
import random
from fractions import Fraction

import numpy as np

from geolib import call_impl
from proto import proj_close_nn
from props.c12 import make_pool

ID = "C03"
LEAN_FILES = ["Geo/Props/C03.lean", "Geo/Props/C03b.lean"]
RULE = ("metamorphic: ~60 public operations (join, meet, contains, ==, dist, angle, crossratio, harmonic_set, perpendicular / parallel / "
        "project / mirror, predicates, transformations applied and composed, quadric contains / intersect / tangent / polar / is_tangent / "
        "components, conic x conic, segment / polygon / triangle contains, intersect, area, centroid, length, midpoint, constructors taking "
        "points) x every argument position x scale factors {-3, -1, 1/2, 2, 7, -1/8} (and i, 1+2i for join, meet, ==, crossratio): the result "
        "for the rescaled argument must equal the result for the original (numbers / booleans exactly up to 1e-9, objects projectively, lists "
        "of objects as sets); polytopes are rescaled vertex by vertex with different factors; == is reflexive, symmetric, true for multiples and "
        "false for clear non-multiples; non-trivial = factor != 1")
ASSUMPTIONS = ["moderate magnitudes (the library's 1e-8 tolerances are absolute by design)"]

REAL = [Fraction(-3), Fraction(-1), Fraction(1, 2), Fraction(2), Fraction(7), Fraction(-1, 8)]
CPLX = [1j, 1 + 2j]


def rescale(obj, lam, rng):
    """the same projective object with another representative (polytopes: every vertex its own factor)"""
    from geometer.shapes import PolytopeTensor
    arr = np.asarray(obj.array)
    if isinstance(obj, PolytopeTensor):
        fac = np.array([float(lam) * rng.choice([1, 2, 0.5]) for _ in range(int(np.prod(arr.shape[:-1])))]).reshape(arr.shape[:-1] + (1,))
        new = arr * fac
    else:
        new = arr * (complex(lam) if isinstance(lam, complex) else float(lam))
    return with_array(obj, new)


FAMILY = {"Cuboid": "Polyhedron", "Rectangle": "Polygon", "RegularPolygon": "Polygon"}


def with_array(obj, new):
    import geometer as g
    from geometer.shapes import PolytopeTensor
    new = np.array(new)
    if isinstance(obj, PolytopeTensor):
        cls = getattr(g, FAMILY.get(type(obj).__name__, type(obj).__name__))
        return cls(new)
    r = obj.copy()
    r.array = new
    return r


def canon(x):
    from geometer.base import Tensor
    if isinstance(x, (list, tuple)):
        return ("list", [canon(y) for y in x])
    if isinstance(x, Tensor):
        return ("obj", FAMILY.get(type(x).__name__, type(x).__name__), np.asarray(x.array), x.free_indices, x.tensor_shape)
    if isinstance(x, np.ndarray) and x.dtype == bool or isinstance(x, (bool, np.bool_)):
        return ("bool", np.asarray(x))
    if isinstance(x, (int, float, complex, np.number)) or isinstance(x, np.ndarray):
        return ("num", np.asarray(x, dtype=complex))
    return ("other", x)


def positions_equal(a, b, nt, tol):
    a, b = np.asarray(a), np.asarray(b)
    if a.shape != b.shape:
        return False
    tshape = a.shape[a.ndim - nt:]
    fa, fb = a.reshape((-1,) + tshape), b.reshape((-1,) + tshape)
    return all(proj_close_nn(x, y, tol) for x, y in zip(fa, fb))


def same(a, b, tol=1e-7, modpi=False):
    if a[0] != b[0]:
        return False
    if a[0] == "list":
        la, lb = a[1], b[1]
        if len(la) != len(lb):
            return False
        used = [False] * len(lb)
        for x in la:
            hit = [i for i, y in enumerate(lb) if not used[i] and same(x, y, tol, modpi)]
            if not hit:
                return False
            used[hit[0]] = True
        return True
    if a[0] == "obj":
        if a[1] != b[1] or a[3] != b[3] or a[4] != b[4]:
            return False
        nt = a[2].ndim - a[3]
        if a[1] in ("Segment", "Polygon", "Triangle", "Polyhedron", "Cuboid", "SegmentCollection", "PolygonCollection", "Rectangle"):
            nt = 1
        return positions_equal(a[2], b[2], nt, tol)
    if a[0] == "bool":
        return a[1].shape == b[1].shape and bool(np.array_equal(a[1], b[1]))
    if a[0] == "num":
        x, y = a[1], b[1]
        if x.shape != y.shape:
            return False
        # a division by an exact zero gives inf, by a rounded zero something huge: both mean "infinite"
        x = np.where(np.abs(x) > 1e12, np.inf, x)
        y = np.where(np.abs(y) > 1e12, np.inf, y)
        fin = np.isfinite(x) & np.isfinite(y)
        if not np.array_equal(np.isfinite(x), np.isfinite(y)):
            return False
        if modpi:
            # the angle between two (unoriented) lines / planes is defined modulo pi
            d = np.abs(x[fin] - y[fin])
            return bool(np.all(np.minimum(np.abs(d), np.abs(d - np.pi)) <= 1e-6))
        return bool(np.allclose(x[fin], y[fin], rtol=tol, atol=tol))
    return True


def ops_table():
    import geometer as g
    P2, P3 = ["p2a", "p2b", "p2c"], ["p3a", "p3b", "p3c"]
    T = []

    def add(name, f, *choices, cplx=False):
        T.append((name, f, choices, cplx))
    add("join2", lambda a, b: g.join(a, b), P2, P2, cplx=True)
    add("join3", lambda a, b, c: g.join(a, b, c), P3, P3, P3, cplx=True)
    add("joinL", lambda a, b: g.join(a, b), ["l3a"], P3, cplx=True)
    add("meet2", lambda a, b: g.meet(a, b), ["l2a"], ["l2b"], cplx=True)
    add("meet3", lambda a, b: g.meet(a, b), ["e3a", "l3a"], ["e3b"], cplx=True)
    add("meetLL", lambda a, b: g.meet(a, b), ["l3a"], ["l3b"], cplx=True)
    add("eq", lambda a, b: (a == b, b == a, a == a), P2 + ["l2a", "e3a", "conic", "t2"], P2 + ["l2a", "e3a", "conic", "t2"], cplx=True)
    for k in P2 + P3 + ["l2a", "e3a", "l3a", "conic", "sphere", "t2", "t3", "pc2", "lc2", "seg2", "poly2", "tri", "poly3"]:
        add("eq-self", lambda a, b: (a == b, b == a), [k], [k], cplx=k in ("p2a", "p3a", "l2a", "e3a"))
    add("contains", lambda s, p: s.contains(p), ["l2a", "l2b"], P2 + ["pc2"])
    add("containsC", lambda s, p: s.contains(p), ["lc2"], P2)
    add("contains3", lambda s, p: s.contains(p), ["e3a", "l3a"], P3 + ["pc3"])
    add("containsL", lambda s, l: s.contains(l), ["e3a"], ["l3a"])
    add("dist", lambda a, b: g.dist(a, b), P2 + ["l2a", "seg2", "poly2"], P2)
    add("dist3", lambda a, b: g.dist(a, b), P3 + ["e3a", "l3a", "seg3", "poly3", "cube"], P3)
    add("angle", lambda a, b, c: g.angle(a, b, c), P2, P2, P2)
    add("angle3", lambda a, b, c: g.angle(a, b, c), P3, P3, P3)
    add("angleL", lambda a, b: g.angle(a, b), ["l2a"], ["l2b"])
    add("angleE", lambda a, b: g.angle(a, b), ["e3a"], ["e3b"])
    add("angleL3", lambda a, b: g.angle(a, b), ["l3a"], ["l3b"])
    add("crossratio", lambda a, b, c, d: g.crossratio(a, b, c, d), ["p2a"], ["p2b"], ["p2x"], ["p2y"], cplx=True)
    add("crossratio3", lambda a, b, c, d: g.crossratio(a, b, c, d), ["p3a"], ["p3b"], ["p3x"], ["p3y"])
    add("crossratioL", lambda a, b, c, d: g.crossratio(a, b, c, d), ["l2a"], ["l2b"], ["l2x"], ["l2y"], cplx=True)
    add("crossratio-from", lambda a, b, c: g.crossratio(a, b, c, g.Point(1.0, 5.0), g.Point(-2.0, 3.0)), P2, P2, P2)
    add("harmonic", lambda a, b, c: g.harmonic_set(a, b, c), ["p2a"], ["p2b"], ["p2x"])
    add("perp", lambda s, p: s.perpendicular(p), ["l2a", "l2b"], P2)
    add("perp3", lambda s, p: s.perpendicular(p), ["e3a", "l3a"], P3)
    add("parallel", lambda s, p: s.parallel(p), ["l2a"], P2)
    add("parallel3", lambda s, p: s.parallel(p), ["e3a"], P3)
    add("project", lambda s, p: s.project(p), ["l2a", "l2b"], P2)
    add("project3", lambda s, p: s.project(p), ["e3a", "l3a"], P3)
    add("mirror", lambda s, p: s.mirror(p), ["l2a", "l2b"], P2)
    add("mirror3", lambda s, p: s.mirror(p), ["e3a", "l3a"], P3)
    add("is_perp", lambda a, b: (g.is_perpendicular(a, b), a.is_parallel(b)), ["l2a"], ["l2b"])
    add("is_perp3", lambda a, b: (g.is_perpendicular(a, b), a.is_parallel(b)), ["e3a"], ["e3b"])
    add("is_cocircular", lambda a, b, c: g.is_cocircular(a, b, c, g.Point(1.0, 1.0)), P2, P2, P2)
    add("is_collinear", lambda a, b, c: g.is_collinear(a, b, c), P2, P2, P2)
    add("bisectors", lambda a, b: g.angle_bisectors(a, b), ["l2a"], ["l2b"])
    add("line-props", lambda l: (l.contains(l.base_point), l.direction), ["l2a", "l2b", "l3a"])
    add("point-props", lambda p: (p.isinf, p.normalized_array), P2 + P3 + ["pc2"])
    add("arith", lambda a, b: (a + b, a - b, a * 2, a / 2), P2 + ["pc2"], P2)
    add("apply", lambda t, x: t * x, ["t2"], P2 + ["l2a", "conic", "circle", "seg2", "poly2", "tri"])
    add("apply3", lambda t, x: t * x, ["t3"], P3 + ["e3a", "l3a", "sphere", "seg3", "poly3", "cube"])
    add("t-compose", lambda t, s: (t * s, t.inverse(), t ** 2, t ** -1), ["t2"], ["t2"])
    add("t-compose3", lambda t, s: (t * s, t.inverse(), t ** 2, t ** -1), ["t3"], ["t3"])
    add("translation", lambda p, q: g.translation(p) * q, P2, P2)
    add("translation3", lambda p, q: g.translation(p) * q, P3, P3)
    add("rotation-axis", lambda a, q: g.rotation(0.7, axis=a) * q, P3, P3)
    add("reflection", lambda h, p: g.reflection(h) * p, ["l2a"], P2, cplx=True)
    add("reflection3", lambda h, p: g.reflection(h) * p, ["e3a"], P3, cplx=True)
    add("q-contains", lambda q, p: q.contains(p), ["conic", "circle"], P2 + ["p2on"])
    add("q-intersect", lambda q, l: q.intersect(l), ["conic", "circle"], ["l2a", "l2b"])
    add("q-intersect3", lambda q, l: q.intersect(l), ["sphere", "cone"], ["l3a", "l3b"])
    add("q-tangent", lambda q, p: q.tangent(p), ["conic", "circle"], ["p2on"])
    add("q-polar", lambda q, p: q.polar(p), ["conic", "circle"], P2)
    add("q-is_tangent", lambda q, l: q.is_tangent(l), ["conic", "circle"], ["l2a", "l2t"])
    add("q-dual", lambda q: (q.dual, q.is_degenerate), ["conic", "sphere"])
    add("q-components", lambda a, b: g.Conic.from_lines(a, b).components, ["l2a"], ["l2b"])
    add("q-conic-conic", lambda a, b: a.intersect(b), ["conic"], ["circle"])
    add("circle-from", lambda p: (g.Circle(p, 2.0), g.Ellipse(p, 2.0, 1.0)), P2)
    add("sphere-from", lambda p, q: (g.Sphere(p, 2.0), g.Cone(p, q, 1.0)), P3, P3)
    add("from_points", lambda a, b: g.Conic.from_points(a, b, g.Point(5.0, 1.0), g.Point(-2.0, 6.0), g.Point(3.0, -7.0)), P2, P2)
    add("seg-contains", lambda s, p: s.contains(p), ["seg2"], P2 + ["p2mid"])
    add("seg-props", lambda s: (s.midpoint, s.length), ["seg2", "seg3"])
    add("seg-intersect", lambda s, o: s.intersect(o), ["seg2"], ["l2a", "l2b", "poly2"])
    add("poly-contains", lambda s, p: s.contains(p), ["poly2", "tri"], P2 + ["p2in", "p2h", "p2h"])
    add("poly-contains3", lambda s, p: s.contains(p), ["poly3"], P3 + ["p3in"])
    add("poly-area", lambda s: s.area, ["poly2", "poly3", "tri", "cube"])
    add("poly-centroid", lambda s: s.centroid, ["poly2", "poly3", "tri"])
    add("poly-intersect", lambda s, o: s.intersect(o), ["poly2", "tri"], ["l2a", "l2b", "seg2"])
    add("poly-intersect3", lambda s, o: s.intersect(o), ["poly3", "cube"], ["l3a", "l3b"])
    add("poly-eq", lambda a, b: (a == b, a == a), ["poly2", "seg2", "tri"], ["poly2", "seg2", "tri"])
    add("tri-props", lambda s: (s.circumcenter, s.volume), ["tri"])
    return T


def extend_pool(pool, rng):
    import geometer as g
    a, b = np.asarray(pool["p2a"].array, dtype=float), np.asarray(pool["p2b"].array, dtype=float)
    pool["p2x"] = g.Point(a * 3 - b * 2)                                          # collinear with p2a, p2b
    pool["p2y"] = g.Point(a * 2 + b * 3)
    a3, b3 = np.asarray(pool["p3a"].array, dtype=float), np.asarray(pool["p3b"].array, dtype=float)
    pool["p3x"], pool["p3y"] = g.Point(a3 * 3 - b3 * 2), g.Point(a3 * 2 + b3 * 5)
    la, lb = np.asarray(pool["l2a"].array, dtype=float), np.asarray(pool["l2b"].array, dtype=float)
    pool["l2x"], pool["l2y"] = g.Line(la * 3 - lb * 2), g.Line(la + lb * 4)     # concurrent with l2a, l2b
    A = np.asarray(pool["circle"].array, dtype=float)
    # a point on the circle: centre + r * (3/5, 4/5)
    c = np.real_if_close(np.asarray(pool["circle"].center.normalized_array))[:2].real
    r = float(pool["circle"].radius)
    pool["p2on"] = g.Point(np.array([c[0] + r * 0.6, c[1] + r * 0.8, 1.0]) * 2)
    pool["l2t"] = g.Line(A @ np.array([c[0] + r * 0.6, c[1] + r * 0.8, 1.0]))      # tangent of the circle
    s = np.asarray(pool["seg2"].normalized_array, dtype=float)
    pool["p2mid"] = g.Point((s[0] + s[1]) / 2 * -3)
    pool["p2in"] = g.Point(np.array([1.0, 1.0, 1.0]) * -2)
    # at the height of a vertex (the horizontal ray of the crossing rule runs through a vertex)
    pool["p2h"] = g.Point(np.array([float(rng.randint(-3, 3)), float(rng.choice([0, 1, 3])), 1.0]) * rng.choice([1, 2, -1]))
    pv = np.asarray(pool["poly3"].normalized_array, dtype=float)
    pool["p3in"] = g.Point(pv.mean(axis=0) * 2)
    return pool


ANGLES = ("angle", "angle3", "angleL", "angleE", "angleL3")
LOOSE = ("q-intersect", "q-intersect3", "q-conic-conic", "q-tangent", "bisectors", "mirror3", "angle3")


SETVALUED = ("q-intersect", "q-intersect3", "q-conic-conic")


def dedupe(items, tol):
    out = []
    for x in items:
        if not any(same(x, y, tol) for y in out):
            out.append(x)
    return out


def pack(args, scaled):
    import base64
    import pickle
    return base64.b64encode(pickle.dumps(([np.asarray(a.array) for a in args], np.asarray(scaled.array)))).decode()


def one_case(ctx, table, name, names, args, pos, lam, scaled):
    f = {t[0] + "/" + "/".join("|".join(c) for c in t[2]): t[1] for t in table}
    fn = next(t[1] for t in table if t[0] == name and all(n in c for n, c in zip(names, t[2])))
    base = call_impl(fn, *args)
    args2 = list(args)
    args2[pos] = scaled
    res = call_impl(fn, *args2)
    desc = (f"{name}({', '.join(names)}) scale arg {pos} by {lam}: "
            f"{[np.round(np.asarray(a.array), 4).tolist() for a in args]} -> {np.round(np.asarray(scaled.array), 4).tolist()}")
    rec = [f"{name} {','.join(names)} {pos} {lam} {pack(args, scaled)}"]
    ctx.case(desc, nontrivial=(lam != 1))
    ctx.count(f"{name}:{'complex' if isinstance(lam, complex) else ('neg' if lam < 0 else 'pos')}")
    if base[0] != "ok":
        # the base call fails for this (degenerate) configuration: the rescaled call must fail the same way
        if not (res[0] == "err" and res[1] == base[1]):
            ctx.disagree(f"C03:{name}:error-differs", desc, base[1], res[1:3] if res[0] != "ok" else "ok", replay=rec)
        return
    if res[0] != "ok":
        ctx.disagree(f"C03:{name}:arg{pos}:raises:{res[1]}", desc, "same result as for the original representative", res[1:3], replay=rec)
        return
    a, b = canon(base[1]), canon(res[1])
    if name in SETVALUED and a[0] == "list" and b[0] == "list":
        # common points are compared as SETS: where the line touches the quadric the library returns the point of multiplicity two
        # once or as two points 1e-8 apart, depending on the rounding of a discriminant that is exactly 0 — the same set of points
        a, b = ("list", dedupe(a[1], 1e-6)), ("list", dedupe(b[1], 1e-6))
    if not same(a, b, 1e-6 if name in LOOSE else 1e-8, modpi=name in ANGLES):
        if name in ("angle3", "angleL3") and a[0] == "num" and np.allclose(np.abs(a[1]), np.abs(b[1]), atol=1e-6):
            # only the sign differs: orientation of the SVD basis of the carrier plane in space
            ctx.disagree("C03:angle-3d:orientation-sign", desc, str(a)[:300], str(b)[:300], replay=rec)
            return
        sign = "complex" if isinstance(lam, complex) else ("negative" if lam < 0 else "positive")
        ctx.disagree(f"C03:{name}:arg{pos}:{sign}", desc, str(a)[:300], str(b)[:300], replay=rec)


def directed(ctx, prefix="C03"):
    """the raw-coordinate mechanisms named in the property: crossing rule of Polygon.contains (point at the height of a
    vertex), Triangle.contains, Segment.contains, 3-D polygons (projected), with vertex-wise factors of both signs"""
    import geometer as g
    rng = ctx.rng
    FACT = [0.5, 2.0, 0.25, 3.0, -1.0, -2.0, 1.0]
    for k in range(ctx.budget(240, 4000)):
        kind = rng.choice(["poly", "poly", "tri", "seg", "poly3"])
        if kind in ("poly", "poly3"):
            m = rng.randint(4, 7)
            angs = sorted(rng.sample(range(0, 24), m))
            vs = [(round(rng.randint(2, 5) * math.cos(a * math.pi / 12)), round(rng.randint(2, 5) * math.sin(a * math.pi / 12))) for a in angs]
            if len(set(vs)) < m:
                continue
            v = rng.choice(vs)
            pt = rng.choice([(v[0] - rng.randint(1, 6), v[1]), (v[0] + rng.randint(1, 6), v[1]), (0, v[1]), (rng.randint(-5, 5), rng.randint(-5, 5)), v])
        elif kind == "tri":
            vs = [(rng.randint(-4, 4), rng.randint(-4, 4)) for _ in range(3)]
            if abs((vs[1][0] - vs[0][0]) * (vs[2][1] - vs[0][1]) - (vs[1][1] - vs[0][1]) * (vs[2][0] - vs[0][0])) < 1:
                continue
            pt = rng.choice([(rng.randint(-4, 4), rng.randint(-4, 4)), (rng.randint(-6, 6), rng.randint(-6, 6)), vs[0],
                             ((vs[0][0] + vs[1][0]) / 2, (vs[0][1] + vs[1][1]) / 2), (sum(x for x, _ in vs) / 3, sum(y for _, y in vs) / 3)])
        else:
            vs = [(rng.randint(-4, 4), rng.randint(-4, 4)) for _ in range(2)]
            if vs[0] == vs[1]:
                continue
            t = rng.choice([-0.5, 0.0, 0.25, 0.5, 1.0, 1.5])
            pt = (vs[0][0] + t * (vs[1][0] - vs[0][0]), vs[0][1] + t * (vs[1][1] - vs[0][1]))
        if kind == "poly3":
            # the same figure in the plane z = x + 2y + 1 of space
            lift = lambda q: [q[0], q[1], q[0] + 2 * q[1] + 1, 1.0]
        else:
            lift = lambda q: [q[0], q[1], 1.0]
        arr = np.array([lift(q) for q in vs], dtype=float)
        cls = {"poly": g.Polygon, "poly3": g.Polygon, "tri": g.Triangle, "seg": g.Segment}[kind]
        try:
            base_obj = cls(arr)
        except Exception:  # noqa: BLE001
            continue
        fac = np.array([rng.choice(FACT) for _ in vs]).reshape(-1, 1)
        scaled_obj = cls(arr * fac)
        p0 = g.Point(np.array(lift(pt), dtype=float))
        # the point's representative: a real factor of either sign, or (planar figures) a complex one — the library itself hands out
        # purely imaginary representatives of real points (Line.project / Line.mirror)
        pf = rng.choice(FACT)
        if kind != "poly3" and rng.random() < 0.45:
            pf = rng.choice([1j, -2j, 1 + 1j, 0.5j, -1j])
        p1 = g.Point(np.array(lift(pt), dtype=float) * pf)
        desc = f"directed {kind}.contains vertices={vs} factors={fac.ravel().tolist()} point={pt} point representative={np.asarray(p1.array).tolist()}"
        ctx.case(desc, nontrivial=True)
        ctx.count(f"directed:{kind}")
        r0 = call_impl(lambda: base_obj.contains(p0))
        for label, obj, pp in (("vertices", scaled_obj, p0), ("point", base_obj, p1), ("both", scaled_obj, p1)):
            r = call_impl(lambda: obj.contains(pp))
            if r[0] != r0[0] or (r[0] == "ok" and bool(r[1]) != bool(r0[1])) or (r[0] != "ok" and r[1] != r0[1]):
                ctx.disagree(f"{prefix}:directed:{kind}.contains:{label}", desc, r0[1:2], r[1:2], replay=[desc])
                break


def from_tangent_stream(ctx, n, prefix="C03"):
    """Conic.from_tangent(l, a, b, c, d) has two solutions; the one returned must not depend on the representative of any
    argument — also when one of the lines ac, bd, ab, cd is parallel to the tangent (auxiliary point at infinity)"""
    import geometer as g
    from proto import proj_close_nn
    rng = ctx.rng
    for k in range(n):
        while True:
            a, b, c, d = ([rng.randint(-5, 5), rng.randint(-5, 5)] for _ in range(4))
            l = [rng.randint(-4, 4), rng.randint(-4, 4), rng.randint(-4, 4)]
            if not any(l[:2]):
                continue
            if k % 2 == 0:
                # make ac parallel to the tangent: c = a + t * (direction of l)
                t = rng.choice([1, 2, -1, 3])
                c = [a[0] - t * l[1], a[1] + t * l[0]]
            pts = [a, b, c, d]
            if len({tuple(q) for q in pts}) < 4 or any(l[0] * q[0] + l[1] * q[1] + l[2] == 0 for q in pts):
                continue
            if any(abs(np.linalg.det(np.array([[*pts[i], 1], [*pts[j], 1], [*pts[m], 1]], dtype=float))) < 0.5 for i in range(4) for j in range(i) for m in range(j)):
                continue
            break
        L, P = g.Line(np.array(l, dtype=float)), [g.Point(np.array(q + [1], dtype=float)) for q in pts]
        base = call_impl(lambda: g.Conic.from_tangent(L, *P))
        if base[0] != "ok" or base[1].is_degenerate:
            continue
        pos = rng.randrange(5)
        lam = rng.choice([-1.0, -3.0, 2.0, 0.5, -0.25])
        args = [L] + P
        args[pos] = type(args[pos])(np.asarray(args[pos].array) * lam)
        desc = f"from_tangent tangent={l} points={pts} ({'ac parallel to the tangent' if k % 2 == 0 else 'generic'}); argument {pos} scaled by {lam}"
        ctx.case(desc)
        ctx.count("from_tangent:" + ("parallel" if k % 2 == 0 else "generic"))
        r = call_impl(lambda: g.Conic.from_tangent(*args))
        if r[0] != "ok" or not proj_close_nn(base[1].array, r[1].array, rtol=1e-7):
            ctx.disagree(f"{prefix}:from_tangent:{'parallel' if k % 2 == 0 else 'generic'}:arg{min(pos, 1)}", desc, np.round(np.asarray(base[1].array), 6).tolist(),
                         r[1:3] if r[0] != "ok" else np.round(np.asarray(r[1].array), 6).tolist(), replay=[desc])


def polyhedron_eq_stream(ctx, n, prefix="C03"):
    """== of polyhedra is symmetric and compares the SETS of faces: a polyhedron with a repeated face (given by another
    representative / start vertex / direction) is not equal to one with that face replaced by a different one, in either order"""
    import geometer as g
    rng = ctx.rng
    for k in range(n):
        o = np.array([float(rng.randint(-2, 2)) for _ in range(3)])
        A, B, C, D = o, o + [2.0, 0, 0], o + [0, 2.0, 0], o + [0, 0, 2.0]
        def face(pts, roll=0, rev=False, w=1.0):
            pts = list(pts)
            pts = pts[roll:] + pts[:roll]
            if rev:
                pts = pts[::-1]
            return g.Polygon(*[g.Point(np.append(p, 1.0) * w) for p in pts])
        f1, f2, f3, f4 = (A, B, C), (A, B, D), (A, C, D), (B, C, D)
        tet = g.Polyhedron(face(f1), face(f2), face(f3), face(f4))
        rep = g.Polyhedron(face(f1), face(f2), face(f3), face(f3, roll=rng.randint(0, 2), rev=rng.random() < 0.5, w=rng.choice([1.0, 2.0, -1.0])))
        same = g.Polyhedron(face(f4, roll=1), face(f2, rev=True), face(f1, w=2.0), face(f3, roll=2))
        desc = f"polyhedra on the tetrahedron with corner {o.tolist()}: full, with a repeated face, reordered"
        ctx.case(desc)
        ctx.count("polyhedron-eq")
        r = call_impl(lambda: (tet == rep, rep == tet, tet == same, same == tet, tet == tet))
        if r[0] != "ok" or r[1] != (False, False, True, True, True):
            ctx.disagree(f"{prefix}:polyhedron-eq", desc, (False, False, True, True, True), r[1:3], replay=[desc])


def chain_collections(ctx, n):
    """join -> meet -> join chains on point collections with two collection axes whose elements carry moderate factors of
    their own (the intermediate results are renormalised per element): same projective results as for the unscaled points"""
    import geometer as g
    rng = ctx.rng
    for k in range(n):
        dim = rng.choice([2, 3])
        shape = rng.choice([(2, 2), (2, 3), (3, 1)])
        cnt = int(np.prod(shape))
        def pts():
            return np.array([[float(rng.randint(-4, 4)) for _ in range(dim)] + [1.0] for _ in range(cnt)]).reshape(shape + (dim + 1,))
        A, B, C = pts(), pts(), pts()
        fac = lambda: np.array([rng.choice([8.0, -0.125, 0.125, -8.0, 1.0]) for _ in range(cnt)]).reshape(shape + (1,))
        def chain(a, b, c):
            P, Q, R = g.PointCollection(a), g.PointCollection(b), g.PointCollection(c)
            if dim == 2:
                x = g.meet(g.join(P, Q), g.join(P, R))          # = P
                return x, g.join(x, Q)                          # = PQ
            e = g.join(P, Q, R)
            l = g.meet(e, g.join(P, Q, g.PointCollection(c + np.array([0.0, 0.0, 1.0, 0.0]))))   # = PQ
            return l, g.join(l, R)                              # = e
        base = call_impl(chain, A, B, C)
        desc = f"chain dim={dim} shape={shape} A={A.tolist()} B={B.tolist()} C={C.tolist()}"
        if base[0] != "ok":
            continue                     # a degenerate position somewhere in the collection
        fa, fb, fc = fac(), fac(), fac()
        ctx.case(desc, nontrivial=True)
        ctx.count(f"chain:{dim}d:{len(shape)}axes")
        res = call_impl(chain, A * fa, B * fb, C * fc)
        if res[0] != "ok":
            ctx.disagree(f"C03:chain:raises:{res[1]}", desc + f" factors {fa.ravel().tolist()} {fb.ravel().tolist()} {fc.ravel().tolist()}",
                         "the results of the unscaled collections", res[1:3], replay=[desc])
            continue
        for u, v in zip(base[1], res[1]):
            if not same(canon(u), canon(v), 1e-7):
                ctx.disagree("C03:chain:value", desc + f" factors {fa.ravel().tolist()} {fb.ravel().tolist()} {fc.ravel().tolist()}", str(canon(u))[:200], str(canon(v))[:200], replay=[desc])
                break


def correspondence(ctx):
    chain_collections(ctx, ctx.budget(60, 800))
    rng = ctx.rng
    table = ops_table()
    n = ctx.budget(900, 15000)
    for k in range(n):
        pool = extend_pool(make_pool(random.Random(rng.randrange(10 ** 9))), rng)
        name, f, choices, cplx = table[rng.randrange(len(table))]
        names = []
        for c in choices:
            free = [x for x in c if x not in names] or list(c)
            names.append(rng.choice(free))
        args = [pool[x] for x in names]
        pos = rng.randrange(len(args))
        lam = rng.choice(REAL + (CPLX if cplx else []))
        scaled = rescale(args[pos], lam, rng)
        one_case(ctx, table, name, names, args, pos, lam, scaled)
    directed(ctx)
    from props import c02
    c02.rounded_dependent_stream(ctx, ctx.budget(40, 400), prefix="C03")      # a multiple of an object is the same object: the same error
    from_tangent_stream(ctx, ctx.budget(40, 400))
    polyhedron_eq_stream(ctx, ctx.budget(15, 150))
    from props import c13
    c13.int_homogeneous_centres(ctx, ctx.budget(30, 300), prefix="C03")
    # == is false for clear non-multiples
    import geometer as g
    for k in range(ctx.budget(60, 600)):
        dim = rng.choice([2, 3])
        v = [rng.randint(-4, 4) for _ in range(dim + 1)]
        w = list(v)
        j = rng.randrange(dim + 1)
        w[j] += rng.choice([1, -1, 2])
        if not any(v) or not any(w) or np.linalg.matrix_rank(np.array([v, w], dtype=float)) < 2:
            continue
        for cls in ((g.Point, g.Line) if dim == 2 else (g.Point, g.Plane)):
            a, b = cls(np.array(v, dtype=float)), cls(np.array(w, dtype=float))
            desc = f"== {cls.__name__} {v} {w}"
            ctx.case(desc)
            ctx.count("neq")
            r = call_impl(lambda: (a == b, b == a))
            if r[0] != "ok" or r[1] != (False, False):
                ctx.disagree("C03:eq:non-multiples", desc, (False, False), r[1:3], replay=[desc])


def replay(ctx, rec):
    """re-run the recorded cases (exact arrays) against the current tree"""
    import base64
    import pickle
    table = ops_table()
    pool = extend_pool(make_pool(random.Random(0)), random.Random(0))
    done = 0
    for line in rec.get("ops") or rec.get("replay") or []:
        parts = line.split(" ")
        if len(parts) != 5:
            continue
        name, names, pos, lam, blob = parts
        names = names.split(",")
        arrays, sarr = pickle.loads(base64.b64decode(blob))
        args = [with_array(pool[n], a) for n, a in zip(names, arrays)]
        scaled = with_array(pool[names[int(pos)]], sarr)
        one_case(ctx, table, name, names, args, int(pos), complex(lam) if "j" in lam else Fraction(lam), scaled)
        done += 1
    if not done:
        correspondence(ctx)
