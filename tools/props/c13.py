"""C13 — quadric constructors produce the quadric of their defining data."""
from __future__ import annotations

import itertools
import math
from fractions import Fraction

import numpy as np

from geolib import call_impl
from proto import ET, dec_q, dec_tens, proj_close, proj_close_nn, run_driver
from trlib import fdet

ID = "C13"
LEAN_FILES = ["Geo/Props/C13.lean"]
RULE = ("Conic.from_points on random lattice 5-tuples in general position (points of any homogeneous scale); from_tangent (4 points + tangent, "
        "tangents through the origin and axes included); from_foci; from_crossratio vs from_points; Ellipse / Circle / Sphere with centres "
        "of any homogeneous scale (meets of lines, negative scale): points of the Cartesian locus (Pythagorean data) are contained, near "
        "misses are not (exact decision by the S-layer quadratic form), center / radius / foci read back, area / volume textbook; Cone / "
        "Cylinder with rational orthonormal frames in all octants: vertex, base circle points, generators contained, near misses not; "
        "membership of implementation matrices judged scale-free |pᵀAp|/(|p|²‖A‖) < 1e-9; non-trivial = non-degenerate data")
ASSUMPTIONS = ["eigvalsh/sqrt/csqrt trusted (normalisation is a positive scalar, irrelevant projectively)"]

PYTH2 = [(3, 4, 5), (4, 3, 5), (5, 12, 13), (12, 5, 13), (8, 15, 17), (0, 1, 1), (1, 0, 1), (-3, 4, 5), (3, -4, 5), (-4, -3, 5), (-5, 12, 13), (15, -8, 17)]
FRAMES = None


def frames():
    """rational orthonormal frames (rows) of R^3 built from Pythagorean quadruples: (a, e1, e2)"""
    global FRAMES
    if FRAMES is None:
        out = []
        base = [np.array([[2, 3, 6], [3, -6, 2], [6, 2, -3]], dtype=object), np.array([[1, 2, 2], [2, 1, -2], [2, -2, 1]], dtype=object),
                np.array([[2, 6, 9], [6, 7, -6], [9, -6, 2]], dtype=object), np.array([[1, 4, 8], [4, 7, -4], [8, -4, 1]], dtype=object),
                np.array([[1, 0, 0], [0, 1, 0], [0, 0, 1]], dtype=object), np.array([[0, 3, 4], [0, 4, -3], [5, 0, 0]], dtype=object)]
        for b in base:
            n = int(round(math.sqrt(sum(int(x) ** 2 for x in b[0]))))
            for perm in itertools.permutations(range(3)):
                for signs in itertools.product((1, -1), repeat=3):
                    m = [[Fraction(int(b[r][perm[c]]) * signs[c], n) for c in range(3)] for r in range(3)]
                    out.append(m)
        FRAMES = out
    return FRAMES


def resid(A, p):
    A = np.asarray(A, dtype=complex)
    p = np.asarray(p, dtype=complex)
    den = (np.linalg.norm(p) ** 2) * np.linalg.norm(A)
    return abs(p @ A @ p) / den if den else float("nan")


def on(A, p, tol=1e-9):
    return resid(A, p) < tol


def hp(rng, v, scales=(1, 1, 2, -1, -3)):
    import geometer as g
    w = rng.choice(scales)
    return g.Point(np.array([float(x) * w for x in v] + [float(w)]))


def five_points(rng):
    while True:
        pts = [[Fraction(rng.randint(-4, 4)), Fraction(rng.randint(-4, 4)), Fraction(1)] for _ in range(5)]
        if all(fdet([pts[i] for i in idx]) != 0 for idx in itertools.combinations(range(5), 3)):
            return pts


def conic_stream(ctx, n):
    import geometer as g
    rng = ctx.rng
    for k in range(n):
        pts = five_points(rng)
        if k % 3 == 2:
            # the same configurations with coordinates of magnitude up to 80 (the matrix is normalised to |det| = 1)
            pts = [[p[0] * 20 + rng.randint(-3, 3), p[1] * 20 + rng.randint(-3, 3), p[2]] for p in pts]
            if not all(fdet([pts[i] for i in idx]) != 0 for idx in itertools.combinations(range(5), 3)):
                continue
        P = [hp(rng, p[:2]) for p in pts]
        desc = f"from_points {[[str(x) for x in p[:2]] for p in pts]}"
        ctx.case(desc)
        ctx.count("from_points")
        c = call_impl(lambda: g.Conic.from_points(*P))
        if c[0] != "ok":
            ctx.disagree("C13:from_points:error", desc, "a conic", c[1:3], replay=[desc])
            continue
        A = np.asarray(c[1].array)
        bad = [i for i, p in enumerate(P) if not on(A, p.array)]
        if bad:
            ctx.disagree(f"C13:from_points:misses-point-{bad[0]}", desc, "all five points on the conic", [resid(A, p.array) for p in P], replay=[desc])
            continue
        own = call_impl(lambda: [bool(c[1].contains(p)) for p in P])
        if own[0] != "ok" or not all(own[1]):
            ctx.disagree("C13:from_points:contains-own-points", desc, [True] * 5, own[1:3], replay=[desc])
            continue
        # from_crossratio agrees
        cr = call_impl(lambda: g.crossratio(P[0], P[1], P[2], P[3], P[4]))
        if cr[0] == "ok" and np.isfinite(cr[1]) and abs(cr[1]) > 1e-9:
            c2 = call_impl(lambda: g.Conic.from_crossratio(cr[1], P[0], P[1], P[2], P[3]))
            ctx.count("from_crossratio")
            if c2[0] != "ok" or not proj_close_nn(A, np.asarray(c2[1].array), 1e-7):
                ctx.disagree("C13:from_crossratio", desc, "the same conic as from_points", c2[1:3] if c2[0] != "ok" else np.asarray(c2[1].array).tolist(), replay=[desc])
            # the Lean model of the construction (Geo.Constructions.crM, about which T13_from_crossratio_* are) with a rational cross ratio
            crq = Fraction(rng.choice([2, -1, 3, 5, -4]), rng.choice([1, 2, 3]))
            ptsq = [[Fraction(float(x)).limit_denominator(64) for x in np.asarray(p.array, dtype=float)] for p in P[:4]]
            ans = run_driver([f"m.crconic {crq.numerator}/{crq.denominator} " + " ".join(ET((3,), v).enc() for v in ptsq)])[0].split(" ")
            c3 = call_impl(lambda: g.Conic.from_crossratio(float(crq), P[0], P[1], P[2], P[3]))
            ctx.count("from_crossratio:model")
            if ans[0] != "ok" or c3[0] != "ok" or not proj_close(dec_tens(ans[1]), np.asarray(c3[1].array), rtol=1e-8):
                ctx.disagree("C13:from_crossratio:model-vs-code", desc + f" cr={crq}", " ".join(ans)[:200],
                             c3[1:3] if c3[0] != "ok" else np.asarray(c3[1].array).tolist(), replay=[desc])
        # from_tangent: tangent at the fifth point (polar), four other points
        if k % 2 == 0:
            t = A @ np.asarray(P[4].array, dtype=float)
            T = g.Line(np.real_if_close(t))
            ct = call_impl(lambda: g.Conic.from_tangent(T, P[0], P[1], P[2], P[3]))
            ctx.count("from_tangent")
            if ct[0] != "ok":
                ctx.disagree(f"C13:from_tangent:error:{ct[1]}", desc + f" tangent={np.round(t, 6).tolist()}", "a conic", ct[1:3], replay=[desc])
            else:
                At = np.asarray(ct[1].array)
                ok = all(on(At, p.array, 1e-7) for p in P[:4])
                # tangent: t^T adj(A) t = 0
                adj = np.linalg.det(At) * np.linalg.inv(At) if abs(np.linalg.det(At)) > 1e-12 else None
                if adj is not None:
                    tt = np.asarray(T.array, dtype=complex)
                    ok = ok and abs(tt @ adj @ tt) / (np.linalg.norm(tt) ** 2 * np.linalg.norm(adj)) < 1e-6
                if not ok:
                    ctx.disagree("C13:from_tangent:locus", desc + f" tangent={np.round(t, 6).tolist()}", "through the four points and tangent to the line", At.tolist(), replay=[desc])
    # tangents through the origin / axes with explicit lattice points
    for tl in ([1, -3, 0], [1, 0, 0], [0, 1, 0], [2, 5, 0], [1, 1, -7]):
        pts = [[1, 2], [3, 1], [2, 4], [4, 3]]
        if any(tl[0] * x + tl[1] * y + tl[2] == 0 for x, y in pts):
            continue
        desc = f"from_tangent tangent={tl} points={pts}"
        ctx.case(desc)
        ctx.count("from_tangent:special")
        T = g.Line(np.array(tl, dtype=float))
        P = [g.Point(float(x), float(y)) for x, y in pts]
        ct = call_impl(lambda: g.Conic.from_tangent(T, *P))
        ok = ct[0] == "ok"
        if ok:
            At = np.asarray(ct[1].array)
            ok = np.linalg.norm(At) > 0 and np.all(np.isfinite(At)) and all(on(At, p.array, 1e-7) for p in P)
            if ok and abs(np.linalg.det(At)) > 1e-12:
                adj = np.linalg.inv(At)
                tt = np.array(tl, dtype=complex)
                ok = abs(tt @ adj @ tt) / (np.linalg.norm(tt) ** 2 * np.linalg.norm(adj)) < 1e-6
        if not ok:
            ctx.disagree("C13:from_tangent:special", desc, "through the four points and tangent to the line", ct[1:3] if ct[0] != "ok" else np.asarray(ct[1].array).tolist(), replay=[desc])


def foci_stream(ctx, n):
    import geometer as g
    rng = ctx.rng
    for k in range(n):
        f1 = [rng.randint(-4, 4), rng.randint(-4, 4)]
        f2 = [rng.randint(-4, 4), rng.randint(-4, 4)]
        b = [rng.randint(-6, 6), rng.randint(-6, 6)]
        if f1 == f2:
            continue
        if k % 4 == 0:
            # bound on the perpendicular bisector of the foci: the confocal hyperbola degenerates, only the ellipse is left
            t = rng.choice([-2, -1, 1, 2, 3])
            b = [Fraction(f1[0] + f2[0], 2) + t * (f2[1] - f1[1]), Fraction(f1[1] + f2[1], 2) - t * (f2[0] - f1[0])]
            b = [float(b[0]), float(b[1])]
        if b in (f1, f2):
            continue
        # bound must not be on the segment/line through the foci in a degenerate way
        if (f2[0] - f1[0]) * (b[1] - f1[1]) - (f2[1] - f1[1]) * (b[0] - f1[0]) == 0:
            continue
        desc = f"from_foci f1={f1} f2={f2} bound={b}"
        ctx.case(desc)
        ctx.count("from_foci")
        c = call_impl(lambda: g.Conic.from_foci(g.Point(*map(float, f1)), g.Point(*map(float, f2)), g.Point(*map(float, b))))
        if c[0] != "ok":
            ctx.disagree(f"C13:from_foci:error:{c[1]}", desc, "a conic", c[1:3], replay=[desc])
            continue
        A = np.asarray(c[1].array)
        # the locus: sum or |difference| of focal distances is constant -> check the bound point and the reflected point
        ok = on(A, np.array([b[0], b[1], 1.0]), 1e-7)
        fo = call_impl(lambda: c[1].foci)
        if ok and fo[0] == "ok" and len(fo[1]) == 2:
            got = [np.real_if_close(np.asarray(f.normalized_array))[:2] for f in fo[1]]
            want = [np.array(f1, dtype=float), np.array(f2, dtype=float)]
            ok = (np.allclose(got[0], want[0], atol=1e-6) and np.allclose(got[1], want[1], atol=1e-6)) or \
                 (np.allclose(got[0], want[1], atol=1e-6) and np.allclose(got[1], want[0], atol=1e-6))
        elif ok:
            ok = False
        if not ok:
            ctx.disagree("C13:from_foci:locus", desc, "conic through bound with the given foci", fo[1:3] if fo[0] != "ok" else [np.asarray(f.array).tolist() for f in fo[1]], replay=[desc])


def circle_stream(ctx, n):
    import geometer as g
    rng = ctx.rng
    reqs, todo = [], []
    for k in range(n):
        cx, cy = Fraction(rng.randint(-6, 6)), Fraction(rng.randint(-6, 6))
        a, b, h = rng.choice(PYTH2)
        scale = rng.choice([1, 2, 3, Fraction(1, 2), Fraction(3, 10)])
        r = Fraction(h * scale)
        kind = rng.choice(["circle", "ellipse"])
        if kind == "ellipse":
            hr, vr = Fraction(rng.randint(1, 8), 2), Fraction(rng.randint(1, 8), 2)
            px, py = cx + hr * Fraction(a, h), cy + vr * Fraction(b, h)
            A = [[vr * vr, 0, -vr * vr * cx], [0, hr * hr, -hr * hr * cy], [-vr * vr * cx, -hr * hr * cy, vr * vr * cx * cx + hr * hr * cy * cy - hr * hr * vr * vr]]
        else:
            hr = vr = r
            px, py = cx + a * scale, cy + b * scale
            A = [[1, 0, -cx], [0, 1, -cy], [-cx, -cy, cx * cx + cy * cy - r * r]]
        miss = [px + rng.choice([1, -1, Fraction(1, 2)]), py]
        for p in ([px, py, Fraction(1)], miss + [Fraction(1)]):
            reqs.append("spec.quadform " + ET((3, 3), [Fraction(x) for row in A for x in row]).enc() + " " + ET((3,), p).enc())
        # the matrix that translator A regenerated from Ellipse.__init__ (the one the theorems T13_ellipse_code_* are about)
        reqs.append("gen.ellipse " + " ".join(f"{Fraction(x).numerator}/{Fraction(x).denominator}" for x in (cx, cy, hr, vr)))
        todo.append((kind, cx, cy, hr, vr, [px, py], miss))
    answers = run_driver(reqs)
    for i, (kind, cx, cy, hr, vr, p, miss) in enumerate(todo):
        onv = dec_q(answers[3 * i].split(" ")[1])[0] == 0
        missv = dec_q(answers[3 * i + 1].split(" ")[1])[0] == 0
        gen_m = answers[3 * i + 2]
        # centre with an arbitrary homogeneous scale (also as a meet of two lines)
        how = rng.choice(["plain", "scaled", "meet", "int"])
        if how == "int":
            C = g.Point(int(cx), int(cy))          # integer dtype: the matrix must not inherit it
        elif how == "plain":
            C = g.Point(float(cx), float(cy))
        elif how == "scaled":
            w = rng.choice([2, -1, -2, 3])
            C = g.Point(np.array([float(cx) * w, float(cy) * w, float(w)]))
        else:
            C = g.meet(g.Line(1.0, 0.0, -float(cx)), g.Line(0.0, 1.0, -float(cy)))
        desc = f"{kind} centre=({cx},{cy}) [{how}] radii=({hr},{vr}) on={[str(x) for x in p]} miss={[str(x) for x in miss]}"
        ctx.case(desc)
        ctx.count(f"{kind}:{how}")
        q = call_impl(lambda: g.Circle(C, float(hr)) if kind == "circle" else g.Ellipse(C, float(hr), float(vr)))
        if q[0] != "ok":
            ctx.disagree(f"C13:{kind}:error", desc, "a conic", q[1:3], replay=[desc])
            continue
        Q = q[1]
        if gen_m.startswith("ok"):
            G = np.array([float(Fraction(x.split("_")[0])) for x in gen_m.split(" ")[1].split(":")[2].split(",")]).reshape(3, 3)
            if not proj_close_nn(np.asarray(Q.array, dtype=float), G, 1e-9):
                ctx.disagree(f"C13:{kind}:generated-matrix", desc, G.tolist(), np.asarray(Q.array).tolist(), replay=[desc])
                continue
        else:
            ctx.disagree(f"C13:{kind}:generated-matrix:driver", desc, "ok", gen_m, replay=[desc])
            continue
        r1 = call_impl(lambda: bool(Q.contains(g.Point(float(p[0]), float(p[1])))))
        r2 = call_impl(lambda: bool(Q.contains(g.Point(float(miss[0]), float(miss[1])))))
        if r1[0] != "ok" or r2[0] != "ok" or r1[1] != onv or r2[1] != missv:
            ctx.disagree(f"C13:{kind}:locus:{how}", desc, (onv, missv), (r1[1:3], r2[1:3]), replay=[desc])
            continue
        if kind == "circle":
            cen = call_impl(lambda: np.real_if_close(np.asarray(Q.center.normalized_array)))
            rad = call_impl(lambda: float(Q.radius))
            area = call_impl(lambda: float(Q.area))
            if cen[0] != "ok" or not np.allclose(np.asarray(cen[1], dtype=complex)[:2], [float(cx), float(cy)], atol=1e-6):
                ctx.disagree("C13:circle:center", desc, [float(cx), float(cy)], cen[1:3] if cen[0] != "ok" else np.asarray(cen[1]).tolist(), replay=[desc])
            if rad[0] != "ok" or abs(rad[1] - float(hr)) > 1e-8 * float(hr):
                ctx.disagree("C13:circle:radius", desc, float(hr), rad[1:3], replay=[desc])
            if area[0] != "ok" or abs(area[1] - math.pi * float(hr) ** 2) > 1e-8 * float(hr) ** 2:
                ctx.disagree("C13:circle:area", desc, math.pi * float(hr) ** 2, area[1:3], replay=[desc])
        else:
            fo = call_impl(lambda: Q.foci)
            if hr != vr:
                e = math.sqrt(abs(float(hr) ** 2 - float(vr) ** 2))
                want = [[float(cx) - e, float(cy)], [float(cx) + e, float(cy)]] if hr > vr else [[float(cx), float(cy) - e], [float(cx), float(cy) + e]]
                ok = fo[0] == "ok" and len(fo[1]) == 2
                if ok:
                    got = [np.real_if_close(np.asarray(f.normalized_array))[:2].real for f in fo[1]]
                    ok = (np.allclose(got[0], want[0], atol=1e-6) and np.allclose(got[1], want[1], atol=1e-6)) or \
                         (np.allclose(got[0], want[1], atol=1e-6) and np.allclose(got[1], want[0], atol=1e-6))
                if not ok:
                    ctx.disagree("C13:ellipse:foci", desc, want, fo[1:3] if fo[0] != "ok" else [np.asarray(f.array).tolist() for f in fo[1]], replay=[desc])


def sphere_stream(ctx, n):
    import geometer as g
    rng = ctx.rng
    fr = frames()
    for k in range(n):
        c = [rng.randint(-5, 5) for _ in range(3)]
        r = rng.choice([1, 2, 3, 7])
        m = rng.choice(fr)
        u = [float(x) for x in m[0]]
        p = [c[j] + r * u[j] for j in range(3)]
        miss = [p[0] + 0.5, p[1], p[2]]
        w = rng.choice([1, 2, -1, -3])
        C = g.Point(np.array([c[0] * w, c[1] * w, c[2] * w, w], dtype=float))
        desc = f"sphere centre={c} scale={w} radius={r} on={np.round(p, 6).tolist()}"
        ctx.case(desc)
        ctx.count("sphere")
        s = call_impl(lambda: g.Sphere(C, float(r)))
        if s[0] != "ok":
            ctx.disagree("C13:sphere:error", desc, "a sphere", s[1:3], replay=[desc])
            continue
        S = s[1]
        gen_m = run_driver([f"gen.sphere {c[0]}/1 {c[1]}/1 {c[2]}/1 {r}/1"])[0]
        if gen_m.startswith("ok"):
            G = np.array([float(Fraction(x.split("_")[0])) for x in gen_m.split(" ")[1].split(":")[2].split(",")]).reshape(4, 4)
            if not proj_close_nn(np.asarray(S.array, dtype=float), G, 1e-9):
                ctx.disagree("C13:sphere:generated-matrix", desc, G.tolist(), np.asarray(S.array).tolist(), replay=[desc])
                continue
        else:
            ctx.disagree("C13:sphere:generated-matrix:driver", desc, "ok", gen_m, replay=[desc])
            continue
        r1 = call_impl(lambda: (bool(S.contains(g.Point(*p))), bool(S.contains(g.Point(*miss)))))
        if r1[0] != "ok" or r1[1] != (True, False):
            ctx.disagree("C13:sphere:locus", desc, (True, False), r1[1:3], replay=[desc])
        cen = call_impl(lambda: np.asarray(S.center.normalized_array, dtype=float)[:3])
        rad = call_impl(lambda: float(S.radius))
        vol = call_impl(lambda: float(S.volume))
        ar = call_impl(lambda: float(S.area))
        if cen[0] != "ok" or not np.allclose(cen[1], c, atol=1e-8):
            ctx.disagree("C13:sphere:center", desc, c, cen[1:3], replay=[desc])
        if rad[0] != "ok" or abs(rad[1] - r) > 1e-8 * r:
            ctx.disagree("C13:sphere:radius", desc, r, rad[1:3], replay=[desc])
        if vol[0] != "ok" or abs(vol[1] - 4 / 3 * math.pi * r ** 3) > 1e-8 * r ** 3:
            ctx.disagree("C13:sphere:volume", desc, 4 / 3 * math.pi * r ** 3, vol[1:3], replay=[desc])
        if ar[0] != "ok" or abs(ar[1] - 4 * math.pi * r ** 2) > 1e-8 * r ** 2:
            ctx.disagree("C13:sphere:area", desc, 4 * math.pi * r ** 2, ar[1:3], replay=[desc])


def cone_stream(ctx, n):
    import geometer as g
    rng = ctx.rng
    fr = frames()
    for k in range(n):
        m = rng.choice(fr)
        if k % 5 == 4:
            # an axis that is almost, but not exactly, parallel to a coordinate axis (tilt 2/n rad), rational frame
            nn = rng.choice([300, 500, 1000, 5000])
            c_, s_ = Fraction(nn * nn - 1, nn * nn + 1), Fraction(2 * nn, nn * nn + 1)
            rows = [[s_, 0, c_], [c_, 0, -s_], [0, 1, 0]]
            perm = rng.choice([(0, 1, 2), (1, 0, 2), (2, 1, 0), (0, 2, 1)])
            sg = [rng.choice([1, -1]) for _ in range(3)]
            m = [[row[perm[j]] * sg[j] for j in range(3)] for row in rows]
        a, e1, e2 = ([float(x) for x in row] for row in m)
        v = [rng.randint(-3, 3) for _ in range(3)]
        hgt = rng.choice([1, 2, 3, 7])
        r = rng.choice([1, 2, 3])
        bc = [v[j] + hgt * a[j] for j in range(3)]
        cs = [(aa / hh, bb / hh) for aa, bb, hh in rng.sample(PYTH2, 3)]
        base_pts = [[bc[j] + r * (c * e1[j] + s * e2[j]) for j in range(3)] for c, s in cs]
        kind = "cone" if k % 2 == 0 else "cylinder"
        desc = f"{kind} vertex={v} axis={np.round(a, 6).tolist()} height={hgt} radius={r}"
        ctx.case(desc)
        octant = "".join("+" if x > 0 else "-" if x < 0 else "0" for x in a)
        ctx.count(f"{kind}")
        if kind == "cone":
            q = call_impl(lambda: g.Cone(g.Point(*map(float, v)), g.Point(*bc), float(r)))
            on_pts = [list(map(float, v))] + base_pts + [[v[j] + 2 * (bp[j] - v[j]) for j in range(3)] for bp in base_pts[:1]]
            miss = [[bc[j] + 2 * r * e1[j] for j in range(3)]]
        else:
            q = call_impl(lambda: g.Cylinder(g.Point(*map(float, v)), g.Point(*a), float(r)))
            on_pts = [[v[j] + r * (c * e1[j] + s * e2[j]) + t * a[j] for j in range(3)] for (c, s), t in zip(cs, (0, 2, -3))]
            miss = [[v[j] + 2 * r * e1[j] for j in range(3)], list(map(float, v))]
        if q[0] != "ok":
            ctx.disagree(f"C13:{kind}:error:{q[1]}", desc, "a quadric", q[1:3], replay=[desc])
            continue
        A = np.asarray(q[1].array)
        bad_on = [p for p in on_pts if not on(A, np.array(p + [1.0]), 1e-8)]
        bad_miss = [p for p in miss if on(A, np.array(p + [1.0]), 1e-8)]
        if bad_on or bad_miss:
            sgn = "xy<0" if a[0] * a[1] < 0 else "xy>=0"
            ctx.disagree(f"C13:{kind}:locus", desc + f" octant={octant} {sgn}", "vertex / base circle / generators on the quadric, near misses off",
                         {"not-on": np.round(bad_on[:2], 4).tolist(), "wrongly-on": np.round(bad_miss[:1], 4).tolist()}, replay=[desc])


def normalized_collection(ctx, n):
    """QuadricCollection(matrices, normalize_matrix=True) is, position by position, the quadric of the given matrix"""
    import geometer as g
    from geometer.curve import QuadricCollection
    rng = ctx.rng
    for k in range(n):
        dim = rng.choice([2, 3])
        m = rng.randint(1, 3)
        mats = []
        while len(mats) < m:
            a = np.array([[float(rng.randint(-3, 3)) for _ in range(dim + 1)] for _ in range(dim + 1)])
            a = a + a.T
            if abs(np.linalg.det(a)) > 0.5:
                mats.append(a)
        arr = np.stack(mats)
        desc = f"QuadricCollection(normalize_matrix=True) of {m} matrices dim={dim}: {arr.tolist()}"
        ctx.case(desc)
        ctx.count("normalize-collection")
        r = call_impl(lambda: QuadricCollection(arr, normalize_matrix=True))
        if r[0] != "ok" or not all(proj_close_nn(np.asarray(r[1].array)[i], mats[i], 1e-9) for i in range(m)):
            ctx.disagree("C13:normalize-collection", desc, "the same quadrics, rescaled", r[1:3] if r[0] != "ok" else np.asarray(r[1].array).tolist(), replay=[desc])


def int_homogeneous_centres(ctx, n, prefix="C13"):
    """centres given as INTEGER homogeneous vectors with last coordinate != 1 whose affine coordinates are not integers
    (e.g. [3, 4, 2] = (1.5, 2)): the quadric must be the one of the float centre (matrix dtype must not be inherited)"""
    import geometer as g
    rng = ctx.rng
    for k in range(n):
        kind = rng.choice(["circle", "ellipse", "sphere"])
        w = rng.choice([2, 2, 4, -2, 1, 1])
        d = 3 if kind == "sphere" else 2
        num = [rng.choice([-5, -3, -1, 1, 3, 5, 7]) for _ in range(d)]
        ci = g.Point(np.array(num + [w], dtype=np.int64))
        cf = g.Point(*[x / w for x in num])
        # radii with a non-integer square as well: nothing of the matrix may be stored in the integer dtype of the centre
        r1, r2 = rng.choice([1, 2, 3, 4, 2.5, 0.5, 1.5]), rng.choice([1, 2, 3, 4, 2.5, 1.5])
        if kind == "circle":
            mk = lambda c: g.Circle(c, r1)
        elif kind == "ellipse":
            mk = lambda c: g.Ellipse(c, r1, r2)
        else:
            mk = lambda c: g.Sphere(c, r1)
        desc = f"{kind} with integer homogeneous centre {num + [w]} (= {[x / w for x in num]}) radii {r1},{r2}"
        ctx.case(desc)
        ctx.count("int-homogeneous-centre:" + kind)
        a, b = call_impl(lambda: mk(ci)), call_impl(lambda: mk(cf))
        if a[0] != "ok" or b[0] != "ok":
            ctx.disagree(f"{prefix}:int-homogeneous-centre:{kind}:error", desc, "a quadric", (a[1:3], b[1:3]), replay=[desc])
            continue
        A, B = np.asarray(a[1].array, dtype=float), np.asarray(b[1].array, dtype=float)
        i = np.unravel_index(np.argmax(np.abs(B)), B.shape)
        ok = abs(A[i]) > 0 and np.allclose(A / A[i], B / B[i], rtol=1e-9, atol=1e-12)
        # a point of the locus: centre + (r1, 0[, 0])
        p = g.Point(*([num[0] / w + r1] + [x / w for x in num[1:]]))
        rc = call_impl(lambda: bool(a[1].contains(p)))
        if not ok or rc[0] != "ok" or rc[1] is not True:
            ctx.disagree(f"{prefix}:int-homogeneous-centre:{kind}", desc, "the quadric of the float centre, containing centre + (r, 0..)",
                         {"same matrix": bool(ok), "contains": rc[1:3]}, replay=[desc])


def complex_points_stream(ctx, n):
    """Conic.from_points through five points with complex (Gaussian integer) coordinates: the conic contains all five"""
    import geometer as g
    rng = ctx.rng
    for k in range(n):
        pts = [np.array([complex(rng.randint(-3, 3), rng.randint(-2, 2)), complex(rng.randint(-3, 3), rng.randint(-2, 2)), 1.0]) for _ in range(5)]
        if any(abs(np.linalg.det(np.array([pts[i] for i in idx]))) < 0.5 for idx in itertools.combinations(range(5), 3)):
            continue
        P = [g.Point(p * rng.choice([1, 2, 1j])) for p in pts]
        desc = f"from_points complex {[p[:2].tolist() for p in pts]}"
        ctx.case(desc)
        ctx.count("from_points:complex")
        c = call_impl(lambda: g.Conic.from_points(*P))
        if c[0] != "ok":
            ctx.disagree("C13:from_points:complex:error", desc, "a conic", c[1:3], replay=[desc])
            continue
        A = np.asarray(c[1].array)
        res = [abs(p @ A @ p) / (np.linalg.norm(p) ** 2 * np.linalg.norm(A)) for p in pts]
        if max(res) > 1e-9:
            ctx.disagree("C13:from_points:complex:misses-point", desc, "all five points on the conic", [float(x) for x in res], replay=[desc])


def correspondence(ctx):
    complex_points_stream(ctx, ctx.budget(40, 400))
    int_homogeneous_centres(ctx, ctx.budget(40, 400))
    normalized_collection(ctx, ctx.budget(20, 150))
    conic_stream(ctx, ctx.budget(80, 1500))
    foci_stream(ctx, ctx.budget(40, 600))
    circle_stream(ctx, ctx.budget(120, 2000))
    sphere_stream(ctx, ctx.budget(60, 800))
    cone_stream(ctx, ctx.budget(80, 1500))


def replay(ctx, rec):
    correspondence(ctx)
