"""C08 — transformation constructors realise their Euclidean / projective definition."""
from __future__ import annotations

import itertools
import math
from fractions import Fraction

import numpy as np

from geolib import Gen, Obj, call_impl
from proto import ET, dec_tens, proj_close, proj_close_nn, run_driver
from trlib import TM, fdet, proj_equal_positions, rand_matrix

ID = "C08"
LEAN_FILES = ["Geo/Props/C08.lean", "Geo/Props/C08b.lean"]
RULE = ("translation / scaling with offsets given as numbers and as points of any homogeneous scale (negative too); rotation(a) and "
        "rotation(a, axis) with Pythagorean (cos, sin) and rational unit axes in all octants (axis points of any scale): compared with "
        "the exact model matrix (Rodrigues as written in the code), orthogonality, det 1, axis fixed, trace, R(a)R(b)=R(a+b), sense in "
        "the plane; reflection(h) for oblique mirrors off the origin: exact Householder model, involution, fixes h, equals h.mirror; "
        "from_points for random (n+2)-frames incl. non-affine maps and rescaled representatives; from_points_and_conics; "
        "non-trivial = non-identity transformation")
ASSUMPTIONS = ["cos/sin/atan2/sqrt/norm are accurate to a few ulp (matrices compared with rtol 1e-9)"]

PYTH = [(3, 4, 5), (5, 12, 13), (8, 15, 17), (7, 24, 25), (20, 21, 29)]
QUADS = [(2, 3, 6, 7), (1, 2, 2, 3), (2, 6, 9, 11), (4, 4, 7, 9), (1, 4, 8, 9), (6, 6, 7, 11), (0, 3, 4, 5), (0, 0, 1, 1), (1, 0, 0, 1), (0, 1, 0, 1)]


def cs(rng):
    a, b, h = rng.choice(PYTH)
    if rng.random() < 0.5:
        a, b = b, a
    c = Fraction(rng.choice([1, -1]) * a, h)
    s = Fraction(rng.choice([1, -1]) * b, h)
    return c, s, math.atan2(float(s), float(c))


def q(x):
    return str(x.numerator) if x.denominator == 1 else f"{x.numerator}/{x.denominator}"


def vec_tok(v):
    return ET((len(v),), list(v)).enc()


def mat_equal(ctx, sig, desc, ans, T):
    a = ans.split(" ")
    if a[0] != "ok":
        ctx.disagree(sig + ":model-error", desc, ans, "impl returned a matrix", replay=[desc])
        return False
    if not proj_close(dec_tens(a[1]), np.asarray(T.array), 1e-9):
        ctx.disagree(sig, desc, a[1], np.asarray(T.array).tolist(), replay=[desc])
        return False
    return True


def affine_stream(ctx, n):
    import geometer as g
    rng = ctx.rng
    gen = Gen(rng, gaussian=0)
    reqs, todo = [], []
    for k in range(n):
        dim = rng.choice([2, 3])
        v = [Fraction(rng.randint(-4, 4), rng.choice([1, 1, 2])) for _ in range(dim)]
        w = Fraction(rng.choice([1, 1, 2, -1, -2, Fraction(1, 2)]))
        how = k % 3
        if how == 0:
            T = call_impl(lambda: g.translation(*[float(x) for x in v]))
            desc = f"translation numbers {v}"
        elif how == 1:
            P = g.Point(np.array([float(x * w) for x in v] + [float(w)]))
            T = call_impl(lambda: g.translation(P))
            desc = f"translation point {[str(x * w) for x in v] + [str(w)]}"
        else:
            f = [Fraction(rng.choice([-3, -2, -1, 1, 2, 3]), rng.choice([1, 2])) for _ in range(dim)]
            T = call_impl(lambda: g.scaling(*[float(x) for x in f]))
            desc = f"scaling {f}"
            v = f
        reqs.append(("scaling " if how == 2 else "translation ") + vec_tok(v))
        todo.append((how, dim, v, T, desc))
    answers = run_driver(reqs)
    for (how, dim, v, T, desc), ans in zip(todo, answers):
        ctx.case(desc)
        ctx.count(desc.split(" ")[0])
        if T[0] != "ok":
            ctx.disagree("C08:" + desc.split(" ")[0] + ":error", desc, ans, T[1:3], replay=[desc])
            continue
        T = T[1]
        if not mat_equal(ctx, "C08:" + desc.split(" ")[0] + ":matrix", desc, ans, T):
            continue
        # definition on the implementation: p -> p + v (translation), coordinates multiplied (scaling), directions fixed
        p = gen.point(dim, cplx=False, inf=False)
        P = p.impl()
        y = T * P
        pa = np.asarray(P.normalized_array, dtype=float)
        if how == 2:
            expv = np.append(pa[:-1] * np.array([float(x) for x in v]), 1.0)
        else:
            expv = np.append(pa[:-1] + np.array([float(x) for x in v]), 1.0)
        if not proj_close_nn(expv, y.array):
            ctx.disagree("C08:" + desc.split(" ")[0] + ":action", desc + f" p={p}", expv.tolist(), np.asarray(y.array).tolist(), replay=[desc])
        if how != 2:
            d = gen.point(dim, cplx=False, inf=True)
            if not proj_close_nn(d.data.cnumpy(), (T * d.impl()).array):
                ctx.disagree("C08:translation:infinity", desc + f" d={d}", d, np.asarray((T * d.impl()).array).tolist(), replay=[desc])


def complex_affine_stream(ctx, n):
    """translation / scaling / affine_transform with complex numbers (complex points are first-class: intersections of circles,
    I and J): p -> p + v and coordinate-wise multiplication must hold for complex v as well"""
    import geometer as g
    rng = ctx.rng
    for k in range(n):
        dim = rng.choice([2, 3])
        v = [complex(rng.randint(-3, 3), rng.choice([0, 1, -2, 3])) for _ in range(dim)]
        if not any(z.imag for z in v):
            v[rng.randrange(dim)] += 1j
        p = np.array([complex(rng.randint(-4, 4), rng.choice([0, 0, 1, -1])) for _ in range(dim)])
        how = k % 3
        if how == 0:
            f, exp, desc = (lambda: g.translation(*v) * g.Point(*p)), p + np.array(v), f"translation{tuple(v)} * Point{tuple(p)}"
        elif how == 1:
            fs = [z if z != 0 else 1 + 1j for z in v]
            f, exp, desc = (lambda: g.scaling(*fs) * g.Point(*p)), p * np.array(fs), f"scaling{tuple(fs)} * Point{tuple(p)}"
        else:
            m = np.eye(dim, dtype=complex) * (1 + 1j)
            f, exp, desc = (lambda: g.affine_transform(m, np.array(v)) * g.Point(*p)), (1 + 1j) * p + np.array(v), f"affine_transform((1+i)·1, {v}) * Point{tuple(p)}"
        ctx.case(desc)
        ctx.count("complex-affine:" + ("translation", "scaling", "affine")[how])
        r = call_impl(f)
        if r[0] != "ok" or not proj_close_nn(np.append(exp, 1.0), r[1].array):
            ctx.disagree("C08:complex-affine:" + ("translation", "scaling", "affine")[how], desc, np.append(exp, 1.0).tolist(),
                         r[1:3] if r[0] != "ok" else np.asarray(r[1].array).tolist(), replay=[desc])


def mixed_dtype_affine_stream(ctx, n):
    """affine_transform(matrix, offset) with an integer linear part and a fractional (or complex) offset, offsets given as
    arrays and as scalars: p -> M p + v must hold whatever the dtypes of the two arguments are"""
    import geometer as g
    rng = ctx.rng
    for k in range(n):
        dim = rng.choice([2, 3])
        while True:
            M = np.array([[rng.randint(-2, 2) for _ in range(dim)] for _ in range(dim)], dtype=np.int64)
            if round(np.linalg.det(M)) != 0:
                break
        how = k % 4
        if how == 0:
            v = np.array([rng.randint(-5, 5) / 2 + 0.25 for _ in range(dim)])
        elif how == 1:
            v = np.array([complex(rng.randint(-3, 3), rng.choice([1, -2, 0.5])) for _ in range(dim)])
        elif how == 2:
            v = rng.choice([0.5, -1.25, 2.75])                  # scalar offset: the same shift in every coordinate
        else:
            v = np.array([rng.randint(-3, 3) for _ in range(dim)], dtype=np.int64)
            M = M.astype(float) / 2
        p = np.array([rng.randint(-4, 4) for _ in range(dim)])
        exp = M @ p + v
        desc = f"affine_transform({M.tolist()} [{M.dtype}], {np.asarray(v).tolist()} [{np.asarray(v).dtype}]) * Point{tuple(p.tolist())}"
        ctx.case(desc)
        ctx.count("mixed-dtype-affine:" + ("frac-offset", "complex-offset", "scalar-offset", "int-offset")[how])
        r = call_impl(lambda: g.affine_transform(M, v) * g.Point(*p))
        if r[0] != "ok" or not proj_close_nn(np.append(exp, 1.0), r[1].array):
            ctx.disagree("C08:mixed-dtype-affine:" + ("frac-offset", "complex-offset", "scalar-offset", "int-offset")[how], desc, np.append(exp, 1.0).tolist(),
                         r[1:3] if r[0] != "ok" else np.asarray(r[1].array).tolist(), replay=[desc])


def rotation_stream(ctx, n):
    import geometer as g
    rng = ctx.rng
    reqs, todo = [], []
    for k in range(n):
        c, s, ang = cs(rng)
        c2, s2, ang2 = cs(rng)
        if k % 3 == 0:
            reqs.append(f"rot2 {q(c)} {q(s)}")
            todo.append(("rot2", c, s, ang, c2, s2, ang2, None, None))
        else:
            x, y, z, h = rng.choice(QUADS)
            ax = list(rng.sample([x, y, z], 3))
            ax = [rng.choice([1, -1]) * t for t in ax]
            unit = [Fraction(t, h) for t in ax]
            lam = Fraction(rng.choice([1, 1, 2, 3, -1, -2, Fraction(1, 2)]))
            w = Fraction(rng.choice([1, 1, 2, -1, -3]))
            axis_h = [float(t * lam * w) for t in ax] + [float(w)]          # homogeneous axis point (finite)
            if k % 7 == 1:
                axis_h = [float(t * lam) for t in ax] + [0.0]               # the axis given as a direction (point at infinity)
            reqs.append(f"rot3 {q(c)} {q(s)} {vec_tok([u * (1 if lam * 1 > 0 else -1) for u in unit])}")
            todo.append(("rot3", c, s, ang, c2, s2, ang2, axis_h, [u * (1 if lam > 0 else -1) for u in unit]))
    answers = run_driver(reqs)
    for (kind, c, s, ang, c2, s2, ang2, axis_h, unit), ans, req in zip(todo, answers, reqs):
        desc = req + (f" axis-point={axis_h}" if axis_h else "")
        ctx.case(desc)
        ctx.count(kind)
        if kind == "rot2":
            T = call_impl(lambda: g.rotation(ang))
            T2 = call_impl(lambda: g.rotation(ang2))
            T12 = call_impl(lambda: g.rotation(ang + ang2))
        else:
            A = g.Point(np.array(axis_h))
            T = call_impl(lambda: g.rotation(ang, axis=A))
            T2 = call_impl(lambda: g.rotation(ang2, axis=A))
            T12 = call_impl(lambda: g.rotation(ang + ang2, axis=A))
        if T[0] != "ok" or T2[0] != "ok" or T12[0] != "ok":
            ctx.disagree(f"C08:{kind}:error", desc, ans, (T[1:3], T2[1:3]), replay=[desc])
            continue
        T, T2, T12 = T[1], T2[1], T12[1]
        if not mat_equal(ctx, f"C08:{kind}:matrix", desc, ans, T):
            continue
        R = np.asarray(T.array, dtype=float)
        R = R / R[-1, -1]
        lin = R[:-1, :-1]
        d = lin.shape[0]
        okdef = np.allclose(lin @ lin.T, np.eye(d), atol=1e-9) and abs(np.linalg.det(lin) - 1) < 1e-9 and np.allclose(R[:-1, -1], 0) and np.allclose(R[-1, :-1], 0)
        if kind == "rot2":
            okdef = okdef and np.allclose(lin @ np.array([1.0, 0.0]), [float(c), float(s)], atol=1e-9)      # counter-clockwise
        else:
            u = np.array([float(t) for t in unit])
            okdef = okdef and np.allclose(lin @ u, u, atol=1e-9) and abs(np.trace(lin) - (1 + 2 * float(c))) < 1e-9
        if not okdef:
            ctx.disagree(f"C08:{kind}:definition", desc, "orthogonal, det 1, axis fixed, turns by |a| (ccw in the plane)", R.tolist(), replay=[desc])
        if not proj_close_nn(np.asarray((T * T2).array), np.asarray(T12.array), 1e-9):
            ctx.disagree(f"C08:{kind}:additive", desc + f" second={ang2}", np.asarray(T12.array).tolist(), np.asarray((T * T2).array).tolist(), replay=[desc])


def reflection_stream(ctx, n):
    import geometer as g
    rng = ctx.rng
    gen = Gen(rng, gaussian=0)
    reqs, todo = [], []
    for k in range(n):
        dim = rng.choice([2, 3])
        while True:
            v = [Fraction(rng.randint(-3, 3)) for _ in range(dim)]
            if any(v):
                break
        dd = Fraction(rng.randint(-4, 4))
        lam = Fraction(rng.choice([1, 2, -1, -3, Fraction(1, 2)]))
        n2 = sum(x * x for x in v)
        x0 = [-dd * x / n2 for x in v]          # a finite point on the mirror
        reqs.append(f"reflection {vec_tok(v)} {vec_tok(x0)}")
        todo.append((dim, v, dd, lam, x0))
    answers = run_driver(reqs)
    for (dim, v, dd, lam, x0), ans, req in zip(todo, answers, reqs):
        harr = np.array([float(x * lam) for x in v] + [float(dd * lam)])
        H = g.Line(harr) if dim == 2 else g.Plane(harr)
        desc = req + f" h={harr.tolist()}"
        ctx.case(desc)
        ctx.count(f"reflection:{dim}d")
        T = call_impl(lambda: g.reflection(H))
        if T[0] != "ok":
            ctx.disagree("C08:reflection:error", desc, ans, T[1:3], replay=[desc])
            continue
        T = T[1]
        if not mat_equal(ctx, "C08:reflection:matrix", desc, ans, T):
            continue
        if np.all(harr == np.round(harr)):
            # the mirror given with an INTEGER dtype (typed in as Line(1, 2, 1)): the same reflection
            Hi = (g.Line if dim == 2 else g.Plane)(harr.astype(np.int64))
            Ti = call_impl(lambda: g.reflection(Hi))
            ctx.count("reflection:int-dtype")
            if Ti[0] != "ok" or not proj_close_nn(np.asarray(T.array, dtype=float), np.asarray(Ti[1].array, dtype=float), 1e-9):
                ctx.disagree("C08:reflection:int-dtype", desc + " given as int64", "the reflection of the float representative",
                             Ti[1:3] if Ti[0] != "ok" else np.asarray(Ti[1].array).tolist(), replay=[desc])
                continue
        p = gen.point(dim, cplx=False, inf=False)
        P = p.impl()
        y = T * P
        back = T * y
        if not proj_close_nn(P.array, back.array, 1e-9):
            ctx.disagree("C08:reflection:involution", desc + f" p={p}", np.asarray(P.array).tolist(), np.asarray(back.array).tolist(), replay=[desc])
        # a point of the mirror is fixed
        X0 = g.Point(np.array([float(t) for t in x0] + [1.0]))
        if not proj_close_nn(X0.array, (T * X0).array, 1e-9):
            ctx.disagree("C08:reflection:fixes-mirror", desc, np.asarray(X0.array).tolist(), np.asarray((T * X0).array).tolist(), replay=[desc])
        m = call_impl(lambda: H.mirror(P))
        if not bool(H.contains(P)):
            if m[0] != "ok" or not proj_close_nn(np.asarray(m[1].array), np.asarray(y.array), 1e-7):
                ctx.disagree("C08:reflection:vs-mirror", desc + f" p={p}", np.asarray(y.array).tolist(), m[1:3] if m[0] != "ok" else np.asarray(m[1].array).tolist(), replay=[desc])


def frame(rng, dim):
    """n+2 points in general position (exact)"""
    n = dim + 1
    while True:
        pts = [[Fraction(rng.randint(-3, 3)) for _ in range(n)] for _ in range(n + 1)]
        ok = all(fdet([pts[i] for i in idx]) != 0 for idx in itertools.combinations(range(n + 1), n))
        if ok:
            return pts


def from_points_stream(ctx, n):
    import geometer as g
    rng = ctx.rng
    reqs, todo = [], []
    for k in range(n):
        dim = rng.choice([2, 3])
        src, tgt = frame(rng, dim), frame(rng, dim)
        if k % 3 == 0:      # affine frames with rescaled representatives
            src = [[x * s for x in p[:-1]] + [s] for p, s in zip(src, [Fraction(rng.choice([1, 2, -1])) for _ in src])]
            if not all(fdet([src[i] for i in idx]) != 0 for idx in itertools.combinations(range(dim + 2), dim + 1)):
                continue
        if k % 4 == 1:
            # the target frame is the image of the source frame under a map that sends the affine origin to a point at infinity:
            # the lower right entry of the matrix is 0 (no representative "with a 1 in the corner" exists)
            while True:
                M = rand_matrix(rng, dim + 1, "generic")
                M[-1][-1] = Fraction(0)
                if fdet(M) != 0:
                    break
            tgt = [[sum(M[i][j] * p[j] for j in range(dim + 1)) for i in range(dim + 1)] for p in src]
            ctx.count("from_points:origin-to-infinity")
        reqs.append("frompoints " + " ".join(vec_tok(p) for p in src + tgt))
        todo.append((dim, src, tgt))
    answers = run_driver(reqs)
    for (dim, src, tgt), ans, req in zip(todo, answers, reqs):
        ctx.case(req)
        ctx.count(f"from_points:{dim}d")
        S = [g.Point(np.array([float(x) for x in p])) for p in src]
        Tg = [g.Point(np.array([float(x) for x in p])) for p in tgt]
        T = call_impl(lambda: g.Transformation.from_points(*zip(S, Tg)))
        if T[0] != "ok":
            ctx.disagree("C08:from_points:error", req, ans, T[1:3], replay=[req])
            continue
        T = T[1]
        mat_equal(ctx, "C08:from_points:matrix", req, ans, T)
        for i, (a, b) in enumerate(zip(S, Tg)):
            if not proj_close_nn(np.asarray((T * a).array), np.asarray(b.array), 1e-8):
                ctx.disagree(f"C08:from_points:maps:{'last' if i == len(S) - 1 else 'basis'}", req, np.asarray(b.array).tolist(),
                             np.asarray((T * a).array).tolist(), replay=[req])
                break


def conics_stream(ctx, n):
    import geometer as g
    rng = ctx.rng
    for k in range(n):
        def conic_with_points():
            while True:
                pts = [[rng.randint(-3, 3), rng.randint(-3, 3), 1] for _ in range(5)]
                if all(fdet([[Fraction(x) for x in pts[i]] for i in idx]) != 0 for idx in itertools.combinations(range(5), 3)):
                    P = [g.Point(np.array(p)) for p in pts]
                    c = g.Conic.from_points(*P)
                    if abs(np.linalg.det(np.asarray(c.array, dtype=float))) > 1e-6:
                        return c, P[:3]
        c1, p1 = conic_with_points()
        c2, p2 = conic_with_points()
        if k % 3 == 0:
            # a frame point at infinity ON the conic: the hyperbola x y = 1 with (1:0:0) or (0:1:0), the parabola y = x^2 with (0:1:0)
            which = rng.choice(["hyperbola", "parabola"])
            if which == "hyperbola":
                cc = g.Conic(np.array([[0.0, 0.5, 0.0], [0.5, 0.0, 0.0], [0.0, 0.0, -1.0]]))
                fin = [g.Point(float(t), 1.0 / t) for t in rng.sample([1, 2, -1, -2, 4], 2)]
                inf = g.Point(np.array(rng.choice([[1.0, 0.0, 0.0], [0.0, 1.0, 0.0]])))
            else:
                cc = g.Conic(np.array([[1.0, 0.0, 0.0], [0.0, 0.0, -0.5], [0.0, -0.5, 0.0]]))
                fin = [g.Point(float(t), float(t * t)) for t in rng.sample([0, 1, 2, -1, -2], 2)]
                inf = g.Point(np.array([0.0, 1.0, 0.0]))
            if rng.random() < 0.5:
                c1, p1 = cc, fin + [inf]
            else:
                c2, p2 = cc, fin + [inf]
        desc = f"from_points_and_conics {[np.asarray(p.array).tolist() for p in p1]} {[np.asarray(p.array).tolist() for p in p2]} {np.asarray(c1.array).tolist()} {np.asarray(c2.array).tolist()}"
        ctx.case(desc)
        ctx.count("from_points_and_conics")
        T = call_impl(lambda: g.Transformation.from_points_and_conics(p1, p2, c1, c2))
        if T[0] != "ok":
            ctx.disagree("C08:conics:error", desc, "a transformation", T[1:3], replay=[desc])
            continue
        T = T[1]
        ok = all(proj_close_nn(np.asarray((T * a).array), np.asarray(b.array), 1e-6) for a, b in zip(p1, p2))
        ok = ok and proj_close_nn(np.asarray((T * c1).array), np.asarray(c2.array), 1e-6)
        if not ok:
            ctx.disagree("C08:conics:maps", desc, "points and conic mapped", np.asarray(T.array).tolist(), replay=[desc])


def correspondence(ctx):
    mixed_dtype_affine_stream(ctx, ctx.budget(40, 400))
    complex_affine_stream(ctx, ctx.budget(45, 450))
    affine_stream(ctx, ctx.budget(120, 2000))
    rotation_stream(ctx, ctx.budget(150, 2500))
    reflection_stream(ctx, ctx.budget(100, 1500))
    from_points_stream(ctx, ctx.budget(100, 1500))
    conics_stream(ctx, ctx.budget(30, 400))


def replay(ctx, rec):
    correspondence(ctx)
