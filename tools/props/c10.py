"""C10 — perpendicular / parallel / projection / mirror constructions and the Cartesian predicates."""
from __future__ import annotations

import math
from fractions import Fraction

import numpy as np

from geolib import Gen, Obj, call_impl
from proto import ET, dec_tens, proj_close, proj_close_nn, run_driver

ID = "C10"
LEAN_FILES = ["Geo/Props/C10.lean", "Geo/Props/C10b.lean", "Geo/Props/C10c.lean", "Geo/Props/C10d.lean"]
RULE = ("2-D lines (vertical, horizontal, through the origin, b=0, c=0, generic) and 3-D planes / lines x points on and off: project and "
        "mirror compared with the exact Cartesian foot / mirror image (S-layer), perpendicular / parallel checked for incidence with the "
        "point and for the Cartesian direction; involution and midpoint; predicates is_perpendicular / is_parallel / is_cocircular / "
        "is_collinear / is_coplanar / is_concurrent on constructed positive and negative instances (incl. >n arguments); angle_bisectors; "
        "base_point / direction / basis_matrix / general_point of every line and plane orientation incl. x=0; carrier planes far from the "
        "origin; collections with mixed on/off points; non-trivial = point off the subspace")
ASSUMPTIONS = ["QR/SVD orthonormality is trusted and verified numerically (1e-9) on every sample"]


def vt(v):
    return ET((len(v),), list(v)).enc()


def fr(p: Obj):
    return [e[0] for e in p.data.entries]


def fl(v):
    return np.array([float(x) for x in v])


SPECIAL_LINES = [[1, 0, 0], [0, 1, 0], [1, 0, -2], [0, 1, 3], [1, 1, 0], [1, -2, 0], [2, 3, -5], [-3, 1, 4]]
SPECIAL_PLANES = [[1, 0, 0, 0], [0, 1, 0, 0], [0, 0, 1, 0], [0, 0, 1, -3], [1, 1, 0, 0], [1, 1, 1, -9], [2, -2, 1, -5], [1, 2, 2, 12], [0, 3, 4, -20]]


def rand_hyper(gen, dim, k):
    rng = gen.rng
    specials = SPECIAL_LINES if dim == 2 else SPECIAL_PLANES
    if k % 3 == 0:
        v = [Fraction(x) for x in rng.choice(specials)]
    else:
        while True:
            v = [Fraction(rng.randint(-4, 4)) for _ in range(dim)] + [Fraction(rng.randint(-12, 12))]
            if any(v[:-1]):
                break
    lam = Fraction(rng.choice([1, 1, 2, -1, -2]))
    return [x * lam for x in v]


def point_on_hyper(rng, hv, dim):
    i = max(range(dim), key=lambda j: abs(hv[j]))
    p = [Fraction(rng.randint(-4, 4)) for _ in range(dim)] + [Fraction(1)]
    rest = sum(hv[j] * p[j] for j in range(dim + 1) if j != i)
    p = [x * hv[i] for x in p]
    p[i] = -rest
    return p


def realify(arr):
    """projective representative with real entries when the object is real up to a complex scalar"""
    arr = np.asarray(arr)
    if np.iscomplexobj(arr) and arr.size:
        k = int(np.argmax(np.abs(arr)))
        piv = arr.reshape(-1)[k]
        if abs(piv) > 0:
            arr = arr / piv
        return np.real_if_close(arr, tol=1e6)
    return arr


def null_dirs(L):
    """points x with L^{kl} x_k = 0 (the line), numerically: 2 basis vectors"""
    u, s, vh = np.linalg.svd(np.asarray(realify(L)).real.T)
    return vh[-2:]


def line3_direction(L):
    ns = null_dirs(L)
    a, b = ns
    # combination with last coordinate 0
    d = a * b[3] - b * a[3]
    return d[:3]


def hyper_stream(ctx, n):
    import geometer as g
    rng = ctx.rng
    gen = Gen(rng, gaussian=0)
    reqs, todo = [], []
    for k in range(n):
        dim = 2 if k % 2 == 0 else 3
        hv = rand_hyper(gen, dim, k)
        on = (k % 5 == 1)
        if on:
            pv = point_on_hyper(rng, hv, dim)
            if pv[-1] == 0:
                continue
        else:
            pv = [Fraction(rng.randint(-5, 5)) for _ in range(dim)] + [Fraction(1)]
        w = Fraction(rng.choice([1, 1, 2, -1, -3]))
        pv = [x * w for x in pv]
        reqs += [f"spec.foot {vt(hv)} {vt(pv)}", f"spec.mirror {vt(hv)} {vt(pv)}"]
        todo.append((dim, hv, pv, on))
    answers = run_driver(reqs)
    for i, (dim, hv, pv, on) in enumerate(todo):
        foot, mir = dec_tens(answers[2 * i].split(" ")[1]), dec_tens(answers[2 * i + 1].split(" ")[1])
        H = g.Line(fl(hv)) if dim == 2 else g.Plane(fl(hv))
        P = g.Point(fl(pv))
        desc = f"hyper dim={dim} h={[str(x) for x in hv]} p={[str(x) for x in pv]} on={on}"
        ctx.case(desc, nontrivial=not on)
        ctx.count(f"hyper:{dim}d:{'on' if on else 'off'}")
        nrm = fl(hv[:-1])
        # project
        r = call_impl(lambda: H.project(P))
        if r[0] != "ok" or not proj_close(foot, np.asarray(r[1].array), 1e-8):
            ctx.disagree(f"C10:project:{dim}d:{'on' if on else 'off'}", desc, foot, r[1:3] if r[0] != "ok" else np.asarray(r[1].array).tolist(), replay=[desc])
        # mirror (2-D lines, 3-D planes)
        r = call_impl(lambda: H.mirror(P))
        if on and r[0] != "ok":
            ctx.count("mirror:on-subspace-raises")       # reflecting a point of the mirror: documented as unhandled for 3-D lines only
            if dim == 2 or True:
                ctx.disagree(f"C10:mirror:{dim}d:on:error", desc, mir, r[1:3], replay=[desc])
        elif r[0] != "ok" or not proj_close(mir, realify(np.asarray(r[1].array)), 1e-7):
            ctx.disagree(f"C10:mirror:{dim}d:{'on' if on else 'off'}", desc, mir, r[1:3] if r[0] != "ok" else np.asarray(r[1].array).tolist(), replay=[desc])
        elif not on:
            back = call_impl(lambda: H.mirror(r[1]))
            if back[0] != "ok" or not proj_close_nn(realify(np.asarray(back[1].array)), np.asarray(P.array), 1e-7):
                ctx.disagree(f"C10:mirror:{dim}d:involution", desc, pv, back[1:3], replay=[desc])
        # perpendicular through p: contains p, direction = normal
        r = call_impl(lambda: H.perpendicular(P))
        good = r[0] == "ok"
        if good:
            m = r[1]
            arr = realify(np.asarray(m.array))
            if dim == 2:
                good = abs(arr @ fl(pv)) < 1e-8 * (1 + np.abs(arr).max() * np.abs(fl(pv)).max()) and \
                    abs(arr[0] * nrm[0] + arr[1] * nrm[1]) < 1e-8 * (1 + np.abs(arr).max() * np.abs(nrm).max())
            else:
                d = line3_direction(arr)
                good = bool(np.all(m.contains(P))) and np.linalg.norm(np.cross(d, nrm)) < 1e-7 * (np.linalg.norm(d) * np.linalg.norm(nrm) + 1e-300)
        if not good:
            ctx.disagree(f"C10:perpendicular:{dim}d:{'on' if on else 'off'}", desc, "line through p with the normal direction", r[1:3] if r[0] != "ok" else np.asarray(r[1].array).tolist(), replay=[desc])
        # parallel through p
        r = call_impl(lambda: H.parallel(P))
        if on:
            good = r[0] == "ok" and proj_close_nn(np.asarray(r[1].array), fl(hv), 1e-8)
        else:
            good = r[0] == "ok" and proj_close_nn(np.asarray(r[1].array)[:-1], nrm, 1e-8) and abs(np.asarray(r[1].array) @ fl(pv)) < 1e-8 * (1 + np.abs(fl(pv)).max() * np.abs(np.asarray(r[1].array)).max())
        if not good:
            ctx.disagree(f"C10:parallel:{dim}d:{'on' if on else 'off'}", desc, "parallel hyperplane through p", r[1:3] if r[0] != "ok" else np.asarray(r[1].array).tolist(), replay=[desc])
        # representatives
        if dim == 2:
            bp, dr = call_impl(lambda: H.base_point), call_impl(lambda: H.direction)
            okb = bp[0] == "ok" and abs(np.asarray(bp[1].array) @ fl(hv)) < 1e-9 and abs(np.asarray(bp[1].array)[-1]) > 1e-12
            okd = dr[0] == "ok" and abs(np.asarray(dr[1].array) @ fl(hv)) < 1e-9 and abs(np.asarray(dr[1].array)[-1]) < 1e-12 and np.abs(np.asarray(dr[1].array)).max() > 0
            if not okb:
                ctx.disagree("C10:base_point", desc, "finite point of the line", bp[1:3] if bp[0] != "ok" else np.asarray(bp[1].array).tolist(), replay=[desc])
            if not okd:
                ctx.disagree("C10:direction", desc, "point at infinity of the line", dr[1:3] if dr[0] != "ok" else np.asarray(dr[1].array).tolist(), replay=[desc])
        bm = call_impl(lambda: H.basis_matrix)
        okm = bm[0] == "ok"
        if okm:
            B = np.asarray(bm[1])
            okm = B.shape == (dim, dim + 1) and np.allclose(B @ B.conj().T, np.eye(dim), atol=1e-9) and np.allclose(B @ fl(hv), 0, atol=1e-9)
        if not okm:
            ctx.disagree(f"C10:basis_matrix:{dim}d", desc, "orthonormal rows spanning the subspace", bm[1:3] if bm[0] != "ok" else np.asarray(bm[1]).tolist(), replay=[desc])
        gp = call_impl(lambda: H.general_point)
        if gp[0] != "ok" or abs(np.asarray(gp[1].array) @ fl(hv)) < 1e-12:
            ctx.disagree(f"C10:general_point:{dim}d", desc, "a point outside the subspace", gp[1:3] if gp[0] != "ok" else np.asarray(gp[1].array).tolist(), replay=[desc])


def line3_stream(ctx, n):
    import geometer as g
    rng = ctx.rng
    gen = Gen(rng, gaussian=0)
    reqs, todo = [], []
    for k in range(n):
        a = [Fraction(rng.randint(-4, 4)) for _ in range(3)] + [Fraction(1)]
        d = [Fraction(rng.randint(-3, 3)) for _ in range(3)]
        if not any(d):
            continue
        b = [a[j] + d[j] for j in range(3)] + [Fraction(1)]
        if k % 4 == 0:          # shift far away from the origin
            off = [Fraction(rng.choice([-9, 7, 10])) for _ in range(3)]
            a = [a[j] + off[j] for j in range(3)] + [Fraction(1)]
            b = [b[j] + off[j] for j in range(3)] + [Fraction(1)]
        p = [Fraction(rng.randint(-5, 5)) for _ in range(3)] + [Fraction(1)]
        reqs += [f"spec.footline {vt(a)} {vt(b)} {vt(p)}", f"spec.mirrorline {vt(a)} {vt(b)} {vt(p)}"]
        todo.append((a, b, p, d))
    answers = run_driver(reqs)
    for i, (a, b, p, d) in enumerate(todo):
        foot, mir = dec_tens(answers[2 * i].split(" ")[1]), dec_tens(answers[2 * i + 1].split(" ")[1])
        L = call_impl(lambda: g.Line(g.Point(fl(a)), g.Point(fl(b))))
        P = g.Point(fl(p))
        desc = f"line3 a={[str(x) for x in a]} b={[str(x) for x in b]} p={[str(x) for x in p]}"
        if L[0] != "ok":
            continue
        L = L[1]
        on = bool(L.contains(P))
        ctx.case(desc, nontrivial=not on)
        ctx.count("line3:" + ("on" if on else "off"))
        r = call_impl(lambda: L.project(P))
        if r[0] != "ok" or not proj_close(foot, realify(np.asarray(r[1].array)), 1e-7):
            ctx.disagree(f"C10:project:line3:{'on' if on else 'off'}", desc, foot, r[1:3] if r[0] != "ok" else np.asarray(r[1].array).tolist(), replay=[desc])
        if not on:
            r = call_impl(lambda: L.mirror(P))
            if r[0] != "ok" or not proj_close(mir, realify(np.asarray(r[1].array)), 1e-6):
                ctx.disagree("C10:mirror:line3", desc, mir, r[1:3] if r[0] != "ok" else np.asarray(r[1].array).tolist(), replay=[desc])
        r = call_impl(lambda: L.perpendicular(P))
        good = r[0] == "ok"
        if good:
            m = r[1]
            dd = line3_direction(realify(np.asarray(m.array)))
            good = bool(np.all(m.contains(P))) and abs(dd @ fl(d)) < 1e-6 * (np.linalg.norm(dd) * np.linalg.norm(fl(d)) + 1e-300)
            if good and not on:
                good = bool(np.all(L.is_coplanar(m)))
        if not good:
            ctx.disagree(f"C10:perpendicular:line3:{'on' if on else 'off'}", desc, "line through p perpendicular to L (meeting L)", r[1:3] if r[0] != "ok" else np.asarray(r[1].array).tolist(), replay=[desc])
        r = call_impl(lambda: L.parallel(P))
        if not on:
            good = r[0] == "ok" and bool(np.all(r[1].contains(P))) and np.linalg.norm(np.cross(line3_direction(np.asarray(r[1].array)), fl(d))) < 1e-7 * (1 + np.linalg.norm(fl(d)) ** 2)
            if not good:
                ctx.disagree("C10:parallel:line3", desc, "parallel line through p", r[1:3] if r[0] != "ok" else np.asarray(r[1].array).tolist(), replay=[desc])
        bp, dr, bm = call_impl(lambda: L.base_point), call_impl(lambda: L.direction), call_impl(lambda: L.basis_matrix)
        okb = bp[0] == "ok" and bool(np.all(L.contains(bp[1]))) and abs(np.asarray(bp[1].array)[-1]) > 1e-9
        okd = dr[0] == "ok" and abs(np.asarray(dr[1].array)[-1]) < 1e-9 and np.linalg.norm(np.cross(np.asarray(dr[1].array)[:3], fl(d))) < 1e-7 * (1 + np.linalg.norm(fl(d)) * np.abs(np.asarray(dr[1].array)).max())
        okm = bm[0] == "ok" and np.asarray(bm[1]).shape == (2, 4) and np.allclose(np.asarray(bm[1]) @ np.asarray(bm[1]).T, np.eye(2), atol=1e-9) and \
            all(bool(np.all(L.contains(g.Point(row)))) for row in np.asarray(bm[1]))
        for name, okx, val in (("base_point", okb, bp), ("direction", okd, dr), ("basis_matrix", okm, bm)):
            if not okx:
                ctx.disagree(f"C10:{name}:line3", desc, name, val[1:3] if val[0] != "ok" else np.asarray(getattr(val[1], "array", val[1])).tolist(), replay=[desc])


def predicate_stream(ctx, n):
    import geometer as g
    rng = ctx.rng
    gen = Gen(rng, gaussian=0)
    for k in range(n):
        which = k % 6
        if which == 0:      # is_perpendicular lines 2-D / 3-D
            dim = rng.choice([2, 3])
            u = [rng.randint(-4, 4) for _ in range(dim)]
            if not any(u):
                continue
            if dim == 2:
                v = [-u[1], u[0]] if rng.random() < 0.5 else [rng.randint(-4, 4) for _ in range(2)]
            else:
                r = [rng.randint(-3, 3) for _ in range(3)]
                v = list(np.cross(u, r)) if rng.random() < 0.5 else [rng.randint(-4, 4) for _ in range(3)]
            if not any(v) or not np.any(np.cross(u, v)):
                continue
            o = [rng.randint(-9, 9) for _ in range(dim)]
            exp = sum(a * b for a, b in zip(u, v)) == 0
            O = g.Point(*map(float, o))
            l1 = g.join(O, g.Point(*[float(o[j] + u[j]) for j in range(dim)]))
            l2 = g.join(O, g.Point(*[float(o[j] + v[j]) for j in range(dim)]))
            desc = f"is_perpendicular dim={dim} o={o} u={u} v={list(map(int, v))}"
            r = call_impl(lambda: bool(g.is_perpendicular(l1, l2)))
            name = f"is_perpendicular:{dim}d"
        elif which == 1:    # is_perpendicular planes; is_parallel
            n1 = [rng.randint(-3, 3) for _ in range(3)]
            r0 = [rng.randint(-3, 3) for _ in range(3)]
            n2 = list(np.cross(n1, r0)) if rng.random() < 0.5 else [rng.randint(-3, 3) for _ in range(3)]
            if not any(n1) or not any(n2) or not np.any(np.cross(n1, n2)):
                continue
            exp = int(np.dot(n1, n2)) == 0
            e1, e2 = g.Plane(*map(float, n1), float(rng.randint(-5, 5))), g.Plane(*map(float, n2), float(rng.randint(-5, 5)))
            desc = f"is_perpendicular planes {n1} {list(map(int, n2))}"
            r = call_impl(lambda: bool(g.is_perpendicular(e1, e2)))
            name = "is_perpendicular:planes"
        elif which == 2:    # is_parallel of distinct hyperplanes
            dim = rng.choice([2, 3])
            hv = rand_hyper(gen, dim, k)
            par = rng.random() < 0.5
            if par:
                other = [x * 2 for x in hv[:-1]] + [hv[-1] * 2 + rng.choice([1, -3, 5])]
            else:
                other = rand_hyper(gen, dim, k + 1)
                if not np.any(np.cross(fl(other[:-1]), fl(hv[:-1])) if dim == 3 else [other[0] * hv[1] - other[1] * hv[0]]):
                    continue
            exp = par
            H1 = (g.Line if dim == 2 else g.Plane)(fl(hv))
            H2 = (g.Line if dim == 2 else g.Plane)(fl(other))
            desc = f"is_parallel dim={dim} {[str(x) for x in hv]} {[str(x) for x in other]}"
            r = call_impl(lambda: bool(H1.is_parallel(H2)))
            name = f"is_parallel:{dim}d"
        elif which == 3:    # is_cocircular: 4 points on a circle through lattice points (Pythagorean) or not
            cx, cy = rng.randint(-3, 3), rng.randint(-3, 3)
            base = [(3, 4), (4, 3), (-3, 4), (5, 0), (0, -5), (-4, -3), (4, -3), (0, 5), (-5, 0), (3, -4)]
            pts = rng.sample(base, 4)
            co = rng.random() < 0.5
            if not co:
                pts[3] = (pts[3][0] + rng.choice([1, -1, 2]), pts[3][1])
            P = [g.Point(float(cx + x), float(cy + y)) for x, y in pts]
            # exact decision
            M = np.array([[x * x + y * y, x, y, 1] for x, y in pts], dtype=float)
            exp = abs(np.linalg.det(M)) < 1e-9
            desc = f"is_cocircular centre=({cx},{cy}) pts={pts}"
            r = call_impl(lambda: bool(g.is_cocircular(*P)))
            name = "is_cocircular"
        elif which == 4:    # is_collinear / is_coplanar with n+1 or more arguments; is_concurrent
            dim = rng.choice([2, 3])
            m = dim + 1 + rng.randint(0, 2)
            base = [[rng.randint(-3, 3) for _ in range(dim + 1)] for _ in range(dim)]
            if np.linalg.matrix_rank(np.array(base)) < dim:
                continue
            pts = []
            for _ in range(m):
                cs = [rng.randint(-2, 2) for _ in range(dim)]
                v = [sum(c * b[j] for c, b in zip(cs, base)) for j in range(dim + 1)]
                if not any(v):
                    v = list(base[0])
                pts.append(v)
            good = rng.random() < 0.5
            if not good:
                pts[-1] = [rng.randint(-3, 3) for _ in range(dim + 1)]
            exp = np.linalg.matrix_rank(np.array(pts, dtype=float)) <= dim
            asline = dim == 2 and rng.random() < 0.4
            objs = [g.Line(np.array(p, dtype=float)) if asline else g.Point(np.array(p, dtype=float)) for p in pts]
            desc = f"is_coplanar dim={dim} {'lines' if asline else 'points'} {pts}"
            r = call_impl(lambda: bool(np.all((g.is_concurrent if asline else g.is_coplanar)(*objs))))
            name = f"is_coplanar:{dim}d:{'lines' if asline else 'points'}"
            if np.linalg.matrix_rank(np.array(pts[:dim], dtype=float)) < dim and m > dim + 1:
                name = "is_coplanar:dependent-prefix"      # former KF-C10-1 (repaired)
        else:               # angle_bisectors
            dim = rng.choice([2, 3])
            o = [rng.randint(-6, 6) for _ in range(dim)]
            u = [rng.randint(-4, 4) for _ in range(dim)]
            v = [rng.randint(-4, 4) for _ in range(dim)]
            if not np.any(np.cross(u, v)):
                continue
            O = g.Point(*map(float, o))
            l1 = g.join(O, g.Point(*[float(o[j] + u[j]) for j in range(dim)]))
            l2 = g.join(O, g.Point(*[float(o[j] + v[j]) for j in range(dim)]))
            desc = f"angle_bisectors dim={dim} o={o} u={u} v={v}"
            r = call_impl(lambda: g.angle_bisectors(l1, l2))
            ctx.case(desc)
            ctx.count(f"angle_bisectors:{dim}d")
            good = r[0] == "ok"
            if good:
                b1, b2 = r[1]
                un, vn = np.array(u) / np.linalg.norm(u), np.array(v) / np.linalg.norm(v)
                exp_dirs = [un + vn, un - vn]
                dirs = []
                for bline in (b1, b2):
                    arr = realify(np.asarray(bline.array))
                    dirs.append(np.array([arr[1], -arr[0]]) if dim == 2 else line3_direction(arr))
                    good = good and bool(np.all(bline.contains(O)))
                def par(x, y):
                    return np.linalg.norm(np.cross(x, y)) < 1e-6 * (np.linalg.norm(x) * np.linalg.norm(y) + 1e-300)
                good = good and ((par(dirs[0], exp_dirs[0]) and par(dirs[1], exp_dirs[1])) or (par(dirs[0], exp_dirs[1]) and par(dirs[1], exp_dirs[0])))
            if not good:
                ctx.disagree(f"C10:angle_bisectors:{dim}d", desc, "the two perpendicular bisecting lines through the vertex", r[1:3] if r[0] != "ok" else [np.asarray(x.array).tolist() for x in r[1]], replay=[desc])
            continue
        ctx.case(desc)
        ctx.count(name + ":" + str(bool(exp)))
        if r[0] != "ok" or r[1] != bool(exp):
            ctx.disagree("C10:" + name, desc, bool(exp), r[1:3], replay=[desc])


def collection_stream(ctx, n):
    """collections with mixed on/off points: position-wise equal to the single calls"""
    import geometer as g
    rng = ctx.rng
    gen = Gen(rng, gaussian=0)
    for k in range(n):
        hv = rand_hyper(gen, 2, k)
        m = rng.randint(2, 4)
        pts = []
        for j in range(m):
            pv = point_on_hyper(rng, hv, 2) if rng.random() < 0.4 else [Fraction(rng.randint(-5, 5)), Fraction(rng.randint(-5, 5)), Fraction(1)]
            if pv[-1] == 0:
                pv = [Fraction(1), Fraction(2), Fraction(1)]
            pts.append(pv)
        H = g.Line(fl(hv))
        PC = g.PointCollection(np.array([fl(p) for p in pts]))
        desc = f"collection line={[str(x) for x in hv]} pts={[[str(x) for x in p] for p in pts]}"
        ctx.case(desc)
        ctx.count("collection")
        for name in ("perpendicular", "project", "parallel"):
            r = call_impl(lambda: getattr(H, name)(PC))
            singles = [call_impl(lambda p=p: getattr(H, name)(g.Point(fl(p)))) for p in pts]
            ok = r[0] == "ok" and all(s[0] == "ok" for s in singles) and len(r[1]) == m and \
                all(proj_close_nn(realify(np.asarray(r[1].array[j])), realify(np.asarray(s[1].array)), 1e-8) for j, s in enumerate(singles))
            if not ok:
                ctx.disagree(f"C10:collection:{name}", desc, [np.asarray(s[1].array).tolist() if s[0] == "ok" else s[1] for s in singles],
                             r[1:3] if r[0] != "ok" else np.asarray(r[1].array).tolist(), replay=[desc])


def witnesses(ctx):
    """witnesses of the recorded findings are replayed on every run (a finding stays demonstrated, not assumed)"""
    import geometer as g
    pts = [[8, 4, 6], [-4, -2, -3], [-4, 0, -6], [4, 0, 6], [-3, 0, -2]]
    desc = f"is_coplanar dim=2 points {pts} (witness of the former finding KF-C10-1)"
    ctx.case(desc)
    r = call_impl(lambda: bool(np.all(g.is_collinear(*[g.Point(np.array(p, dtype=float)) for p in pts]))))
    if r[0] != "ok" or r[1] is not False:
        ctx.disagree("C10:is_coplanar:dependent-prefix", desc, False, r[1:3], replay=[desc])


def collinear_collections(ctx, n, prefix="C10"):
    """is_collinear with more than n arguments on collections whose positions differ: at one position already the first three
    points are in general position, at another the first three are collinear and only a later argument is off, at a third all
    are collinear - every position is answered on its own"""
    import geometer as g
    rng = ctx.rng
    for k in range(n):
        def line_pts(m, off_at=None):
            a = np.array([float(rng.randint(-3, 3)), float(rng.randint(-3, 3)), 1.0])
            d = np.array([float(rng.randint(1, 3)), float(rng.randint(-2, 2)), 0.0])
            pts = [a + t * d for t in rng.sample([-2, -1, 0, 1, 2, 3], m)]
            if off_at is not None:
                pts[off_at] = pts[off_at] + np.array([0.0, 1.0, 0.0]) * (1 if d[0] else 0) + np.array([1.0, 0.0, 0.0]) * (0 if d[0] else 1)
            return pts
        m = rng.choice([4, 5])
        rows = [line_pts(m, off_at=rng.randrange(3)), line_pts(m, off_at=rng.randrange(3, m)), line_pts(m)]
        exp = [False, False, True]
        order = [0, 1, 2]
        rng.shuffle(order)
        cols = [g.PointCollection(np.array([rows[i][j] for i in order])) for j in range(m)]
        desc = f"is_collinear of {m} point collections, rows {[[p.tolist() for p in rows[i]] for i in order]}"
        ctx.case(desc)
        ctx.count("is_collinear:mixed-collection")
        r = call_impl(lambda: np.asarray(g.is_collinear(*cols)).tolist())
        if r[0] != "ok" or r[1] != [exp[i] for i in order]:
            ctx.disagree(f"{prefix}:is_collinear:mixed-collection", desc, [exp[i] for i in order], r[1:3], replay=[desc])


def scaled_parallel_stream(ctx, n):
    """is_parallel for subspaces whose coefficient vectors carry a small (or large) non-unit homogeneous factor: lines / planes that
    meet far away under a small angle are NOT parallel, exactly parallel ones are — for every representative"""
    import geometer as g
    rng = ctx.rng
    for k in range(n):
        m = rng.choice([1 / 1024, 1 / 512, 1 / 4096])         # slope of the second line / plane against the first
        c = float(rng.choice([1, 2, -3]))
        s1, s2 = rng.choice([2.0 ** -10, 2.0 ** -12, 1.0, 2.0 ** 9]), rng.choice([2.0 ** -10, 2.0 ** -13, 1.0, 2.0 ** 7])
        par = (k % 3 == 0)
        mm = 0.0 if par else m
        kind = rng.choice(["line2", "plane", "plane-line3"])
        if kind == "line2":
            a, b = g.Line(np.array([0.0, 1.0, 0.0]) * s1), g.Line(np.array([mm, -1.0, -c]) * s2)
            f = lambda: (bool(a.is_parallel(b)), bool(b.is_parallel(a)))
        elif kind == "plane":
            a, b = g.Plane(np.array([0.0, 0.0, 1.0, 0.0]) * s1), g.Plane(np.array([mm, 0.0, -1.0, -c]) * s2)
            f = lambda: (bool(a.is_parallel(b)), bool(b.is_parallel(a)))
        else:
            # the line y = 0, z = mm x - c  against the plane z = 0
            a = g.Plane(np.array([0.0, 0.0, 1.0, 0.0]) * s1)
            b = g.Line(g.Point(0.0, 0.0, -c), g.Point(1024.0, 0.0, 1024.0 * mm - c))
            f = lambda: (bool(a.is_parallel(b)), bool(b.is_parallel(a)))
        desc = f"is_parallel {kind} slope={mm} offset={c} factors={s1},{s2}"
        ctx.case(desc)
        ctx.count(f"scaled-parallel:{kind}:{'parallel' if par else 'meeting'}")
        r = call_impl(f)
        if r[0] != "ok" or r[1] != (par, par):
            ctx.disagree(f"C10:scaled-parallel:{kind}:{'parallel' if par else 'meeting'}", desc, (par, par), r[1:3], replay=[desc])


def cocircular3d_stream(ctx, n):
    """is_cocircular for points of space: four points of a circle in a plane of space are cocircular; moving the fourth point off
    the plane of the other three (or off the circle inside the plane) makes the answer False"""
    import geometer as g
    rng = ctx.rng
    FR = [((1, 0, 0), (0, 1, 0), (0, 0, 1)), ((2 / 3, 1 / 3, 2 / 3), (-1 / 3, -2 / 3, 2 / 3), (2 / 3, -2 / 3, -1 / 3)),
          ((0.6, 0.8, 0), (-0.8, 0.6, 0), (0, 0, 1)), ((0, 0.6, 0.8), (0, -0.8, 0.6), (1, 0, 0))]
    PYTH = [(3, 4), (4, 3), (-3, 4), (3, -4), (-4, -3), (5, 0), (0, -5), (0, 5), (-5, 0), (-4, 3)]
    for k in range(n):
        u, v, w = (np.array(x, dtype=float) for x in rng.choice(FR))
        c = np.array([float(rng.randint(-3, 3)) for _ in range(3)])
        ps = rng.sample(PYTH, 4)
        pts = [c + a * u + b * v for a, b in ps]
        mode = rng.choice(["on", "on", "off-plane", "off-circle"])
        if mode == "off-plane":
            pts[3] = pts[3] + float(rng.choice([1, -2, 3])) * w
        elif mode == "off-circle":
            pts[3] = c + 2.0 * u + 1.0 * v
        P = [g.Point(*[float(x) for x in p]) for p in pts]
        desc = f"is_cocircular in space: centre {c.tolist()} frame {u.tolist()},{v.tolist()} points {ps} fourth {mode}"
        ctx.case(desc)
        ctx.count("cocircular3d:" + mode)
        r = call_impl(lambda: bool(g.is_cocircular(*P)))
        if r[0] != "ok" or r[1] != (mode == "on"):
            ctx.disagree("C10:cocircular3d:" + mode, desc, mode == "on", r[1:3], replay=[desc])


def generated_case_analysis_stream(ctx, n):
    """LineTensor.base_point / direction of lines of the plane against the case analyses regenerated from the source
    (Gen.line_base_point, Gen.line_direction — the objects of T10_base_point_2d / T10_direction_2d), coordinate by coordinate"""
    import geometer as g
    rng = ctx.rng
    lines = [[0, 0, 1], [1, 0, 0], [0, 1, 0], [1, 0, -2], [0, 3, 5], [2, -1, 0]]
    while len(lines) < n:
        lines.append([rng.randint(-4, 4) for _ in range(3)])
    lines = [l for l in lines if any(l)]
    reqs = [f"gen.basepoint2 {vt([Fraction(x) for x in l])}" for l in lines] + [f"gen.direction2 {vt([Fraction(x) for x in l])}" for l in lines]
    ans = run_driver(reqs)
    for i, l in enumerate(lines):
        L = g.Line(np.array(l, dtype=float))
        for name, a, f in (("base_point", ans[i], lambda: L.base_point), ("direction", ans[len(lines) + i], lambda: L.direction)):
            exp = [float(r) for r, _ in dec_tens(a.split(" ")[1]).entries]
            desc = f"{name} of the line {l}"
            ctx.case(desc)
            ctx.count("generated:" + name)
            r = call_impl(f)
            if r[0] != "ok" or not np.array_equal(np.asarray(r[1].array, dtype=float), np.array(exp)):
                ctx.disagree(f"C10:generated:{name}", desc, exp, r[1:3] if r[0] != "ok" else np.asarray(r[1].array).tolist(), replay=[desc])


def complex_line3_stream(ctx, n):
    """lines of space through points with complex coordinates: base_point and the rows of basis_matrix are points of the line,
    the rows are orthonormal (Hermitian), the direction is at infinity on the line"""
    import geometer as g
    rng = ctx.rng
    for k in range(n):
        def cp():
            return np.array([complex(rng.randint(-3, 3), rng.randint(-2, 2)) for _ in range(3)] + [1.0])
        p, q = cp(), cp()
        if np.linalg.matrix_rank(np.stack([p, q])) < 2 or not (np.any(p.imag) or np.any(q.imag)):
            continue
        desc = f"complex line of space through {p[:3].tolist()} and {q[:3].tolist()}"
        ctx.case(desc)
        ctx.count("complex-line3")
        def run():
            l = g.Line(g.Point(p), g.Point(q))
            m = np.asarray(l.basis_matrix)
            return (bool(l.contains(l.base_point)), [bool(l.contains(g.Point(r))) for r in m], bool(np.allclose(m @ m.conj().T, np.eye(2), atol=1e-9)),
                    bool(l.contains(l.direction)), bool(abs(np.asarray(l.direction.array)[-1]) <= 1e-9 * np.linalg.norm(l.direction.array)))
        r = call_impl(run)
        if r[0] != "ok" or r[1] != (True, [True, True], True, True, True):
            ctx.disagree("C10:complex-line3", desc, "(base point on the line, both basis rows on the line, orthonormal, direction on the line, at infinity)",
                         r[1:3], replay=[desc])


def constructions_model_stream(ctx, n):
    """the executable model of Geo/Constructions.lean (the compositions of cross products that C10c's theorems are about) against
    the live methods: parallel, perpendicular (point on / off the line), project, mirror in the plane; project onto a plane of
    space — lines / points of any homogeneous scale, compared projectively"""
    import geometer as g
    rng = ctx.rng
    reqs, todo = [], []
    for k in range(n):
        sc1, sc2 = rng.choice([1, 1, 2, -1, -3, Fraction(1, 2)]), rng.choice([1, 1, 2, -1, Fraction(1, 4)])
        if k % 4 < 3:
            l = [Fraction(rng.randint(-4, 4)) for _ in range(3)]
            if not (l[0] or l[1]):
                continue
            if k % 4 == 1:
                # a point ON the line (exactly): p = foot of a random point, scaled to integers
                q = [Fraction(rng.randint(-4, 4)), Fraction(rng.randint(-4, 4))]
                t = (l[0] * q[0] + l[1] * q[1] + l[2]) / (l[0] ** 2 + l[1] ** 2)
                p = [q[0] - t * l[0], q[1] - t * l[1], Fraction(1)]
            else:
                p = [Fraction(rng.randint(-5, 5)), Fraction(rng.randint(-5, 5)), Fraction(1)]
            l, p = [sc1 * x for x in l], [sc2 * x for x in p]
            on = (l[0] * p[0] + l[1] * p[1] + l[2] * p[2]) == 0
            L, P = g.Line(np.array([float(x) for x in l])), g.Point(np.array([float(x) for x in p]))
            for op, f in (("m.parallel2", lambda L=L, P=P: L.parallel(P)), ("m.perpon2" if on else "m.perpoff2", lambda L=L, P=P: L.perpendicular(P)),
                          ("m.project2", lambda L=L, P=P: L.project(P)), ("m.mirror2", lambda L=L, P=P: L.mirror(P))):
                if op == "m.mirror2" and on:
                    continue
                reqs.append(f"{op} {vt(l)} {vt(p)}")
                todo.append((op, f, f"{op[2:]} line={[str(x) for x in l]} point={[str(x) for x in p]}"))
        else:
            e = [Fraction(rng.randint(-3, 3)) for _ in range(4)]
            if not any(e[:3]):
                continue
            p = [Fraction(rng.randint(-4, 4)) for _ in range(3)] + [Fraction(1)]
            e, p = [sc1 * x for x in e], [sc2 * x for x in p]
            E, P = g.Plane(np.array([float(x) for x in e])), g.Point(np.array([float(x) for x in p]))
            reqs.append(f"m.planefoot {vt(e)} {vt(p)}")
            todo.append(("m.planefoot", lambda E=E, P=P: E.project(P), f"planefoot plane={[str(x) for x in e]} point={[str(x) for x in p]}"))
    answers = run_driver(reqs)
    for (op, f, desc), ans in zip(todo, answers):
        ctx.case(desc)
        ctx.count("model:" + op[2:])
        a = ans.split(" ")
        r = call_impl(f)
        if a[0] != "ok":
            ctx.disagree(f"C10:model:{op[2:]}:driver", desc, ans, r[1:3], replay=[desc])
            continue
        exp = dec_tens(a[1])
        if r[0] != "ok" or not proj_close(exp, np.asarray(r[1].array), rtol=1e-9):
            ctx.disagree(f"C10:model:{op[2:]}", desc, a[1], r[1:3] if r[0] != "ok" else np.asarray(r[1].array).tolist(), replay=[desc])


def perpendicular_in_plane_stream(ctx, n, prefix="C10"):
    """Line.perpendicular(points, plane=planes) in space with the rarely used keyword: a single line (or a collection) against a point
    collection of which some points lie on the line and some do not, each with its own plane through the line — position by position
    what the single calls return, and each result passes through its point, lies in its plane and is perpendicular to the line"""
    import geometer as g
    rng = ctx.rng
    for k in range(n):
        a = np.array([rng.randint(-3, 3) for _ in range(3)], dtype=float)
        d = np.array([rng.randint(-2, 2) for _ in range(3)], dtype=float)
        if not d.any():
            continue
        L = g.Line(g.Point(*a), g.Point(*(a + d)))
        m = rng.randint(2, 4)
        pts, planes = [], []
        on_flags = [rng.random() < 0.5 for _ in range(m)]
        if k % 2 == 0:
            on_flags[0], on_flags[-1] = True, False        # mixed: some but not all points on the line
        for on in on_flags:
            while True:
                w = np.array([rng.randint(-3, 3) for _ in range(3)], dtype=float)
                if np.linalg.matrix_rank(np.stack([d, w])) == 2:
                    break
            t = float(rng.randint(-2, 3))
            p = a + t * d if on else a + t * d + w
            pts.append(g.Point(*p))
            planes.append(g.Plane(g.Point(*a), g.Point(*(a + d)), g.Point(*(a + w))))
        desc = f"perpendicular(points, plane=planes) line through {a.tolist()} direction {d.tolist()} points {[np.asarray(q.array)[:3].tolist() for q in pts]} on-line {on_flags}"
        ctx.case(desc)
        ctx.count("perpendicular-in-plane:" + ("mixed" if len(set(on_flags)) == 2 else "uniform"))
        singles = [call_impl(lambda q=q, e=e: L.perpendicular(q, plane=e)) for q, e in zip(pts, planes)]
        if any(x[0] != "ok" for x in singles):
            continue
        PC, EC = g.PointCollection(pts), g.PlaneCollection(planes)
        for label, f in (("single-line", lambda: L.perpendicular(PC, plane=EC)),
                         ("line-collection", lambda: g.LineCollection([L] * m).perpendicular(PC, plane=EC))):
            r = call_impl(f)
            ok = r[0] == "ok" and np.asarray(r[1].array).shape == (m, 4, 4)
            if ok:
                ok = all(proj_close_nn(np.asarray(singles[i][1].array), np.asarray(r[1].array)[i], 1e-7) for i in range(m))
            if not ok:
                ctx.disagree(f"{prefix}:perpendicular-in-plane:{label}", desc, "the perpendiculars of the single calls",
                             r[1:3] if r[0] != "ok" else np.round(np.asarray(r[1].array), 5).tolist(), replay=[desc])
                break
        # the single results meet the definition
        for i, x in enumerate(singles):
            perp = x[1]
            dirp = np.asarray(perp.direction.array, dtype=complex)[:3]
            good = bool(perp.contains(pts[i])) and bool(planes[i].contains(perp)) and abs(np.dot(dirp, d)) <= 1e-7 * np.linalg.norm(dirp) * np.linalg.norm(d)
            if not good:
                ctx.disagree(f"{prefix}:perpendicular-in-plane:definition", desc + f" position {i}", "through the point, in the plane, perpendicular to the line",
                             np.round(np.asarray(perp.array), 5).tolist(), replay=[desc])
                break


def bisector_model_stream(ctx, n):
    """the two directions a I +- b J of Geo/Constructions.lean (about which T10_angle_bisectors is) against the directions of the lines
    that angle_bisectors returns; the lines have directions z^2, w^2 for Gaussian integers z, w, so that the square roots the code
    takes are the Gaussian numbers b = z w, a = conj(z w) up to sign (a sign flip only swaps the two bisectors)"""
    import geometer as g
    rng = ctx.rng
    reqs, todo = [], []
    for k in range(n):
        z = complex(rng.randint(-3, 3), rng.randint(-3, 3))
        w = complex(rng.randint(-3, 3), rng.randint(-3, 3))
        if z == 0 or w == 0:
            continue
        zl, zm = z * z, w * w
        if abs(zl.real * zm.imag - zl.imag * zm.real) < 0.5:
            continue                                     # the same (or opposite) direction: not two lines through one vertex
        o = (float(rng.randint(-3, 3)), float(rng.randint(-3, 3)))
        l = g.Line(g.Point(*o), g.Point(o[0] + zl.real, o[1] + zl.imag))
        m = g.Line(g.Point(*o), g.Point(o[0] + zm.real, o[1] + zm.imag))
        b = z * w
        a = b.conjugate()
        tok = lambda c: f"{int(c.real)}_{int(c.imag)}"
        reqs.append(f"m.bisectordirs {tok(a)} {tok(b)}")
        todo.append((l, m, f"angle_bisectors of the lines through {o} with directions z^2, w^2 for z={z}, w={w}"))
    for (l, m, desc), ans in zip(todo, run_driver(reqs)):
        ctx.case(desc)
        ctx.count("model:bisectordirs")
        r = call_impl(lambda: [np.asarray(x.meet(g.infty).array) for x in g.angle_bisectors(l, m)])
        a = ans.split(" ")
        ok = a[0] == "ok" and r[0] == "ok" and len(r[1]) == 2
        if ok:
            ent = dec_tens(a[1]).cnumpy().reshape(2, 3)
            ok = all(any(proj_close_nn(e, x, 1e-7) for x in r[1]) for e in ent) and not proj_close_nn(r[1][0], r[1][1], 1e-7)
        if not ok:
            ctx.disagree("C10:model:bisectordirs", desc, ans[:200], r[1:3] if r[0] != "ok" else [np.round(x, 6).tolist() for x in r[1]], replay=[desc])


def correspondence(ctx):
    bisector_model_stream(ctx, ctx.budget(60, 600))
    perpendicular_in_plane_stream(ctx, ctx.budget(30, 300))
    constructions_model_stream(ctx, ctx.budget(120, 1500))
    import colllib
    colllib.run(ctx, ctx.budget(40, 400), prefix="C10", only={"angle_bisectors3"}, patterns=["k", "1", "k1", "1k"])
    complex_line3_stream(ctx, ctx.budget(40, 400))
    generated_case_analysis_stream(ctx, ctx.budget(60, 600))
    cocircular3d_stream(ctx, ctx.budget(40, 400))
    scaled_parallel_stream(ctx, ctx.budget(60, 600))
    collinear_collections(ctx, ctx.budget(30, 300))
    witnesses(ctx)
    hyper_stream(ctx, ctx.budget(300, 5000))
    line3_stream(ctx, ctx.budget(120, 2000))
    predicate_stream(ctx, ctx.budget(300, 5000))
    collection_stream(ctx, ctx.budget(60, 800))


def replay(ctx, rec):
    correspondence(ctx)
