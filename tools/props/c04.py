"""C04 — collections compute element by element what single objects compute."""
from __future__ import annotations

import itertools

import numpy as np

import jmlib
from geolib import Gen, Obj, call_impl, classify_impl, compare_obj, stack
from proto import ET, dec_bools, dec_tens, proj_close, proj_close_nn, run_driver

ID = "C04"
LEAN_FILES = ["Geo/Props/C04.lean", "Geo/Props/C05c.lean", "Geo/Props/C04b.lean"]
RULE = ("every modelled operation on collections (join/meet in all 12 scenarios, contains, is_coplanar, transformation apply, ...) "
        "with 1-2 collection axes, lengths 1-4, mixed single/collection arguments and right-aligned broadcasting: the result at "
        "every position is compared with the model's answer for the SINGLE objects at that position; integer indexing / iteration "
        "of every collection class returns the element class with attributes intact; non-trivial = collection with >= 2 positions "
        "or a broadcast; plus (tools/colllib.py) ~50 further public operations (quadric tangent / polar / contains / intersect, crossratio, "
        "harmonic_set, angle, dist, predicates, project / perpendicular / parallel / mirror, point arithmetic, transformation apply and "
        "compose, segment / triangle contains, midpoint, length, area) on valid single-object tuples stacked into collections of shape (k,), "
        "(1,), (k,1), (1,k) and mixed single/collection arguments: the result at every position must equal (same class family, projectively / "
        "numerically) what the library returns for the single objects of that position")
ASSUMPTIONS = ["per-position comparison is projective (rtol 1e-9)"]


def jm_positionwise(ctx, n):
    """collection call on the implementation vs model on the single objects at each position"""
    g = Gen(ctx.rng)
    cases = []
    for sc in jmlib.SCENARIOS:
        for _ in range(n):
            op, args = jmlib.collection_case(g, sc, degen_rate=0.15)
            cases.append((sc, op, args))
    # requests: one per position
    reqs, index = [], []
    for ci, (sc, op, args) in enumerate(cases):
        shape = max((a.data.shape[:a.nfree] for a in args), key=len)
        poss = list(itertools.product(*[range(s) for s in shape]))
        for pos in poss:
            reqs.append(jmlib.request(op, [a.at(pos) for a in args]))
            index.append((ci, pos))
    answers = run_driver(reqs)
    per = {}
    for (ci, pos), ans in zip(index, answers):
        per.setdefault(ci, []).append((pos, ans))
    for ci, (sc, op, args) in enumerate(cases):
        res = jmlib.run_impl(op, args)
        line = jmlib.request(op, args, by_identity=True)
        shape = max((a.data.shape[:a.nfree] for a in args), key=len)
        ctx.case(line, nontrivial=(int(np.prod(shape)) >= 2 or any(a.nfree < len(shape) for a in args)))
        ctx.count(f"{sc}:{'x'.join(map(str, shape))}")
        exp_err = [(pos, a) for pos, a in per[ci] if a.startswith("err")]
        if res[0] == "err":
            if not exp_err:
                ctx.disagree(f"C04:{op}:spurious-error:{res[1]}", line, "no position raises for single objects", f"collection call raised {res[1]}: {str(res[2])[:100]}", replay=[line])
                continue
            names = {a.split(" ")[1] for _, a in exp_err}
            if res[1] not in names:
                ctx.disagree(f"C04:{op}:error-class", line, sorted(names), res[1], replay=[line])
            elif res[1] == "LinearDependence":
                mask = np.zeros(shape, dtype=bool)
                for pos, a in exp_err:
                    if a.split(" ")[1] == "LinearDependence":
                        mask[pos] = True
                iv = np.asarray(getattr(res[2], "dependent_values", True)).astype(bool)
                if iv.shape != mask.shape or not np.array_equal(iv, mask):
                    ctx.disagree(f"C04:{op}:mask", line, mask.astype(int).tolist(), iv.astype(int).tolist(), replay=[line])
            ctx.count("err-position-present")
            continue
        if exp_err:
            ctx.disagree(f"C04:{op}:missing-error", line, exp_err[0], "collection call returned a value", replay=[line])
            continue
        kind, cov, nfree, arr = classify_impl(res[1])
        if tuple(arr.shape[:nfree]) != tuple(shape):
            ctx.disagree(f"C04:{op}:collection-shape", line, shape, arr.shape, replay=[line])
            continue
        for pos, ans in per[ci]:
            a = ans.split(" ")
            exp = dec_tens(a[4])
            got = arr[pos]
            if a[1] != kind or not proj_close(exp, got):
                ctx.disagree(f"C04:{op}:position-value", line, f"pos {pos}: {ans}", np.asarray(got).tolist(), replay=[line])
                break


def element_access(ctx, n):
    """coll[i], iteration, from_tensor/from_array fall back to the element class, attributes intact"""
    import geometer as gm
    from geometer.curve import Quadric, QuadricCollection
    rng = ctx.rng
    g = Gen(rng, gaussian=0)
    for k in range(n):
        which = k % 7
        m = rng.randint(1, 4)
        if which == 0:
            objs = [g.point(rng.choice([2, 3])) for _ in range(1)]
            dim = objs[0].n - 1
            objs = [g.point(dim) for _ in range(m)]
            coll = gm.PointCollection(stack(objs, (m,)).data.numpy()); cls = gm.Point
            attrs = lambda x: (x.tensor_shape, x.dim)
        elif which == 1:
            dim = rng.choice([2, 3])
            objs = [g.hyper(2) if dim == 2 else g.line3()[0] for _ in range(m)]
            coll = gm.LineCollection(stack(objs, (m,)).data.numpy()); cls = gm.Line
            attrs = lambda x: (x.tensor_shape, x.dim)
        elif which == 2:
            objs = [g.hyper(3) for _ in range(m)]
            coll = gm.PlaneCollection(stack(objs, (m,)).data.numpy()); cls = gm.Plane
            attrs = lambda x: (x.tensor_shape, x.dim)
        elif which == 3:
            dual = rng.random() < 0.5
            nn = rng.choice([3, 4])
            mats = []
            for _ in range(m):
                a = np.array([[rng.randint(-3, 3) for _ in range(nn)] for _ in range(nn)])
                mats.append(a + a.T)
            coll = QuadricCollection(np.array(mats), is_dual=dual); cls = Quadric
            attrs = lambda x: (x.tensor_shape, x.dim, x.is_dual)
            objs = None
        elif which == 4:
            nn = rng.choice([3, 4])
            mats = [np.array([[rng.randint(-3, 3) for _ in range(nn)] for _ in range(nn)]) for _ in range(m)]
            coll = gm.TransformationCollection(np.array(mats)); cls = gm.Transformation
            attrs = lambda x: (x.tensor_shape,)
            objs = None
        elif which == 5:
            dim = rng.choice([2, 3])
            def seg():
                while True:
                    u, v = g.point(dim, inf=False), g.point(dim, inf=False)
                    if not proj_close_nn(u.data.cnumpy(), v.data.cnumpy()):
                        return [u.data.numpy().astype(float), v.data.numpy().astype(float)]
            a = np.array([seg() for _ in range(m)])
            coll = gm.SegmentCollection(a); cls = gm.Segment
            attrs = lambda x: (x.tensor_shape, x.dim, x.pdim)
            objs = None
        else:
            a = np.array([[[rng.randint(-3, 3), rng.randint(-3, 3), 1] for _ in range(4)] for _ in range(m)])
            coll = gm.PolygonCollection(a); cls = gm.Polygon
            attrs = lambda x: (x.tensor_shape, x.dim, x.pdim)
            objs = None
        desc = f"getitem {type(coll).__name__} {np.asarray(coll.array).tolist()}"
        ctx.case(desc, nontrivial=True)
        ctx.count("access:" + type(coll).__name__)
        single = [cls(coll.array[i], **({"is_dual": coll.is_dual} if which == 3 else {})) for i in range(m)]
        items = [("index", [coll[i] for i in range(m)]), ("iter", list(coll)), ("neg-index", [coll[i - m] for i in range(m)])]
        for how, got in items:
            for i, x in enumerate(got):
                ok = isinstance(x, cls) and np.array_equal(np.asarray(x.array), np.asarray(single[i].array))
                ok = ok and attrs(x) == attrs(single[i])
                if ok and which in (5, 6):      # cached supporting line / plane of the element
                    try:
                        sup_ok = (x._line == single[i]._line) if which == 5 else (x._plane == single[i]._plane)
                    except Exception:  # noqa: BLE001
                        sup_ok = False
                    ok = ok and bool(sup_ok)
                if not ok:
                    sigattr = "class" if not isinstance(x, cls) else "attrs"
                    ctx.disagree(f"C04:access:{type(coll).__name__}:{how}:{sigattr}", desc,
                                 f"{cls.__name__} {attrs(single[i])}", f"{type(x).__name__} {attrs(x) if isinstance(x, cls) else ''}")
                    break


def correspondence(ctx):
    from props import c10
    c10.perpendicular_in_plane_stream(ctx, ctx.budget(20, 200), prefix="C04")
    c10.collinear_collections(ctx, ctx.budget(20, 200), prefix="C04")
    from props import c17
    c17.expand_dims_measures_stream(ctx, ctx.budget(8, 80), prefix="C04")      # every position answered on its own
    import glob, json, os
    for f in sorted(glob.glob(os.path.join(os.path.dirname(__file__), "..", "..", "corpus", "C04", "*.json"))):
        replay(ctx, json.load(open(f)))
    jm_positionwise(ctx, ctx.budget(25, 400))
    element_access(ctx, ctx.budget(140, 2000))
    import colllib
    colllib.run(ctx, ctx.budget(900, 12000))
    colllib.big(ctx, ctx.budget(8, 80))


def replay(ctx, rec):
    for line in rec.get("ops") or []:
        op, args = jmlib.parse_request(line)
        jmlib.check_cases(ctx, [("replay", op, args)], "C04")
