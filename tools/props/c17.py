"""C17 — polytope measures equal closed forms; polytope equality ignores vertex order."""
from __future__ import annotations

import math
from fractions import Fraction

import numpy as np

from geolib import call_impl
from proto import ET, dec_q, dec_tens, proj_close_nn, run_driver
from props.c16 import AFFINE3, polygons, vt

ID = "C17"
LEAN_FILES = ["Geo/Props/C17.lean", "Geo/Props/C17b.lean", "Geo/Props/C17c.lean"]
RULE = ("simple lattice polygons (3-5 vertices, convex and not): area = |shoelace|/2 and centroid = area centroid (exact S-layer), for every "
        "rotation / reversal of the vertex list, translated far from the origin, embedded in 3-space under rational affine maps (area = "
        "|vector area|/2) and after Pythagorean rotations + translations applied to the object (cached plane must follow); Simplex.volume "
        "(triangle, tetrahedron, triangle in 3-D via Cayley-Menger) vs exact determinants; Segment.length / midpoint; Triangle.circumcenter; "
        "RegularPolygon centre / radius / inradius at arbitrary centres; Cuboid area; == under roll / flip / face reordering and inequality of "
        "different polytopes; non-trivial = non-degenerate polytope")
ASSUMPTIONS = ["float results compared with rtol 1e-8"]


def close(a, b, rtol=1e-8):
    return math.isfinite(a) and abs(a - b) <= rtol * max(1.0, abs(b))


def polygon_stream(ctx, n):
    import geometer as g
    rng = ctx.rng
    polys = polygons(rng, n)
    reqs = []
    for vs in polys:
        reqs.append("spec.shoelace2 " + " ".join(vt(v) for v in vs))
        reqs.append("spec.centroidnum " + " ".join(vt(v) for v in vs))
    answers = run_driver(reqs)
    # the fan sum of the source (Geo.polyFan2 over the regenerated Gen.area_rows / Gen.area_range; T17_area_fan_is_shoelace)
    # evaluated by the compiled model on the same vertex lists: must equal the specification's shoelace sum
    manswers = run_driver(["m.polyfan2 " + " ".join(vt(v) for v in vs) for vs in polys])
    for k, vs in enumerate(polys):
        if manswers[k] != answers[2 * k]:
            ctx.disagree("C17:model-vs-spec:area-fan", f"polygon {vs}", answers[2 * k], manswers[k], replay=[f"polygon {vs}"])
            break
    ctx.count("model-vs-spec:area-fan", len(polys))
    for k, vs in enumerate(polys):
        s2 = dec_q(answers[2 * k].split(" ")[1])[0]
        cn = [e[0] for e in dec_tens(answers[2 * k + 1].split(" ")[1]).entries]
        area = abs(float(s2)) / 2
        cen = [float(c / (3 * s2)) for c in cn]
        off = [rng.choice([0, 0, 7, -11]), rng.choice([0, 5, -9])]
        variants = [("as-given", vs), ("rolled", vs[1:] + vs[:1]), ("reversed", list(reversed(vs)))]
        for name, vv in variants:
            P = [g.Point(float(x + off[0]), float(y + off[1])) for x, y in vv]
            poly = g.Polygon(*P)
            desc = f"polygon {vv} offset={off} {name}"
            ctx.case(desc)
            ctx.count(f"area:{len(vs)}:{name}")
            r = call_impl(lambda: float(poly.area))
            if r[0] != "ok" or not close(r[1], area):
                ctx.disagree(f"C17:area:2d:{name}", desc, area, r[1:3], replay=[desc])
            c = call_impl(lambda: np.asarray(poly.centroid.normalized_array, dtype=float))
            if c[0] != "ok" or not np.allclose(c[1][:2], [cen[0] + off[0], cen[1] + off[1]], rtol=1e-8, atol=1e-9):
                ctx.disagree(f"C17:centroid:2d:{name}:{'convex' if is_convex(vs) else 'concave'}", desc, [cen[0] + off[0], cen[1] + off[1]],
                             c[1:3] if c[0] != "ok" else c[1].tolist(), replay=[desc])
            if len(vv) == 3:
                t = g.Triangle(*P)
                v = call_impl(lambda: float(t.volume))
                if v[0] != "ok" or not close(v[1], area):
                    ctx.disagree("C17:simplex-volume:triangle2d", desc, area, v[1:3], replay=[desc])
                cc = call_impl(lambda: t.circumcenter)
                if cc[0] == "ok":
                    ds = [float(g.dist(cc[1], p)) for p in P]
                    if not (close(ds[0], ds[1], 1e-7) and close(ds[1], ds[2], 1e-7)):
                        ctx.disagree("C17:circumcenter", desc, "equidistant", ds, replay=[desc])
                else:
                    ctx.disagree("C17:circumcenter:error", desc, "a point", cc[1:3], replay=[desc])
        # equality
        P0 = g.Polygon(*[g.Point(float(x), float(y)) for x, y in vs])
        r = rng.randrange(len(vs))
        # rolled, and every vertex with a homogeneous factor of its own (as vertices produced by meet / join have)
        P1 = g.Polygon(*[(lambda w: g.Point(np.array([float(x) * w, float(y) * w, w])))(rng.choice([1.0, 2.0, -1.0, 0.5, -3.0])) for x, y in vs[r:] + vs[:r]])
        P2 = g.Polygon(*[g.Point(float(x), float(y)) for x, y in reversed(vs)])
        other = [(x, y) for x, y in vs]
        other[0] = (other[0][0] + 5, other[0][1])
        P3 = g.Polygon(*[g.Point(float(x), float(y)) for x, y in other])
        ctx.count("eq")
        eq = call_impl(lambda: (P0 == P1, P0 == P2, P0 == P3, P1 == P0))
        if eq[0] != "ok" or tuple(bool(x) for x in eq[1]) != (True, True, False, True):
            ctx.disagree("C17:eq:polygon", f"polygon {vs} roll={r}", (True, True, False, True), eq[1:3], replay=[str(vs)])
        # far from the origin, one vertex moved by 0.004 (the points are clearly different for Point.__eq__): not equal
        big = [(float(x) + 1000.0, float(y) + 900.0) for x, y in vs]
        near = list(big)
        near[0] = (near[0][0] + 0.004, near[0][1])
        P5, P6 = g.Polygon(*[g.Point(x, y) for x, y in big]), g.Polygon(*[g.Point(x, y) for x, y in near])
        ctx.count("eq:near")
        eq5 = call_impl(lambda: (P5 == P6, P6 == P5, P5 == g.Polygon(*[g.Point(x, y) for x, y in big[1:] + big[:1]])))
        if eq5[0] != "ok" or tuple(bool(x) for x in eq5[1]) != (False, False, True):
            ctx.disagree("C17:eq:near-miss", f"polygon {big} vs the same with vertex 0 moved by 0.004", (False, False, True), eq5[1:3], replay=[str(vs)])
        if len(vs) >= 4:
            # the same vertex SET threaded in another cyclic order (two neighbours swapped) is a different polygon
            j = rng.randrange(len(vs))
            thr = list(vs)
            thr[j], thr[(j + 1) % len(vs)] = thr[(j + 1) % len(vs)], thr[j]
            P4 = g.Polygon(*[g.Point(float(x), float(y)) for x, y in thr])
            ctx.count("eq:rethreaded")
            eq4 = call_impl(lambda: (P0 == P4, P4 == P0))
            if eq4[0] != "ok" or tuple(bool(x) for x in eq4[1]) != (False, False):
                ctx.disagree("C17:eq:rethreaded", f"polygon {vs} vs the same vertices with {j} and {(j + 1) % len(vs)} swapped", (False, False), eq4[1:3], replay=[str(vs)])
        # embedded in 3-space + isometry applied to the object
        u, v, o = rng.choice(AFFINE3)
        def emb(x, y):
            return [float(o[j] + x * u[j] + y * v[j]) for j in range(3)]
        P3d = g.Polygon(*[g.Point(*emb(x, y)) for x, y in vs])
        nrm = np.cross(u, v)
        area3 = area * float(np.linalg.norm(nrm))
        desc = f"polygon3d {vs} u={u} v={v} o={o}"
        ctx.case(desc)
        ctx.count("area:3d")
        r3 = call_impl(lambda: float(P3d.area))
        if r3[0] != "ok" or not close(r3[1], area3, 1e-7):
            ctx.disagree("C17:area:3d", desc, area3, r3[1:3], replay=[desc])
        c3 = call_impl(lambda: np.asarray(P3d.centroid.normalized_array, dtype=float))
        exp3 = emb(cen[0], cen[1])
        if c3[0] != "ok" or not np.allclose(c3[1][:3], exp3, rtol=1e-7, atol=1e-8):
            ctx.disagree(f"C17:centroid:3d:{'convex' if is_convex(vs) else 'concave'}", desc, exp3, c3[1:3] if c3[0] != "ok" else c3[1].tolist(), replay=[desc])
        if len(vs) == 3:
            # circumcentre of a triangle in a plane of space far from the origin (offset coefficient of the plane dominates)
            far = [10 * float(o[j]) + 20.0 for j in range(3)]
            Pf = [g.Point(*[far[j] + x * u[j] + y * v[j] for j in range(3)]) for x, y in vs]
            ctx.count("circumcenter:3d")
            cc = call_impl(lambda: g.Triangle(*Pf).circumcenter)
            if cc[0] != "ok":
                ctx.disagree("C17:circumcenter:3d:error", desc, "a point", cc[1:3], replay=[desc])
            else:
                ds = [float(g.dist(cc[1], p)) for p in Pf]
                if not (close(ds[0], ds[1], 1e-6) and close(ds[1], ds[2], 1e-6)):
                    ctx.disagree("C17:circumcenter:3d", desc + f" moved to {far}", "equidistant from the vertices", ds, replay=[desc])
        # move the object: rotation about a generic axis + translation, then read the measure from the moved object
        ang = math.atan2(4, 3)
        T = g.translation(3, -2, 5) * g.rotation(ang, axis=g.Point(2, 3, 6))
        moved = call_impl(lambda: float((T * P3d).area))
        ctx.count("area:3d:moved")
        if moved[0] != "ok" or not close(moved[1], area3, 1e-7):
            ctx.disagree("C17:area:3d:after-isometry", desc, area3, moved[1:3], replay=[desc])
        # the same polygon in 2-D after an isometry
        T2 = g.translation(-4, 9) * g.rotation(math.atan2(5, 12))
        m2 = call_impl(lambda: float((T2 * P0).area))
        if m2[0] != "ok" or not close(m2[1], area, 1e-7):
            ctx.disagree("C17:area:2d:after-isometry", f"polygon {vs}", area, m2[1:3], replay=[str(vs)])


def is_convex(vs):
    n = len(vs)
    s = set()
    for i in range(n):
        a, b, c = vs[i], vs[(i + 1) % n], vs[(i + 2) % n]
        s.add(((b[0] - a[0]) * (c[1] - b[1]) - (b[1] - a[1]) * (c[0] - b[0])) > 0)
    return len(s) == 1


def simplex_stream(ctx, n):
    import geometer as g
    rng = ctx.rng
    reqs, todo = [], []
    for k in range(n):
        pts = [[Fraction(rng.randint(-4, 4)) for _ in range(3)] for _ in range(4)]
        m = [p + [Fraction(1)] for p in pts]
        reqs.append("det " + ET((4, 4), [x for r in m for x in r]).enc())
        todo.append(pts)
    answers = run_driver(reqs)
    for pts, ans in zip(todo, answers):
        d = abs(float(dec_tens(ans.split(" ")[1]).entries[0][0]))
        P = [g.Point(*[float(x) for x in p]) for p in pts]
        desc = f"simplex {[[str(x) for x in p] for p in pts]}"
        ctx.case(desc)
        ctx.count("simplex:tetrahedron")
        if d == 0:
            continue
        s = call_impl(lambda: g.Simplex(*P))
        v = call_impl(lambda: float(s[1].volume)) if s[0] == "ok" else s
        if v[0] != "ok" or not close(v[1], d / 6, 1e-8):
            ctx.disagree("C17:simplex-volume:tetrahedron", desc, d / 6, v[1:3], replay=[desc])
        # triangle in 3-space (Cayley-Menger branch): area = |(b-a) x (c-a)| / 2
        a, b, c = (np.array([float(x) for x in p]) for p in pts[:3])
        ar = float(np.linalg.norm(np.cross(b - a, c - a))) / 2
        if ar > 0:
            t = call_impl(lambda: float(g.Triangle(*P[:3]).volume))
            ctx.count("simplex:triangle3d")
            if t[0] != "ok" or not close(t[1], ar, 1e-7):
                ctx.disagree("C17:simplex-volume:triangle3d", desc, ar, t[1:3], replay=[desc])
        # segment
        seg = call_impl(lambda: g.Segment(P[0], P[1]))
        if seg[0] == "ok":
            ln = call_impl(lambda: float(seg[1].length))
            mid = call_impl(lambda: np.asarray(seg[1].midpoint.normalized_array, dtype=float))
            a0, b0 = (np.array([float(x) for x in p]) for p in pts[:2])
            ctx.count("segment")
            if ln[0] != "ok" or not close(ln[1], float(np.linalg.norm(a0 - b0)), 1e-8):
                ctx.disagree("C17:segment:length", desc, float(np.linalg.norm(a0 - b0)), ln[1:3], replay=[desc])
            if mid[0] != "ok" or not np.allclose(mid[1][:3], (a0 + b0) / 2, atol=1e-8):
                ctx.disagree("C17:segment:midpoint", desc, ((a0 + b0) / 2).tolist(), mid[1:3] if mid[0] != "ok" else mid[1].tolist(), replay=[desc])
            # end points given by representatives with different (also negative) homogeneous factors
            f1, f2 = rng.choice([2.0, -1.0, 0.5, 3.0]), rng.choice([1.0, -2.0, 4.0, 0.25])
            sm = call_impl(lambda: np.asarray(g.Segment(g.Point(np.append(a0, 1.0) * f1), g.Point(np.append(b0, 1.0) * f2)).midpoint.normalized_array, dtype=float))
            ctx.count("segment:midpoint:vertex-factors")
            if not np.allclose(a0, b0) and (sm[0] != "ok" or not np.allclose(sm[1][:3], (a0 + b0) / 2, atol=1e-8)):
                ctx.disagree("C17:segment:midpoint:vertex-factors", desc + f" factors {f1}, {f2}", ((a0 + b0) / 2).tolist(), sm[1:3] if sm[0] != "ok" else sm[1].tolist(), replay=[desc])
            if ar > 0:
                f3 = rng.choice([1.0, -1.0, 2.0])
                c0 = np.array([float(x) for x in pts[2]])
                cc = call_impl(lambda: np.asarray(g.Triangle(g.Point(np.append(a0, 1.0) * f1), g.Point(np.append(b0, 1.0) * f2), g.Point(np.append(c0, 1.0) * f3)).circumcenter.normalized_array, dtype=float))
                ctx.count("triangle3d:circumcenter:vertex-factors")
                okc = cc[0] == "ok" and np.all(np.isfinite(cc[1]))
                if okc:
                    ds = [np.linalg.norm(cc[1][:3] - x) for x in (a0, b0, c0)]
                    okc = max(ds) - min(ds) <= 1e-7 * max(1.0, max(ds)) and abs(np.dot(np.cross(b0 - a0, c0 - a0), cc[1][:3] - a0)) <= 1e-7 * max(1.0, max(ds)) * np.linalg.norm(np.cross(b0 - a0, c0 - a0))
                if not okc:
                    ctx.disagree("C17:circumcenter:vertex-factors", desc + f" factors {f1}, {f2}, {f3}", "equidistant point in the plane of the triangle",
                                 cc[1:3] if cc[0] != "ok" else cc[1].tolist(), replay=[desc])


def regular_stream(ctx, n):
    import geometer as g
    rng = ctx.rng
    for k in range(n):
        cx, cy = rng.randint(-5, 5), rng.randint(-5, 5)
        rad = rng.choice([1, 2, 2.5, 3])
        m = rng.choice([3, 4, 5, 6, 8])
        w = rng.choice([1.0, 1.0, 2.0, -1.0, 0.5])           # the centre may be any representative of the point
        desc = f"regular-polygon centre=({cx},{cy}) [homogeneous factor {w}] radius={rad} n={m}"
        ctx.case(desc)
        ctx.count("regular:2d")
        rp = call_impl(lambda: g.RegularPolygon(g.Point(np.array([cx * w, cy * w, w])), rad, m))
        if rp[0] != "ok":
            ctx.disagree("C17:regular:constructor", desc, "polygon", rp[1:3], replay=[desc])
            continue
        c = call_impl(lambda: np.asarray(rp[1].center.normalized_array, dtype=float))
        if c[0] != "ok" or not np.allclose(c[1][:2], [cx, cy], atol=1e-9):
            ctx.disagree("C17:regular:center", desc, [cx, cy], c[1:3] if c[0] != "ok" else c[1].tolist(), replay=[desc])
        r = call_impl(lambda: float(rp[1].radius))
        if r[0] != "ok" or not close(r[1], rad, 1e-9):
            ctx.disagree("C17:regular:radius", desc, rad, r[1:3], replay=[desc])
        i = call_impl(lambda: float(rp[1].inradius))
        if i[0] != "ok" or not close(i[1], rad * math.cos(math.pi / m), 1e-9):
            ctx.disagree("C17:regular:inradius", desc, rad * math.cos(math.pi / m), i[1:3], replay=[desc])
        a = call_impl(lambda: float(rp[1].area))
        if a[0] != "ok" or not close(a[1], 0.5 * m * rad * rad * math.sin(2 * math.pi / m), 1e-9):
            ctx.disagree("C17:regular:area", desc, 0.5 * m * rad * rad * math.sin(2 * math.pi / m), a[1:3], replay=[desc])


def cuboid_stream(ctx, n):
    import geometer as g
    rng = ctx.rng
    for k in range(n):
        o = [rng.randint(-4, 4) for _ in range(3)]
        w = [rng.randint(1, 4) for _ in range(3)]
        desc = f"cuboid o={o} w={w}"
        ctx.case(desc)
        ctx.count("cuboid")
        a = g.Point(*map(float, o))
        cube = call_impl(lambda: g.Cuboid(a, g.Point(float(o[0] + w[0]), float(o[1]), float(o[2])), g.Point(float(o[0]), float(o[1] + w[1]), float(o[2])),
                                           g.Point(float(o[0]), float(o[1]), float(o[2] + w[2]))))
        if cube[0] != "ok":
            ctx.disagree("C17:cuboid:constructor", desc, "cuboid", cube[1:3], replay=[desc])
            continue
        exp = 2.0 * (w[0] * w[1] + w[1] * w[2] + w[0] * w[2])
        ar = call_impl(lambda: float(cube[1].area))
        if ar[0] != "ok" or not close(ar[1], exp, 1e-8):
            ctx.disagree("C17:cuboid:area", desc, exp, ar[1:3], replay=[desc])
        T = g.translation(1, 2, 3) * g.rotation(math.atan2(3, 4), axis=g.Point(1, 2, 2))
        ar2 = call_impl(lambda: float((T * cube[1]).area))
        if ar2[0] != "ok" or not close(ar2[1], exp, 1e-7):
            ctx.disagree("C17:cuboid:area:after-isometry", desc, exp, ar2[1:3], replay=[desc])
        # equality: same faces in a different order
        arr = np.asarray(cube[1].array)
        perm = list(range(arr.shape[0]))
        rng.shuffle(perm)
        other = call_impl(lambda: g.Polyhedron(arr[perm]))
        eq = call_impl(lambda: (cube[1] == other[1], other[1] == cube[1], cube[1] == (g.translation(1, 0, 0) * cube[1])))
        if eq[0] != "ok" or tuple(bool(x) for x in eq[1]) != (True, True, False):
            ctx.disagree("C17:eq:polyhedron", desc + f" perm={perm}", (True, True, False), eq[1:3], replay=[desc])


def element_measures_stream(ctx, n):
    """measures of polygons handed out by the library itself: elements of a PolygonCollection (index / iteration) and facets of a
    polyhedron are typed by their vertex count (four vertices: Rectangle) whatever their shape — area and centroid must be those
    of the Polygon with the same vertices (trapezoids, darts, side faces of a frustum)"""
    import geometer as g
    rng = ctx.rng
    QUADS = [[(0, 0), (4, 0), (3, 2), (1, 2)], [(0, 0), (2, 1), (4, 0), (2, 3)], [(0, 0), (3, 0), (4, 2), (0, 2)], [(0, 0), (5, 0), (4, 1), (2, 3)]]
    for k in range(n):
        if k % 3 < 2:
            quads = []
            for _ in range(rng.randint(2, 3)):
                q = rng.choice(QUADS)
                dx, dy, r = rng.randint(-3, 3), rng.randint(-3, 3), rng.randrange(4)
                q = [(x + dx, y + dy) for x, y in q]
                quads.append(q[r:] + q[:r])
            arr = np.array([[[float(x), float(y), 1.0] for x, y in q] for q in quads])
            i = rng.randrange(len(quads))
            desc = f"element {i} of a PolygonCollection of quadrilaterals {quads}"
            def run():
                PC = g.PolygonCollection(arr)
                ref = g.Polygon(*[g.Point(float(x), float(y)) for x, y in quads[i]])
                return [(float(ref.area), float(PC[i].area), float(list(PC)[i].area), float(PC.area[i])),
                        tuple(np.round(np.real(np.asarray(x.centroid.normalized_array, dtype=complex)), 9).tolist()[0] for x in (ref, PC[i]))]
        else:
            # frustum: square base of side 4 in z = 0, square top of side 2 in z = 2
            b = [(-2, -2, 0), (2, -2, 0), (2, 2, 0), (-2, 2, 0)]
            t = [(-1, -1, 2), (1, -1, 2), (1, 1, 2), (-1, 1, 2)]
            sh = [rng.randint(-2, 2) for _ in range(3)]
            P = lambda v: g.Point(*[float(c + d) for c, d in zip(v, sh)])
            faces = [[b[0], b[1], b[2], b[3]], [t[0], t[1], t[2], t[3]]] + [[b[j], b[(j + 1) % 4], t[(j + 1) % 4], t[j]] for j in range(4)]
            desc = f"facets of a frustum shifted by {sh}"
            def run():
                ph = g.Polyhedron(*[g.Polygon(*[P(v) for v in f]) for f in faces])
                refs = [float(g.Polygon(*[P(v) for v in f]).area) for f in faces]
                return [tuple(refs), tuple(float(x.area) for x in ph.facets), tuple(float(ph[j].area) for j in range(6)), (float(ph.area), sum(refs))]
        ctx.case(desc)
        ctx.count("element-measures")
        r = call_impl(run)
        ok = r[0] == "ok"
        if ok and k % 3 < 2:
            ok = max(r[1][0]) - min(r[1][0]) <= 1e-9 and r[1][1][0] == r[1][1][1]
        elif ok:
            ok = np.allclose(r[1][0], r[1][1], atol=1e-9) and np.allclose(r[1][0], r[1][2], atol=1e-9) and abs(r[1][3][0] - r[1][3][1]) <= 1e-9
        if not ok:
            ctx.disagree("C17:element-measures", desc, "the measures of the Polygon with the same vertices", r[1:3], replay=[desc])


def repeated_vertex_eq_stream(ctx, n):
    """== for vertex cycles that visit a point twice (two triangles touching in a vertex written as one hexagon): equal to every
    rotation / reversal of itself, in both orders"""
    import geometer as g
    rng = ctx.rng
    for k in range(n):
        o = (rng.randint(-2, 2), rng.randint(-2, 2))
        cyc = [o, (o[0] + 2, o[1]), (o[0] + 2, o[1] + 2), o, (o[0] - 2, o[1]), (o[0] - 2, o[1] - 2)]
        r0 = rng.randrange(6)
        other = cyc[r0:] + cyc[:r0]
        if rng.random() < 0.5:
            other = other[::-1]
        P = g.Polygon(*[g.Point(float(x), float(y)) for x, y in cyc])
        Q = g.Polygon(*[g.Point(float(x), float(y)) for x, y in other])
        desc = f"cycle with a repeated vertex {cyc} against {other}"
        ctx.case(desc)
        ctx.count("eq:repeated-vertex")
        r = call_impl(lambda: (P == Q, Q == P))
        if r[0] != "ok" or r[1] != (True, True):
            ctx.disagree("C17:eq:repeated-vertex", desc, (True, True), r[1:3], replay=[desc])


def expand_dims_measures_stream(ctx, n, prefix="C17"):
    """polygon / segment collections of space after expand_dims (a new collection axis in front, or directly in front of the vertex
    axis): area, centroid-free measures and lengths are those of the original collection with the new axis of length 1"""
    import geometer as g
    rng = ctx.rng
    for k in range(n):
        m = rng.randint(2, 3)
        polys = []
        for _ in range(m):
            h = rng.randint(1, 4)
            a, b = rng.randint(1, 4), rng.randint(1, 4)
            o = [rng.randint(-3, 3), rng.randint(-3, 3)]
            tilt = rng.choice([0, 1, 2])                      # plane z = h + tilt * x
            pts = [(o[0], o[1]), (o[0] + a, o[1]), (o[0] + a, o[1] + b), (o[0], o[1] + b)]
            polys.append([[float(x), float(y), float(h + tilt * x), 1.0] for x, y in pts])
        arr = np.array(polys)
        pc = g.PolygonCollection(arr)
        base = call_impl(lambda: np.asarray(pc.area, dtype=float))
        if base[0] != "ok":
            continue
        for axis, pos in ((0, 0), (1, 1), (-3, 1)):
            desc = f"PolygonCollection {arr[..., :3].tolist()} expand_dims({axis}) then .area"
            ctx.case(desc)
            ctx.count("expand_dims:area")
            r = call_impl(lambda: np.asarray(pc.expand_dims(axis).area, dtype=float))
            exp = np.expand_dims(base[1], pos)
            if r[0] != "ok" or r[1].shape != exp.shape or not np.allclose(r[1], exp, rtol=1e-9):
                ctx.disagree(f"{prefix}:expand_dims:area", desc, exp.tolist(), r[1:3] if r[0] != "ok" else r[1].tolist(), replay=[desc])
        # segment collections of space: lengths and membership after expand_dims with positive and negative axes
        segs = np.array([[p[0], p[2]] for p in polys])                 # the diagonals of the rectangles, shape (m, 2, 4)
        sc = g.SegmentCollection(segs)
        mids = g.PointCollection((segs[:, 0, :] + segs[:, 1, :]) / 2)
        base_len = call_impl(lambda: np.asarray(sc.length, dtype=float))
        if base_len[0] != "ok":
            continue
        for axis, pos in ((0, 0), (1, 1), (-3, 1), (-4, 0)):
            desc = f"SegmentCollection {segs[..., :3].tolist()} expand_dims({axis}) then .length / .contains(midpoints)"
            ctx.case(desc)
            ctx.count("expand_dims:segments")
            r = call_impl(lambda: (np.asarray(sc.expand_dims(axis).length, dtype=float), np.asarray(sc.expand_dims(axis).contains(mids.expand_dims(pos)))))
            exp = np.expand_dims(base_len[1], pos)
            ok = r[0] == "ok" and r[1][0].shape == exp.shape and np.allclose(r[1][0], exp, rtol=1e-9) and r[1][1].shape == exp.shape and bool(np.all(r[1][1]))
            if not ok:
                ctx.disagree(f"{prefix}:expand_dims:segments", desc, (exp.tolist(), "all midpoints contained"), r[1:3] if r[0] != "ok" else (r[1][0].tolist(), r[1][1].tolist()), replay=[desc])


def circumcenter_model_stream(ctx, n):
    """the executable circumcentre construction of Geo/Constructions.lean (about which T17_circumcenter_equidistant is) against
    Triangle.circumcenter, on lattice triangles of the plane, compared projectively"""
    import geometer as g
    from proto import proj_close
    rng = ctx.rng
    reqs, todo = [], []
    for k in range(n):
        pts = [[Fraction(rng.randint(-5, 5)), Fraction(rng.randint(-5, 5)), Fraction(1)] for _ in range(3)]
        (a0, a1, _), (b0, b1, _), (c0, c1, _) = pts
        if (b0 - a0) * (c1 - a1) - (b1 - a1) * (c0 - a0) == 0:
            continue
        reqs.append("m.circumcenter2 " + " ".join(vt(p) for p in pts))
        todo.append(pts)
    for pts, ans in zip(todo, run_driver(reqs)):
        desc = f"circumcenter of the triangle {[[str(x) for x in p[:2]] for p in pts]}"
        ctx.case(desc)
        ctx.count("model:circumcenter2")
        T = g.Triangle(*[g.Point(float(p[0]), float(p[1])) for p in pts])
        r = call_impl(lambda: T.circumcenter)
        a = ans.split(" ")
        if a[0] != "ok" or r[0] != "ok" or not proj_close(dec_tens(a[1]), np.asarray(r[1].array), rtol=1e-9):
            ctx.disagree("C17:model:circumcenter2", desc, ans[:200], r[1:3] if r[0] != "ok" else np.asarray(r[1].array).tolist(), replay=[desc])


def collinear_start_stream(ctx, n, prefix="C17"):
    """polygons of space whose vertex cycle STARTS with three collinear vertices (a vertex in the middle of a side): area,
    membership and equality are those of the same cycle started at another vertex — single polygons and collections"""
    import geometer as g
    rng = ctx.rng
    for k in range(n):
        a, b = rng.randint(2, 4), rng.randint(2, 4)
        o = [rng.randint(-3, 3), rng.randint(-3, 3)]
        t1, t2, h = rng.choice([0, 1, -1]), rng.choice([0, 2, 1]), rng.randint(-2, 3)
        flat = [(o[0], o[1]), (o[0] + 1, o[1]), (o[0] + a, o[1]), (o[0] + a, o[1] + b), (o[0], o[1] + b)]      # (o+1, o) lies on the first side
        lift = lambda q: [float(q[0]), float(q[1]), float(h + t1 * q[0] + t2 * q[1]), 1.0]
        verts = [lift(q) for q in flat]
        if k % 2 == 1:
            # the same figure after a generic rotation about a skew axis: the first three vertices are collinear up to rounding only
            import geometer as _g
            R = np.asarray(_g.rotation(0.7 + 0.1 * (k % 5), axis=_g.Point(1.0, 2.0, 2.0)).array, dtype=float)
            verts = [(R @ np.array(v)).tolist() for v in verts]
            lift = (lambda base: (lambda q: (R @ np.array(base(q))).tolist()))(lift)
        r = rng.randrange(1, 5)
        rolled = verts[r:] + verts[:r]
        centre = lift((o[0] + a / 2, o[1] + b / 2))
        outside = lift((o[0] + a + 1, o[1] + b / 2))
        desc = f"polygon of space {[v[:3] for v in verts]} (first three vertices collinear) vs the cycle started at vertex {r}"
        ctx.case(desc)
        ctx.count("collinear-start")
        def run():
            if k % 3 == 2:
                P = g.PolygonCollection(np.array([verts, rolled]))
                return [float(x) for x in P.area], [bool(x) for x in P.contains(g.Point(np.array(centre)))], [bool(x) for x in P.contains(g.Point(np.array(outside)))], True
            P, Q = g.Polygon(np.array(verts)), g.Polygon(np.array(rolled))
            return [float(P.area), float(Q.area)], [bool(P.contains(g.Point(np.array(centre)))), bool(Q.contains(g.Point(np.array(centre))))], \
                [bool(P.contains(g.Point(np.array(outside)))), bool(Q.contains(g.Point(np.array(outside))))], bool(P == Q)
        res = call_impl(run)
        exp_area = a * b * math.sqrt(1 + t1 * t1 + t2 * t2)
        ok = res[0] == "ok" and all(abs(x - exp_area) <= 1e-8 * exp_area for x in res[1][0]) and res[1][1] == [True, True] and res[1][2] == [False, False] and res[1][3]
        if not ok:
            ctx.disagree(f"{prefix}:polygon3:collinear-start", desc, ([exp_area, exp_area], [True, True], [False, False], True), res[1:3] if res[0] != "ok" else res[1], replay=[desc])


def correspondence(ctx):
    collinear_start_stream(ctx, ctx.budget(15, 150))
    circumcenter_model_stream(ctx, ctx.budget(60, 600))
    expand_dims_measures_stream(ctx, ctx.budget(15, 150))
    repeated_vertex_eq_stream(ctx, ctx.budget(30, 300))
    from props import c03
    c03.polyhedron_eq_stream(ctx, ctx.budget(15, 150), prefix="C17")
    element_measures_stream(ctx, ctx.budget(45, 450))
    polygon_stream(ctx, ctx.budget(60, 1500))
    simplex_stream(ctx, ctx.budget(80, 1500))
    regular_stream(ctx, ctx.budget(40, 500))
    cuboid_stream(ctx, ctx.budget(30, 400))


def replay(ctx, rec):
    correspondence(ctx)
