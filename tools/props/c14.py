"""C14 — quadric-line intersection, tangents, polars and duals are mutually consistent."""
from __future__ import annotations

import itertools
import math
from fractions import Fraction

import numpy as np

from geolib import call_impl
from proto import proj_close_nn
from props.c13 import frames, on, resid
from trlib import fdet

ID = "C14"
LEAN_FILES = ["Geo/Props/C14.lean"]
RULE = ("random symmetric integer matrices (2-D conics, 3-D quadrics; non-degenerate, line pairs, plane pairs, cones), circles, spheres, cones, "
        "cylinders x lines: secants through two constructed rational points of the quadric (must return exactly these two), tangents at a "
        "known point (only the contact point, once or as a coincident pair), lines missing the real locus (complex results must lie on "
        "both), lines through the origin and at infinity, collections; tangent(at) on / off the quadric; pole-polar reciprocity; dual.dual "
        "for every quadric class incl. Circle / Ellipse / Sphere / Cone; is_tangent vs contact; also after moving the quadric (t*q, q+p); "
        "membership judged scale-free; non-trivial = line not contained in the quadric")
ASSUMPTIONS = ["double roots are conditioned like sqrt(eps): tangent results compared with 1e-6"]


def sym(rng, n, lo=-3, hi=3):
    while True:
        a = [[0] * n for _ in range(n)]
        for i in range(n):
            for j in range(i, n):
                a[i][j] = a[j][i] = rng.randint(lo, hi)
        A = np.array(a, dtype=float)
        if abs(np.linalg.det(A)) > 0.5:
            return A


def point_on_quadric(rng, A):
    """adjust the corner entry so that a chosen lattice point lies on the quadric (magnitudes stay moderate)"""
    n = A.shape[0]
    for _ in range(50):
        p = np.array([rng.randint(-3, 3) for _ in range(n - 1)] + [1.0])
        A2 = A.copy()
        A2[-1, -1] -= p @ A @ p
        if abs(np.linalg.det(A2)) > 0.5 and np.max(np.abs(A2)) < 80:
            return A2, p
    return None, None


def second_point(rng, A, p):
    """second rational point of the quadric on a random line through p: p + t d with t = -2 dᵀAp / dᵀAd"""
    n = A.shape[0]
    for _ in range(50):
        d = np.array([rng.randint(-3, 3) for _ in range(n - 1)] + [rng.choice([0, 0, 1])], dtype=float)
        dAd = d @ A @ d
        if not np.any(d) or abs(dAd) < 1e-12:
            continue
        t = Fraction(int(round(-2 * (d @ A @ p)))) / Fraction(int(round(dAd)))
        q = p + float(t) * d
        if np.linalg.matrix_rank(np.array([p, q])) == 2:
            return q * t.denominator
    return None


def match_points(got, expected, tol):
    pts = []
    for x in got:
        arr = np.asarray(x.array)
        pts.append(arr if arr.ndim == 1 else None)
    if any(p is None for p in pts):
        return False, "collection"
    used = [False] * len(pts)
    for e in expected:
        hit = [i for i, p in enumerate(pts) if not used[i] and proj_close_nn(e, p, tol)]
        if not hit:
            return False, "missing"
        used[hit[0]] = True
    if not all(used):
        extra = [p for i, p in enumerate(pts) if not used[i]]
        if all(any(proj_close_nn(e, x, tol) for e in expected) for x in extra):
            return True, "coincident-pair"
        return False, "spurious"
    return True, "exact"


def line_through(g, p, q):
    return g.Line(g.Point(np.asarray(p, dtype=float)), g.Point(np.asarray(q, dtype=float)))


def intersect_stream(ctx, n):
    import geometer as g
    from geometer.curve import Quadric
    rng = ctx.rng
    for k in range(n):
        dim = 2 if k % 2 == 0 else 3
        A0 = sym(rng, dim + 1)
        A, p = point_on_quadric(rng, A0)
        if A is None:
            continue
        Q = g.Conic(A.astype(int)) if dim == 2 else Quadric(A.astype(int))
        which = k % 6
        desc0 = f"quadric dim={dim} A={A.astype(int).tolist()} p={p.astype(int).tolist()}"
        if which in (0, 1, 2):         # secant through two known points
            q = second_point(rng, A, p)
            if q is None:
                continue
            L = call_impl(lambda: line_through(g, p, q))
            if L[0] != "ok":
                continue
            desc = desc0 + f" secant through q={np.round(q, 6).tolist()}"
            ctx.case(desc)
            ctx.count(f"secant:{dim}d")
            r = call_impl(lambda: Q.intersect(L[1]))
            if r[0] != "ok":
                ctx.disagree(f"C14:intersect:secant:{dim}d:error:{r[1]}", desc, "the two points", r[1:3], replay=[desc])
                continue
            ok, why = match_points(r[1], [p, q], 1e-7)
            if not ok or why != "exact":
                ctx.disagree(f"C14:intersect:secant:{dim}d:{why}", desc, [p.tolist(), np.round(q, 6).tolist()], [np.round(np.asarray(x.array), 6).tolist() for x in r[1]], replay=[desc])
        elif which == 3:                # tangent line at p: polar of p (2-D) / a line in the tangent plane through p (3-D)
            t = A @ p
            if dim == 2:
                L = call_impl(lambda: g.Line(t))
            else:
                # direction in the tangent plane: d with t[:3]·d = 0
                d = np.cross(t[:3], [rng.randint(-2, 2), rng.randint(-2, 2), rng.randint(1, 3)])
                if not np.any(d) or abs(np.append(d, 0) @ A @ np.append(d, 0)) < 1e-9:
                    continue
                L = call_impl(lambda: line_through(g, p, p + np.append(d, 0)))
            if L[0] != "ok":
                continue
            desc = desc0 + " tangent at p"
            ctx.case(desc)
            ctx.count(f"tangent-line:{dim}d")
            r = call_impl(lambda: Q.intersect(L[1]))
            if r[0] != "ok":
                ctx.disagree(f"C14:intersect:tangent:{dim}d:error:{r[1]}", desc, "the contact point", r[1:3], replay=[desc])
                continue
            ok, why = match_points(r[1], [p], 2e-6)
            if not ok:
                ctx.disagree(f"C14:intersect:tangent:{dim}d:{why}", desc, [p.tolist()], [np.round(np.asarray(x.array), 6).tolist() for x in r[1]], replay=[desc])
        else:                            # arbitrary line (possibly missing the real locus / through the origin / at infinity)
            if dim == 2:
                lv = [rng.randint(-3, 3), rng.randint(-3, 3), rng.choice([0, 0, 1, 2, -3])]
                if which == 5 and rng.random() < 0.3:
                    lv = [0, 0, 1]
                if not any(lv):
                    continue
                L = call_impl(lambda: g.Line(np.array(lv, dtype=float)))
            else:
                a = np.array([rng.randint(-3, 3) for _ in range(3)] + [rng.choice([1, 1, 0])], dtype=float)
                b = np.array([rng.randint(-3, 3) for _ in range(3)] + [rng.choice([1, 0])], dtype=float)
                if np.linalg.matrix_rank(np.array([a, b])) < 2:
                    continue
                if a @ A @ a == 0 and b @ A @ b == 0 and a @ A @ b == 0:
                    # the line is a ruling of the quadric (every point of it lies on the quadric): there are no "two common points"
                    ctx.count("generic-line:3d:skipped-ruling")
                    continue
                L = call_impl(lambda: line_through(g, a, b))
            if L[0] != "ok":
                continue
            desc = desc0 + f" line={np.round(np.asarray(L[1].array), 4).tolist()}"
            ctx.case(desc)
            ctx.count(f"generic-line:{dim}d")
            r = call_impl(lambda: Q.intersect(L[1]))
            if r[0] != "ok":
                ctx.disagree(f"C14:intersect:generic:{dim}d:error:{r[1]}", desc, "at most two points on both", r[1:3], replay=[desc])
                continue
            pts = [np.asarray(x.array) for x in r[1]]
            good = 1 <= len(pts) <= 2
            for x in pts:
                good = good and np.all(np.isfinite(x)) and np.linalg.norm(x) > 0 and resid(A, x) < 1e-7 and bool(np.all(L[1].contains(g.Point(x), tol=1e-7)))
            if not good:
                ctx.disagree(f"C14:intersect:generic:{dim}d", desc, "1-2 points lying on the quadric and on the line", [np.round(x, 6).tolist() for x in pts], replay=[desc])


def complex_symmetric_stream(ctx, n):
    """regular conics with a complex SYMMETRIC (not Hermitian) matrix: the intersection with a line consists of points on both"""
    import geometer as g
    rng = ctx.rng
    for k in range(n):
        A = np.array([[complex(rng.randint(-2, 2), 0) for _ in range(3)] for _ in range(3)])
        A = A + A.T
        i, j = rng.sample(range(3), 2)
        A[i, j] += 1j * rng.choice([1, -1, 2]); A[j, i] = A[i, j]
        if k % 2:
            # a block [[a, ib], [ib, a]] with a = ±b: regular as a symmetric matrix (a² + b² ≠ 0), singular if it were read as Hermitian
            a0 = float(rng.choice([1, 2, -1, 3]))
            i, j = rng.sample(range(3), 2)
            r = [x for x in range(3) if x not in (i, j)][0]
            A = np.zeros((3, 3), dtype=complex)
            A[i, i] = A[j, j] = a0
            A[i, j] = A[j, i] = 1j * a0 * rng.choice([1, -1])
            A[r, r] = float(rng.choice([1, -1, 2]))
        if abs(np.linalg.det(A)) < 0.5:
            continue
        l = np.array([float(rng.randint(-2, 2)), float(rng.randint(-2, 2)), float(rng.randint(-3, 3))])
        if not l[:2].any():
            continue
        desc = f"complex symmetric conic {A.tolist()} line {l.tolist()}"
        ctx.case(desc)
        ctx.count("complex-symmetric-conic")
        r = call_impl(lambda: (bool(g.Conic(A).is_degenerate), g.Conic(A).intersect(g.Line(l))))
        if r[0] != "ok":
            ctx.disagree("C14:complex-symmetric:error", desc, "the common points", r[1:3], replay=[desc])
            continue
        pts = [np.asarray(p.array) for p in r[1][1]]
        res = [max(abs(p @ A @ p) / (np.linalg.norm(p) ** 2 * np.linalg.norm(A)), abs(l @ p) / (np.linalg.norm(l) * np.linalg.norm(p))) for p in pts]
        if r[1][0] or not pts or len(pts) > 2 or max(res) > 1e-7:
            ctx.disagree("C14:complex-symmetric", desc, "not degenerate; 1-2 points on the conic and on the line",
                         {"is_degenerate": r[1][0], "points": [np.round(p, 6).tolist() for p in pts], "residuals": [float(x) for x in res]}, replay=[desc])


def axis_lines_stream(ctx, n):
    """a sphere against a LineCollection whose lines run in the three coordinate directions (each line matrix has a different
    vanishing row): the secants return their known points, position by position"""
    import geometer as g
    rng = ctx.rng
    for k in range(n):
        c = np.array([float(rng.randint(-2, 2)) for _ in range(3)])
        r0 = float(rng.choice([2, 3, 5]))
        S = g.Sphere(g.Point(*c), r0)
        lines, exp = [], []
        for ax in rng.sample([0, 1, 2], 3):
            d = np.zeros(3); d[ax] = 1.0
            off = np.zeros(3)
            if rng.random() < 0.5:
                off[(ax + 1) % 3] = 0.6 * r0 if r0 == 5 else 0.0
            p, q = c + off - np.sqrt(r0 ** 2 - off @ off) * d, c + off + np.sqrt(r0 ** 2 - off @ off) * d
            lines.append(g.Line(g.Point(*p), g.Point(*q)))
            exp.append((p, q))
        LC = g.LineCollection(np.stack([np.asarray(l.array) for l in lines]))
        desc = f"sphere centre {c.tolist()} radius {r0} against axis-parallel secants {[[p.tolist(), q.tolist()] for p, q in exp]}"
        ctx.case(desc)
        ctx.count("axis-lines")
        r = call_impl(lambda: S.intersect(LC))
        if r[0] != "ok":
            ctx.disagree(f"C14:axis-lines:error:{r[1]}", desc, "two points per line", r[1:3], replay=[desc])
            continue
        ok = len(r[1]) == 2
        if ok:
            for i, (p, q) in enumerate(exp):
                got = [np.asarray(x.array)[i] for x in r[1]]
                good, why = match_points([g.Point(v) for v in got], [np.append(p, 1.0), np.append(q, 1.0)], 1e-7)
                ok = ok and good
        if not ok:
            ctx.disagree("C14:axis-lines:value", desc, "the two known points per line", [np.round(np.asarray(x.array), 6).tolist() for x in r[1]], replay=[desc])


def special_stream(ctx, n):
    """circles, spheres, cones, cylinders; degenerate quadrics (pairs of lines / planes); collections"""
    import geometer as g
    rng = ctx.rng
    fr = frames()
    for k in range(n):
        which = k % 5
        if which == 0:       # circle, secant through two Pythagorean points
            cx, cy, r = rng.randint(-4, 4), rng.randint(-4, 4), 5 * rng.choice([1, 2])
            s = r // 5
            pts = rng.sample([(3, 4), (4, 3), (-3, 4), (5, 0), (0, -5), (-4, -3), (4, -3), (0, 5)], 2)
            p, q = (np.array([cx + s * x, cy + s * y, 1.0]) for x, y in pts)
            Q = g.Circle(g.Point(float(cx), float(cy)), float(r))
            L = line_through(g, p, q)
            desc = f"circle centre=({cx},{cy}) r={r} secant {p.tolist()} {q.tolist()}"
            exp = [p, q]
        elif which == 1:     # sphere, secant along a rational direction
            c = np.array([rng.randint(-3, 3) for _ in range(3)], dtype=float)
            r = rng.choice([1, 2, 3, 7])
            m = rng.choice(fr)
            u = np.array([float(x) for x in m[0]])
            p, q = np.append(c + r * u, 1.0), np.append(c - r * np.array([float(x) for x in m[1]]), 1.0)
            Q = g.Sphere(g.Point(*c), float(r))
            L = line_through(g, p, q)
            desc = f"sphere centre={c.tolist()} r={r} secant {np.round(p, 6).tolist()} {np.round(q, 6).tolist()}"
            exp = [p, q]
        elif which == 2:     # pair of lines cut by a secant not through the vertex
            while True:
                l1 = [rng.randint(-3, 3) for _ in range(3)]
                l2 = [rng.randint(-3, 3) for _ in range(3)]
                lv = [rng.randint(-3, 3) for _ in range(3)]
                if abs(np.linalg.det(np.array([l1, l2, lv], dtype=float))) > 0.5:
                    break
            Q = g.Conic.from_lines(g.Line(np.array(l1, dtype=float)), g.Line(np.array(l2, dtype=float)))
            L = g.Line(np.array(lv, dtype=float))
            p, q = np.cross(l1, lv).astype(float), np.cross(l2, lv).astype(float)
            desc = f"line-pair {l1} {l2} cut by {lv}"
            exp = [p, q]
        elif which == 3:     # cone: generator line through the vertex returns the vertex (tangent-like) ; secant through two base points
            m = rng.choice(fr)
            a, e1, e2 = (np.array([float(x) for x in row]) for row in m)
            v = np.array([rng.randint(-2, 2) for _ in range(3)], dtype=float)
            h, r = rng.choice([1, 2, 3]), rng.choice([1, 2])
            bc = v + h * a
            p = np.append(bc + r * (0.6 * e1 + 0.8 * e2), 1.0)
            q = np.append(bc + r * (-0.8 * e1 + 0.6 * e2), 1.0)
            Q = g.Cone(g.Point(*v), g.Point(*bc), float(r))
            L = line_through(g, p, q)
            desc = f"cone vertex={v.tolist()} axis={np.round(a, 6).tolist()} h={h} r={r} secant through two base points"
            exp = [p, q]
        else:                # plane pair cut by a line
            while True:
                e1 = [rng.randint(-3, 3) for _ in range(4)]
                e2 = [rng.randint(-3, 3) for _ in range(4)]
                if np.linalg.matrix_rank(np.array([e1, e2], dtype=float)) == 2:
                    break
            from geometer.curve import Quadric
            Q = call_impl(lambda: Quadric.from_planes(g.Plane(np.array(e1, dtype=float)), g.Plane(np.array(e2, dtype=float))))
            if Q[0] != "ok":
                continue
            Q = Q[1]
            a = np.array([rng.randint(-3, 3) for _ in range(3)] + [1.0])
            b = np.array([rng.randint(-3, 3) for _ in range(3)] + [1.0])
            fa1, fb1, fa2, fb2 = np.dot(e1, a), np.dot(e1, b), np.dot(e2, a), np.dot(e2, b)
            if abs(fa1 - fb1) < 1e-9 or abs(fa2 - fb2) < 1e-9 or np.allclose(a, b):
                continue
            p = a * fb1 - b * fa1
            q = a * fb2 - b * fa2
            if np.linalg.matrix_rank(np.array([p, q])) < 2:
                continue
            L = line_through(g, a, b)
            desc = f"plane-pair {e1} {e2} cut by line {a.tolist()} {b.tolist()}"
            exp = [p, q]
        ctx.case(desc)
        kind = desc.split(" ")[0]
        ctx.count("special:" + kind)
        r = call_impl(lambda: Q.intersect(L))
        if r[0] != "ok":
            ctx.disagree(f"C14:intersect:{kind}:error:{r[1]}", desc, [np.round(e, 6).tolist() for e in exp], r[1:3], replay=[desc])
            continue
        ok, why = match_points(r[1], exp, 1e-6)
        if not ok or why != "exact":
            ctx.disagree(f"C14:intersect:{kind}:{why}", desc, [np.round(e, 6).tolist() for e in exp], [np.round(np.asarray(x.array), 6).tolist() for x in r[1]], replay=[desc])


def tangent_dual_stream(ctx, n):
    import geometer as g
    from geometer.curve import Quadric
    rng = ctx.rng
    fr = frames()
    for k in range(n):
        dim = 2 if k % 2 == 0 else 3
        A0 = sym(rng, dim + 1)
        A, p = point_on_quadric(rng, A0)
        if A is None:
            continue
        Q = g.Conic(A.astype(int)) if dim == 2 else Quadric(A.astype(int))
        P = g.Point(p)
        desc = f"tangent/dual dim={dim} A={A.astype(int).tolist()} p={p.astype(int).tolist()}"
        ctx.case(desc)
        ctx.count(f"tangent:{dim}d")
        t = call_impl(lambda: Q.tangent(P))
        good = t[0] == "ok" and not isinstance(t[1], tuple)
        if good:
            good = bool(np.all(t[1].contains(P))) and bool(np.all(Q.is_tangent(t[1])))
        if not good:
            ctx.disagree(f"C14:tangent:on:{dim}d", desc, "hyperplane through p that is_tangent", t[1:3] if t[0] != "ok" else "fails contains / is_tangent", replay=[desc])
        # a random hyperplane is tangent iff hᵀ A⁻¹ h = 0
        h = np.array([rng.randint(-3, 3) for _ in range(dim + 1)], dtype=float)
        if np.any(h):
            val = h @ np.linalg.inv(A) @ h
            H = g.Line(h) if dim == 2 else g.Plane(h)
            it = call_impl(lambda: bool(np.all(Q.is_tangent(H))))
            if abs(val) > 1e-6 or abs(val) < 1e-12:
                if it[0] != "ok" or it[1] != (abs(val) < 1e-12):
                    ctx.disagree(f"C14:is_tangent:{dim}d", desc + f" h={h.tolist()}", abs(val) < 1e-12, it[1:3], replay=[desc])
        # pole / polar reciprocity (conics)
        if dim == 2:
            x = np.array([rng.randint(-3, 3), rng.randint(-3, 3), 1.0])
            y0 = np.array([rng.randint(-3, 3), rng.randint(-3, 3), 1.0])
            px = call_impl(lambda: Q.polar(g.Point(x)))
            if px[0] == "ok":
                # a point y on polar(x): cross of polar with a random line
                y = np.cross(np.asarray(px[1].array, dtype=float), np.cross(x, y0) + [0, 0, 1])
                if np.any(y):
                    py = call_impl(lambda: Q.polar(g.Point(y)))
                    ok = py[0] == "ok" and abs(np.asarray(py[1].array) @ x) < 1e-7 * (np.linalg.norm(py[1].array) * np.linalg.norm(x) + 1e-300)
                    if not ok:
                        ctx.disagree("C14:polar:reciprocity", desc + f" x={x.tolist()} y={y.tolist()}", "x on polar(y)", py[1:3], replay=[desc])
            # tangents from an outside point
            out = np.array([rng.randint(-6, 6), rng.randint(-6, 6), 1.0])
            if abs(out @ A @ out) > 1e-9:
                tt = call_impl(lambda: Q.tangent(g.Point(out)))
                ctx.count("tangent:from-outside")
                ok = tt[0] == "ok" and isinstance(tt[1], tuple) and len(tt[1]) == 2
                if ok:
                    Ai = np.linalg.inv(A)
                    for l in tt[1]:
                        la = np.asarray(l.array, dtype=complex)
                        ok = ok and abs(la @ out) < 1e-6 * np.linalg.norm(la) * np.linalg.norm(out) and abs(la @ Ai @ la) < 1e-6 * np.linalg.norm(la) ** 2 * np.linalg.norm(Ai)
                if not ok:
                    ctx.disagree("C14:tangent:from-outside", desc + f" from={out.tolist()}", "two tangents through the point", tt[1:3] if tt[0] != "ok" else "not tangent / not through", replay=[desc])
        # dual is an involution
        d = call_impl(lambda: Q.dual.dual)
        if d[0] != "ok" or not proj_close_nn(A, np.asarray(d[1].array), 1e-8) or d[1].is_dual:
            ctx.disagree(f"C14:dual:involution:{dim}d", desc, "q.dual.dual == q", d[1:3], replay=[desc])
    # every quadric class has a dual; is_tangent works; also after the quadric was moved
    objs = [("Circle", lambda: g.Circle(g.Point(1.0, 2.0), 5.0), np.array([-3.0, -4.0, 36.0])),      # tangent at (4,6): 3(x-1)+4(y-2)=25
            ("Ellipse", lambda: g.Ellipse(g.Point(0.0, 0.0), 2.0, 1.0), np.array([1.0, 0.0, -2.0])),
            ("Sphere", lambda: g.Sphere(g.Point(1.0, 0.0, -1.0), 3.0), np.array([1.0, 0.0, 0.0, -4.0])),
            ("Cone", lambda: g.Cone(g.Point(0.0, 0.0, 0.0), g.Point(0.0, 0.0, 1.0), 1.0), np.array([1.0, 0.0, -1.0, 0.0])),
            ("Conic", lambda: g.Conic(np.array([[1, 0, 0], [0, 1, 0], [0, 0, -25]])), np.array([3.0, 4.0, -25.0]))]
    for name, mk, tang in objs:
        desc = f"dual of {name}"
        ctx.case(desc)
        ctx.count("dual:" + name)
        q = mk()
        r = call_impl(lambda: q.dual)
        if name == "Cone":
            continue        # degenerate: no dual (singular matrix)
        if r[0] != "ok":
            ctx.disagree(f"C14:dual:{name}:error:{r[1]}", desc, "the dual quadric", r[1:3], replay=[desc])
            continue
        H = g.Line(tang) if len(tang) == 3 else g.Plane(tang)
        it = call_impl(lambda: bool(np.all(q.is_tangent(H))))
        if it[0] != "ok" or it[1] is not True:
            ctx.disagree(f"C14:is_tangent:{name}", desc + f" tangent={tang.tolist()}", True, it[1:3], replay=[desc])
        # multi-step: dualise, move, query the moved quadric
        off = g.Point(*([2.0, -1.0] if len(tang) == 3 else [2.0, -1.0, 3.0]))
        moved = call_impl(lambda: q + off)
        if moved[0] == "ok":
            T = g.translation(off)
            Hm = T * H
            it2 = call_impl(lambda: bool(np.all(moved[1].is_tangent(Hm))))
            it3 = call_impl(lambda: bool(np.all(moved[1].is_tangent(H))))
            if it2[0] != "ok" or it2[1] is not True or (it3[0] == "ok" and it3[1] is True):
                ctx.disagree(f"C14:is_tangent:after-move:{name}", desc, "(True for the moved tangent, False for the old one)", (it2[1:3], it3[1:3]), replay=[desc])


# minimised past failures (run first): (matrix, first point on the quadric, second point / direction, kind)
CORPUS = [
    # the second point carries rounding noise: the dual line matrix has a row of magnitude 1e-17 that must not be used as a plane
    ([[2, 0, 1, -1], [0, -2, 3, -1], [1, 3, -1, 1], [-1, -1, 1, 24]], [3, -3, 2, 1],
     [3.999999999999999, 3.0, -2.000000000000001, -1.0000000000000004], "secant"),
    # tangent line: the projected conic has rank 1, its adjugate is pure rounding noise (1e-31) and must not be normalised
    ([[-1, 3, -1, -1], [3, 1, -3, 3], [-1, -3, 0, 2], [-1, 3, 2, 31]], [0, -3, -1, 1], [9, 16, 3, 0], "tangent"),
]


def corpus_stream(ctx):
    import geometer as g
    from geometer.curve import Quadric
    for A, p, x, kind in CORPUS:
        A, p, x = np.array(A), np.array(p, dtype=float), np.array(x, dtype=float)
        for dtype in (int, float):
            Q = Quadric(A.astype(dtype))
            q = x if kind == "secant" else p + x
            L = line_through(g, p, q)
            desc = f"corpus {kind} quadric dim=3 ({dtype.__name__}) A={A.tolist()} p={p.tolist()} through {q.tolist()}"
            ctx.case(desc)
            ctx.count(f"corpus:{kind}")
            r = call_impl(lambda: Q.intersect(L))
            if r[0] != "ok":
                ctx.disagree(f"C14:intersect:{kind}:3d:error:{r[1]}", desc, "the known points", r[1:3], replay=[desc])
                continue
            ok, why = match_points(r[1], [p, q] if kind == "secant" else [p], 1e-7 if kind == "secant" else 2e-6)
            if not ok:
                ctx.disagree(f"C14:intersect:{kind}:3d:{why}", desc, [p.tolist()], [np.round(np.asarray(v.array), 6).tolist() for v in r[1]], replay=[desc])


def grid_stream(ctx, n):
    """a circle / sphere against grids of 64 or more secants (one and two collection axes: the batched branches of the numeric
    kernels), and the dual of a grid of circles: every returned point lies on the quadric and on its line, the two known
    points are found, dual.dual is the grid again"""
    import geometer as g
    from geometer.curve import QuadricCollection
    rng = ctx.rng
    PY = [(3, 4), (4, 3), (-3, 4), (5, 0), (0, -5), (-4, -3), (4, -3), (0, 5), (-5, 0), (3, -4), (-4, 3), (-3, -4)]
    for k in range(n):
        shape = rng.choice([(64,), (8, 8), (4, 16), (70,)])
        size = int(np.prod(shape))
        cx, cy = rng.randint(-3, 3), rng.randint(-3, 3)
        Q = g.Circle(g.Point(float(cx), float(cy)), 5.0)
        pairs = [rng.sample(PY, 2) for _ in range(size)]
        P1 = np.array([[cx + a[0], cy + a[1], 1.0] for a, b in pairs]).reshape(shape + (3,))
        P2 = np.array([[cx + b[0], cy + b[1], 1.0] for a, b in pairs]).reshape(shape + (3,))
        L = g.LineCollection(g.PointCollection(P1), g.PointCollection(P2))
        desc = f"circle centre=({cx},{cy}) r=5 against a {shape} grid of secants through lattice points"
        ctx.case(desc)
        ctx.count(f"grid:{len(shape)}axes")
        r = call_impl(lambda: Q.intersect(L))
        if r[0] != "ok" or len(r[1]) != 2:
            ctx.disagree(f"C14:grid:error", desc, "two point collections", r[1:3], replay=[desc])
            continue
        A, B = (np.asarray(x.array).reshape(size, 3) for x in r[1])
        f1, f2 = P1.reshape(size, 3), P2.reshape(size, 3)
        bad = [i for i in range(size)
               if not ((proj_close_nn(A[i], f1[i], 1e-7) and proj_close_nn(B[i], f2[i], 1e-7)) or (proj_close_nn(A[i], f2[i], 1e-7) and proj_close_nn(B[i], f1[i], 1e-7)))]
        if bad:
            ctx.disagree(f"C14:grid:secants:{len(shape)}axes", desc, [f1[bad[0]].tolist(), f2[bad[0]].tolist()], [np.round(A[bad[0]], 6).tolist(), np.round(B[bad[0]], 6).tolist()], replay=[desc])
            continue
        # dual of a grid of circles
        # radii from 4 down to 1/16: small circles are regular conics with a small determinant (no member of the grid is singular)
        mats = np.array([np.asarray(g.Circle(g.Point(float(rng.randint(-3, 3)), float(rng.randint(-3, 3))), float(rng.choice([1, 2, 3, 4, 0.5, 0.125, 0.0625]))).array) for _ in range(size)]).reshape(shape + (3, 3))
        QC = QuadricCollection(mats)
        d = call_impl(lambda: QC.dual.dual)
        if d[0] != "ok" or not all(proj_close_nn(x, y, 1e-8) for x, y in zip(np.asarray(d[1].array).reshape(size, 3, 3), mats.reshape(size, 3, 3))):
            ctx.disagree(f"C14:grid:dual-dual:{len(shape)}axes", desc + " (grid of circles)", "the grid itself", d[1:3] if d[0] != "ok" else "differs", replay=[desc])


def moved_class_stream(ctx, n):
    """a Circle / Sphere under a map that is NOT a similarity (the image keeps its class but is an ellipse / ellipsoid): the secant
    through the images of two known points returns exactly those, the tangent at an image point touches"""
    import geometer as g
    rng = ctx.rng
    PYTH = [(3, 4, 5), (-4, 3, 5), (5, 12, 13), (-12, 5, 13), (0, 5, 5), (5, 0, 5), (-3, -4, 5), (4, -3, 5)]
    for k in range(n):
        c = (float(rng.randint(-3, 3)), float(rng.randint(-3, 3)))
        (x1, y1, r1), (x2, y2, r2) = rng.sample([p for p in PYTH if p[2] == 5], 2)
        C = g.Circle(g.Point(*c), 5.0)
        P1, P2 = g.Point(c[0] + x1, c[1] + y1), g.Point(c[0] + x2, c[1] + y2)
        how = k % 3
        if how == 0:
            t = g.scaling(2.0, 0.5)
        elif how == 1:
            t = g.affine_transform(np.array([[1.0, float(rng.choice([1, 2, -1]))], [0.0, 1.0]]), np.array([float(rng.randint(-2, 2)), 1.0]))
        else:
            t = g.Transformation(np.array([[1.0, 0.0, 1.0], [0.0, 2.0, 0.0], [rng.choice([0.125, -0.0625]), 0.0, 1.0]]))
        desc = f"Circle(centre={c}, r=5) under {np.asarray(t.array).tolist()}: secant through the images of {(x1, y1)} and {(x2, y2)} (relative to the centre)"
        ctx.case(desc)
        ctx.count("moved-class:" + ("scaling", "shear", "projective")[how])
        def run():
            Ct, Q1, Q2 = t * C, t * P1, t * P2
            got = Ct.intersect(g.Line(Q1, Q2))
            tang = Ct.tangent(Q1)
            return type(Ct).__name__, [np.asarray(x.array) for x in got], [np.asarray(Q1.array), np.asarray(Q2.array)], bool(Ct.is_tangent(tang)), bool(tang.contains(Q1))
        r = call_impl(run)
        ok = r[0] == "ok" and len(r[1][1]) == 2 and all(any(proj_close_nn(e, p, 1e-6) for p in r[1][1]) for e in r[1][2]) and r[1][3] and r[1][4]
        if not ok:
            ctx.disagree("C14:moved-class:" + ("scaling", "shear", "projective")[how], desc, "the two image points; tangent at the first touches",
                         r[1:3] if r[0] != "ok" else (r[1][0], [np.round(p, 5).tolist() for p in r[1][1]], r[1][3], r[1][4]), replay=[desc])


def correspondence(ctx):
    moved_class_stream(ctx, ctx.budget(24, 240))
    from props import c13
    c13.int_homogeneous_centres(ctx, ctx.budget(20, 200), prefix="C14")     # integer centres with fractional radii: the quadric the line is intersected with
    complex_symmetric_stream(ctx, ctx.budget(40, 400))
    axis_lines_stream(ctx, ctx.budget(25, 250))
    from props import c07
    c07.dual_quadric_stream(ctx, ctx.budget(30, 300), prefix="C14")
    grid_stream(ctx, ctx.budget(6, 60))
    corpus_stream(ctx)
    intersect_stream(ctx, ctx.budget(300, 5000))
    special_stream(ctx, ctx.budget(100, 1500))
    tangent_dual_stream(ctx, ctx.budget(100, 1500))
    # the same operations on collections of quadrics / lines / points against the single objects (all shape patterns)
    import colllib
    colllib.run(ctx, ctx.budget(250, 3000), prefix="C14",
                only={"quadric.tangent", "conic.tangent", "quadric.polar", "conic.is_tangent", "conic.intersect", "quadric3.degenerate-intersect",
                      "conic.dual", "quadric.dual"})


def replay(ctx, rec):
    correspondence(ctx)
