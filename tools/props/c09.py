"""C09 — dist and angle equal the Cartesian distance and angle."""
from __future__ import annotations

import math
from fractions import Fraction

import numpy as np

from geolib import Gen, Obj, call_impl
from proto import ET, dec_q, dec_tens, run_driver
from trlib import TM, rand_matrix

ID = "C09"
LEAN_FILES = ["Geo/Props/C09.lean", "Geo/Props/C09b.lean"]
RULE = ("dist: point-point (2-D/3-D, any homogeneous scale incl. negative, collections), point-line, point-plane, point-3D-line, "
        "plane-parallel line, plane-parallel plane, point-segment, point-polygon (3-D), point-polyhedron, both argument orders; incident pairs "
        "(0), exactly one point at infinity (inf); compared as dist^2 with the exact Cartesian value of the S-layer; angle: three points, "
        "two lines, two planes, line-direction, compared as (cos 2θ, sin 2θ); antisymmetry; invariance under random isometries "
        "(Pythagorean rotations, reflections negate); non-trivial = distinct objects")
ASSUMPTIONS = ["sqrt/log/abs accurate to a few ulp; results compared with rtol 1e-8"]


def vt(v):
    return ET((len(v),), list(v)).enc()


def fr(p: Obj):
    return [e[0] for e in p.data.entries]


def close(a, b, rtol=1e-8):
    return abs(a - b) <= rtol * max(1.0, abs(b))


def finite_point(gen, dim):
    p = gen.point(dim, cplx=False, inf=False)
    return p.scaled(gen.rng.choice([1, 1, 2, -1, -3, Fraction(1, 2)]))


def dist_stream(ctx, n):
    import geometer as g
    rng = ctx.rng
    gen = Gen(rng, gaussian=0)
    reqs, todo = [], []
    for k in range(n):
        dim = rng.choice([2, 3])
        kind = ["PP", "PH", "PL3", "HP", "PP-inc", "PH-inc", "PPinf", "EL", "EE", "PS", "PG3", "PHd"][k % 12]
        p = finite_point(gen, dim)
        if kind in ("PP", "PP-inc"):
            q = finite_point(gen, dim) if kind == "PP" else p.scaled(rng.choice([2, -1, 3]))
            reqs.append(f"spec.dist2 {vt(fr(p))} {vt(fr(q))}")
            todo.append((kind, dim, (p, q), lambda p=p, q=q: g.dist(p.impl(), q.impl()), lambda p=p, q=q: g.dist(q.impl(), p.impl())))
        elif kind == "PPinf":
            q = gen.point(dim, cplx=False, inf=True)
            reqs.append(f"spec.dist2 {vt(fr(p))} {vt(fr(p))}")
            todo.append((kind, dim, (p, q), lambda p=p, q=q: g.dist(p.impl(), q.impl()), lambda p=p, q=q: g.dist(q.impl(), p.impl())))
        elif kind in ("PH", "HP", "PH-inc"):
            h = gen.hyper(dim, cplx=False)
            hv = fr(h)
            if not any(hv[:-1]):
                hv[0] = Fraction(1)
                h = Obj(h.kind, ET((dim + 1,), hv))
            if kind == "PH-inc":
                # put p on h
                pv = fr(p)
                i = max(range(dim), key=lambda j: abs(hv[j]))
                rest = sum(hv[j] * pv[j] for j in range(dim + 1) if j != i)
                pv = [x * hv[i] for x in pv]
                pv[i] = -rest
                if pv[-1] == 0:
                    continue
                p = Obj("P", ET((dim + 1,), pv))
            reqs.append(f"spec.dist2hyper {vt(hv)} {vt(fr(p))}")
            todo.append((kind, dim, (h, p), lambda p=p, h=h: g.dist(p.impl(), h.impl()), lambda p=p, h=h: g.dist(h.impl(), p.impl())))
        elif kind == "PL3":
            a, b = finite_point(gen, 3), finite_point(gen, 3)
            p = finite_point(gen, 3)
            L = call_impl(lambda: g.join(a.impl(), b.impl()))
            if L[0] != "ok":
                continue
            reqs.append(f"spec.dist2line {vt(fr(a))} {vt(fr(b))} {vt(fr(p))}")
            todo.append((kind, 3, (a, b, p), lambda p=p, L=L[1]: g.dist(p.impl(), L), lambda p=p, L=L[1]: g.dist(L, p.impl())))
        elif kind in ("EL", "EE"):
            # plane and a parallel line / plane: distance = distance of any point of the second to the plane
            h = gen.hyper(3, cplx=False)
            hv = fr(h)
            if not any(hv[:-1]):
                continue
            a = finite_point(gen, 3)
            if kind == "EE":
                lam = Fraction(rng.choice([1, 2, -1, -3]))
                av = [x / fr(a)[-1] for x in fr(a)]
                off = -sum(hv[j] * av[j] for j in range(3))
                other = Obj("E", ET((4,), [x * lam for x in hv[:3]] + [off * lam]))
            else:
                # direction within the plane: cross(normal, random)
                r = [Fraction(rng.randint(-3, 3)) for _ in range(3)]
                nrm = hv[:3]
                d = [nrm[1] * r[2] - nrm[2] * r[1], nrm[2] * r[0] - nrm[0] * r[2], nrm[0] * r[1] - nrm[1] * r[0]]
                if not any(d):
                    continue
                av = [x / fr(a)[-1] for x in fr(a)]
                b = Obj("P", ET((4,), [av[0] + d[0], av[1] + d[1], av[2] + d[2], Fraction(1)]))
                Lr = call_impl(lambda: g.join(a.impl(), b.impl()))
                if Lr[0] != "ok":
                    continue
                other = Lr[1]
            reqs.append(f"spec.dist2hyper {vt(hv)} {vt(fr(a))}")
            oi = other.impl() if isinstance(other, Obj) else other
            todo.append((kind, 3, (h, a), lambda h=h, oi=oi: g.dist(h.impl(), oi), lambda h=h, oi=oi: g.dist(oi, h.impl())))
        elif kind == "PS":
            a, b = finite_point(gen, dim), finite_point(gen, dim)
            av, bv, pv = ([x / fr(t)[-1] for x in fr(t)[:-1]] for t in (a, b, p))
            d = [y - x for x, y in zip(av, bv)]
            if not any(d):
                continue
            t = sum((pp - x) * dd for pp, x, dd in zip(pv, av, d)) / sum(dd * dd for dd in d)
            tt = min(max(t, Fraction(0)), Fraction(1))
            foot = [x + tt * dd for x, dd in zip(av, d)] + [Fraction(1)]
            reqs.append(f"spec.dist2 {vt(fr(p))} {vt(foot)}")
            S = call_impl(lambda: g.Segment(a.impl(), b.impl()))
            if S[0] != "ok":
                continue
            todo.append((kind, dim, (a, b, p), lambda p=p, S=S[1]: g.dist(p.impl(), S), lambda p=p, S=S[1]: g.dist(S, p.impl())))
        elif kind in ("PG3", "PHd"):
            # axis-parallel rectangle / cuboid at an offset, query points whose nearest point is known exactly
            o = [Fraction(rng.randint(-2, 2)) for _ in range(3)]
            w = [Fraction(rng.randint(1, 3)) for _ in range(3)]
            pv = [Fraction(rng.randint(-5, 5)) for _ in range(3)]
            if kind == "PG3":
                poly = g.Polygon(g.Point(*map(float, o)), g.Point(float(o[0] + w[0]), float(o[1]), float(o[2])),
                                 g.Point(float(o[0] + w[0]), float(o[1] + w[1]), float(o[2])), g.Point(float(o[0]), float(o[1] + w[1]), float(o[2])))
                near = [min(max(pv[0], o[0]), o[0] + w[0]), min(max(pv[1], o[1]), o[1] + w[1]), o[2]]
            else:
                poly = g.Cuboid(g.Point(*map(float, o)), g.Point(float(o[0] + w[0]), float(o[1]), float(o[2])),
                                g.Point(float(o[0]), float(o[1] + w[1]), float(o[2])), g.Point(float(o[0]), float(o[1]), float(o[2] + w[2])))
                near = [min(max(pv[j], o[j]), o[j] + w[j]) for j in range(3)]
                if near == pv:
                    continue          # inside the solid: distance to the boundary, not modelled here
            P = g.Point(*map(float, pv))
            reqs.append(f"spec.dist2 {vt(pv + [Fraction(1)])} {vt(near + [Fraction(1)])}")
            todo.append((kind, 3, (o, w, pv), lambda P=P, poly=poly: g.dist(P, poly), lambda P=P, poly=poly: g.dist(poly, P)))
    answers = run_driver(reqs)
    for (kind, dim, objs, f1, f2), req, ans in zip(todo, reqs, answers):
        desc = f"dist {kind} dim={dim} {req} objs={objs}"[:900]
        ctx.case(desc)
        ctx.count("dist:" + kind)
        exp2 = float(dec_q(ans.split(" ")[1])[0])
        for order, f in (("ab", f1), ("ba", f2)):
            r = call_impl(f)
            if r[0] != "ok":
                ctx.disagree(f"C09:dist:{kind}:{order}:error:{r[1]}", desc, math.sqrt(exp2), r[1:3], replay=[desc])
                break
            val = float(np.asarray(r[1]).reshape(-1)[0]) if np.asarray(r[1]).size else float("nan")
            if kind == "PPinf":
                good = math.isinf(val)
                expd = "inf"
            else:
                good = math.isfinite(val) and close(val * val, exp2, 1e-7) and val >= 0
                expd = math.sqrt(exp2)
            if not good:
                ctx.disagree(f"C09:dist:{kind}:{order}", desc, expd, val, replay=[desc])
                break


def dist_collection_stream(ctx, n):
    """collections: element by element the single-object value"""
    import geometer as g
    rng = ctx.rng
    gen = Gen(rng, gaussian=0)
    for k in range(n):
        dim = rng.choice([2, 3])
        m = rng.randint(1, 3)
        ps = [finite_point(gen, dim) for _ in range(m)]
        qs = [finite_point(gen, dim) for _ in range(m)]
        P = g.PointCollection(np.array([p.data.numpy().astype(float) for p in ps]))
        Q = g.PointCollection(np.array([q.data.numpy().astype(float) for q in qs]))
        desc = f"dist-collection dim={dim} {[str(p) for p in ps]} {[str(q) for q in qs]}"
        ctx.case(desc)
        ctx.count("dist:collection")
        r = call_impl(lambda: g.dist(P, Q))
        singles = [call_impl(lambda p=p, q=q: g.dist(p.impl(), q.impl())) for p, q in zip(ps, qs)]
        ok = r[0] == "ok" and all(s[0] == "ok" for s in singles) and np.asarray(r[1]).shape == (m,) and \
            all(close(float(a), float(np.asarray(s[1]).reshape(-1)[0])) for a, s in zip(np.asarray(r[1]), singles))
        if not ok:
            ctx.disagree("C09:dist:collection", desc, [s[1] for s in singles], r[1:3], replay=[desc])


def angle_stream(ctx, n):
    import geometer as g
    rng = ctx.rng
    gen = Gen(rng, gaussian=0)
    reqs, todo = [], []
    for k in range(n):
        a, b, c = finite_point(gen, 2), finite_point(gen, 2), finite_point(gen, 2)
        reqs.append(f"spec.angle {vt(fr(a))} {vt(fr(b))} {vt(fr(c))}")
        todo.append((a, b, c))
    answers = run_driver(reqs)
    for (a, b, c), req, ans in zip(todo, reqs, answers):
        desc = "angle " + req
        ctx.case(desc)
        tok = ans.split(" ")
        c2, s2 = float(dec_q(tok[1])[0]), float(dec_q(tok[2])[0])
        nrm = math.hypot(c2, s2)
        if nrm == 0:
            ctx.count("angle:degenerate")
            continue
        ctx.count("angle:points")
        A, B, C = a.impl(), b.impl(), c.impl()
        r = call_impl(lambda: g.angle(A, B, C))
        r2 = call_impl(lambda: g.angle(A, C, B))
        if r[0] != "ok" or r2[0] != "ok":
            ctx.disagree("C09:angle:error", desc, (c2 / nrm, s2 / nrm), (r[1:3], r2[1:3]), replay=[desc])
            continue
        th, th2 = float(r[1]), float(r2[1])
        # modulo pi, sense fixed by the library (clockwise positive is accepted: the property fixes antisymmetry, not the sense)
        good = close(math.cos(2 * th), c2 / nrm, 1e-7) and (close(math.sin(2 * th), s2 / nrm, 1e-7) or close(math.sin(2 * th), -s2 / nrm, 1e-7))
        anti = close(math.sin(2 * th), -math.sin(2 * th2), 1e-7) and close(math.cos(2 * th), math.cos(2 * th2), 1e-7)
        if not good:
            ctx.disagree("C09:angle:value", desc, (c2 / nrm, s2 / nrm), (math.cos(2 * th), math.sin(2 * th)), replay=[desc])
        elif not anti:
            ctx.disagree("C09:angle:antisymmetry", desc, -th, th2, replay=[desc])
        # lines through a: same angle modulo pi
        l1, l2 = call_impl(lambda: g.join(A, B)), call_impl(lambda: g.join(A, C))
        if l1[0] == "ok" and l2[0] == "ok" and abs(s2) > 0:
            rl = call_impl(lambda: g.angle(l1[1], l2[1]))
            if rl[0] != "ok" or not (close(math.cos(2 * float(rl[1])), math.cos(2 * th), 1e-7) and close(abs(math.sin(2 * float(rl[1]))), abs(math.sin(2 * th)), 1e-7)):
                ctx.disagree("C09:angle:lines", desc, th, rl[1:3], replay=[desc])


def angle3d_stream(ctx, n):
    """3-D: angle between lines / planes / at a vertex = Cartesian angle modulo pi (unsigned comparison), isometry invariance"""
    import geometer as g
    rng = ctx.rng
    gen = Gen(rng, gaussian=0)
    for k in range(n):
        a, b, c = finite_point(gen, 3), finite_point(gen, 3), finite_point(gen, 3)
        av, bv, cv = (np.array([float(x / fr(t)[-1]) for x in fr(t)[:-1]]) for t in (a, b, c))
        u, v = bv - av, cv - av
        if np.linalg.norm(np.cross(u, v)) < 1e-9:
            continue
        cos2 = 2 * (u @ v) ** 2 / ((u @ u) * (v @ v)) - 1
        desc = f"angle3d {a} {b} {c}"
        ctx.case(desc)
        ctx.count("angle:3d")
        A, B, C = a.impl(), b.impl(), c.impl()
        r = call_impl(lambda: g.angle(A, B, C))
        if r[0] != "ok" or not close(math.cos(2 * float(r[1])), cos2, 1e-6):
            ctx.disagree("C09:angle3d:points", desc, cos2, r[1:3], replay=[desc])
            continue
        # translated copy (carrier plane far from the origin) and rotated copy: same angle
        off = [rng.randint(-9, 9) for _ in range(3)]
        T = g.translation(*off)
        r2 = call_impl(lambda: g.angle(T * A, T * B, T * C))
        if r2[0] != "ok" or not close(math.cos(2 * float(r2[1])), cos2, 1e-6) or not close(abs(math.sin(2 * float(r2[1]))), abs(math.sin(2 * float(r[1]))), 1e-6):
            ctx.disagree("C09:angle3d:translation", desc + f" off={off}", float(r[1]), r2[1:3], replay=[desc])
        # two planes: angle between normals modulo pi
        h1, h2 = gen.hyper(3, cplx=False), gen.hyper(3, cplx=False)
        n1, n2 = np.array([float(x) for x in fr(h1)[:3]]), np.array([float(x) for x in fr(h2)[:3]])
        if np.linalg.norm(np.cross(n1, n2)) < 1e-9:
            continue
        cosn = 2 * (n1 @ n2) ** 2 / ((n1 @ n1) * (n2 @ n2)) - 1
        rp = call_impl(lambda: g.angle(h1.impl(), h2.impl()))
        ctx.count("angle:planes")
        if rp[0] != "ok" or not close(math.cos(2 * float(np.real(rp[1]))), cosn, 1e-6):
            ctx.disagree("C09:angle3d:planes", f"angle planes {h1} {h2}", cosn, rp[1:3], replay=[desc])


def origin_lines(ctx, n):
    """dist(plane, line) / dist(line, plane) for lines through the origin (their null-space basis starts with a point at
    infinity) parallel to the plane: the Euclidean distance |d| / |n|"""
    import geometer as g
    rng = ctx.rng
    for k in range(n):
        nrm = np.array([float(rng.randint(-3, 3)) for _ in range(3)])
        if not nrm.any():
            continue
        v = np.cross(nrm, [float(rng.randint(-3, 3)), float(rng.randint(-3, 3)), float(rng.randint(1, 3))])
        if not v.any():
            continue
        d = float(rng.choice([1, 2, 3, -4, 6]))
        E = g.Plane(*nrm, d)
        L = g.Line(g.Point(0.0, 0.0, 0.0), g.Point(*v))
        exp = abs(d) / float(np.linalg.norm(nrm))
        desc = f"dist(plane {nrm.tolist()} {d}, line through the origin with direction {v.tolist()})"
        ctx.case(desc)
        ctx.count("dist:origin-line")
        for name, f in (("plane-line", lambda: float(g.dist(E, L))), ("line-plane", lambda: float(g.dist(L, E)))):
            r = call_impl(f)
            if r[0] != "ok" or not close(r[1], exp, 1e-7):
                ctx.disagree(f"C09:dist:origin-line:{name}", desc, exp, r[1:3], replay=[desc])
                break


def moved_polygon_stream(ctx, n):
    """dist(point, polygon) for a polygon of space obtained by translation / `+ Point` (the cached supporting plane must follow)"""
    import geometer as g
    rng = ctx.rng
    for k in range(n):
        w, h = rng.randint(1, 4), rng.randint(1, 4)
        base = g.Polygon(g.Point(0.0, 0.0, 0.0), g.Point(float(w), 0.0, 0.0), g.Point(float(w), float(h), 0.0), g.Point(0.0, float(h), 0.0))
        shift = [float(rng.randint(-3, 3)), float(rng.randint(-3, 3)), float(rng.choice([-4, -3, 2, 3, 5]))]
        moved = call_impl(lambda: g.translation(*shift) * base if k % 2 == 0 else base + g.Point(*shift))
        hq = float(rng.choice([1, 2, 4]))
        q = [shift[0] + w / 2, shift[1] + h / 2, shift[2] + hq]                  # straight above the centre of the moved rectangle
        desc = f"dist(point, moved rectangle {w}x{h}) shift={shift} height={hq}"
        ctx.case(desc)
        ctx.count("dist:moved-polygon")
        r = call_impl(lambda: float(g.dist(g.Point(*q), moved[1]))) if moved[0] == "ok" else moved
        if r[0] != "ok" or not close(r[1], hq):
            ctx.disagree("C09:dist:moved-polygon", desc, hq, r[1:3], replay=[desc])


def polygon2d_stream(ctx, n):
    """dist(point, polygon of the plane) and the other order: Euclidean distance to the closed region — 0 exactly for the points
    the polygon contains (interior and boundary), otherwise the distance to the nearest edge"""
    import geometer as g
    rng = ctx.rng
    for k in range(n):
        x0, y0, w, h = rng.randint(-3, 3), rng.randint(-3, 3), rng.randint(1, 4), rng.randint(1, 4)
        vs = [(x0, y0), (x0 + w, y0), (x0 + w, y0 + h), (x0, y0 + h)]
        if k % 2:
            vs = vs[::-1]
        poly = g.Polygon(*[g.Point(float(a), float(b)) for a, b in vs])
        px, py = rng.choice([x0 - 2, x0, x0 + w / 2, x0 + w, x0 + w + 3]), rng.choice([y0 - 1, y0, y0 + h / 2, y0 + h, y0 + h + 2])
        dx, dy = max(x0 - px, 0, px - (x0 + w)), max(y0 - py, 0, py - (y0 + h))
        exp = float(np.hypot(dx, dy))
        P = g.Point(float(px), float(py))
        desc = f"dist point ({px},{py}) – rectangle {vs} of the plane"
        ctx.case(desc)
        ctx.count("dist:polygon2d:" + ("incident" if exp == 0 else "outside"))
        r = call_impl(lambda: (float(g.dist(P, poly)), float(g.dist(poly, P)), bool(poly.contains(P))))
        if r[0] != "ok" or not (abs(r[1][0] - exp) <= 1e-9 and abs(r[1][1] - exp) <= 1e-9 and r[1][2] == (exp == 0)):
            ctx.disagree("C09:dist:polygon2d:" + ("incident" if exp == 0 else "outside"), desc, (exp, exp, exp == 0), r[1:3], replay=[desc])


def cross_kind_stream(ctx, n):
    """a point and a line of the plane (plane of space) whose coordinate vectors are proportional are different objects: the distance
    is |x·x| / (|n| w), not 0 (no equality short-cut across kinds), single and in collections, both argument orders"""
    import geometer as g
    rng = ctx.rng
    for k in range(n):
        dim = rng.choice([2, 3])
        v = [float(rng.randint(-3, 3)) for _ in range(dim)] + [float(rng.choice([1, 2, -1]))]
        if not any(v[:-1]):
            continue
        lam = rng.choice([1.0, 2.0, -0.5])
        P = g.Point(np.array(v))
        H = (g.Line if dim == 2 else g.Plane)(np.array(v) * lam)
        exp = abs(sum(x * x for x in v)) / (np.sqrt(sum(x * x for x in v[:-1])) * abs(v[-1]))
        desc = f"dist between the point {v} and the {'line' if dim == 2 else 'plane'} with coordinates {lam} * {v}"
        ctx.case(desc)
        ctx.count("dist:cross-kind")
        r = call_impl(lambda: (float(g.dist(P, H)), float(g.dist(H, P))))
        if r[0] != "ok" or not (close(r[1][0], exp) and close(r[1][1], exp)):
            ctx.disagree("C09:dist:cross-kind", desc, exp, r[1:3], replay=[desc])


def degenerate_angle_stream(ctx, n):
    """(a) the two-argument form of angle with coincident lines through the origin (a line and its own direction or a point on it,
    two proportional points / directions): the angle is 0 (mod pi), not an error; (b) Polygon.angles[i] is the interior angle AT
    vertices[i] (polygons whose angles all differ)"""
    import geometer as g
    rng = ctx.rng
    for k in range(n):
        if k % 2 == 0:
            d = [float(rng.randint(-4, 4)), float(rng.randint(-4, 4))]
            if not any(d):
                continue
            lam = rng.choice([2.0, -2.0, 0.5, -1.0])
            p, q = g.Point(d[0], d[1]), g.Point(d[0] * lam, d[1] * lam)
            l = g.Line(g.Point(0.0, 0.0), p)
            forms = {"line-direction": lambda: g.angle(l, l.direction), "line-point": lambda: g.angle(l, q),
                     "point-point": lambda: g.angle(p, q), "direction-direction": lambda: g.angle(g.Point(np.array(d + [0.0])), g.Point(np.array([d[0] * lam, d[1] * lam, 0.0])))}
            name = rng.choice(sorted(forms))
            desc = f"angle ({name}) of coincident lines through the origin, direction {d}, factor {lam}"
            ctx.case(desc)
            ctx.count("angle:coincident:" + name)
            r = call_impl(forms[name])
            ok = r[0] == "ok" and np.all(np.isfinite(r[1])) and abs(np.sin(float(np.real(r[1])))) <= 1e-9
            if not ok:
                ctx.disagree("C09:angle:coincident:" + name, desc, "0 (mod pi)", r[1:3], replay=[desc])
        else:
            # a triangle / quadrilateral with pairwise different interior angles
            vs = rng.choice([[(0, 0), (4, 0), (0, 3)], [(0, 0), (5, 0), (4, 3), (0, 1)], [(1, 1), (6, 1), (2, 4)], [(0, 0), (6, 0), (5, 2), (1, 5)]])
            r0 = rng.randrange(len(vs))
            vs = vs[r0:] + vs[:r0]
            if rng.random() < 0.5:
                vs = vs[::-1]
            dx, dy = rng.randint(-3, 3), rng.randint(-3, 3)
            V = [np.array([x + dx, y + dy], dtype=float) for x, y in vs]
            nv = len(V)
            def interior(i):
                u, w = V[i - 1] - V[i], V[(i + 1) % nv] - V[i]
                return float(np.arccos(np.clip(u @ w / (np.linalg.norm(u) * np.linalg.norm(w)), -1, 1)))
            exp = [interior(i) for i in range(nv)]
            dim3 = rng.random() < 0.3
            P = g.Polygon(*[g.Point(v[0], v[1], 2.0) if dim3 else g.Point(v[0], v[1]) for v in V])
            desc = f"Polygon.angles of {[v.tolist() for v in V]}{' in the plane z = 2' if dim3 else ''}"
            ctx.case(desc)
            ctx.count("angles:at-vertex")
            r = call_impl(lambda: [float(np.real(a)) for a in P.angles])
            # the library's angles are oriented and defined modulo pi: compare modulo pi and up to the sign
            ok = r[0] == "ok" and len(r[1]) == nv and all(min(abs(np.sin(a - e)), abs(np.sin(a + e))) <= 1e-8 for a, e in zip(r[1], exp))
            if not ok:
                ctx.disagree("C09:angles:at-vertex", desc, exp, r[1:3], replay=[desc])


def single_vs_collection_angle_stream(ctx, n):
    """angle(single line, LineCollection) in both argument orders where one member of the collection is parallel to the single line
    (angle 0 there), position-wise the single calls and antisymmetric; 3-D angles of a triangle far from the origin (40000 ... 70000)"""
    import geometer as g
    rng = ctx.rng
    for k in range(n):
        a, b = float(rng.randint(1, 3)), float(rng.randint(-3, 3))
        l = g.Line(a, b, float(rng.randint(-4, 4)))
        members = [g.Line(a * 2, b * 2, float(rng.randint(5, 9))),                       # parallel
                   g.Line(float(rng.randint(-3, 3)), 1.0, float(rng.randint(-3, 3))), g.Line(1.0, float(rng.randint(-3, 3)) + 0.5, 2.0)]
        order = [0, 1, 2]
        rng.shuffle(order)
        lc = g.LineCollection([members[i] for i in order])
        desc = f"angle(single line {np.asarray(l.array).tolist()}, collection {[np.asarray(members[i].array).tolist() for i in order]}) — one member parallel"
        ctx.case(desc)
        ctx.count("angle:single-vs-collection")
        singles = [call_impl(lambda m=members[i]: float(np.real(g.angle(l, m)))) for i in order]
        if any(x[0] != "ok" for x in singles):
            continue
        exp = np.array([x[1] for x in singles])
        r1 = call_impl(lambda: np.real(np.asarray(g.angle(l, lc), dtype=complex)))
        r2 = call_impl(lambda: np.real(np.asarray(g.angle(lc, l), dtype=complex)))
        def modpi(u, v):
            d = np.abs(u - v)
            return bool(np.all(np.minimum(d, np.abs(d - np.pi)) <= 1e-7))
        ok = r1[0] == "ok" and r2[0] == "ok" and np.all(np.isfinite(r1[1])) and np.all(np.isfinite(r2[1])) and modpi(r1[1], exp) and modpi(r2[1], -exp)
        if not ok:
            ctx.disagree("C09:angle:single-vs-collection", desc, exp.tolist(), (r1[1:3] if r1[0] != "ok" else r1[1].tolist(), r2[1:3] if r2[0] != "ok" else r2[1].tolist()), replay=[desc])
        # a triangle of space far from the origin
        off = np.array([40000.0, 70000.0, 20000.0]) * rng.choice([1.0, 0.5, -1.0])
        A, B, C = (np.array([float(rng.randint(-4, 4)) for _ in range(3)]) for _ in range(3))
        if np.linalg.norm(np.cross(B - A, C - A)) < 0.5:
            continue
        cosv = float(np.dot(B - A, C - A) / (np.linalg.norm(B - A) * np.linalg.norm(C - A)))
        r3 = call_impl(lambda: float(np.real(g.angle(g.Point(*(A + off)), g.Point(*(B + off)), g.Point(*(C + off))))))
        ctx.count("angle3d:far")
        if r3[0] != "ok" or abs(abs(np.cos(r3[1])) - abs(cosv)) > 1e-5:
            ctx.disagree("C09:angle3d:far-from-origin", f"angle3d {A.tolist()} {B.tolist()} {C.tolist()} translated by {off.tolist()}", np.arccos(cosv), r3[1:3], replay=[desc])


def correspondence(ctx):
    single_vs_collection_angle_stream(ctx, ctx.budget(30, 300))
    degenerate_angle_stream(ctx, ctx.budget(60, 600))
    cross_kind_stream(ctx, ctx.budget(30, 300))
    polygon2d_stream(ctx, ctx.budget(60, 600))
    origin_lines(ctx, ctx.budget(30, 300))
    moved_polygon_stream(ctx, ctx.budget(30, 300))
    dist_stream(ctx, ctx.budget(600, 9000))
    dist_collection_stream(ctx, ctx.budget(60, 800))
    angle_stream(ctx, ctx.budget(200, 3000))
    angle3d_stream(ctx, ctx.budget(100, 1500))


def replay(ctx, rec):
    correspondence(ctx)
