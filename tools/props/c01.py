"""C01 — join and meet return exactly the span / the intersection of their arguments."""
from __future__ import annotations

import itertools

import numpy as np

import jmlib
from geolib import Gen, Obj, call_impl, stack
from proto import ET, proj_close, run_driver

ID = "C01"
LEAN_FILES = ["Geo/Props/C01.lean", "Geo/Props/C01b.lean", "Geo/Props/C01c.lean"]
RULE = ("12 join/meet scenarios (2 pts 2D/3D, 3 pts, line+pt both orders, 2 coplanar 3D lines, 2 lines 2D, 2/3 planes, "
        "line+plane both orders) x lattice / dyadic / Gaussian coordinates, finite and at infinity, single and collections "
        "(1-2 axes, broadcasting); every permutation of the arguments; round trips meet(join(p,q),join(p,r))=p and dual; "
        "non-trivial = non-degenerate configuration; distinct = distinct request line")
ASSUMPTIONS = ["results are compared projectively per collection position (rtol 1e-9); the power-of-two normalisation is an exact scaling"]


def roundtrips(ctx, n):
    """meet(join(p,q), join(p,r)) = p and join(meet(l,m), meet(l,n)) = l, directly on the implementation"""
    import geometer as g
    gen = Gen(ctx.rng)
    for k in range(n):
        dim = 2 if k % 2 == 0 else 3
        if k % 4 < 2:
            p, q, r = gen.point(dim), gen.point(dim), gen.point(dim)
            if k % 12 < 2:
                # complex coordinates whose representatives are far from unit magnitude: every intermediate result is renormalised
                from fractions import Fraction
                s = ctx.rng.choice([Fraction(1, 1000), Fraction(1000), Fraction(1, 1024)])
                p0, q0, r0 = (gen.point(dim, cplx=True) for _ in range(3))
                base = call_impl(lambda: g.meet(g.join(p0.impl(), q0.impl()), g.join(p0.impl(), r0.impl())))
                p, q, r = p0.scaled(s), q0.scaled(s), r0.scaled(s)
                if base[0] == "ok":
                    sc = call_impl(lambda: g.meet(g.join(p.impl(), q.impl()), g.join(p.impl(), r.impl())))
                    ctx.count("roundtrip:scaled-complex")
                    if sc[0] != "ok":
                        ctx.disagree("C01:roundtrip:scaled-representatives", f"rt-meet-join dim={dim} {p0} {q0} {r0} all scaled by {s}",
                                     "the same point as for the unscaled representatives", sc[1:3], replay=None)
                        continue
            def f(p=p, q=q, r=r):
                return g.meet(g.join(p.impl(), q.impl()), g.join(p.impl(), r.impl()))
            desc = f"rt-meet-join dim={dim} {p} {q} {r}"
            exp = p
        else:
            l, m, nn = gen.hyper(dim), gen.hyper(dim), gen.hyper(dim)
            def f(l=l, m=m, nn=nn):
                return g.join(g.meet(l.impl(), m.impl()), g.meet(l.impl(), nn.impl()))
            desc = f"rt-join-meet dim={dim} {l} {m} {nn}"
            exp = l
        res = call_impl(f)
        ctx.case(desc)
        if res[0] == "err":
            ctx.count("roundtrip:" + res[1])      # degenerate draw (dependence) — decided by C02's comparison
            continue
        ctx.count("roundtrip:ok")
        if not proj_close(exp.data, res[1].array):
            ctx.disagree("C01:roundtrip", desc, exp, np.asarray(res[1].array).tolist(), replay=None)


def extreme_magnitude_stream(ctx, n):
    """(a) integer points far from the origin and close to each other (coordinates 2^27 .. 2^30): the int64 contraction is exact, so
    the join is an exact multiple of the exact span; (b) representatives with a huge homogeneous factor (2^340 .. 2^505; the products stay below 2^1024): the
    power-of-two normalisation must bring the result back to ordinary magnitude, not to zero / inf"""
    import geometer as g
    rng = ctx.rng
    for k in range(n):
        if k % 2 == 0:
            base = 2 ** rng.choice([27, 28, 30])
            p = [base + rng.randint(1, 9), base + rng.randint(1, 9), 1]
            q = [base + rng.randint(10, 19), base + rng.randint(10, 29), 1]
            exp = [p[1] * q[2] - p[2] * q[1], p[2] * q[0] - p[0] * q[2], p[0] * q[1] - p[1] * q[0]]
            desc = f"join of integer points {p} {q}"
            r = call_impl(lambda: g.join(g.Point(np.array(p, dtype=np.int64)), g.Point(np.array(q, dtype=np.int64))))
            ok = r[0] == "ok"
            if ok:
                a = np.asarray(r[1].array, dtype=float)
                i = int(np.argmax(np.abs(a)))
                # exact cross-multiplication in Python integers: a ∝ exp with relative error below 1e-13 in every entry
                from fractions import Fraction as _F
                ok = all(abs(_F(float(a[j])) * exp[i] - _F(float(a[i])) * exp[j]) <= _F(1, 10 ** 12) * abs(_F(float(a[i])) * exp[j]) for j in range(3))
            ctx.count("extreme:big-int")
        else:
            e = rng.choice([340, 400, 500, 505])
            p = np.array([float(rng.randint(-4, 4)), float(rng.randint(-4, 4)), 1.0])
            q = np.array([float(rng.randint(-4, 4)), float(rng.randint(5, 9)), 1.0])
            e2 = e
            if k % 4 == 3:
                # the largest entry of the un-normalised result lies in [2^1023, 2^1024): the top of the double range
                p, q, e, e2 = np.array([1.0, 0.0, 1.0]), np.array([0.0, 1.0, 1.0]), 511, 512
            exp = np.cross(p, q)
            desc = f"join of {p.tolist()} and {q.tolist()}, given with the factors 2^{e}, 2^{e2}"
            r = call_impl(lambda: g.join(g.Point(p * 2.0 ** e), g.Point(q * 2.0 ** e2)))
            ok = r[0] == "ok" and np.all(np.isfinite(np.asarray(r[1].array))) and proj_close(ET.of(exp), r[1].array)
            ctx.count("extreme:huge-scale")
        ctx.case(desc)
        if not ok:
            ctx.disagree("C01:extreme:" + ("big-int" if k % 2 == 0 else "huge-scale"), desc, str(exp),
                         r[1:3] if r[0] != "ok" else np.asarray(r[1].array).tolist(), replay=None)


def single_precision_stream(ctx, n):
    """the same lattice coordinates given as float32 / complex64 arrays (all intermediate values are small integers, exact in
    single precision as well): join / meet must return the same projective object as for float64 / complex128"""
    import geometer as g
    from proto import proj_close_nn
    gen = Gen(ctx.rng)
    for k in range(n):
        sc = jmlib.SCENARIOS[k % len(jmlib.SCENARIOS)]
        op, args = jmlib.single_case(gen, sc) if k % 4 else jmlib.collection_case(gen, sc, degen_rate=0.0)
        f = g.join if op == "join" else g.meet
        impl = [a.impl() for a in args]
        base = call_impl(f, *impl)
        if base[0] != "ok":
            continue
        for dtype in (np.float32, np.complex64):
            if dtype is np.float32 and not all(np.isrealobj(np.asarray(x.array)) for x in impl):
                continue
            cast = []
            for x in impl:
                y = x.copy()
                y.array = np.asarray(x.array).astype(dtype)
                cast.append(y)
            desc = f"{op} {sc} with every argument given as {np.dtype(dtype).name}: {[np.asarray(x.array).tolist() for x in impl]}"
            ctx.case(desc)
            ctx.count(f"single-precision:{np.dtype(dtype).name}")
            r = call_impl(f, *cast)
            if r[0] != "ok":
                ctx.disagree(f"C01:single-precision:{np.dtype(dtype).name}:raises", desc, "the object returned for double precision", r[1:3], replay=None)
                continue
            a, b = np.asarray(base[1].array), np.asarray(r[1].array)
            nf = base[1].free_indices
            ok = a.shape == b.shape and type(r[1]) is type(base[1])
            if ok:
                A, B = a.reshape((-1,) + a.shape[nf:]), b.reshape((-1,) + b.shape[nf:])
                ok = all(proj_close_nn(A[i], B[i], rtol=1e-5) for i in range(A.shape[0]))
            if not ok:
                ctx.disagree(f"C01:single-precision:{np.dtype(dtype).name}", desc, a.tolist(), b.tolist(), replay=None)


def correspondence(ctx):
    single_precision_stream(ctx, ctx.budget(72, 720))
    jmlib.l3_shape_stream(ctx, ctx.budget(40, 400), "C01")
    extreme_magnitude_stream(ctx, ctx.budget(40, 400))
    import glob, json, os
    for f in sorted(glob.glob(os.path.join(os.path.dirname(__file__), "..", "..", "corpus", "C01", "*.json"))):
        replay(ctx, json.load(open(f)))
    g = Gen(ctx.rng)
    cases = []
    n = ctx.budget(90, 1200)
    for sc in jmlib.SCENARIOS:
        for k in range(n):
            if k % 3 == 2:
                op, args = jmlib.collection_case(g, sc, degen_rate=0.05, mixed_scale=True)
                cases.append((sc, op, args))
            else:
                op, args = jmlib.single_case(g, sc)
                cases.append((sc, op, args))
                if k % 3 == 1:      # argument order independence: every permutation
                    for perm in list(itertools.permutations(args))[1:]:
                        if [a.kind for a in perm] == [a.kind for a in args] or len(args) == 2:
                            cases.append((sc + ":perm", op, list(perm)))
    if ctx.tier == "thorough":
        # exhaustive small lattice: all pairs of P2 / L2 in {-1,0,1}^3 \ {0}
        vecs = [v for v in itertools.product((-1, 0, 1), repeat=3) if any(v)]
        for a in vecs:
            for b in vecs:
                cases.append(("J_P2P2:lattice", "join", [Obj("P", ET((3,), list(a))), Obj("P", ET((3,), list(b)))]))
                cases.append(("M_L2L2:lattice", "meet", [Obj("L", ET((3,), list(a))), Obj("L", ET((3,), list(b)))]))
        ctx.exhaustive = True
    # collections with 64 and more positions (one and two collection axes) in every scenario
    for i, sc in enumerate(jmlib.SCENARIOS):
        for big in ([(64,), (8, 9)] if ctx.tier == "thorough" else [(64,) if i % 2 else (8, 9)]):
            op, args = jmlib.collection_case(g, sc, degen_rate=0.0, big=big)
            cases.append((sc + ":big", op, args))
    jmlib.check_cases(ctx, cases, "C01")
    roundtrips(ctx, ctx.budget(120, 3000))


def replay(ctx, rec):
    for line in rec.get("ops") or []:
        op, args = jmlib.parse_request(line)
        jmlib.check_cases(ctx, [("replay", op, args)], "C01")
