"""C06 — transformations act as a group on every kind of object."""
from __future__ import annotations

import numpy as np

import trlib
from geolib import Gen, call_impl
from proto import ET, dec_tens, proj_close_nn, run_driver
from trlib import TM, XObj, exact_close_positions, gen_xobj, proj_equal_positions, rand_matrix

ID = "C06"
LEAN_FILES = ["Geo/Props/C06.lean"]
RULE = ("random invertible exact matrices (generic integer, affine, shear, scaled representative; not only isometries) x every "
        "object kind (point, line 2D/3D contravariant and covariant, plane, quadric, dual quadric, segment, polygon, polyhedron; "
        "single and collection) x dims 2,3 x exponents -3..5 x chains of 1-4 applications; compared: t*x with the exact model, "
        "(s*t)*x = s*(t*x), 1*x = x, t^-1*(t*x) = x, t**k = k-fold product, class of the result, cached line/plane of polytopes; "
        "non-trivial = non-identity matrix; distinct = distinct request")
ASSUMPTIONS = ["LAPACK inverse agrees with the exact inverse to 1e-9 on small integer matrices (compared on every sample)"]


def ntensor(x: XObj):
    return x.ncov + x.ncon


def gm_points(poly):
    import geometer as g
    return g.PointCollection(np.asarray(poly.array).reshape(-1, poly.array.shape[-1]))


def apply_stream(ctx, n):
    import geometer as g
    gen = Gen(ctx.rng, gaussian=0)
    rng = ctx.rng
    cases = []
    for k in range(n):
        dim = 2 if k % 2 == 0 else 3
        x = gen_xobj(gen, dim)
        t = TM.of(rand_matrix(rng, dim + 1))
        s = TM.of(rand_matrix(rng, dim + 1))
        if k % 7 == 0 and x.kind in ("P", "L", "E", "Q"):
            m = rng.randint(1, 3)
            t = TM.coll([rand_matrix(rng, dim + 1) for _ in range(m)], (m,))
            if x.nfree > 0:
                x = gen_xobj(gen, dim, kind=x.kind, coll=False)
        if k % 11 == 5:
            # nearly affine map (perspective coefficients 2^-28) acting on far-away points / lines through them
            from fractions import Fraction
            t = TM.of(rand_matrix(rng, dim + 1, kind="tiny-perspective"))
            far = [Fraction(rng.choice([1, -1, 3]) * 2 ** 28) for _ in range(dim)] + [Fraction(1)]
            far[rng.randrange(dim)] = Fraction(rng.randint(-3, 3))
            x = XObj("P", ET((dim + 1,), far), 0, 1, 0)
        cases.append((x, t, s))
    answers = run_driver([f"apply {t.enc()} {x.enc()}" for x, t, s in cases])
    for (x, t, s), ans in zip(cases, answers):
        line = f"apply {t.enc()} {x.enc()} kind={x.kind}"
        ctx.case(line)
        ctx.count(f"apply:{x.kind}:{'coll' if x.nfree and x.kind not in 'SGH' else 'single'}{':tcoll' if t.nfree else ''}")
        X, T, S = x.impl(), t.impl(), s.impl()
        res = call_impl(lambda: T * X)
        a = ans.split(" ")
        if res[0] == "err" or a[0] != "ok":
            if not (res[0] == "err" and a[0] == "err" and a[1] == res[1]):
                ctx.disagree(f"C06:apply:{x.kind}:error", line, ans[:200], res[1:3] if res[0] == "err" else "ok", replay=[line])
            continue
        y = res[1]
        exp = dec_tens(a[1])
        nt = ntensor(x)
        if type(y) is not type(X) and not (t.nfree > 0):
            ctx.disagree(f"C06:apply:{x.kind}:class", line, type(X).__name__, type(y).__name__, replay=[line])
            continue
        if not exact_close_positions(exp, y.array, nt):
            ctx.disagree(f"C06:apply:{x.kind}:value", line, a[1][:300], np.asarray(y.array).tolist(), replay=[line])
            continue
        if t.nfree > 0:
            continue
        chk = [("assoc", lambda: (S * T) * X, lambda: S * (T * X)),
               ("identity", lambda: g.identity(X.dim) * X, lambda: X),
               ("inverse", lambda: T.inverse() * (T * X), lambda: X),
               ("pow-1", lambda: (T ** -1) * (T * X), lambda: X)]
        for name, lhs, rhs in chk:
            l, r = call_impl(lhs), call_impl(rhs)
            if l[0] != "ok" or r[0] != "ok" or not proj_equal_positions(l[1].array, r[1].array, nt) or type(l[1]) is not type(X):
                ctx.disagree(f"C06:{name}:{x.kind}", line, "equal projective objects of the class of x",
                             (l[1].array.tolist() if l[0] == "ok" else l[1:3], r[1].array.tolist() if r[0] == "ok" else r[1:3]), replay=[line])
        if x.kind == "S":
            try:
                ok = y._line == g.join(*y.vertices)
            except Exception:  # noqa: BLE001
                ok = False
            if not ok:
                ctx.disagree("C06:segment-line-cache", line, "join of the transformed vertices", "different _line", replay=[line])
        if x.kind == "G" and X.dim == 3:
            ok = all(bool(np.all(y._plane.contains(v))) for v in y.vertices)
            if not ok:
                ctx.disagree("C06:polygon-plane-cache", line, "plane through the transformed vertices", "different _plane", replay=[line])


def pow_stream(ctx, n):
    import geometer as g
    rng = ctx.rng
    cases = []
    for k in range(n):
        dim = rng.choice([2, 3])
        if k % 5 == 0:
            m = rng.randint(1, 3)
            t = TM.coll([rand_matrix(rng, dim + 1) for _ in range(m)], (m,))
        else:
            t = TM.of(rand_matrix(rng, dim + 1))
        e = rng.randint(-3, 5)
        if k % 12 == 7 and t.nfree == 0 and dim == 2:
            e = rng.choice([9, 10, -9])            # beyond any small-exponent special casing (one einsum with |e| operands)
        cases.append((t, e))
    answers = run_driver([f"pow {t.enc()} {e}" for t, e in cases] + [f"inverse {t.enc()}" for t, e in cases])
    nc = len(cases)
    for i, (t, e) in enumerate(cases):
        line = f"pow {t.enc()} {e}"
        ctx.case(line)
        ctx.count(f"pow:{e}")
        T = t.impl()
        res = call_impl(lambda: T ** e)
        a = answers[i].split(" ")
        if res[0] != "ok" or a[0] != "ok":
            ctx.disagree("C06:pow:error", line, answers[i][:200], res[1:3], replay=[line])
            continue
        if not exact_close_positions(dec_tens(a[1]), res[1].array, 2) or type(res[1]) is not type(T):
            ctx.disagree(f"C06:pow:value:{'neg' if e < 0 else 'zero' if e == 0 else 'pos'}", line, a[1][:300],
                         (type(res[1]).__name__, np.asarray(res[1].array).tolist()), replay=[line])
            continue
        # the exponent as a numpy integer (what indexing an integer array or `range` arithmetic on arrays hands out)
        if i % 3 == 0:
            rn = call_impl(lambda: T ** np.int64(e))
            if rn[0] != "ok" or type(rn[1]) is not type(res[1]) or not np.array_equal(np.asarray(rn[1].array), np.asarray(res[1].array)):
                ctx.disagree("C06:pow:numpy-int-exponent", line + " exponent as numpy.int64", "the same as with a Python int",
                             rn[1:3] if rn[0] != "ok" else np.asarray(rn[1].array).tolist(), replay=[line])
        base = T if e >= 0 else T.inverse()
        acc = g.identity(T.dim) if t.nfree == 0 else g.identity(T.dim, T.shape[:1])
        for _ in range(abs(e)):
            acc = base * acc
        if not proj_equal_positions(acc.array, res[1].array, 2):
            ctx.disagree("C06:pow:vs-product", line, np.asarray(acc.array).tolist(), np.asarray(res[1].array).tolist(), replay=[line])
        inv = call_impl(lambda: T.inverse())
        ai = answers[nc + i].split(" ")
        if inv[0] != "ok" or ai[0] != "ok" or not exact_close_positions(dec_tens(ai[1]), inv[1].array, 2):
            ctx.disagree("C06:inverse:value", line, answers[nc + i][:200], inv[1:3] if inv[0] != "ok" else np.asarray(inv[1].array).tolist(), replay=[line])


def chain_stream(ctx, n):
    gen = Gen(ctx.rng, gaussian=0)
    rng = ctx.rng
    for k in range(n):
        dim = rng.choice([2, 3])
        x = gen_xobj(gen, dim)
        ts = [TM.of(rand_matrix(rng, dim + 1)) for _ in range(rng.randint(1, 4))]
        line = "chain " + " ".join(t.enc() for t in ts) + " " + x.enc()
        ctx.case(line)
        X = x.impl()
        y = X
        prod = None
        for t in ts:
            y = t.impl() * y
            prod = t.impl() if prod is None else t.impl() * prod
        z = prod * X
        ctx.count("chain:%d" % len(ts))
        if not proj_equal_positions(y.array, z.array, ntensor(x)) or type(y) is not type(X):
            ctx.disagree(f"C06:chain:{x.kind}", line, np.asarray(z.array).tolist(), np.asarray(y.array).tolist(), replay=[line])


def identity_and_batches(ctx, n):
    """identity(dim) / t**0 are fresh objects (editing one in place must not change the next one); collections of >= 64 integer or
    float transformations: t.inverse() * (t * x) == x at every position"""
    import geometer as g
    rng = ctx.rng
    for k in range(n):
        dim = rng.choice([2, 3])
        i1 = g.identity(dim)
        i1[0, dim] = 5.0                                # __setitem__ on one's own object is the documented mutator
        t0 = g.Transformation(np.eye(dim + 1) * 2) ** 0
        t0[0, 1] = -3.0
        x = g.Point(*[float(rng.randint(-4, 4)) for _ in range(dim)])
        desc = f"identity({dim}) after editing earlier identity objects in place, x={x}"
        ctx.case(desc)
        ctx.count("identity:fresh")
        r = call_impl(lambda: (g.identity(dim) * x == x, (g.Transformation(np.eye(dim + 1) * 3) ** 0) * x == x, g.identity(dim, [2]) * x == g.PointCollection([x, x])))
        if r[0] != "ok" or not all(bool(v) for v in r[1]):
            ctx.disagree("C06:identity:not-fresh", desc, (True, True, True), r[1:3], replay=[desc])
        size = rng.choice([64, 70])
        dtype = rng.choice([int, float])
        mats = []
        while len(mats) < size:
            m = np.array([[rng.randint(-3, 3) for _ in range(3)] for _ in range(3)])
            if abs(round(np.linalg.det(m))) >= 1:
                mats.append(m)
        arrT = np.array(mats, dtype=dtype)
        if dtype is float:
            # one member given by a small representative (projectively the same map, |det| far below 1e-8): still invertible
            arrT[rng.randrange(size)] *= rng.choice([0.005, 1e-3])
        T = g.TransformationCollection(arrT)
        l = g.Line(float(rng.randint(1, 4)), float(rng.randint(-4, 4)), float(rng.randint(-4, 4)))
        p = g.Point(float(rng.randint(-4, 4)), float(rng.randint(-4, 4)))
        desc = f"{size} transformations ({dtype.__name__}): t.inverse() * (t * x) for a point and a line; first {mats[0].tolist()}"
        ctx.case(desc)
        ctx.count(f"batch-inverse:{dtype.__name__}")
        r = call_impl(lambda: (T.inverse() * (T * p), T.inverse() * (T * l)))
        if r[0] != "ok":
            ctx.disagree(f"C06:batch-inverse:error:{r[1]}", desc, "x at every position", r[1:3], replay=[desc])
            continue
        a, b = np.asarray(r[1][0].array, dtype=float), np.asarray(r[1][1].array, dtype=float)
        if not all(proj_close_nn(a[i], np.asarray(p.array, dtype=float), 1e-8) and proj_close_nn(b[i], np.asarray(l.array, dtype=float), 1e-8) for i in range(size)):
            ctx.disagree(f"C06:batch-inverse:{dtype.__name__}", desc, "x at every position", "differs", replay=[desc])


def collection_on_polytope_stream(ctx, n, prefix="C06"):
    """a TransformationCollection applied to a single segment / polygon / cuboid gives, at position i, the image under the i-th
    transformation (collection axes do not pair with vertex axes); applied to a polytope collection of the same length it acts
    position by position"""
    import geometer as g
    rng = ctx.rng
    for k in range(n):
        dim = 2 if k % 3 else 3
        m = rng.choice([2, 3, 4])
        mats = [rand_matrix(rng, dim + 1) for _ in range(m)]
        ts = [g.Transformation(np.array([[float(x) for x in row] for row in M])) for M in mats]
        tc = g.TransformationCollection(np.stack([np.asarray(t.array) for t in ts]))
        def pt():
            return g.Point(*[float(rng.randint(-3, 3)) for _ in range(dim)])
        kind = rng.choice(["segment", "polygon", "polygon"] if dim == 2 else ["segment", "cuboid", "polygon3"])
        try:
            if kind == "segment":
                a, b = pt(), pt()
                if a == b:
                    continue
                X = g.Segment(a, b)
            elif kind == "polygon":
                nv = rng.choice([3, 4, 5])            # also as many vertices as transformations
                X = g.Polygon(*[g.Point(float(3 * np.cos(2 * np.pi * i / nv) + rng.randint(0, 1)), float(3 * np.sin(2 * np.pi * i / nv))) for i in range(nv)])
            elif kind == "polygon3":
                X = g.Polygon(g.Point(0.0, 0.0, 1.0), g.Point(2.0, 0.0, 1.0), g.Point(2.0, 3.0, 2.0), g.Point(0.0, 3.0, 2.0))
            else:
                X = g.Cuboid(g.Point(0.0, 0.0, 0.0), g.Point(1.0, 0.0, 0.0), g.Point(0.0, 2.0, 0.0), g.Point(0.0, 0.0, 3.0))
        except Exception:  # noqa: BLE001
            continue
        desc = f"TransformationCollection of {m} maps {[np.asarray(t.array).tolist() for t in ts]} * single {kind} {np.asarray(X.array).tolist()}"
        ctx.case(desc)
        ctx.count("collection-on-polytope:" + kind)
        singles = [call_impl(lambda t=t: t * X) for t in ts]
        if any(x[0] != "ok" for x in singles):
            continue
        r = call_impl(lambda: tc * X)
        exp = np.stack([np.asarray(x[1].array, dtype=float) for x in singles])
        ok = r[0] == "ok" and np.asarray(r[1].array).shape == exp.shape
        if ok:
            got = np.asarray(r[1].array, dtype=float).reshape(-1, dim + 1)
            ok = all(proj_equal_positions(e[None], p[None], 1) for e, p in zip(exp.reshape(-1, dim + 1), got))
        if not ok:
            ctx.disagree(f"{prefix}:collection-on-polytope:" + kind, desc, "position i = i-th transformation applied to the polytope",
                         r[1:3] if r[0] != "ok" else np.round(np.asarray(r[1].array, dtype=float), 5).tolist(), replay=[desc])
        # the same transformations against a COLLECTION of m such polytopes (moved copies): position i = i-th map on the i-th polytope
        if kind in ("segment", "polygon", "polygon3"):
            shifts = [g.translation(*[float(j + 1)] * dim) for j in range(m)]
            Xs = [sh * X for sh in shifts]
            coll_cls = g.SegmentCollection if kind == "segment" else g.PolygonCollection
            XC = coll_cls(np.stack([np.asarray(x.array, dtype=float) for x in Xs]))
            singles2 = [call_impl(lambda t=t, x=x: t * x) for t, x in zip(ts, Xs)]
            if all(x[0] == "ok" for x in singles2):
                r2 = call_impl(lambda: tc * XC)
                exp2 = np.stack([np.asarray(x[1].array, dtype=float) for x in singles2])
                ok2 = r2[0] == "ok" and np.asarray(r2[1].array).shape == exp2.shape
                if ok2:
                    got2 = np.asarray(r2[1].array, dtype=float).reshape(-1, dim + 1)
                    ok2 = all(proj_equal_positions(e[None], q[None], 1) for e, q in zip(exp2.reshape(-1, dim + 1), got2))
                ctx.count("collection-on-polytope-collection:" + kind)
                if not ok2:
                    ctx.disagree(f"{prefix}:collection-on-polytope-collection:" + kind, desc + " (and on a collection of its translates)",
                                 "position i = i-th transformation applied to the i-th polytope",
                                 r2[1:3] if r2[0] != "ok" else np.asarray(r2[1].array).shape, replay=[desc])


def correspondence(ctx):
    collection_on_polytope_stream(ctx, ctx.budget(30, 300))
    from props import c07 as _c07
    _c07.axes_stream(ctx, ctx.budget(30, 300), prefix="C06")
    from props import c07
    c07.dual_quadric_stream(ctx, ctx.budget(30, 300), prefix="C06")
    identity_and_batches(ctx, ctx.budget(8, 80))
    apply_stream(ctx, ctx.budget(500, 8000))
    pow_stream(ctx, ctx.budget(200, 3000))
    chain_stream(ctx, ctx.budget(150, 2000))
    # collections of transformations against collections of objects (all shape patterns, incl. different numbers of axes)
    import colllib
    colllib.run(ctx, ctx.budget(250, 3000), prefix="C06", only={"t*point", "t*line", "t*plane", "t*line3", "t*conic", "t*t"})


def replay(ctx, rec):
    correspondence(ctx)
