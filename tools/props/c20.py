"""C20 — the numeric kernels agree with exact linear algebra on every code path."""
from __future__ import annotations

import itertools
from fractions import Fraction

import numpy as np

from geolib import call_impl
from proto import ET, arr_close, dec_bools, dec_tens, run_driver

ID = "C20"
LEAN_FILES = ["Geo/Props/C20.lean"]
RULE = ("det/adjugate/inv: n = 2..5 x batch sizes 1, 2, 63, 64, 65 (both sides of every switch-over threshold) x int / float / complex "
        "entries, singular matrices included, compared with the exact Laplace model (value) and A adj(A) = det(A) I on the implementation; "
        "null_space/orth: exact rank from the model, A Q = 0 / range, orthonormality; roots: polynomials of degree 1-3 with prescribed "
        "rational / Gaussian roots incl. double and triple roots and leading zeros (coefficients from the model's polyFromRoots), compared "
        "as multisets; is_multiple: every axis form, zero vectors, sign patterns; hat_matrix n = 3, 4; non-trivial = non-zero matrix")
ASSUMPTIONS = ["LAPACK det/inv/svd agree with exact arithmetic to rtol 1e-8 on small integer matrices"]


def rand_batch(rng, n, batch, kind):
    ents = []
    for _ in range(batch):
        m = [[rng.randint(-3, 3) for _ in range(n)] for _ in range(n)]
        r = rng.random()
        if r < 0.12 and n >= 2:       # singular: repeated row
            m[-1] = list(m[0])
        elif r < 0.2 and n >= 3:      # singular: combination
            m[-1] = [m[0][j] - 2 * m[1][j] for j in range(n)]
        for row in m:
            for x in row:
                if kind == "complex":
                    ents.append((Fraction(x), Fraction(rng.randint(-2, 2))))
                elif kind == "float":
                    ents.append((Fraction(x) / rng.choice([1, 2, 4]), Fraction(0)))
                else:
                    ents.append((Fraction(x), Fraction(0)))
    shape = (batch, n, n) if batch != 0 else (n, n)
    if batch == 0:
        return rand_batch(rng, n, 1, kind).reshape_single()
    return ET(shape, ents)


def linalg_stream(ctx, quick):
    import geometer.utils as gu
    rng = ctx.rng
    cases = []
    batches = [1, 2, 63, 64, 65]
    for n in (2, 3, 4, 5):
        for b in batches:
            for kind in ("int", "float", "complex"):
                if quick and n == 5 and b > 2 and kind != "int":
                    continue
                et = rand_batch(rng, n, b, kind)
                if b == 1 and rng.random() < 0.5:
                    et = ET((n, n), et.entries)          # a single matrix without batch axis
                cases.append((n, b, kind, et))
    reqs = []
    for n, b, kind, et in cases:
        reqs += [f"det {et.enc()}", f"adjugate {et.enc()}", f"inv {et.enc()}"]
    answers = run_driver(reqs, timeout=1200)
    for k, (n, b, kind, et) in enumerate(cases):
        ad, aa, ai = answers[3 * k:3 * k + 3]
        A = et.numpy()
        if kind == "float":
            A = A.astype(float)
        desc = f"n={n} batch={b} dtype={kind} {et.enc()[:200]}"
        ctx.case(f"linalg n={n} batch={b} {kind} " + et.enc()[:80])
        ctx.count(f"n{n}:b{b}:{kind}")
        d = call_impl(gu.det, A)
        if d[0] != "ok" or not arr_close(dec_tens(ad.split(" ")[1]), d[1], 1e-8):
            ctx.disagree(f"C20:det:n{n}:{'big' if b >= 64 else 'small'}", desc, ad[:200], d[1:3] if d[0] != "ok" else np.asarray(d[1]).tolist()[:5], replay=[desc])
        a = call_impl(gu.adjugate, A)
        if a[0] != "ok" or not arr_close(dec_tens(aa.split(" ")[1]), a[1], 1e-8):
            ctx.disagree(f"C20:adjugate:n{n}:{'big' if b >= 64 else 'small'}:{kind}", desc, aa[:200], a[1:3] if a[0] != "ok" else np.asarray(a[1]).tolist()[:2], replay=[desc])
        elif a[0] == "ok" and d[0] == "ok":
            # A adj(A) = det(A) I on the implementation's own outputs
            lhs = np.matmul(A, a[1])
            rhs = np.asarray(d[1])[..., None, None] * np.eye(n)
            if not np.allclose(lhs, rhs, rtol=1e-8, atol=1e-8 * max(1.0, float(np.max(np.abs(rhs))))):
                ctx.disagree(f"C20:adjugate-identity:n{n}", desc, "A adj(A) = det(A) I", "violated", replay=[desc])
        i = call_impl(gu.inv, A)
        am = ai.split(" ")
        if am[0] == "err":
            # singular somewhere in the batch: the property asks for an error or nothing silently wrong;
            # LAPACK raises LinAlgError for exactly singular integer matrices, the adjugate branch checks d == 0
            if i[0] == "ok" and np.all(np.isfinite(i[1])):
                dets = np.asarray(d[1]) if d[0] == "ok" else None
                ctx.count("inv:singular-not-raised")
                # only for integer input: LAPACK's LU meets an exactly zero pivot there; for float / complex entries a rounded pivot may
                # be tiny instead of zero, and the property does not prescribe the behaviour of inv on singular matrices
                if dets is not None and np.any(dets == 0) and kind == "int":
                    ctx.disagree(f"C20:inv:singular-silent:n{n}", desc, "LinAlgError", "finite 'inverse' returned", replay=[desc])
            continue
        if i[0] != "ok" or not arr_close(dec_tens(am[1]), i[1], 1e-7):
            ctx.disagree(f"C20:inv:n{n}:{'big' if b >= 64 else 'small'}", desc, ai[:200], i[1:3] if i[0] != "ok" else np.asarray(i[1]).tolist()[:2], replay=[desc])


def scaled_batches(ctx, n):
    """regular matrices of small overall scale (determinants far below the absolute tolerance, but exactly invertible) and stacks
    with two batch axes, on both sides of the 64-matrix threshold: det / adjugate / inv against the exact values of the
    unscaled integer matrices (adj(sA) = s^(n-1) adj A, inv(sA) = inv(A) / s)"""
    import geometer.utils as gu
    rng = ctx.rng
    for k in range(n):
        nn = rng.choice([2, 3, 4])
        shape = rng.choice([(64,), (70,), (8, 8), (4, 16), (3, 5), (63,)])
        scale = rng.choice([1.0, 1e-3, 1e-5, 0.5])
        cnt = int(np.prod(shape))
        mats = []
        while len(mats) < cnt:
            m = np.array([[rng.randint(-3, 3) for _ in range(nn)] for _ in range(nn)])
            if abs(round(np.linalg.det(m))) >= 1:
                mats.append(m)
        M = np.array(mats, dtype=float).reshape(shape + (nn, nn))
        A = M * scale
        desc = f"scaled batch n={nn} shape={shape} scale={scale} first={mats[0].tolist()}"
        ctx.case(desc)
        ctx.count(f"scaled:{len(shape)}axes:{'small' if scale < 0.1 else 'unit'}:{'big' if cnt >= 64 else 'small'}")
        exact_inv = np.array([np.linalg.inv(m) for m in mats]).reshape(shape + (nn, nn)) / scale
        if scale == 1.0:
            # the same stack with an INTEGER dtype (determinants and cofactors are integers of modulus > 1): inverse, adjugate and det
            Ai = np.array(mats, dtype=np.int64).reshape(shape + (nn, nn))
            ii = call_impl(gu.inv, Ai)
            ai = call_impl(gu.adjugate, Ai)
            di = call_impl(gu.det, Ai)
            ctx.count("scaled:int-dtype")
            dets = np.array([round(np.linalg.det(m)) for m in mats], dtype=float).reshape(shape)
            ok = ii[0] == "ok" and np.allclose(np.asarray(ii[1], dtype=float), exact_inv, rtol=1e-9, atol=1e-12)
            ok = ok and ai[0] == "ok" and np.allclose(np.asarray(ai[1], dtype=float), exact_inv * dets[..., None, None], rtol=1e-9, atol=1e-9)
            ok = ok and di[0] == "ok" and np.allclose(np.asarray(di[1], dtype=float), dets, rtol=1e-9, atol=1e-9)
            if not ok:
                ctx.disagree(f"C20:int-batch:n{nn}:{'big' if cnt >= 64 else 'small'}", desc + " as int64", "exact inverse / adjugate / determinant",
                             "values differ" if ii[0] == "ok" and ai[0] == "ok" and di[0] == "ok" else (ii[1:3], ai[1:3], di[1:3]), replay=[desc])
        i = call_impl(gu.inv, A)
        if i[0] != "ok" or not np.allclose(i[1], exact_inv, rtol=1e-7, atol=1e-9 / scale):
            ctx.disagree(f"C20:inv:scaled:{len(shape)}axes", desc, "inverse of every (regular) matrix", i[1:3] if i[0] != "ok" else "values differ", replay=[desc])
        a = call_impl(gu.adjugate, A)
        if a[0] == "ok":
            lhs = np.matmul(A, a[1])
            d = np.linalg.det(A)
            rhs = d[..., None, None] * np.eye(nn)
            if not np.allclose(lhs, rhs, rtol=1e-7, atol=1e-9 * scale ** nn):
                ctx.disagree(f"C20:adjugate:scaled:{len(shape)}axes", desc, "A adj(A) = det(A) I at every position", "violated", replay=[desc])
        else:
            ctx.disagree(f"C20:adjugate:scaled:error", desc, "adjugate", a[1:3], replay=[desc])


def svd_stream(ctx, n):
    import geometer.utils as gu
    rng = ctx.rng
    cases = []
    for _ in range(n):
        r, c = rng.randint(1, 4), rng.randint(2, 5)
        rank = rng.randint(1, min(r, c))
        cplx = rng.random() < 0.3
        def num():
            return (Fraction(rng.randint(-3, 3)), Fraction(rng.randint(-2, 2) if cplx else 0))
        base = [[num() for _ in range(c)] for _ in range(rank)]
        rows = []
        for i in range(r):
            if i < rank:
                rows.append(base[i])
            else:
                co = [Fraction(rng.randint(-2, 2)) for _ in range(rank)]
                rows.append([(sum(co[k] * base[k][j][0] for k in range(rank)), sum(co[k] * base[k][j][1] for k in range(rank))) for j in range(c)])
        cases.append(ET((r, c), [x for row in rows for x in row]))
    answers = run_driver([f"rank {et.enc()}" for et in cases])
    for et, ans in zip(cases, answers):
        desc = "nullspace " + et.enc()
        ctx.case(desc)
        rk = int(dec_tens(ans.split(" ")[1]).entries[0][0])
        A = et.numpy()
        ctx.count(f"svd:rank{rk}:{'complex' if et.is_complex else 'real'}")
        ns = call_impl(gu.null_space, A)
        if ns[0] != "ok":
            ctx.disagree("C20:null_space:error", desc, f"rank {rk}", ns[1:3], replay=[desc])
        else:
            Q = np.asarray(ns[1])
            ok = Q.shape == (A.shape[1], A.shape[1] - rk)
            ok = ok and (Q.size == 0 or (np.allclose(A @ Q, 0, atol=1e-9) and np.allclose(Q.conj().T @ Q, np.eye(Q.shape[1]), atol=1e-9)))
            if not ok:
                ctx.disagree(f"C20:null_space:{'complex' if et.is_complex else 'real'}", desc, f"orthonormal basis of the kernel, dim {A.shape[1] - rk}",
                             (Q.shape, float(np.max(np.abs(A @ Q))) if Q.size else 0), replay=[desc])
        # the same with the dimension handed over by the caller (the library itself always does so), dimension 0 included
        nsd = call_impl(gu.null_space, A, A.shape[1] - rk)
        od = call_impl(gu.orth, A, rk)
        okd = nsd[0] == "ok" and np.asarray(nsd[1]).shape == (A.shape[1], A.shape[1] - rk) and \
            (np.asarray(nsd[1]).size == 0 or np.allclose(A @ np.asarray(nsd[1]), 0, atol=1e-9))
        okd = okd and od[0] == "ok" and np.asarray(od[1]).shape == (A.shape[0], rk)
        if not okd:
            ctx.disagree("C20:null_space:explicit-dim", desc + f" dim={A.shape[1] - rk}", f"kernel basis of shape {(A.shape[1], A.shape[1] - rk)}, range basis {(A.shape[0], rk)}",
                         (np.asarray(nsd[1]).shape if nsd[0] == "ok" else nsd[1:3], np.asarray(od[1]).shape if od[0] == "ok" else od[1:3]), replay=[desc])
        o = call_impl(gu.orth, A)
        if o[0] != "ok":
            ctx.disagree("C20:orth:error", desc, f"rank {rk}", o[1:3], replay=[desc])
        else:
            U = np.asarray(o[1])
            ok = U.shape == (A.shape[0], rk) and np.allclose(U.conj().T @ U, np.eye(rk), atol=1e-9)
            # range: projecting A onto span(U) reproduces A
            ok = ok and np.allclose(U @ (U.conj().T @ A), A, atol=1e-9)
            if not ok:
                ctx.disagree("C20:orth", desc, f"orthonormal basis of the range, dim {rk}", U.shape, replay=[desc])


def roots_stream(ctx, n):
    import geometer.utils as gu
    rng = ctx.rng
    cases = []
    for k in range(n):
        deg = rng.choice([1, 2, 2, 3, 3, 3])
        mode = rng.choice(["distinct", "double", "triple", "complex", "gauss"])
        def rr():
            return Fraction(rng.randint(-4, 4), rng.choice([1, 1, 2]))
        if mode == "double" and deg >= 2:
            r0 = rr()
            roots = [(r0, 0), (r0, 0)] + [(rr(), 0) for _ in range(deg - 2)]
        elif mode == "triple" and deg == 3:
            r0 = rr()
            roots = [(r0, 0)] * 3
        elif mode == "complex" and deg >= 2:
            re, im = rr(), Fraction(rng.randint(1, 3))
            roots = [(re, im), (re, -im)] + [(rr(), 0) for _ in range(deg - 2)]
        else:
            roots = [(rr(), 0) for _ in range(deg)]
        if len(roots) == 3 and len(set(roots)) == 1:
            mode = "triple"
        elif len(set(roots)) < len(roots) and mode != "triple":
            mode = "double"
        lead = Fraction(rng.choice([1, 1, 2, -1, 3, Fraction(1, 2)]))
        pad = rng.choice([0, 0, 0, 1]) if deg < 3 else 0          # leading zero coefficients
        cases.append((lead, roots, pad, mode))

    def tok(z):
        def q(x):
            x = Fraction(x)
            return str(x.numerator) if x.denominator == 1 else f"{x.numerator}/{x.denominator}"
        return q(z[0]) if z[1] == 0 else q(z[0]) + "_" + q(z[1])
    answers = run_driver(["polyfromroots " + tok((l, 0)) + " " + " ".join(tok(r) for r in rs) for l, rs, _, _ in cases])
    for (lead, rs, pad, mode), ans in zip(cases, answers):
        coeffs = dec_tens(ans.split(" ")[1])
        p = coeffs.numpy()
        if coeffs.is_complex:
            continue
        p = np.concatenate([np.zeros(pad, dtype=p.dtype), p])
        desc = f"roots p={p.tolist()} expected={[tok(r) for r in rs]}"
        ctx.case(desc)
        ctx.count(f"roots:deg{len(rs)}:{mode}")
        got = call_impl(gu.roots, p)
        exp = sorted([complex(float(a), float(b)) for a, b in rs], key=lambda z: (round(z.real, 6), round(z.imag, 6)))
        ok = got[0] == "ok" and np.all(np.isfinite(got[1]))
        if ok:
            g = sorted([complex(z) for z in np.atleast_1d(got[1])], key=lambda z: (round(z.real, 6), round(z.imag, 6)))
            tol = 1e-5 if mode in ("double", "triple") else 1e-8        # repeated roots are conditioned like sqrt(eps)
            if mode == "triple" and len(rs) == 3:
                # the triple-root branch returns the root once; accepted as "all roots" (as a set)
                ok = len(g) >= 1 and all(abs(z - exp[0]) < tol * max(1, abs(exp[0])) for z in g)
            else:
                ok = len(g) == len(exp) and all(abs(a - b) < tol * max(1, abs(b)) for a, b in zip(g, exp))
        if not ok:
            ctx.disagree(f"C20:roots:deg{len(rs)}:{mode}", desc, exp, got[1:3] if got[0] != "ok" else np.asarray(got[1]).tolist(), replay=[desc])
        elif mode not in ("double", "triple") and len(rs) >= 2:
            # the same polynomial with all coefficients multiplied by a small / large factor has the same roots
            sc = rng.choice([1e-9, 1e-6, 1e6])
            gs = call_impl(gu.roots, p * sc)
            ctx.count("roots:scaled")
            oks = gs[0] == "ok" and len(np.atleast_1d(gs[1])) == len(exp)
            if oks:
                g2 = sorted([complex(z) for z in np.atleast_1d(gs[1])], key=lambda z: (round(z.real, 6), round(z.imag, 6)))
                oks = all(abs(a - b) < 1e-7 * max(1, abs(b)) for a, b in zip(g2, exp))
            if not oks:
                ctx.disagree(f"C20:roots:scaled:deg{len(rs)}", desc + f" coefficients times {sc}", exp, gs[1:3] if gs[0] != "ok" else np.asarray(gs[1]).tolist(), replay=[desc])


def ismultiple_stream(ctx, n):
    import geometer.utils as gu
    rng = ctx.rng
    cases = []
    for k in range(n):
        m = rng.randint(2, 4)
        a = [Fraction(rng.randint(-3, 3)) for _ in range(m)]
        mode = k % 5
        if mode == 0:
            lam = Fraction(rng.choice([2, -1, -3, 5]), rng.choice([1, 2]))
            b = [lam * x for x in a]
        elif mode == 1:
            b = [Fraction(0)] * m
        elif mode == 2:
            a = [Fraction(0)] * m
            b = [Fraction(rng.randint(-3, 3)) for _ in range(m)]
        elif mode == 3:
            b = list(a)
            j = rng.randrange(m)
            b[j] = b[j] + rng.choice([1, -1, 2])
        else:
            b = [Fraction(rng.randint(-3, 3)) for _ in range(m)]
        cases.append((a, b))
    answers = run_driver([f"ismultiple {ET((len(a),), a).enc()} {ET((len(b),), b).enc()}" for a, b in cases])
    for (a, b), ans in zip(cases, answers):
        exp = bool(dec_bools(ans.split(" ")[1]))
        A = np.array([float(x) for x in a])
        B = np.array([float(x) for x in b])
        desc = f"is_multiple {A.tolist()} {B.tolist()}"
        ctx.case(desc)
        ctx.count(f"is_multiple:{exp}")
        forms = [("none", lambda: gu.is_multiple(A, B)), ("axis-1", lambda: gu.is_multiple(A, B, axis=-1)),
                 ("axis0", lambda: gu.is_multiple(A, B, axis=0)), ("tuple", lambda: gu.is_multiple(A, B, axis=(0,))),
                 ("swapped", lambda: gu.is_multiple(B, A)),
                 ("2d-axes", lambda: gu.is_multiple(A.reshape(1, -1), B.reshape(1, -1), axis=(0, 1))),
                 ("batch", lambda: gu.is_multiple(np.stack([A, A]), np.stack([B, B]), axis=-1))]
        for name, f in forms:
            r = call_impl(f)
            if r[0] != "ok" or not bool(np.all(np.asarray(r[1]) == exp)):
                ctx.disagree(f"C20:is_multiple:{name}", desc, exp, r[1:3] if r[0] != "ok" else np.asarray(r[1]).tolist(), replay=[desc])
                break
    # mixed batches: every row is decided on its own (zero rows next to non-zero ones, multiples next to non-multiples)
    for start in range(0, len(cases) - 3, 3):
        group = [c for c in cases[start:start + 3] if len(c[0]) == len(cases[start][0])]
        if len(group) < 2:
            continue
        A = np.array([[float(x) for x in a] for a, b in group])
        B = np.array([[float(x) for x in b] for a, b in group])
        exp = [bool(dec_bools(answers[cases.index(c)].split(" ")[1])) for c in group]
        desc = f"is_multiple batch {A.tolist()} {B.tolist()}"
        ctx.case(desc)
        ctx.count("is_multiple:mixed-batch")
        for name, f in (("axis-1", lambda: gu.is_multiple(A, B, axis=-1)), ("axis-tuple", lambda: gu.is_multiple(A, B, axis=(1,))), ("swapped", lambda: gu.is_multiple(B, A, axis=-1))):
            r = call_impl(f)
            if r[0] != "ok" or np.asarray(r[1]).tolist() != exp:
                ctx.disagree(f"C20:is_multiple:mixed-batch:{name}", desc, exp, r[1:3] if r[0] != "ok" else np.asarray(r[1]).tolist(), replay=[desc])
                break


def ismultiple_axes_stream(ctx, n):
    """is_multiple over several axes given as a tuple / list, leading, trailing or mixed, on arrays whose dimensions all differ:
    one verdict per remaining position, True exactly for (zero or) proportional sub-arrays"""
    import geometer.utils as gu
    rng = ctx.rng
    for k in range(n):
        shape = rng.choice([(3, 4, 5), (2, 3, 4), (4, 2, 3)])
        axes = rng.choice([(0, 1), (1, 0), (-3, -2), [0, 1], (1, 2), (-2, -1), (0, 2), [2, 0]])
        A = np.array([rng.randint(-3, 3) for _ in range(int(np.prod(shape)))], dtype=float).reshape(shape)
        ax = tuple(a % 3 for a in axes)
        rest = [i for i in range(3) if i not in ax][0]
        lam = np.array([rng.choice([2.0, -1.0, 0.5, 3.0]) for _ in range(shape[rest])])
        B = A * lam.reshape([shape[rest] if i == rest else 1 for i in range(3)])
        exp = [True] * shape[rest]
        for j in range(shape[rest]):
            m = rng.random()
            sl = [slice(None)] * 3
            sl[rest] = j
            if m < 0.3 and np.count_nonzero(A[tuple(sl)]) >= 2:
                # spoil one non-zero entry of B at this position (the sub-array has another non-zero entry: no longer a multiple)
                idx = np.argwhere(A[tuple(sl)] != 0)[0]
                full = list(idx)
                full.insert(rest, j)
                B[tuple(full)] += 1.0
                exp[j] = False
            elif m < 0.4:
                B[tuple(sl)] = 0.0                       # the zero array is a multiple of everything
        desc = f"is_multiple shape={shape} axis={axes} A={A.ravel().tolist()} B={B.ravel().tolist()}"
        ctx.case(desc)
        ctx.count("is_multiple:axes")
        r = call_impl(lambda: gu.is_multiple(A, B, axis=axes))
        r2 = call_impl(lambda: gu.is_multiple(B, A, axis=axes))
        if r[0] != "ok" or np.asarray(r[1]).tolist() != exp or r2[0] != "ok" or np.asarray(r2[1]).tolist() != exp:
            ctx.disagree("C20:is_multiple:axes", desc, exp, (r[1:3] if r[0] != "ok" else np.asarray(r[1]).tolist(), r2[1:3] if r2[0] != "ok" else np.asarray(r2[1]).tolist()), replay=[desc])


def svd_stack_stream(ctx, n):
    """orth / null_space without `dim` on stacks of matrices (one or two batch axes, also a single length-1 axis) and on wide
    matrices: per matrix an orthonormal basis of the range / kernel of the right dimension"""
    import geometer.utils as gu
    rng = ctx.rng
    for k in range(n):
        batch = rng.choice([(2,), (1,), (3,), (2, 2), (4,)])
        rows, cols = rng.choice([(3, 3), (4, 4), (5, 3), (2, 3), (1, 4), (2, 4)])
        rank = rng.randint(1, min(rows, cols))
        mats = []
        for _ in range(int(np.prod(batch))):
            while True:
                L = np.array([[float(rng.randint(-3, 3)) for _ in range(rank)] for _ in range(rows)])
                R = np.array([[float(rng.randint(-3, 3)) for _ in range(cols)] for _ in range(rank)])
                M = L @ R
                if np.linalg.matrix_rank(M) == rank:
                    mats.append(M)
                    break
        A = np.stack(mats).reshape(batch + (rows, cols))
        desc = f"orth / null_space of a stack {batch} of {rows}x{cols} matrices of rank {rank}: first {mats[0].tolist()}"
        ctx.case(desc)
        ctx.count("svd:stack")
        r = call_impl(lambda: (gu.orth(A), gu.null_space(A)))
        ok = r[0] == "ok" and np.asarray(r[1][0]).shape == batch + (rows, rank) and np.asarray(r[1][1]).shape == batch + (cols, cols - rank)
        if ok:
            Q = np.asarray(r[1][0]).reshape((len(mats), rows, rank))
            N = np.asarray(r[1][1]).reshape((len(mats), cols, cols - rank))
            for M, q, nn in zip(mats, Q, N):
                ok = ok and np.allclose(q.conj().T @ q, np.eye(rank), atol=1e-9) and np.linalg.matrix_rank(np.hstack([q, M]), tol=1e-8) == rank \
                    and np.allclose(M @ nn, 0, atol=1e-8) and np.allclose(nn.conj().T @ nn, np.eye(cols - rank), atol=1e-9)
        if not ok:
            ctx.disagree("C20:svd:stack", desc, (batch + (rows, rank), batch + (cols, cols - rank)),
                         r[1:3] if r[0] != "ok" else (np.asarray(r[1][0]).shape, np.asarray(r[1][1]).shape), replay=[desc])


def hat_stream(ctx, n):
    import geometer.utils as gu
    rng = ctx.rng
    cases = [[Fraction(rng.randint(-4, 4)) for _ in range(rng.choice([3, 6]))] for _ in range(n)]
    answers = run_driver([f"hat {ET((len(x),), x).enc()}" for x in cases])
    for x, ans in zip(cases, answers):
        X = np.array([float(t) for t in x])
        desc = f"hat_matrix {X.tolist()}"
        ctx.case(desc)
        ctx.count(f"hat:{len(x)}")
        for name, f in (("array", lambda: gu.hat_matrix(X)), ("scalars", lambda: gu.hat_matrix(*X))):
            r = call_impl(f)
            ok = r[0] == "ok" and arr_close(dec_tens(ans.split(" ")[1]), r[1])
            if ok and len(x) == 3:
                v = np.array([rng.randint(-3, 3) for _ in range(3)], dtype=float)
                ok = np.allclose(r[1] @ v, np.cross(v, X))
            if not ok:
                ctx.disagree(f"C20:hat_matrix:{len(x)}", desc, ans[:200], r[1:3] if r[0] != "ok" else np.asarray(r[1]).tolist(), replay=[desc])
                break


def correspondence(ctx):
    svd_stack_stream(ctx, ctx.budget(60, 600))
    ismultiple_axes_stream(ctx, ctx.budget(60, 600))
    linalg_stream(ctx, ctx.tier != "thorough")
    if ctx.tier == "thorough":
        for _ in range(4):
            linalg_stream(ctx, False)
    scaled_batches(ctx, ctx.budget(24, 300))
    svd_stream(ctx, ctx.budget(120, 2000))
    roots_stream(ctx, ctx.budget(250, 4000))
    ismultiple_stream(ctx, ctx.budget(150, 2000))
    hat_stream(ctx, ctx.budget(40, 500))


def replay(ctx, rec):
    correspondence(ctx)
