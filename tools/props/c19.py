"""C19 — tensor arithmetic and index bookkeeping follow the array semantics."""
from __future__ import annotations

import itertools
from fractions import Fraction

import numpy as np

from geolib import Gen, call_impl
from proto import ET, arr_close, dec_natlist, dec_tens, natlist, run_driver

ID = "C19"
LEAN_FILES = ["Geo/Props/C19.lean", "Geo/Props/C19b.lean"]
RULE = ("arithmetic: Tensor (random rank 1-3, variance pattern, collection axes) / Point / PointCollection / Segment / Quadric x "
        "{tensor, point, ndarray, list, python & numpy scalar} x {+, -, reflected -, *, /, unary -} x {operator, numpy ufunc}; points: "
        "finite / at infinity / negative homogeneous scale / collections with mixed scales; indexing: index expressions of up to 3 "
        "components from {int, negative int, slices, None, Ellipsis, list, 1-D/2-D integer ndarray, 1-D/2-D boolean mask} over shapes "
        "(2,3,4) and (2,2) (thorough: exhaustive), compared on value with array[index] and on index types with the NumPy reference "
        "semantics of the model; transpose (incl. cycle notation), tensor_product, expand_dims, copy")
ASSUMPTIONS = ["numpy's own result of array[index] is the value reference; the axis-origin reference (Geo.numpyAxes) is cross-checked against numpy's result shape on every sample"]


def q(x):
    x = Fraction(x)
    return str(x.numerator) if x.denominator == 1 else f"{x.numerator}/{x.denominator}"


# ----------------------------------------------------------------------------------------------- arithmetic

def rand_tensor(rng):
    from geometer.base import Tensor
    tr = rng.randint(1, 3)
    nf = rng.choice([0, 0, 1])
    shape = [rng.choice([2, 3]) for _ in range(nf + tr)]
    cov = sorted(rng.sample(range(tr), rng.randint(0, tr)))
    et = ET(shape, [Fraction(rng.randint(-4, 4), rng.choice([1, 1, 2])) for _ in range(int(np.prod(shape)))])
    return et, cov, tr, Tensor(et.numpy(), covariant=cov, tensor_rank=tr)


def tensor_arith(ctx, n):
    from geometer.base import Tensor
    rng = ctx.rng
    cases = []
    for k in range(n):
        et, cov, tr, T = rand_tensor(rng)
        opname = rng.choice(["add", "sub", "rsub", "radd", "mul", "div", "neg"])
        other_kind = rng.choice(["tensor", "array", "list", "pyscalar", "npscalar", "row", "bigarray"])
        if opname in ("mul", "div"):
            other_kind = rng.choice(["pyscalar", "npscalar", "npscalar0d"])
        if opname == "neg":
            other_kind = "none"
        shape = et.shape
        if other_kind in ("tensor", "array", "list"):
            oet = ET(shape, [Fraction(rng.randint(-4, 4)) for _ in range(int(np.prod(shape)))])
        elif other_kind == "row":
            oet = ET(shape[-1:], [Fraction(rng.randint(-4, 4)) for _ in range(shape[-1])])
        elif other_kind == "bigarray":
            # an array with one more (leading) axis: the result gains a collection axis, the index types shift
            big = (rng.choice([2, 3]),) + tuple(shape)
            oet = ET(big, [Fraction(rng.randint(-4, 4)) for _ in range(int(np.prod(big)))])
        else:
            c = Fraction(rng.choice([2, -1, 3, -4, 5]), rng.choice([1, 2]) if opname != "div" else 1)
            oet = ET((), [c])
        via = rng.choice(["operator", "ufunc"])
        cases.append((et, cov, tr, T, opname, other_kind, oet, via))
    reqs = []
    for et, cov, tr, T, opname, ok, oet, via in cases:
        if opname == "neg":
            reqs.append(f"ewise mul {et.enc()} T:-:-1")
        elif opname == "rsub":
            reqs.append(f"ewise sub {oet.enc()} {et.enc()}")
        else:
            lean_op = {"add": "add", "radd": "add", "sub": "sub", "mul": "mul", "div": "div"}[opname]
            reqs.append(f"ewise {lean_op} {et.enc()} {oet.enc()}")
    answers = run_driver(reqs)
    for (et, cov, tr, T, opname, ok, oet, via), req, ans in zip(cases, reqs, answers):
        o = oet.numpy()
        if ok == "tensor":
            o = Tensor(o, covariant=cov, tensor_rank=tr)
        elif ok == "list":
            o = o.tolist()
        elif ok == "pyscalar":
            o = float(o) if oet.entries[0][0].denominator != 1 else int(o)
        elif ok == "npscalar":
            o = np.float64(o)
        elif ok == "npscalar0d":
            o = np.asarray(o, dtype=float)
        if via == "operator":
            f = {"add": lambda: T + o, "radd": lambda: o + T, "sub": lambda: T - o, "rsub": lambda: o - T, "mul": lambda: T * o,
                 "div": lambda: T / o, "neg": lambda: -T}[opname]
        else:
            f = {"add": lambda: np.add(T, o), "radd": lambda: np.add(o, T), "sub": lambda: np.subtract(T, o), "rsub": lambda: np.subtract(o, T),
                 "mul": lambda: np.multiply(T, o), "div": lambda: np.true_divide(T, o), "neg": lambda: np.negative(T)}[opname]
        desc = f"tensor-arith {opname} other={ok} via={via} cov={cov} rank={tr} {req}"
        if ok == "tensor" and opname in ("radd", "rsub") :
            continue
        if ok == "list" and opname in ("radd", "rsub"):
            continue          # list + Tensor is list concatenation territory (not numpy semantics)
        ctx.case(desc)
        ctx.count(f"arith:{opname}:{ok}:{via}")
        r = call_impl(f)
        exp = dec_tens(ans.split(" ")[1])
        nf = len(et.shape) - tr + (1 if ok == "bigarray" else 0)
        good = r[0] == "ok" and isinstance(r[1], Tensor) and arr_close(exp, r[1].array) \
            and sorted(r[1]._covariant_indices) == [nf + c for c in cov] \
            and sorted(r[1]._contravariant_indices) == [nf + c for c in range(tr) if c not in cov]
        if not good:
            got = r[1:3] if r[0] != "ok" else (type(r[1]).__name__, np.asarray(getattr(r[1], "array", r[1])).tolist(),
                                               sorted(getattr(r[1], "_covariant_indices", [])))
            ctx.disagree(f"C19:arith:tensor:{opname}:{ok}:{via}", desc, ans[:200], got, replay=[desc])


def point_arith(ctx, n):
    import geometer as g
    from geometer.curve import Quadric
    rng = ctx.rng
    gen = Gen(rng, gaussian=0)
    cases = []
    for k in range(n):
        dim = rng.choice([2, 3])
        m = rng.choice([0, 0, 2, 3])
        def pts(m):
            ps = [gen.point(dim, cplx=False) for _ in range(max(m, 1))]
            ps = [p.scaled(rng.choice([1, 1, 2, -1, -3, Fraction(1, 2)])) for p in ps]
            ents = [e for p in ps for e in p.data.entries]
            return ET(((m,) if m else ()) + (dim + 1,), ents)
        a = pts(m)
        opname = rng.choice(["padd", "psub", "pmul", "pdiv", "neg", "sub-array", "add-array", "quadric-sub", "quadric-add"])
        if opname in ("padd", "psub"):
            b = pts(rng.choice([0, m]))
            req = f"{opname} {a.enc()} {b.enc()}"
        elif opname in ("pmul", "pdiv"):
            c = Fraction(rng.choice([2, -1, 3, -2, 4]), 1 if opname == "pdiv" else rng.choice([1, 2]))
            b = c
            req = f"{opname} {a.enc()} {q(c)}"
        elif opname == "neg":
            b = None
            req = f"pmul {a.enc()} -1"
        elif opname in ("sub-array", "add-array"):
            b = ET((dim + 1,), [Fraction(rng.randint(-3, 3)) for _ in range(dim + 1)])
            req = f"ewise {'sub' if opname == 'sub-array' else 'add'} {a.enc()} {b.enc()}"
        else:
            nn = dim + 1
            sym = [[0] * nn for _ in range(nn)]
            for i in range(nn):
                for j in range(i, nn):
                    sym[i][j] = sym[j][i] = rng.randint(-3, 3)
            a = ET((nn, nn), [x for r in sym for x in r])
            b = ET((nn, nn), [Fraction(rng.randint(-3, 3)) for _ in range(nn * nn)])
            req = f"ewise {'sub' if opname == 'quadric-sub' else 'add'} {a.enc()} {b.enc()}"
        cases.append((dim, a, b, opname, req))
    answers = run_driver([c[4] for c in cases])
    for (dim, a, b, opname, req), ans in zip(cases, answers):
        via = rng.choice(["operator", "ufunc"])
        if opname.startswith("quadric"):
            A = Quadric(a.numpy())
        else:
            A = g.Point(a.numpy()) if len(a.shape) == 1 else g.PointCollection(a.numpy())
        if opname in ("padd", "psub"):
            B = g.Point(b.numpy()) if len(b.shape) == 1 else g.PointCollection(b.numpy())
            f = (lambda: A + B) if opname == "padd" else (lambda: A - B)
            if via == "ufunc":
                f = (lambda: np.add(A, B)) if opname == "padd" else (lambda: np.subtract(A, B))
        elif opname in ("pmul", "pdiv"):
            c = float(b) if b.denominator != 1 else int(b)
            # the scalar as a Python number, a numpy scalar or a 0-d array (what np.squeeze / np.asarray / an item of a 0-d result hand out)
            ckind = rng.choice(["py", "py", "np", "0d"])
            c = c if ckind == "py" else np.float64(c) if ckind == "np" else np.array(float(c))
            f = (lambda: A * c) if opname == "pmul" else (lambda: A / c)
            if opname == "pmul" and rng.random() < 0.3 and ckind != "np":
                f = lambda: c * A          # reflected form
            if via == "ufunc":
                f = (lambda: np.multiply(A, c)) if opname == "pmul" else (lambda: np.true_divide(A, c))
            opname_sig = f"{opname}:{ckind}"
        elif opname == "neg":
            f = (lambda: -A) if via == "operator" else (lambda: np.negative(A))
        else:
            B = b.numpy()
            sub = "sub" in opname
            f = (lambda: A - B) if sub else (lambda: A + B)
            if via == "ufunc":
                f = (lambda: np.subtract(A, B)) if sub else (lambda: np.add(A, B))
        desc = f"point-arith {opname} via={via} {req}"
        ctx.case(desc)
        ctx.count(f"parith:{opname}:{via}")
        r = call_impl(f)
        exp = dec_tens(ans.split(" ")[1])
        good = r[0] == "ok" and hasattr(r[1], "array") and arr_close(exp, r[1].array, 1e-12)
        if good and opname in ("pmul", "pdiv", "padd", "psub", "neg"):
            good = type(r[1]) is type(A) or (type(A).__name__, type(r[1]).__name__) in (("Point", "PointCollection"), ("PointCollection", "Point"))
        if not good:
            got = r[1:3] if r[0] != "ok" else (type(r[1]).__name__, np.asarray(getattr(r[1], "array", r[1])).tolist())
            ctx.disagree(f"C19:arith:{opname_sig if opname in ('pmul', 'pdiv') else opname}:{via}", desc, ans[:200], got, replay=[desc])


# ----------------------------------------------------------------------------------------------- indexing

def components(shape_len):
    """concrete index components with their model token; masks/arrays are built per axis length later"""
    return ["i0", "i1", "i-1", "s:", "s::-1", "s0:1", "n", "e", "l", "a1", "a2", "m1", "m2"]


def build(comp, axis_len, next_len, rng):
    """(python object, token) for a component that starts at an axis of length axis_len"""
    if comp == "i0":
        return 0, "i"
    if comp == "i1":
        return 1, "i"
    if comp == "i-1":
        return -1, "i"
    if comp == "s:":
        return slice(None), "s"
    if comp == "s::-1":
        return slice(None, None, -1), "s"
    if comp == "s0:1":
        return slice(0, 1), "s"
    if comp == "n":
        return None, "n"
    if comp == "e":
        return Ellipsis, "e"
    if comp == "l":
        return [0, 1], "l1"
    if comp == "a1":
        return np.array([1, 0, 1]), "a1"
    if comp == "a2":
        return np.array([[0, 1], [1, 0]]), "a2"
    if comp == "m1":
        m = np.zeros(axis_len, dtype=bool)
        m[0] = True
        m[-1] = True
        return m, "m1"
    if comp == "m2":
        m = np.zeros((axis_len, next_len), dtype=bool)
        m[0, 0] = True
        m[-1, -1] = True
        m[0, -1] = True
        return m, "m2"
    raise ValueError(comp)


def index_cases(ctx):
    rng = ctx.rng
    shapes = [((2, 3, 4), [0, 2], [1]), ((2, 3, 4), [1], [0, 2]), ((2, 2), [0], [1]), ((2, 3, 4), [2], [1])]
    comps = components(3)
    out = []
    if ctx.tier == "thorough":
        combos = [c for L in (1, 2, 3) for c in itertools.product(comps, repeat=L)]
        ctx.exhaustive = True
    else:
        combos = [c for L in (1, 2) for c in itertools.product(comps, repeat=L)]
        allc = list(itertools.product(comps, repeat=3))
        rng.shuffle(allc)
        combos += allc[:500]
        # four components with an Ellipsis between / next to advanced indices (an empty Ellipsis still separates them)
        four = [c for c in itertools.product(comps, repeat=4) if c.count("e") == 1 and sum(x[0] in "almi" for x in c) >= 2]
        rng.shuffle(four)
        combos += four[:400]
    for shape, cov, con in shapes if ctx.tier == "thorough" else shapes[:2] + [shapes[2]]:
        for combo in combos:
            # position-dependent construction of masks: track the consumed axis
            objs, toks = [], []
            ax = 0
            ok = True
            consumed = sum(2 if c == "m2" else 1 for c in combo if c not in ("n", "e"))
            if consumed > len(shape) or combo.count("e") > 1:
                continue
            for c in combo:
                if c in ("n",):
                    o, t = build(c, 0, 0, rng)
                elif c == "e":
                    o, t = build(c, 0, 0, rng)
                    ax += len(shape) - consumed            # the axes the ellipsis stands for (possibly none)
                else:
                    if ax >= len(shape):
                        ok = False
                        break
                    o, t = build(c, shape[ax], shape[ax + 1] if ax + 1 < len(shape) else 1, rng)
                    ax += 2 if c == "m2" else 1
                objs.append(o)
                toks.append(t)
            if not ok:
                continue
            out.append((shape, cov, con, tuple(objs) if len(objs) > 1 else objs[0], toks))
    return out


def indexing(ctx):
    from geometer.base import Tensor
    cases = index_cases(ctx)
    reqs = []
    for shape, cov, con, index, toks in cases:
        reqs.append(f"npaxes {len(shape)} " + " ".join(toks))
        reqs.append(f"ixmap {len(shape)} " + " ".join(toks))
    answers = run_driver(reqs)
    for k, (shape, cov, con, index, toks) in enumerate(cases):
        ref, mdl = answers[2 * k], answers[2 * k + 1]
        arr = np.arange(int(np.prod(shape))).reshape(shape)
        desc = f"getitem shape={shape} cov={cov} con={con} index={toks} {repr(index)[:120]}"
        try:
            expected_value = arr[index]
        except (IndexError, ValueError):
            continue                                   # not a valid numpy index
        if isinstance(expected_value, np.generic):
            continue
        T = Tensor(arr, covariant=cov)
        T._covariant_indices, T._contravariant_indices = set(cov), set(con)
        ctx.case(desc)
        r = call_impl(lambda: T[index])
        if not ref.startswith("ok"):
            ctx.count("index:reference-rejects")       # the reference model refuses an index numpy accepts: model gap, not counted
            ctx.notes.append("reference rejects " + desc) if len(ctx.notes) < 5 else None
            continue
        m = [None if x == "N" else int(x) for x in (ref.split(" ")[1].split(".") if ref.split(" ")[1] != "-" else [])]
        # cross-check the reference against numpy's own result shape (full slices keep sizes)
        if len(m) != expected_value.ndim:
            ctx.count("index:reference-ndim-mismatch")
            ctx.notes.append(f"reference ndim mismatch {desc}: {m} vs {expected_value.shape}") if len(ctx.notes) < 8 else None
            continue
        # the hand-written model of `_get_index_mapping` (about which the tables T19_index_table_* are proved) against the method itself
        rm = call_impl(lambda: T._get_index_mapping(index))
        if mdl.startswith("ok"):
            mm = [None if x == "N" else int(x) for x in (mdl.split(" ")[1].split(".") if mdl.split(" ")[1] != "-" else [])]
            if rm[0] != "ok" or list(rm[1]) != mm:
                ctx.disagree("C19:index:model-vs-code", desc, f"model of the code: {mm}", rm[1:3] if rm[0] != "ok" else list(rm[1]), replay=[desc])
                continue
        exp_cov = [i for i, a in enumerate(m) if a in cov]
        exp_con = [i for i, a in enumerate(m) if a in con]
        kinds = "".join(sorted(set(t[0] for t in toks)))
        ctx.count("index:" + kinds)
        if r[0] != "ok":
            ctx.disagree(f"C19:index:{sig_of(toks)}", desc, (exp_cov, exp_con), r[1:3], replay=[desc])
            continue
        res = r[1]
        good = isinstance(res, Tensor) and np.array_equal(res.array, expected_value) and sorted(res._covariant_indices) == exp_cov \
            and sorted(res._contravariant_indices) == exp_con
        if not good:
            ctx.disagree(f"C19:index:{sig_of(toks)}", desc, f"axes {m} cov={exp_cov} con={exp_con} (model of the code: {mdl})",
                         (sorted(res._covariant_indices), sorted(res._contravariant_indices)) if isinstance(res, Tensor) else type(res).__name__, replay=[desc])


def sig_of(toks):
    """classifier of an index expression (root cause classes of the known findings)"""
    has_int = "i" in toks
    has_arr = any(t[0] in "alm" for t in toks)
    if any(t == "m2" for t in toks):
        return "mask-ndim>=2"
    if has_int and has_arr:
        return "int-with-advanced"
    if has_arr and "n" in toks:
        return "newaxis-with-advanced"
    if has_arr:
        return "advanced"
    return "basic"


def structure_ops(ctx, n):
    from geometer.base import Tensor, TensorCollection
    rng = ctx.rng
    cases = []
    for k in range(n):
        et, cov, tr, T = rand_tensor(rng)
        nf = len(et.shape) - tr
        if nf:
            continue
        rank = tr
        if rng.random() < 0.5 or rank < 2:
            perm = list(range(rank))
            rng.shuffle(perm)
        else:
            L = rng.randint(2, rank) if rank > 2 else 2
            perm = rng.sample(range(rank), L)
            if L == rank:
                pass
        cases.append((et, cov, tr, T, perm))
    answers = run_driver([f"transpose {tr} {natlist(perm)} {natlist(cov)} {natlist([c for c in range(tr) if c not in cov])}" for et, cov, tr, T, perm in cases])
    for (et, cov, tr, T, perm), ans in zip(cases, answers):
        desc = f"transpose rank={tr} perm={perm} cov={cov} {et.enc()}"
        ctx.case(desc)
        ctx.count("transpose:" + ("cycle" if len(perm) < tr else "full"))
        a = ans.split(" ")
        full = dec_natlist(a[1])
        r = call_impl(lambda: T.transpose(perm))
        good = r[0] == "ok" and np.array_equal(r[1].array, et.numpy().transpose(full)) and sorted(r[1]._covariant_indices) == dec_natlist(a[2]) \
            and sorted(r[1]._contravariant_indices) == dec_natlist(a[3])
        if not good:
            ctx.disagree("C19:transpose", desc, ans, r[1:3] if r[0] != "ok" else (sorted(r[1]._covariant_indices), sorted(r[1]._contravariant_indices)), replay=[desc])
        # default transpose and copy
        r2 = call_impl(lambda: T.T)
        rev = list(reversed(range(tr)))
        if r2[0] != "ok" or sorted(r2[1]._covariant_indices) != sorted(rev.index(c) for c in cov):
            ctx.disagree("C19:transpose-default", desc, sorted(rev.index(c) for c in cov), r2[1:3], replay=[desc])
        c = T.copy()
        if type(c) is not type(T) or c._covariant_indices != T._covariant_indices or c._contravariant_indices != T._contravariant_indices or not np.array_equal(c.array, T.array):
            ctx.disagree("C19:copy", desc, "same class, array and index types", type(c).__name__, replay=[desc])
    # expand_dims on collections
    for k in range(n // 2):
        tr = rng.randint(1, 2)
        nf = rng.randint(1, 2)
        shape = [rng.choice([2, 3]) for _ in range(nf + tr)]
        cov = sorted(rng.sample(range(tr), rng.randint(0, tr)))
        arr = np.arange(int(np.prod(shape))).reshape(shape)
        C = TensorCollection(arr, covariant=cov, tensor_rank=tr)
        axis = rng.randint(-(nf + tr + 1), nf)
        desc = f"expand_dims shape={shape} rank={tr} cov={cov} axis={axis}"
        ctx.case(desc)
        ctx.count("expand_dims")
        r = call_impl(lambda: C.expand_dims(axis))
        pos = axis if axis >= 0 else axis + len(shape) + 1
        if pos > nf:
            if r[0] == "ok":
                ctx.disagree("C19:expand_dims:accepts-non-free-axis", desc, "ValueError", "ok", replay=[desc])
            continue
        good = r[0] == "ok" and np.array_equal(r[1].array, np.expand_dims(arr, pos)) and sorted(r[1]._covariant_indices) == [nf + 1 + c for c in cov] \
            and r[1].free_indices == nf + 1
        if not good:
            ctx.disagree("C19:expand_dims", desc, (pos, [nf + 1 + c for c in cov]), r[1:3] if r[0] != "ok" else (r[1].array.shape, sorted(r[1]._covariant_indices)), replay=[desc])
        else:
            # the Lean model of the index bookkeeping (Geo.Indexing.expandDimsTypes, about which T19_expand_dims_types is) on the same input
            cov0 = sorted(C._covariant_indices)
            con0 = sorted(C._contravariant_indices)
            ans = run_driver([f"expanddims {pos} {natlist(cov0)} {natlist(con0)}"])[0].split(" ")
            if ans[0] != "ok" or dec_natlist(ans[1]) != sorted(r[1]._covariant_indices) or dec_natlist(ans[2]) != sorted(r[1]._contravariant_indices):
                ctx.disagree("C19:expand_dims:model-vs-code", desc, " ".join(ans), (sorted(r[1]._covariant_indices), sorted(r[1]._contravariant_indices)), replay=[desc])


def tensor_product_stream(ctx, n):
    """tensor_product of two tensors with arbitrary covariant / contravariant index positions (also a contravariant axis stored in
    front of a covariant one): the entries are the outer product, the covariant axes of both factors come first (left factor first),
    then the contravariant ones, and the index types say so"""
    from geometer.base import Tensor
    rng = ctx.rng
    for k in range(n):
        def rt():
            rank = rng.randint(1, 3)
            shape = [rng.choice([2, 3, 4]) for _ in range(rank)]
            cov = sorted(rng.sample(range(rank), rng.randint(0, rank)))
            arr = np.array([rng.randint(-4, 4) for _ in range(int(np.prod(shape)))]).reshape(shape)
            return arr, cov
        (A, ca), (B, cb) = rt(), rt()
        if k % 4 == 0:
            ca = list(range(A.ndim))                    # a left factor without contravariant index
            cb = [B.ndim - 1] if B.ndim > 1 else cb     # ... and a right factor whose contravariant axis comes first
        na = A.ndim
        order = ca + [na + c for c in cb] + [i for i in range(na) if i not in ca] + [na + i for i in range(B.ndim) if i not in cb]
        exp = np.multiply.outer(A, B).transpose(order)
        ncov = len(ca) + len(cb)
        desc = f"tensor_product shapes {A.shape} x {B.shape} covariant {ca} x {cb} entries {A.ravel().tolist()} x {B.ravel().tolist()}"
        ctx.case(desc)
        ctx.count("tensor_product")
        r = call_impl(lambda: Tensor(A, covariant=ca).tensor_product(Tensor(B, covariant=cb)))
        good = r[0] == "ok" and r[1].array.shape == exp.shape and np.array_equal(r[1].array, exp) and sorted(r[1]._covariant_indices) == list(range(ncov)) \
            and sorted(r[1]._contravariant_indices) == list(range(ncov, exp.ndim))
        if not good:
            ctx.disagree("C19:tensor_product", desc, (exp.shape, list(range(ncov))),
                         r[1:3] if r[0] != "ok" else (r[1].array.shape, sorted(r[1]._covariant_indices), bool(r[1].array.shape == exp.shape and np.array_equal(r[1].array, exp))), replay=[desc])


def list_mask_and_operand_stream(ctx, n):
    """(a) boolean masks written as nested Python lists index like the same mask as an ndarray (values, class, index types);
    (b) t - x, t + x for operands that are unsigned-integer arrays, boolean arrays or nested lists: the elementwise array result
    (numpy's own: array - x) with the index types of t, for plain tensors, points and quadrics"""
    import geometer as g
    from geometer.base import Tensor
    rng = ctx.rng
    for k in range(n):
        if k % 2 == 0:
            shape = rng.choice([(2, 2, 3), (2, 3, 3), (3, 2, 2)])
            mask = [[rng.random() < 0.5 for _ in range(shape[1])] for _ in range(shape[0])]
            if not any(any(r) for r in mask):
                mask[0][0] = True
            arr = np.arange(int(np.prod(shape)), dtype=float).reshape(shape) + 1
            kind = rng.choice(["points", "tensor"])
            T = g.PointCollection(arr) if kind == "points" else Tensor(arr, covariant=[2])
            desc = f"{kind} of shape {shape} indexed by the nested-list mask {mask}"
            ctx.case(desc)
            ctx.count("index:list-mask")
            r = call_impl(lambda: (T[mask], T[np.array(mask)]))
            ok = r[0] == "ok"
            if ok:
                a, b = r[1]
                ok = type(a) is type(b) and np.array_equal(np.asarray(a.array), arr[np.array(mask)]) and a.tensor_shape == b.tensor_shape \
                    and a.free_indices == b.free_indices and sorted(a._covariant_indices) == sorted(b._covariant_indices) \
                    and sorted(a._covariant_indices) == [1] and a.free_indices == 1
            if not ok:
                ctx.disagree("C19:index:list-mask", desc, "the same as with the ndarray mask: one collection axis, covariant index 1",
                             r[1:3] if r[0] != "ok" else (type(r[1][0]).__name__, r[1][0].tensor_shape, r[1][0].free_indices, sorted(r[1][0]._covariant_indices)), replay=[desc])
        else:
            kind = rng.choice(["tensor", "point", "quadric"])
            if kind == "quadric":
                base = np.diag([float(rng.randint(1, 3)), float(rng.randint(1, 3)), -float(rng.randint(1, 3))])
                T = g.Conic(base)
                raw = rng.choice([np.eye(3, dtype=np.uint8), np.eye(3, dtype=bool), [[1, 0, 0], [0, 1, 0], [0, 0, 1]], np.full((3, 3), 2, dtype=np.uint16)])
            else:
                base = np.array([float(rng.randint(-3, 3)), float(rng.randint(-3, 3)), 1.0])
                T = g.Point(base) if kind == "point" else Tensor(base)
                raw = rng.choice([np.array([1, 1, 0], dtype=np.uint8), [1, 2, 0], np.array([True, True, False]), np.array([3, 0, 0], dtype=np.uint32)])
            desc = f"{kind} {base.tolist()} minus / plus the operand {np.asarray(raw).tolist()} of type {type(raw).__name__}:{getattr(raw, 'dtype', 'list')}"
            ctx.case(desc)
            ctx.count("arith:unsigned-bool-list:" + kind)
            r = call_impl(lambda: (T - raw, T + raw))
            exp_sub = base - np.asarray(raw).astype(float)
            exp_add = base + np.asarray(raw).astype(float)
            ok = r[0] == "ok" and np.allclose(np.asarray(r[1][0].array, dtype=float), exp_sub) and np.allclose(np.asarray(r[1][1].array, dtype=float), exp_add) \
                and r[1][0].tensor_shape == T.tensor_shape
            if not ok:
                ctx.disagree("C19:arith:unsigned-bool-list:" + kind, desc, (exp_sub.tolist(), exp_add.tolist()),
                             r[1:3] if r[0] != "ok" else (np.asarray(r[1][0].array).tolist(), np.asarray(r[1][1].array).tolist()), replay=[desc])


def transformation_transpose(ctx, n):
    """`.T` / `transpose()` of transformation objects are the transposed tensors (the attribute must not be shadowed)"""
    import geometer as g
    from geometer.base import Tensor
    rng = ctx.rng
    for k in range(n):
        dim = rng.choice([2, 3])
        M = np.array([[float(rng.randint(-3, 3)) for _ in range(dim + 1)] for _ in range(dim + 1)])
        t = g.Transformation(M) if k % 2 == 0 else g.TransformationCollection(np.stack([M, M + 1.0]))
        desc = f"transpose of {type(t).__name__} {M.tolist()}"
        ctx.case(desc)
        ctx.count("transformation-transpose")
        for name, f in ((".T", lambda: t.T), (".transpose()", lambda: t.transpose())):
            r = call_impl(f)
            ok = r[0] == "ok" and isinstance(r[1], Tensor) and np.array_equal(np.asarray(r[1].array), np.swapaxes(np.asarray(t.array), -1, -2))
            if not ok:
                ctx.disagree(f"C19:transformation{name}", desc, "the transposed tensor", r[1:3] if r[0] != "ok" else repr(r[1])[:100], replay=[desc])
                break


def correspondence(ctx):
    list_mask_and_operand_stream(ctx, ctx.budget(80, 800))
    tensor_product_stream(ctx, ctx.budget(120, 1200))
    transformation_transpose(ctx, ctx.budget(20, 100))
    tensor_arith(ctx, ctx.budget(400, 6000))
    point_arith(ctx, ctx.budget(400, 6000))
    indexing(ctx)
    structure_ops(ctx, ctx.budget(150, 2000))


def replay(ctx, rec):
    correspondence(ctx)
