"""C11 — cross ratio: closed-form value, symmetries, projective invariance; harmonic_set."""
from __future__ import annotations

import math
from fractions import Fraction

import numpy as np

from geolib import Gen, Obj, call_impl
from proto import ET, dec_q, proj_close_nn, run_driver
from trlib import TM, rand_matrix

ID = "C11"
LEAN_FILES = ["Geo/Props/C11.lean"]
RULE = ("four points a + x_i b on random lines in 2-D and 3-D (parameters incl. 0 and a point at infinity b itself, base points of any "
        "homogeneous scale), seen from a fifth point, four concurrent 2-D lines (vertex anywhere: on an axis, at the origin, at infinity), "
        "four coaxial planes: value = the closed form of the parameters (S-layer, exact), the five symmetries, invariance under random "
        "projective maps; harmonic_set (2-D, 3-D; lines in every position incl. x = 0, y = 0, through the origin): result collinear with "
        "cr = -1; NotCollinear / NotConcurrent for non-degenerate violations; non-trivial = four distinct parameters")
ASSUMPTIONS = ["compared with rtol 1e-7"]


def fl(v):
    return np.array([float(x) for x in v])


def close(a, b, rtol=1e-7):
    return np.isfinite(a) and abs(a - b) <= rtol * max(1.0, abs(b))


def line_points(rng, dim):
    while True:
        a = [Fraction(rng.randint(-4, 4)) for _ in range(dim)] + [Fraction(rng.choice([1, 1, 2, -1]))]
        b = [Fraction(rng.randint(-4, 4)) for _ in range(dim)] + [Fraction(rng.choice([0, 0, 1, 1, -2]))]
        if np.linalg.matrix_rank(np.array([fl(a), fl(b)])) == 2:
            return a, b


SPECIAL_LINES2 = [([0, 0, 1], [0, 1, 0]), ([0, 0, 1], [1, 0, 0]), ([0, 2, 1], [0, 1, 0]), ([3, 0, 1], [1, 0, 0]), ([0, 0, 1], [1, 1, 0]), ([1, 1, 1], [1, -1, 0])]


def cr_stream(ctx, n):
    import geometer as g
    rng = ctx.rng
    reqs, todo = [], []
    for k in range(n):
        dim = 2 if k % 3 else 3
        if dim == 2 and k % 5 == 0:
            a, b = [[Fraction(x) for x in v] for v in rng.choice(SPECIAL_LINES2)]
        else:
            a, b = line_points(rng, dim)
        xs = rng.sample([Fraction(t) for t in (-3, -2, -1, 0, 1, 2, 3, 4, 5)] + [Fraction(1, 2), Fraction(-3, 2)], 4)
        use_inf = (k % 7 == 3)      # the point b itself (parameter "infinity"): cr = (x2 - x4)/(x2 - x3) ... handled as a limit
        reqs.append("spec.cr " + " ".join(str(x.numerator) if x.denominator == 1 else f"{x.numerator}/{x.denominator}" for x in xs))
        todo.append((dim, a, b, xs))
    answers = run_driver(reqs)
    for (dim, a, b, xs), ans in zip(todo, answers):
        exp = float(dec_q(ans.split(" ")[1])[0])
        pts = [[a[j] + x * b[j] for j in range(dim + 1)] for x in xs]
        scales = [Fraction(rng.choice([1, 1, 2, -1, -3])) for _ in pts]
        P = [g.Point(fl([c * s for c in p])) for p, s in zip(pts, scales)]
        desc = f"crossratio dim={dim} a={[str(x) for x in a]} b={[str(x) for x in b]} xs={[str(x) for x in xs]}"
        ctx.case(desc)
        ctx.count(f"cr:points:{dim}d")
        r = call_impl(lambda: g.crossratio(*P))
        if r[0] != "ok" or not close(float(np.real(r[1])), exp):
            ctx.disagree(f"C11:crossratio:points:{dim}d", desc, exp, r[1:3], replay=[desc])
            continue
        A, B, C, D = P
        cr = float(np.real(r[1]))
        syms = [("badc", lambda: g.crossratio(B, A, D, C), cr), ("cdab", lambda: g.crossratio(C, D, A, B), cr),
                ("abdc", lambda: g.crossratio(A, B, D, C), 1 / cr if cr != 0 else math.inf),
                ("acbd", lambda: g.crossratio(A, C, B, D), 1 - cr)]
        for name, f, want in syms:
            s = call_impl(f)
            if math.isinf(want):
                ok = s[0] == "ok" and not np.isfinite(s[1])
            else:
                ok = s[0] == "ok" and close(float(np.real(s[1])), want)
            if not ok:
                ctx.disagree(f"C11:crossratio:symmetry:{name}", desc, want, s[1:3], replay=[desc])
        # projective invariance
        T = TM.of(rand_matrix(rng, dim + 1)).impl()
        s = call_impl(lambda: g.crossratio(*[T * p for p in P]))
        if s[0] != "ok" or not close(float(np.real(s[1])), cr, 1e-6):
            ctx.disagree(f"C11:crossratio:invariance:{dim}d", desc + f" T={np.asarray(T.array).tolist()}", cr, s[1:3], replay=[desc])
        if dim == 2:
            # seen from a fifth point, and as four concurrent lines through a vertex
            while True:
                o = [Fraction(rng.randint(-4, 4)), Fraction(rng.randint(-4, 4)), Fraction(rng.choice([1, 1, 1, 0]))]
                if abs(np.linalg.det(np.array([fl(o), fl(a), fl(b)]))) > 1e-9:
                    break
            if k_special(rng):
                o = [Fraction(0), Fraction(rng.randint(-3, 3)), Fraction(1)]
                if abs(np.linalg.det(np.array([fl(o), fl(a), fl(b)]))) < 1e-9:
                    continue
            O = g.Point(fl(o))
            s = call_impl(lambda: g.crossratio(*P, O))
            ctx.count("cr:from-point")
            if s[0] != "ok" or not close(float(np.real(s[1])), exp):
                ctx.disagree("C11:crossratio:from_point", desc + f" o={[str(x) for x in o]}", exp, s[1:3], replay=[desc])
            lines = [call_impl(lambda p=p: g.join(O, p)) for p in P]
            if all(l[0] == "ok" for l in lines):
                s = call_impl(lambda: g.crossratio(*[l[1] for l in lines]))
                ctx.count("cr:lines" + (":vertex-at-infinity" if o[2] == 0 else ":vertex-on-y-axis" if o[0] == 0 else ""))
                if s[0] != "ok" or not close(float(np.real(s[1])), exp):
                    ctx.disagree("C11:crossratio:lines", desc + f" vertex={[str(x) for x in o]}", exp, s[1:3], replay=[desc])
        else:
            # four coaxial planes through the points and a common axis that does not meet the line
            while True:
                u = [Fraction(rng.randint(-3, 3)) for _ in range(3)] + [Fraction(1)]
                v = [Fraction(rng.randint(-3, 3)) for _ in range(3)] + [Fraction(rng.choice([1, 0]))]
                if abs(np.linalg.det(np.array([fl(u), fl(v), fl(a), fl(b)]))) > 1e-9:
                    break
            # four concurrent (hence coplanar) lines of space through the points and a vertex off the line
            O3 = g.Point(fl(u))
            lines3 = [call_impl(lambda p=p: g.join(O3, p)) for p in P]
            if all(l[0] == "ok" for l in lines3) and np.linalg.matrix_rank(np.array([fl(u), fl(a), fl(b)])) == 3:
                s = call_impl(lambda: g.crossratio(*[l[1] for l in lines3]))
                ctx.count("cr:lines3d")
                if s[0] != "ok" or not close(float(np.real(s[1])), exp, 1e-6):
                    ctx.disagree("C11:crossratio:lines3d", desc + f" vertex={[str(x) for x in u]}", exp, s[1:3], replay=[desc])
            U, V = g.Point(fl(u)), g.Point(fl(v))
            planes = [call_impl(lambda p=p: g.join(U, V, p)) for p in P]
            if all(pl[0] == "ok" for pl in planes):
                s = call_impl(lambda: g.crossratio(*[pl[1] for pl in planes]))
                ctx.count("cr:planes")
                if s[0] != "ok" or not close(float(np.real(s[1])), exp, 1e-6):
                    ctx.disagree("C11:crossratio:planes", desc + f" axis={[str(x) for x in u]},{[str(x) for x in v]}", exp, s[1:3], replay=[desc])


def k_special(rng):
    return rng.random() < 0.3


def harmonic_stream(ctx, n):
    import geometer as g
    rng = ctx.rng
    for k in range(n):
        dim = 2 if k % 3 else 3
        if dim == 2 and k % 4 == 0:
            a, b = [[Fraction(x) for x in v] for v in rng.choice(SPECIAL_LINES2)]
        else:
            a, b = line_points(rng, dim)
        xs = rng.sample([Fraction(t) for t in (-3, -2, -1, 0, 1, 2, 3, 4)] + [Fraction(1, 2), Fraction(4, 7)], 3)
        pts = [[a[j] + x * b[j] for j in range(dim + 1)] for x in xs]
        if any(p[-1] == 0 for p in pts[:2]) and rng.random() < 0.7:
            continue
        P = [g.Point(fl(p)) for p in pts]
        # the harmonic conjugate has parameter x4 with cr(x1,x2,x3,x4) = -1
        x1, x2, x3 = xs
        # (x1-x3)(x2-x4) = -(x1-x4)(x2-x3)  =>  x4 = ((x1-x3) x2 + (x2-x3) x1) / ((x1-x3) + (x2-x3))
        den = (x1 - x3) + (x2 - x3)
        desc = f"harmonic_set dim={dim} a={[str(x) for x in a]} b={[str(x) for x in b]} xs={[str(x) for x in xs]}"
        ctx.case(desc)
        ctx.count(f"harmonic:{dim}d")
        r = call_impl(lambda: g.harmonic_set(*P))
        if den == 0:
            expv = fl(b)                      # the conjugate is the point with parameter infinity
        else:
            x4 = ((x1 - x3) * x2 + (x2 - x3) * x1) / den
            expv = fl([a[j] + x4 * b[j] for j in range(dim + 1)])
        if r[0] != "ok":
            aux = "aux-point-hits-c" if r[1] == "LinearDependence" else r[1]
            ctx.disagree(f"C11:harmonic_set:error:{aux}", desc, expv.tolist(), r[1:3], replay=[desc])
        elif not proj_close_nn(expv, np.real_if_close(np.asarray(r[1].array)), 1e-7):
            ctx.disagree(f"C11:harmonic_set:value:{dim}d", desc, expv.tolist(), np.asarray(r[1].array).tolist(), replay=[desc])


def errors_stream(ctx, n):
    import geometer as g
    from geometer.exceptions import NotCollinear, NotConcurrent
    rng = ctx.rng
    # four planes of which one (at any position but the first two, which define the axis) does not pass through the common axis
    for k in range(max(4, n // 8)):
        U = np.array([rng.randint(-2, 2) for _ in range(3)] + [1], dtype=float)
        dd = np.array([rng.randint(-2, 2) for _ in range(3)] + [0], dtype=float)
        if not dd[:3].any():
            continue
        V = U + dd
        others = []
        while len(others) < 4:
            w = np.array([rng.randint(-3, 3) for _ in range(3)] + [1], dtype=float)
            if np.linalg.matrix_rank(np.stack([U, V, w])) == 3 and all(np.linalg.matrix_rank(np.stack([U, V, w, o])) == 4 for o in others):
                others.append(w)
        planes = [g.Plane(g.Point(U), g.Point(V), g.Point(w)) for w in others]
        bad = rng.choice([2, 3])
        sh = call_impl(lambda: g.Plane(g.Point(U + np.array([1.0, 0.0, 0.0, 0.0]) + np.array([0.0, 1.0, 1.0, 0.0]) * (k % 2)), g.Point(V + np.array([0.0, 0.0, 1.0, 0.0])), g.Point(others[bad])))
        if sh[0] != "ok":
            continue                   # the three points happened to be collinear: no plane
        shifted = sh[1]
        if bool(shifted.contains(g.Line(g.Point(U), g.Point(V)))):
            continue
        planes[bad] = shifted
        desc = f"four planes, the one at position {bad} misses the axis through {U[:3].tolist()} and {V[:3].tolist()}"
        ctx.case(desc)
        ctx.count("errors:planes")
        r = call_impl(lambda: g.crossratio(*planes))
        if not (r[0] == "err" and r[1] in ("NotConcurrent", "NotCollinear")):
            ctx.disagree("C11:NotConcurrent:planes", desc, "NotConcurrent", r[1:3], replay=[desc])
    for k in range(n):
        dim = rng.choice([2, 3])
        pts = [[rng.randint(-4, 4) for _ in range(dim)] + [1] for _ in range(4)]
        if k % 3 == 0:
            # exactly one point off the common line of the other three (every position, also the last one)
            a = np.array([rng.randint(-3, 3) for _ in range(dim)] + [1])
            d = np.array([rng.randint(-2, 2) for _ in range(dim)] + [0])
            if not d.any():
                continue
            ts = rng.sample([-2, -1, 0, 1, 2, 3], 4)
            pts = [(a + t * d).tolist() for t in ts]
            off = rng.randrange(4)
            e = [0] * (dim + 1)
            e[rng.choice([i for i in range(dim) if True])] = rng.choice([1, -1, 2])
            cand = (np.array(pts[off]) + np.array(e)).tolist()
            pts[off] = cand
        if k % 3 == 1:
            # a repeated point (given by another representative) next to one point off the line: every pair of positions
            a = np.array([rng.randint(-3, 3) for _ in range(dim)] + [1])
            d = np.array([rng.randint(-2, 2) for _ in range(dim)] + [0])
            if not d.any():
                continue
            t1, t2 = rng.sample([-2, -1, 0, 1, 2], 2)
            e = np.zeros(dim + 1)
            e[rng.randrange(dim)] = rng.choice([1, -1, 2])
            if np.linalg.matrix_rank(np.array([a + t1 * d, a + t2 * d, a + t1 * d + e], dtype=float)) < 3:
                continue
            # every assignment of the roles (same point twice, other point of the line, point off the line) to the four positions
            order = rng.sample(range(4), 4)
            rest, rep, offp = [order[0], order[1]], order[2], order[3]
            pts = [None] * 4
            pts[rest[0]], pts[rest[1]] = (a + t1 * d).tolist(), (a + t2 * d).tolist()
            pts[rep] = (rng.choice([2, -1, 3]) * (a + t1 * d)).tolist()       # the same point as pts[rest[0]]
            pts[offp] = (a + t1 * d + e).tolist()
            P = [g.Point(np.array(p, dtype=float)) for p in pts]
            desc = f"not-collinear dim={dim} {pts} (positions {rest[0]} and {rep} are the same point)"
            ctx.case(desc)
            ctx.count("errors:points:repeated")
            r = call_impl(lambda: g.crossratio(*P))
            if not (r[0] == "err" and r[1] == "NotCollinear"):
                # the pair (a, b) is special: the library returns 1 for a == b before any validation (known finding KF-C11-1)
                sig = "C11:NotCollinear:repeated-a-b" if {rest[0], rep} == {0, 1} else f"C11:NotCollinear:{dim}d:repeated-point"
                ctx.disagree(sig, desc, "NotCollinear", r[1:3], replay=[desc])
            continue
        if np.linalg.matrix_rank(np.array(pts, dtype=float)) <= 2 or len({tuple(p) for p in pts}) < 4:
            continue
        P = [g.Point(np.array(p, dtype=float)) for p in pts]
        desc = f"not-collinear dim={dim} {pts}"
        ctx.case(desc)
        ctx.count("errors:points")
        r = call_impl(lambda: g.crossratio(*P))
        if not (r[0] == "err" and r[1] == "NotCollinear"):
            ctx.disagree(f"C11:NotCollinear:{dim}d", desc, "NotCollinear", r[1:3], replay=[desc])
        if dim == 3:
            # four lines of space, three through a common point in a common plane, the fourth one not (off the point or off the plane)
            o = np.array([rng.randint(-3, 3) for _ in range(3)] + [1.0])
            e1, e2 = np.array([1.0, rng.randint(-2, 2), 0, 0]), np.array([0.0, rng.randint(-2, 2), 1, 0])
            dirs = [e1, e2, e1 + e2]
            bad = rng.choice([np.array([0.0, 1.0, rng.randint(2, 4), 0]) if abs(np.linalg.det(np.array([e1[:3], e2[:3], [0, 1, 3]]))) > 0 else e1 * 0,
                              None])
            L3 = [g.Line(g.Point(o), g.Point(o + d)) for d in dirs]
            if bad is None:
                o2 = o + np.array([0.0, 1.0, 0.0, 0.0]) + e1 * 0
                L3.append(g.Line(g.Point(o + e1 * 2), g.Point(o + e1 * 2 + e2)))      # in the plane, not through the vertex
            elif np.any(bad):
                L3.append(g.Line(g.Point(o), g.Point(o + bad)))                        # through the vertex, out of the plane
            if len(L3) == 4 and k % 2 == 0:
                # as collections with one good position (a proper pencil) and the bad one
                good = [g.Line(g.Point(o), g.Point(o + d)) for d in (e1, e2, e1 + e2, e1 - e2)]
                C = [g.LineCollection([a_, b_]) for a_, b_ in zip(good, L3)]
                r = call_impl(lambda: g.crossratio(*C))
                ctx.count("errors:lines3d:collection")
                if not (r[0] == "err" and r[1] == "NotConcurrent"):
                    ctx.disagree("C11:NotConcurrent:3d:collection", f"not-concurrent 3-D line collections vertex={o.tolist()}", "NotConcurrent", r[1:3], replay=[desc])
                # first two lines skew at the second position
                skew = [g.Line(g.Point(o), g.Point(o + e1)), g.Line(g.Point(o + np.array([0.0, 1.0, 0.0, 0.0])), g.Point(o + np.array([0.0, 1.0, 0.0, 0.0]) + e2)), good[2], good[3]]
                if abs(np.linalg.det(np.array([e1[:3], e2[:3], [0.0, 1.0, 0.0]]))) > 1e-9:
                    C2 = [g.LineCollection([a_, b_]) for a_, b_ in zip(good, skew)]
                    r = call_impl(lambda: g.crossratio(*C2))
                    ctx.count("errors:lines3d:collection-skew")
                    if not (r[0] == "err" and r[1] == "NotConcurrent"):
                        ctx.disagree("C11:NotConcurrent:3d:collection-skew", f"first two lines skew at one position, vertex={o.tolist()}", "NotConcurrent", r[1:3], replay=[desc])
            if len(L3) == 4:
                r = call_impl(lambda: g.crossratio(*L3))
                ctx.count("errors:lines3d")
                if not (r[0] == "err" and r[1] == "NotConcurrent"):
                    ctx.disagree("C11:NotConcurrent:3d", f"not-concurrent 3-D lines vertex={o.tolist()}", "NotConcurrent", r[1:3], replay=[desc])
        if dim == 2:
            ls = [[rng.randint(-4, 4) for _ in range(3)] for _ in range(4)]
            if abs(np.linalg.det(np.array(ls[:3], dtype=float))) < 1e-9 or np.linalg.matrix_rank(np.array(ls, dtype=float)) < 3:
                continue
            L = [g.Line(np.array(l, dtype=float)) for l in ls]
            r = call_impl(lambda: g.crossratio(*L))
            ctx.count("errors:lines")
            if not (r[0] == "err" and r[1] == "NotConcurrent"):
                ctx.disagree("C11:NotConcurrent", f"not-concurrent {ls}", "NotConcurrent", r[1:3], replay=[desc])


def witnesses(ctx):
    """minimised past failures (run first)"""
    import geometer as g
    a = np.array([-1., 3, 1]); b = np.array([0., -3, 1]); c = a + 4 / 7 * (b - a)
    desc = "harmonic_set dim=2 a=(-1,3) b=(0,-3) c=a+4/7(b-a)  (auxiliary point o + direction/2 used to coincide with c)"
    ctx.case(desc)
    r = call_impl(lambda: g.harmonic_set(g.Point(a), g.Point(b), g.Point(c)))
    if r[0] != "ok":
        ctx.disagree("C11:harmonic_set:error:aux-point-hits-c", desc, "the harmonic conjugate (3, -21)", r[1:3], replay=[desc])
    elif not proj_close_nn(np.array([3., -21., 1.]), np.asarray(r[1].array), 1e-7):
        ctx.disagree("C11:harmonic_set:value:2d", desc, [3, -21, 1], np.asarray(r[1].array).tolist(), replay=[desc])


def coincident_positions(ctx, n):
    """cross ratio with a == b at SOME positions only (value 1 there), one of the two given as a single point"""
    import geometer as g
    rng = ctx.rng
    for k in range(n):
        a0 = np.array([float(rng.randint(-3, 3)), float(rng.randint(-3, 3)), 1.0])
        d0 = np.array([float(rng.randint(1, 3)), float(rng.randint(-2, 2)), 0.0])
        xs = [0] + rng.sample([1, 2, -1, 3], 2)                # b_j = a + x_j d, the first one coincides with a
        cs, ds = rng.sample([4, 5, -2, 6, 7], 3), rng.sample([8, -3, 9, -4, 10], 3)
        w = [rng.choice([1.0, 2.0, -1.0]) for _ in range(3)]
        A = g.Point(a0 * rng.choice([1.0, -2.0]))
        B = g.PointCollection(np.array([(a0 + x * d0) * wi for x, wi in zip(xs, w)]))
        C = g.PointCollection(np.array([a0 + c * d0 for c in cs]))
        D = g.PointCollection(np.array([a0 + dd * d0 for dd in ds]))
        order = rng.choice(["ab", "ba"])
        desc = f"crossratio single/collection with a coincident position a={a0.tolist()} d={d0.tolist()} x={xs} c={cs} d={ds} order={order}"
        ctx.case(desc)
        ctx.count("cr:coincident-position")
        r = call_impl(lambda: g.crossratio(A, B, C, D) if order == "ab" else g.crossratio(B, A, C, D))
        exp = []
        for x, c, dd in zip(xs, cs, ds):
            x1, x2 = (0, x) if order == "ab" else (x, 0)
            exp.append(1.0 if x == 0 else (x1 - c) * (x2 - dd) / ((x1 - dd) * (x2 - c)))
        if r[0] != "ok" or np.shape(r[1]) != (3,) or not np.allclose(np.asarray(r[1], dtype=complex), exp, rtol=1e-8, atol=1e-10):
            ctx.disagree("C11:crossratio:coincident-position", desc, exp, r[1:3] if r[0] != "ok" else np.asarray(r[1]).tolist(), replay=[desc])


def zoom_invariance(ctx, n):
    """cross ratio of four concurrent lines / coaxial planes (and of the points) under similarity maps whose determinant is far
    from 1 (zoom by 20, by 1/50, in the plane by 500) composed with a rotation and a translation"""
    import geometer as g
    rng = ctx.rng
    for k in range(n):
        xs = rng.sample([0.0, 1.0, 3.0, -2.0, 2.0, -1.0, 4.0], 4)
        exp = (xs[0] - xs[2]) * (xs[1] - xs[3]) / ((xs[0] - xs[3]) * (xs[1] - xs[2]))
        if k % 3:
            a = np.array([rng.randint(-3, 3) + 0.3, rng.randint(-3, 3) + 0.1, rng.randint(-3, 3) + 0.4, 1.0])
            b = np.array([rng.randint(1, 3) + 0.2, rng.randint(-2, 2) - 0.7, rng.randint(-2, 2) + 0.1, 0.0])
            P = [g.Point(a + x * b) for x in xs]
            V, W = g.Point(5.3, 1.1 + rng.randint(0, 3), 2.2), g.Point(0.1, 1.3, 7.7 + rng.randint(0, 3))
            s = rng.choice([20.0, 0.02])
            t = g.rotation(0.3, g.Point(1, 2, 3)) * g.scaling(s, 1.5 * s, 0.7 * s) * g.translation(0.7, -0.2, 0.4)
            objs = {"points": P, "lines": [V.join(p) for p in P], "planes": [g.join(V, W, p) for p in P]}
            desc = f"zoom {s} in space a={a.tolist()} b={b.tolist()} xs={xs}"
        else:
            a = np.array([rng.randint(-3, 3) + 0.3, rng.randint(-3, 3) + 0.1, 1.0])
            b = np.array([rng.randint(1, 3) + 0.2, rng.randint(-2, 2) - 0.7, 0.0])
            P = [g.Point(a + x * b) for x in xs]
            V = g.Point(5.3, 1.1 + rng.randint(0, 3))
            s = rng.choice([500.0, 0.002])
            t = g.rotation(0.3) * g.scaling(s, 1.5 * s) * g.translation(0.7, -0.2)
            objs = {"points": P, "lines": [V.join(p) for p in P]}
            desc = f"zoom {s} in the plane a={a.tolist()} b={b.tolist()} xs={xs}"
        ctx.case(desc)
        ctx.count("zoom-invariance")
        for name, os_ in objs.items():
            base = call_impl(lambda: g.crossratio(*os_))
            if base[0] != "ok" or not close(float(np.real(base[1])), exp, 1e-6):
                continue                                  # not the subject of this stream
            r = call_impl(lambda: g.crossratio(*[t * o for o in os_]))
            if name == "points" and r[0] == "err" and r[1] == "NotCollinear" and s >= 100:
                # image coordinates of several thousand: the collinearity determinant of the rounded images (≈1e-8) is at the
                # library's absolute tolerance — outside "moderate magnitude", not the subject of this stream (lines / planes are)
                ctx.count("zoom-invariance:points-beyond-tolerance")
                continue
            if r[0] != "ok" or not close(float(np.real(r[1])), exp, 1e-6):
                ctx.disagree(f"C11:crossratio:zoom-invariance:{name}", desc, exp, r[1:3], replay=[desc])
                break


def harmonic_at_infinity_stream(ctx, n):
    """harmonic_set when a, b, c (or some of them) are points at infinity: the fourth point is on the line and cr(a,b,c,d) = -1;
    with a, b finite and c their point at infinity it is the midpoint"""
    import geometer as g
    rng = ctx.rng
    for k in range(n):
        dim = rng.choice([2, 3])
        def vec():
            while True:
                v = np.array([float(rng.randint(-3, 3)) for _ in range(dim)])
                if v.any():
                    return v
        u_, w_ = vec(), vec()
        if np.linalg.matrix_rank(np.stack([u_, w_])) < 2:
            continue
        mode = rng.choice(["all-at-infinity", "all-at-infinity", "finite-pair"])
        lam = float(rng.choice([1, 2, -1, 3]))
        if mode == "all-at-infinity":
            a = np.append(u_, 0.0) * rng.choice([1.0, 2.0, -1.0])
            b = np.append(w_, 0.0)
            c = np.append(u_ + lam * w_, 0.0)
            exp = np.append(u_ - lam * w_, 0.0)
        else:
            o = vec()
            a, b, c = np.append(o, 1.0), np.append(o + 2 * u_, 1.0), np.append(u_, 0.0)
            exp = np.append(o + u_, 1.0)
        desc = f"harmonic_set {mode} dim={dim}: a={a.tolist()} b={b.tolist()} c={c.tolist()}"
        ctx.case(desc)
        ctx.count("harmonic:" + mode)
        r = call_impl(lambda: g.harmonic_set(g.Point(a), g.Point(b), g.Point(c)))
        if r[0] != "ok" or not proj_close_nn(exp, np.asarray(r[1].array), 1e-8):
            ctx.disagree("C11:harmonic:" + mode, desc, exp.tolist(), r[1:3] if r[0] != "ok" else np.asarray(r[1].array).tolist(), replay=[desc])


def mixed_pencils_stream(ctx, n):
    """LineCollections holding several pencils of the plane at once: some vertices on the y-axis or at the origin (where a line's base
    point is the vertex itself), some generic — the cross ratio at every position is the closed form of its own parameters"""
    import geometer as g
    rng = ctx.rng
    for k in range(n):
        m = rng.randint(2, 4)
        verts, exp, cols = [], [], [[], [], [], []]
        for i in range(m):
            special = (i % 2 == 0) if k % 2 == 0 else (rng.random() < 0.5)
            v = rng.choice([(0.0, float(rng.randint(-3, 3))), (0.0, 0.0)]) if special else (float(rng.randint(1, 4)), float(rng.randint(-3, 3)))
            verts.append(v)
            # four lines through v with slopes t_j: direction (1, t_j); cross ratio of the slopes
            ts = rng.sample([-2.0, -1.0, -0.5, 0.0, 0.5, 1.0, 2.0, 3.0], 4)
            exp.append(((ts[0] - ts[2]) * (ts[1] - ts[3])) / ((ts[0] - ts[3]) * (ts[1] - ts[2])))
            for j in range(4):
                cols[j].append(np.cross(np.array([v[0], v[1], 1.0]), np.array([v[0] + 1.0, v[1] + ts[j], 1.0])))
        LC = [g.LineCollection(np.array(c)) for c in cols]
        desc = f"cross ratio of four LineCollections: pencils with vertices {verts}"
        ctx.case(desc)
        ctx.count("cr:mixed-pencils")
        r = call_impl(lambda: np.asarray(g.crossratio(*LC), dtype=complex))
        if r[0] != "ok" or r[1].shape != (m,) or not np.allclose(r[1], np.array(exp), rtol=1e-9, atol=1e-12):
            ctx.disagree("C11:crossratio:mixed-pencils", desc, exp, r[1:3] if r[0] != "ok" else r[1].tolist(), replay=[desc])


def clustered_stream(ctx, n):
    """four collinear points whose parameters are clustered (spacing 1e-6): the cross ratio is that of the parameters (2.25 for
    0, 1, 3, -2), for single points and as a position of a collection; cr(a,b,c,d) = 1 - cr(a,c,b,d)"""
    import geometer as g
    rng = ctx.rng
    for k in range(n):
        a0 = np.array([float(rng.randint(-3, 3)), float(rng.randint(-3, 3))])
        d0 = np.array([float(rng.randint(1, 3)), float(rng.randint(-2, 2))])
        eps = rng.choice([1e-6, 2.0 ** -20])
        xs = [0.0, 1.0, 3.0, -2.0]
        exp = ((xs[0] - xs[2]) * (xs[1] - xs[3])) / ((xs[0] - xs[3]) * (xs[1] - xs[2]))
        P = [g.Point(*(a0 + eps * x * d0)) for x in xs]
        wide = [g.Point(*(a0 + x * d0)) for x in xs]
        cols = [g.PointCollection([p, w]) for p, w in zip(P, wide)]
        desc = f"clustered collinear points: base {a0.tolist()} direction {d0.tolist()} spacing {eps}"
        ctx.case(desc)
        ctx.count("cr:clustered")
        r = call_impl(lambda: (float(np.real(g.crossratio(*P))), np.real(np.asarray(g.crossratio(*cols), dtype=complex)),
                               np.real(np.asarray(g.crossratio(cols[0], cols[2], cols[1], cols[3]), dtype=complex))))
        # the brackets of clustered points are differences of nearly equal numbers: the quotient is accurate to about 1e-3 only (conditioning,
        # not a defect); a value that ignores the spacing altogether (1 instead of 2.25) is what this stream is after
        ok = r[0] == "ok" and abs(r[1][0] - exp) <= 2e-2 * abs(exp) and np.allclose(r[1][1], [exp, exp], rtol=2e-2) and np.allclose(r[1][1] + r[1][2], [1.0, 1.0], rtol=2e-2, atol=2e-2)
        if not ok:
            ctx.disagree("C11:crossratio:clustered", desc, exp, r[1:3] if r[0] != "ok" else (r[1][0], r[1][1].tolist(), r[1][2].tolist()), replay=[desc])


def correspondence(ctx):
    clustered_stream(ctx, ctx.budget(20, 200))
    mixed_pencils_stream(ctx, ctx.budget(30, 300))
    harmonic_at_infinity_stream(ctx, ctx.budget(40, 400))
    zoom_invariance(ctx, ctx.budget(30, 300))
    coincident_positions(ctx, ctx.budget(40, 400))
    witnesses(ctx)
    cr_stream(ctx, ctx.budget(300, 5000))
    harmonic_stream(ctx, ctx.budget(300, 5000))
    errors_stream(ctx, ctx.budget(80, 1000))


def replay(ctx, rec):
    correspondence(ctx)
