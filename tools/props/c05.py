"""C05 — tensor diagrams equal the Einstein sum they denote; epsilon/delta are exact."""
from __future__ import annotations

import itertools

import numpy as np

from proto import ET, arr_close, dec_natlist, dec_tens, natlist, run_driver
from geolib import call_impl

ID = "C05"
LEAN_FILES = ["Geo/Props/C05.lean", "Geo/Props/C05b.lean", "Geo/Props/C05c.lean"]
RULE = ("random diagrams: 1-5 node objects, rank 0-3, dims 2-3, 0-2 leading free axes, random variance patterns, "
        "edges between random (also identical / repeated) node objects, occasional add_node and invalid edges; "
        "Tensor.__mul__/__rmul__/__pow__/tensor_product; LeviCivitaTensor(n) n<=5 and KroneckerDelta(n,p) entry by entry, "
        "twice (cache) and in swapped order; a case is non-trivial when it has >=1 edge; distinct = distinct request line")
ASSUMPTIONS = ["numpy.einsum implements the Einstein sum of its subscripts (modelled by Geo.evalEinsum)",
               "list(set) of small non-negative ints iterates in ascending order"]


def gen_diagram(rng, small=False):
    from geometer.base import Tensor
    nn = rng.randint(1, 3 if small else 5)
    free_shape = [rng.choice([2, 3]) for _ in range(rng.choice([0, 0, 1, 1, 2]))]
    if rng.random() < 0.08:
        free_shape = [2, 2, rng.choice([2, 3])]      # three collection axes, the leading two of equal length
    nodes = []
    for i in range(nn):
        tr = rng.choice([0, 1, 1, 2, 2, 2, 3, 3])
        nf = rng.randint(0, len(free_shape)) if rng.random() < 0.5 else 0
        if tr == 0 and nf == 0 and rng.random() < 0.7:
            tr = 1
        dims = [rng.choice([2, 3, 3]) for _ in range(tr)]
        shape = free_shape[len(free_shape) - nf:] + dims
        cov = sorted(rng.sample(range(tr), rng.randint(0, tr)))
        if i % 2 == 1 and tr > 0 and rng.random() < 0.6:      # make partners likely: complement of the previous pattern
            cov = [c for c in range(tr) if c not in nodes[-1][3]][:tr]
        n = int(np.prod(shape, dtype=int))
        et = ET(shape, [rng.randint(-3, 3) for _ in range(n)])
        nodes.append((i + 1, nf, tr, cov, et))
    ops = []
    ne = rng.randint(1, 3 if small else 6)
    # mostly valid edges: track the unused covariant / contravariant axes like the diagram does
    unused = {i: ([nf + c for c in cov], [nf + c for c in range(tr) if c not in cov]) for (i, nf, tr, cov, et) in nodes}
    shapes = {i: et.shape for (i, nf, tr, cov, et) in nodes}
    for _ in range(ne):
        r = rng.random()
        if r < 0.06:
            ops.append(("+", rng.choice(nodes)[0]))
            continue
        cands = [(a, b) for a in unused for b in unused if unused[a][0] and unused[b][1]
                 and shapes[a][unused[a][0][0]] == shapes[b][unused[b][1][0]]]
        if cands and r < 0.85:
            same = [c for c in cands if ops and ops[-1][0] == ">" and c == (ops[-1][1], ops[-1][2])]
            a, b = rng.choice(same) if same and rng.random() < 0.4 else rng.choice(cands)
            unused[a][0].pop(0)
            unused[b][1].pop(0)
        elif not cands and ops and r < 0.9:
            break
        else:
            a, b = rng.choice(nodes)[0], rng.choice(nodes)[0]     # possibly invalid edge
            if unused[a][0] and unused[b][1]:
                unused[a][0].pop(0)
                unused[b][1].pop(0)
        ops.append((">", a, b))
    return nodes, ops


def run_impl_diagram(nodes, ops):
    from geometer.base import Tensor, TensorDiagram
    from geometer.exceptions import TensorComputationError
    objs = {}
    for (i, nf, tr, cov, et) in nodes:
        objs[i] = Tensor(et.numpy(), covariant=cov, tensor_rank=tr)
    d = TensorDiagram()
    for step, op in enumerate(ops):
        try:
            if op[0] == "+":
                d.add_node(objs[op[1]])
            else:
                d.add_edge(objs[op[1]], objs[op[2]])
        except TensorComputationError as e:
            kind = "noIndicesLeft" if "no indices are left" in str(e) else ("dimMismatch" if "inconsistent" in str(e) else "other")
            return ("err", kind, step)
    try:
        r = d.calculate()
    except Exception as e:      # einsum refusing the operands
        return ("exc", type(e).__name__, str(e)[:80])
    return ("ok", r.array, r.free_indices, r.tensor_shape[0], sorted(r._covariant_indices), sorted(r._contravariant_indices))


def enc_diagram(nodes, ops):
    toks = ["diagram", str(len(nodes))]
    for (i, nf, tr, cov, et) in nodes:
        covabs = [nf + c for c in cov]
        conabs = [nf + c for c in range(tr) if c not in cov]
        toks.append(f"{i}|{natlist(covabs)}|{natlist(conabs)}|{et.enc()}")
    for op in ops:
        toks.append(f"+{op[1]}" if op[0] == "+" else f"{op[1]}>{op[2]}")
    return " ".join(toks)


def compare_diagram(ctx, line, impl, ans, sig="diagram"):
    a = ans.split(" ")
    if impl[0] == "err":
        if not (a[0] == "err" and a[1] == impl[1] and int(a[2]) == impl[2]):
            ctx.disagree(f"C05:{sig}:error", line, ans, impl[:3], replay=[line])
        ctx.count("err:" + impl[1])
        return
    if impl[0] == "exc":
        ctx.count("einsum-exc")           # free axes that do not broadcast: outside the modelled domain
        return
    if a[0] != "ok":
        ctx.disagree(f"C05:{sig}:error", line, ans, "ok (no error raised)", replay=[line])
        return
    exp = dec_tens(a[1])
    nfree, ncov = int(a[2]), int(a[3])
    _, arr, ifree, icov, covl, conl = impl
    rank = len(exp.shape)
    good = arr_close(exp, arr) and ifree == nfree and icov == ncov and covl == list(range(nfree, nfree + ncov)) \
        and conl == list(range(nfree + ncov, rank))
    if not good:
        ctx.disagree(f"C05:{sig}:value" if ifree == nfree and icov == ncov else f"C05:{sig}:types", line,
                     f"{a[1]} free={nfree} cov={ncov}", f"{np.asarray(arr).tolist()} free={ifree} cov={icov}", replay=[line])
    ctx.count("ok:rank%d" % rank)


def diagrams(ctx, n):
    cases = []
    for k in range(n):
        nodes, ops = gen_diagram(ctx.rng, small=(k % 5 == 0))
        cases.append((nodes, ops, enc_diagram(nodes, ops)))
    if ctx.tier == "thorough":
        # every edge sequence of length <= 3 over a pool of three node objects (exhaustive)
        rng = ctx.rng
        pool = [(1, 0, 2, [0], ET((3, 3), [rng.randint(-2, 2) for _ in range(9)])),
                (2, 0, 2, [], ET((3, 3), [rng.randint(-2, 2) for _ in range(9)])),
                (3, 1, 1, [0], ET((2, 3), [rng.randint(-2, 2) for _ in range(6)]))]
        pairs = [(a, b) for a in (1, 2, 3) for b in (1, 2, 3)]
        for L in (1, 2, 3):
            for seq in itertools.product(pairs, repeat=L):
                ops = [(">", a, b) for a, b in seq]
                cases.append((pool, ops, enc_diagram(pool, ops)))
        ctx.exhaustive = True
    answers = run_driver([c[2] for c in cases])
    for (nodes, ops, line), ans in zip(cases, answers):
        impl = run_impl_diagram(nodes, ops)
        ctx.case(line, nontrivial=any(o[0] == ">" for o in ops))
        compare_diagram(ctx, line, impl, ans)


def tensor_ops(ctx, n):
    """Tensor.__mul__/__rmul__/__pow__/tensor_product expressed as the diagrams they build"""
    from geometer.base import Tensor
    rng = ctx.rng
    cases = []
    for _ in range(n):
        kind = rng.choice(["mul", "rmul", "pow", "tprod"])
        def rt(maxr=2, need=None):
            tr = rng.randint(1, maxr)
            shape = [rng.choice([3, 3, 2]) for _ in range(tr)]
            cov = sorted(rng.sample(range(tr), rng.randint(0, tr)))
            if need == "cov" and not cov and rng.random() < 0.85:
                cov = [rng.randrange(tr)]
            if need == "con" and len(cov) == tr and rng.random() < 0.85:
                cov = cov[1:]
            return (tr, cov, ET(shape, [rng.randint(-3, 3) for _ in range(int(np.prod(shape)))]))
        if kind == "pow":
            tr, cov, et = 2, [0], ET((3, 3), [rng.randint(-2, 2) for _ in range(9)])
            if rng.random() < 0.3:
                cov = rng.choice([[1], [0, 1], []])
            k = rng.randint(2, 4)
            if rng.random() < 0.35:
                # tensors of type (1,2) / (2,1): the chain pairs the first unused covariant index of each copy with the first unused
                # contravariant index of the previous one; the order of the left-over indices shows any regrouping of the chain
                tr = 3
                cov = sorted(rng.sample(range(3), rng.choice([1, 2])))
                et = ET((2, 2, 2), [rng.randint(-2, 2) for _ in range(8)])
                k = rng.choice([3, 3, 4])
            t = Tensor(et.numpy(), covariant=cov)
            # __pow__: cur = prev.copy(); add_edge(cur, prev)  -- k distinct objects with the same data
            nodes = [(i + 1, 0, tr, cov, et) for i in range(k)]
            ops = [(">", i + 2, i + 1) for i in range(k - 1)]
            def impl_call(t=t, k=k):
                return t ** k
        else:
            ta, tb = (rt(need="con"), rt(need="cov")) if kind == "mul" else (rt(need="cov"), rt())
            a = Tensor(ta[2].numpy(), covariant=ta[1])
            b = Tensor(tb[2].numpy(), covariant=tb[1])
            nodes = [(1, 0) + ta, (2, 0) + tb]
            if kind == "mul":       # a * b = TensorDiagram((b, a))
                ops = [(">", 2, 1)]
                impl_call = lambda a=a, b=b: a * b
            elif kind == "rmul":    # array * a -> a.__rmul__(array) = TensorDiagram((a, Tensor(array)))
                nodes = [(1, 0) + ta, (2, 0, tb[0], list(range(tb[0])), tb[2])]
                ops = [(">", 1, 2)]
                impl_call = lambda a=a, tb=tb: a.__rmul__(tb[2].numpy())
            else:                   # tensor_product = diagram without edges, covariant axes first
                ops = [("+", 1), ("+", 2)]
                impl_call = lambda a=a, b=b: a.tensor_product(b)
        cases.append((kind, nodes, ops, enc_diagram(nodes, ops), impl_call))
    answers = run_driver([c[3] for c in cases])
    from geometer.exceptions import TensorComputationError
    for (kind, nodes, ops, line, impl_call), ans in zip(cases, answers):
        ctx.case(kind + " " + line)
        try:
            r = impl_call()
            impl = ("ok", r.array, r.free_indices, r.tensor_shape[0], sorted(r._covariant_indices), sorted(r._contravariant_indices))
        except TensorComputationError as e:
            msg = str(e)
            impl = ("err", "noIndicesLeft" if "no indices are left" in msg else "dimMismatch", None)
            a = ans.split(" ")
            if not (a[0] == "err" and a[1] == impl[1]):
                ctx.disagree(f"C05:{kind}:error", line, ans, impl, replay=[line])
            ctx.count(f"{kind}:err")
            continue
        compare_diagram(ctx, kind + " " + line, impl, ans, sig=kind)
        ctx.count(kind)


def eps_delta(ctx, prefix="C05"):
    from geometer.base import KroneckerDelta, LeviCivitaTensor
    reqs = [("eps", n) for n in range(1, 7)]          # size 6: the product of differences no longer fits into 8 bits
    dl = [(n, p) for n in range(1, 5) for p in range(1, n + 1)] + [(2, 3), (3, 4)]
    ctx.rng.shuffle(dl)
    reqs += [("delta", n, p) for n, p in dl]
    if ctx.tier == "thorough":
        reqs.append(("delta", 5, 5))
    # ask everything twice and in a different order (caches), and after arithmetic on a result
    order = reqs + list(reversed(reqs))
    answers = dict(zip([" ".join(map(str, r)) for r in reqs], run_driver([" ".join(map(str, r)) for r in reqs])))
    for r in order:
        line = " ".join(map(str, r))
        exp = dec_tens(answers[line].split(" ")[1])
        for cov in ([True, False] if r[0] == "eps" else [None]):
            t = LeviCivitaTensor(r[1], cov) if r[0] == "eps" else KroneckerDelta(r[1], r[2])
            ctx.case(line + f" cov={cov}")
            ok = arr_close(exp, t.array, rtol=0)
            if r[0] == "eps":
                n = r[1]
                ok = ok and t.tensor_shape == ((n, 0) if cov else (0, n))
            else:
                ok = ok and t.tensor_shape == (r[2], r[2])
            if not ok:
                ctx.disagree(f"{prefix}:{r[0]}:entries", line, exp, (t.array.shape, t.tensor_shape), replay=[line])
            # use the tensor in arithmetic; the cached array must not change (checked by the next round)
            _ = (t * 1).array + 1
            ctx.count(r[0])


def refused_edge_stream(ctx, n):
    """an edge that is refused (mismatching dimensions) is not part of the diagram: evaluating afterwards — directly, or after
    further valid edges — gives what the same diagram gives without the refused call"""
    from geometer.base import Tensor, TensorDiagram
    from geometer.exceptions import TensorComputationError
    rng = ctx.rng
    for k in range(n):
        da, db = rng.sample([2, 3, 4], 2)
        A = Tensor(np.array([rng.randint(-3, 3) for _ in range(da * da)]).reshape(da, da), covariant=[0])      # (1,1), dimension da
        B = Tensor(np.array([rng.randint(-3, 3) for _ in range(db)]), covariant=False)                       # contravariant vector, dimension db
        C = Tensor(np.array([rng.randint(-3, 3) for _ in range(da)]), covariant=False)                       # contravariant vector, dimension da
        follow = rng.random() < 0.5
        desc = f"refused edge: A {A.array.tolist()} (1,1) dim {da}; B {B.array.tolist()} dim {db}; then {'edge (A, C), C=' + str(C.array.tolist()) if follow else 'nothing'}"
        ctx.case(desc, nontrivial=True)
        ctx.count("refused-edge")
        def with_refusal():
            d = TensorDiagram()
            d.add_node(A); d.add_node(B)
            try:
                d.add_edge(A, B)
                return "no error"
            except TensorComputationError:
                pass
            if follow:
                d.add_edge(A, C)
            return d.calculate()
        def without():
            d = TensorDiagram()
            d.add_node(A); d.add_node(B)
            if follow:
                d.add_edge(A, C)
            return d.calculate()
        r, e = call_impl(with_refusal), call_impl(without)
        ok = r[0] == "ok" and e[0] == "ok" and not isinstance(r[1], str) and r[1].array.shape == e[1].array.shape and np.array_equal(r[1].array, e[1].array) \
            and r[1].tensor_shape == e[1].tensor_shape
        if not ok:
            ctx.disagree("C05:refused-edge", desc, (e[1].array.tolist(), e[1].tensor_shape) if e[0] == "ok" else e[1:3],
                         (r[1] if isinstance(r[1], str) else (r[1].array.tolist(), r[1].tensor_shape)) if r[0] == "ok" else r[1:3], replay=[desc])


def loop_edges(ctx, n):
    """an edge whose two ends are the same node object (a trace): the contraction is the same whether the node has been added
    before or is added by this very edge; compared with numpy's own einsum on the node's array"""
    from geometer.base import Tensor, TensorDiagram
    rng = ctx.rng
    for k in range(n):
        dim = rng.choice([2, 3])
        extra = rng.choice([0, 1])                       # (1,1)- or (2,1)-tensor
        shape = (dim,) * (2 + extra)
        arr = np.array([rng.randint(-3, 3) for _ in range(dim ** (2 + extra))], dtype=float).reshape(shape)
        cov = [0] if extra == 0 else rng.choice([[0], [0, 1]])
        desc = f"loop edge on a tensor of shape {shape} covariant={cov} entries={arr.ravel().tolist()}"
        ctx.case(desc, nontrivial=True)
        ctx.count("loop-edge")
        def fresh():
            M = Tensor(arr, covariant=cov)
            return TensorDiagram((M, M)).calculate()
        def registered():
            M = Tensor(arr, covariant=cov)
            d = TensorDiagram()
            d.add_node(M)
            d.add_edge(M, M)
            return d.calculate()
        a, b = call_impl(fresh), call_impl(registered)
        # the first covariant index is contracted with the first contravariant one
        first_con = [i for i in range(len(shape)) if i not in cov][0]
        exp = np.trace(arr, axis1=cov[0], axis2=first_con)
        for name, r in (("fresh-node", a), ("registered-node", b)):
            if r[0] != "ok" or np.shape(r[1].array) != np.shape(exp) or not np.allclose(r[1].array, exp):
                ctx.disagree(f"C05:loop-edge:{name}", desc, np.asarray(exp).tolist(), r[1:3] if r[0] != "ok" else np.asarray(r[1].array).tolist(), replay=[desc])


def reevaluate(ctx, n):
    """calculate(); add a further edge between nodes that are already in the diagram; calculate() again = the diagram built
    in one go (no result may survive an extension of the diagram)"""
    from geometer.base import Tensor, TensorDiagram
    rng = ctx.rng
    for k in range(n):
        d = rng.choice([2, 3])
        A = np.array([rng.randint(-3, 3) for _ in range(d * d)], dtype=float).reshape(d, d)
        B = np.array([rng.randint(-3, 3) for _ in range(d * d)], dtype=float).reshape(d, d)
        desc = f"re-evaluate A={A.tolist()} B={B.tolist()}"
        ctx.case(desc, nontrivial=True)
        ctx.count("reevaluate")
        def run():
            a, b = Tensor(A, covariant=[0, 1]), Tensor(B, covariant=False)
            dg = TensorDiagram((a, b))
            first = dg.calculate()
            dg.add_edge(a, b)                          # both nodes are already there
            second = dg.calculate()
            a2, b2 = Tensor(A, covariant=[0, 1]), Tensor(B, covariant=False)
            return first, second, TensorDiagram((a2, b2), (a2, b2)).calculate()
        r = call_impl(run)
        ok = r[0] == "ok" and r[1][1].tensor_shape == r[1][2].tensor_shape and np.allclose(r[1][1].array, r[1][2].array) \
            and np.allclose(r[1][2].array, np.einsum("ij,ij->", A, B)) and r[1][0].tensor_shape == (1, 1)
        if not ok:
            ctx.disagree("C05:reevaluate", desc, float(np.einsum("ij,ij->", A, B)), r[1:3] if r[0] != "ok" else (r[1][1].tensor_shape, np.asarray(r[1][1].array).tolist()), replay=[desc])
        # the other way to extend a diagram: add_node (no edge) after an evaluation
        v = np.array([rng.randint(-3, 3) for _ in range(d)], dtype=float)
        def run2():
            a, b, c = Tensor(A, covariant=[0]), Tensor(B, covariant=[0]), Tensor(v, covariant=bool(k % 2))
            dg = TensorDiagram((a, b))
            first = dg.calculate()
            dg.add_node(c)
            return first, dg.calculate()
        r = call_impl(run2)
        ab = np.einsum("ai,ka->ki", A, B)
        exp = np.einsum("ki,c->kci", ab, v) if k % 2 else np.einsum("ki,c->kic", ab, v)
        ok = r[0] == "ok" and np.allclose(r[1][0].array, ab) and r[1][1].array.shape == exp.shape and np.allclose(r[1][1].array, exp) \
            and r[1][1].tensor_shape == ((2, 1) if k % 2 else (1, 2))
        ctx.count("reevaluate:add_node")
        if not ok:
            ctx.disagree("C05:reevaluate:add_node", desc + f" then add_node({v.tolist()}, {'covariant' if k % 2 else 'contravariant'})", exp.tolist(),
                         r[1:3] if r[0] != "ok" else (r[1][1].tensor_shape, np.asarray(r[1][1].array).tolist()), replay=[desc])


def copy_stream(ctx, n):
    """`TensorDiagram.copy()` is an independent diagram: an edge added to the copy leaves the original's value unchanged (and vice
    versa); compared with `numpy.einsum` on the operand arrays"""
    from geometer.base import Tensor, TensorDiagram
    rng = ctx.rng
    for k in range(n):
        dim = rng.choice([2, 3])
        A = Tensor(np.array([rng.randint(-3, 3) for _ in range(dim * dim)]).reshape(dim, dim), covariant=[0])
        B = Tensor(np.array([rng.randint(-3, 3) for _ in range(dim * dim)]).reshape(dim, dim), covariant=[0])
        x = Tensor(np.array([rng.randint(-3, 3) for _ in range(dim)]), covariant=False)
        y = Tensor(np.array([rng.randint(-3, 3) for _ in range(dim)]), covariant=True)
        mode = rng.choice(["nodes-only", "one-edge"])
        which = rng.choice(["copy", "original"])
        desc = f"diagram copy: A {A.array.tolist()} B {B.array.tolist()} x {x.array.tolist()} y {y.array.tolist()} start={mode} extended={which}"
        ctx.case(desc)
        ctx.count("diagram-copy")
        def run():
            d = TensorDiagram()
            if mode == "nodes-only":
                d.add_node(A); d.add_node(B)
                exp = np.einsum("ij,kl->ikjl", A.array, B.array)       # covariant first: A0 B0 A1 B1
            else:
                d.add_edge(A, B)
                # edge (A, B): first covariant of A (axis 0) with first contravariant of B (axis 1); free: B0 (cov), A1 (con)
                exp = np.einsum("ai,ka->ki", A.array, B.array)
            c = d.copy()
            ext, keep = (c, d) if which == "copy" else (d, c)
            if mode == "nodes-only":
                ext.add_edge(A, x)       # consumes the covariant index of A -- only in `ext`
                ext.add_edge(y, B)
            else:
                ext.add_edge(B, x)       # consumes the covariant index of B that the first edge left over
            return keep.calculate(), exp
        r = call_impl(run)
        ok = r[0] == "ok" and r[1][0].array.shape == r[1][1].shape and np.array_equal(r[1][0].array, r[1][1])
        if not ok:
            ctx.disagree("C05:diagram-copy", desc, "value of the diagram before it was copied / of the untouched copy",
                         (r[1][0].array.shape, r[1][0].array.tolist()) if r[0] == "ok" else r[1:3], replay=[desc])


def high_rank_order(ctx):
    """tensors with nine and more indices: an edge still takes the FIRST (lowest) unused covariant / contravariant index
    (Python's set iteration order is not ascending any more for such index sets, e.g. list({1, 8}) == [8, 1])"""
    from geometer.base import Tensor, TensorDiagram
    rng = ctx.rng
    for cov in ([1, 8], [0, 8], [8, 9, 1], [3, 8, 16 - 7]):
        rank = max(cov) + 1
        for variance in ("cov", "con"):
            arr = np.array([rng.randint(-2, 2) for _ in range(2 ** rank)]).reshape((2,) * rank)
            others = [i for i in range(rank) if i not in cov]
            T = Tensor(arr, covariant=cov if variance == "cov" else others)
            v = Tensor(np.array([1, 10]), covariant=(variance != "cov"))
            desc = f"rank {rank} tensor, {variance} indices {cov}: edge with a vector contracts index {min(cov)}"
            ctx.case(desc)
            ctx.count("high-rank-order")
            r = call_impl(lambda: TensorDiagram((T, v) if variance == "cov" else (v, T)).calculate())
            exp = np.tensordot(arr, v.array, axes=([min(cov)], [0]))
            # result axes: covariant first, contravariant after, each group in ascending order of the original axis
            rest = [i for i in range(rank) if i != min(cov)]
            cov_axes = [i for i in rest if (i in cov) == (variance == "cov")]
            con_axes = [i for i in rest if i not in cov_axes]
            order = (cov_axes + con_axes) if variance == "cov" else (con_axes + cov_axes) if False else None
            # the (1-tensor) vector has no index left; T's unused indices: covariant ones first
            t_cov = [i for i in rest if i in (cov if variance == "cov" else others)]
            t_con = [i for i in rest if i not in t_cov]
            perm = [rest.index(i) for i in t_cov + t_con]
            exp = np.transpose(exp, perm)
            ok = r[0] == "ok" and r[1].array.shape == exp.shape and np.array_equal(r[1].array, exp)
            if not ok:
                ctx.disagree("C05:high-rank:first-unused-index", desc, "contraction over the lowest unused index",
                             "another index was contracted" if r[0] == "ok" else r[1:3], replay=[desc])


def high_rank_tensor_product(ctx):
    """`tensor_product` of a tensor with nine indices equals the diagram of the two unconnected nodes (the documented equivalence),
    also when Python's set iteration order of the index set is not ascending"""
    from geometer.base import Tensor, TensorDiagram
    rng = ctx.rng
    for cov in ([1, 8], [0, 8], [8, 9, 1]):
        rank = max(cov) + 1
        arr = np.array([rng.randint(-2, 2) for _ in range(2 ** rank)]).reshape((2,) * rank)
        T = Tensor(arr, covariant=cov)
        v = Tensor(np.array([1, 10]), covariant=bool(rng.randrange(2)))
        for name, f1, f2 in (("T x v", lambda: T.tensor_product(v), lambda: (lambda d: (d.add_node(T), d.add_node(v), d.calculate())[-1])(TensorDiagram())),
                             ("v x T", lambda: v.tensor_product(T), lambda: (lambda d: (d.add_node(v), d.add_node(T), d.calculate())[-1])(TensorDiagram()))):
            desc = f"tensor_product {name}: T of rank {rank} with covariant indices {cov}, v a vector"
            ctx.case(desc)
            ctx.count("high-rank-tensor_product")
            a, b = call_impl(f1), call_impl(f2)
            ok = a[0] == "ok" and b[0] == "ok" and a[1].array.shape == b[1].array.shape and np.array_equal(a[1].array, b[1].array) \
                and a[1].tensor_shape == b[1].tensor_shape
            if not ok:
                ctx.disagree("C05:high-rank:tensor_product", desc, "the diagram of the two unconnected nodes", "differs" if a[0] == "ok" and b[0] == "ok" else (a[1:3], b[1:3]), replay=[desc])


def eps_instances_independent(ctx, prefix="C05"):
    """item assignment on one Levi-Civita / Kronecker tensor object does not change the tensors constructed afterwards
    (the cached arrays are not handed out writable)"""
    from geometer.base import LeviCivitaTensor, KroneckerDelta
    for name, make, idx in (("eps3", lambda: LeviCivitaTensor(3), (0, 1, 2)), ("eps4", lambda: LeviCivitaTensor(4, False), (0, 1, 2, 3)),
                            ("delta3_1", lambda: KroneckerDelta(3), (0, 0)), ("delta3_2", lambda: KroneckerDelta(3, 2), (0, 1, 0, 1)),
                            ("delta3_3", lambda: KroneckerDelta(3, 3), (0, 1, 2, 0, 1, 2))):
        desc = f"{name}: t = {name}(); t[{idx}] = 5; then a new {name}()"
        ctx.case(desc)
        ctx.count("eps-delta-instances")
        def run():
            t = make()
            old = t.array[idx]
            try:
                t[idx] = 5
            except (ValueError, TypeError):
                return int(make().array[idx]), int(old)     # a refused assignment is fine as well
            fresh = make()
            val = int(fresh.array[idx])
            try:
                t[idx] = old      # leave the process-wide cache as we found it, whatever the library does
            except (ValueError, TypeError):
                pass
            return val, int(old)
        r = call_impl(run)
        if r[0] != "ok" or r[1][0] != r[1][1]:
            ctx.disagree(f"{prefix}:eps-delta:shared-instance", desc, "entry of the definition", r[1] if r[0] == "ok" else r[1:3], replay=[desc])


def correspondence(ctx):
    copy_stream(ctx, ctx.budget(20, 200))
    high_rank_order(ctx)
    high_rank_tensor_product(ctx)
    eps_instances_independent(ctx)
    reevaluate(ctx, ctx.budget(20, 200))
    loop_edges(ctx, ctx.budget(30, 300))
    refused_edge_stream(ctx, ctx.budget(30, 300))
    # minimised past failures first
    import glob, json, os
    for f in sorted(glob.glob(os.path.join(os.path.dirname(__file__), "..", "..", "corpus", "C05", "*.json"))):
        replay(ctx, json.load(open(f)))
    eps_delta(ctx)
    diagrams(ctx, ctx.budget(500, 6000))
    tensor_ops(ctx, ctx.budget(150, 3000))
    eps_delta(ctx)


def parse_line(line):
    toks = line.split(" ")
    if toks[0] in ("mul", "rmul", "pow", "tprod"):
        toks = toks[1:]
    k = int(toks[1])
    nodes = []
    for t in toks[2:2 + k]:
        i, cov, con, tt = t.split("|")
        et = dec_tens(tt)
        cov, con = dec_natlist(cov), dec_natlist(con)
        tr = len(cov) + len(con)
        nf = len(et.shape) - tr
        nodes.append((int(i), nf, tr, [c - nf for c in cov], et))
    ops = []
    for t in toks[2 + k:]:
        if t.startswith("+"):
            ops.append(("+", int(t[1:])))
        else:
            a, b = t.split(">")
            ops.append((">", int(a), int(b)))
    return nodes, ops


def replay(ctx, rec):
    for line in rec.get("ops") or []:
        if line.startswith(("eps", "delta")):
            eps_delta(ctx)
            continue
        nodes, ops = parse_line(line)
        enc = enc_diagram(nodes, ops)
        ans = run_driver([enc])[0]
        ctx.case("replay " + enc)
        compare_diagram(ctx, enc, run_impl_diagram(nodes, ops), ans)
