"""C02 — degenerate join/meet inputs raise the documented error, never a wrong answer."""
from __future__ import annotations

import itertools

import jmlib
from geolib import Gen, Obj, call_impl
import numpy as np
from proto import ET, proj_close_nn

ID = "C02"
LEAN_FILES = ["Geo/Props/C02.lean", "Geo/Props/C01b.lean"]
RULE = ("the 12 join/meet scenarios with the degenerate stream as main stream: equal / proportional arguments, incident "
        "(point on line, line in plane, third element in the span), skew / identical 3-D lines, zero vectors, the same Python "
        "object twice, mixed collections (mask compared position by position); thorough: exhaustive over small integer lattices; "
        "compared: exception class + mask + value; non-trivial = at least one degenerate position")
ASSUMPTIONS = ["zero tests are exact in the model; lattice inputs keep float64 arithmetic exact so 1e-8 tolerance and exact zero agree"]

DEGS = ["equal", "multiple", "incident", "skew", "zero", "same-object", None]


def same_object_stream(ctx, n):
    """one Python object passed in several argument positions (adjacent or not) is a dependent configuration like any other:
    LinearDependenceError, never an internal error of the diagram machinery"""
    import geometer as g
    rng = ctx.rng
    for k in range(n):
        kind = rng.choice(["join3", "meet3", "join2", "meet2"])
        def pt(d):
            return g.Point(*[float(rng.randint(-4, 4)) for _ in range(d)])
        def pl():
            return g.Plane(*[float(rng.randint(-4, 4)) for _ in range(3)], float(rng.randint(1, 4)))
        if kind == "join3":
            a, b = pt(3), pt(3)
            f, args = g.join, rng.choice([(a, b, a), (a, a, b), (b, a, a)])
        elif kind == "meet3":
            a, b = pl(), pl()
            f, args = g.meet, rng.choice([(a, b, a), (a, a, b), (b, a, a)])
        elif kind == "join2":
            a = pt(rng.choice([2, 3]))
            f, args = g.join, (a, a)
        else:
            a = g.Line(float(rng.randint(1, 4)), float(rng.randint(-4, 4)), float(rng.randint(-4, 4)))
            f, args = g.meet, (a, a)
        pattern = "".join("ab"[0 if x is args[0] else 1] for x in args)
        desc = f"same object {kind} pattern={pattern} {[np.asarray(x.array).tolist() for x in args]}"
        ctx.case(desc)
        ctx.count(f"same-object:{kind}:{pattern}")
        r = call_impl(f, *args)
        if not (r[0] == "err" and r[1] == "LinearDependence"):
            ctx.disagree(f"C02:same-object:{kind}", desc, "LinearDependenceError", r[1:3] if r[0] != "ok" else "a result", replay=[desc])


def variants_stream(ctx, n):
    """(a) the keyword variant join(..., _normalize_result=False) used inside the library still rejects dependent arguments;
    (b) grids of joins built with expand_dims: every pair, with the exact mask of the dependent ones"""
    import geometer as g
    from geometer.exceptions import LinearDependenceError
    rng = ctx.rng
    for k in range(n):
        dim = rng.choice([2, 3])
        p = np.array([float(rng.randint(-4, 4)) for _ in range(dim)] + [1.0])
        lam = rng.choice([2.0, -1.0, 0.5])
        desc = f"join(p, {lam} p, _normalize_result=False) p={p.tolist()}"
        ctx.case(desc)
        ctx.count("keyword-variant")
        r = call_impl(lambda: g.join(g.Point(p), g.Point(p * lam), _normalize_result=False))
        if not (r[0] == "err" and r[1] == "LinearDependence"):
            ctx.disagree("C02:keyword-variant", desc, "LinearDependenceError", r[1:3] if r[0] != "ok" else "a result", replay=[desc])
        # grid
        A = np.array([[float(rng.randint(-3, 3)) for _ in range(dim)] + [1.0] for _ in range(2)])
        B = np.array([[float(rng.randint(-3, 3)) for _ in range(dim)] + [1.0] for _ in range(3)])
        if rng.random() < 0.6:
            B[rng.randrange(3)] = A[rng.randrange(2)] * rng.choice([1.0, -2.0])          # a dependent pair somewhere
        desc = f"grid join A={A.tolist()} B={B.tolist()}"
        ctx.case(desc)
        ctx.count("grid-join")
        exp_mask = np.array([[np.linalg.matrix_rank(np.stack([a, b])) < 2 for b in B] for a in A])
        def run():
            return g.join(g.PointCollection(A).expand_dims(1), g.PointCollection(B).expand_dims(0))
        r = call_impl(run)
        if exp_mask.any():
            ok = r[0] == "err" and r[1] == "LinearDependence" and np.array_equal(np.asarray(getattr(r[2], "dependent_values", None)), exp_mask)
            if not ok:
                ctx.disagree("C02:grid-join:dependent", desc, exp_mask.tolist(), r[1:3] if r[0] != "ok" else "no error", replay=[desc])
        else:
            ok = r[0] == "ok" and np.asarray(r[1].array).shape[:2] == (2, 3)
            if ok:
                for i in range(2):
                    for j in range(3):
                        single = g.join(g.Point(A[i]), g.Point(B[j]))
                        ok = ok and proj_close_nn(np.asarray(r[1].array)[i, j], np.asarray(single.array), 1e-9)
            if not ok:
                ctx.disagree("C02:grid-join:value", desc, "join of every pair", r[1:3] if r[0] != "ok" else "differs", replay=[desc])


def rounded_dependent_stream(ctx, n, prefix="C02"):
    """dependent configurations reached by a floating point computation (a sum, a transformation and its inverse, a convex
    combination) instead of being typed in: the residual of the contraction is rounding noise (~1e-16), far inside the
    library's tolerance, so the documented error has to be raised (single objects and, with the exact mask, collections)"""
    import geometer as g
    rng = ctx.rng
    for k in range(n):
        dim = rng.choice([2, 3])
        kind = rng.choice(["sum", "roundtrip", "combination", "collection", "multiple", "multiple"])
        def fp():
            return [rng.randint(-9, 9) / 10.0 for _ in range(dim)]
        a = fp()
        if kind == "sum":
            # the same point through two different float paths: x/10 + y/10 against (x + y)/10
            i1, i2 = rng.randint(1, 9), rng.randint(1, 9)
            p = g.Point(*([i1 / 10.0 + i2 / 10.0] + a[1:]))
            q = g.Point(*([(i1 + i2) / 10.0] + a[1:]))
            f, desc = (lambda: g.join(p, q)), f"join of (x/10 + y/10, ...) and ((x+y)/10, ...) x={i1} y={i2} rest={a[1:]}"
        elif kind == "multiple":
            # another representative of the SAME object: coordinates with a non-integer float part times a factor that is not a power of two
            s_ = rng.choice([3.0, 0.7, -1.3, 10.1, 1.0 / 3.0])
            v = np.array(a + [1.0]) * rng.choice([1.0, 0.3])
            if not np.any(v[:-1]):
                continue
            what = rng.choice(["points", "hyperplanes"])
            cls = g.Point if what == "points" else (g.Line if dim == 2 else g.Plane)
            x, y = cls(v), cls(v * s_)
            f = (lambda: g.join(x, y)) if what == "points" else (lambda: g.meet(x, y))
            desc = f"{'join' if what == 'points' else 'meet'} of {what[:-1]} {v.tolist()} and {s_} times it"
        elif kind == "roundtrip":
            t = g.rotation(np.arctan2(3.0, 4.0)) if dim == 2 else g.rotation(np.arctan2(5.0, 12.0), axis=g.Point(1.0, 2.0, 2.0))
            p = g.Point(*a)
            q = t.inverse() * (t * p)
            f, desc = (lambda: g.join(p, q)), f"join of p and t^-1 (t p), p={a}, dim={dim}"
        elif kind == "combination":
            b = fp()
            if a == b:
                continue
            A, B = g.Point(*a), g.Point(*b)
            lam = rng.choice([0.3, 0.7, 1.1, -0.4])
            C = g.Point(*[x + lam * (y - x) for x, y in zip(a, b)])
            if dim == 2:
                f, desc = (lambda: g.join(A, B).meet(g.join(A, C))), f"meet of the lines AB and AC with C on AB: a={a} b={b} lam={lam}"
            else:
                f, desc = (lambda: g.join(g.join(A, B), C)), f"join of the line AB and a point C on it (3-D): a={a} b={b} lam={lam}"
        else:
            b = fp()
            if a == b:
                continue
            i1, i2 = rng.randint(1, 9), rng.randint(1, 9)
            P = g.PointCollection(np.array([[i1 / 10.0 + i2 / 10.0] + a[1:] + [1.0], b + [1.0]]))
            Q = g.PointCollection(np.array([[(i1 + i2) / 10.0] + a[1:] + [1.0], a + [1.0]]))
            f, desc = (lambda: g.join(P, Q)), f"collection join, position 0 coincident up to rounding, position 1 distinct: a={a} b={b} x={i1} y={i2}"
        ctx.case(desc)
        ctx.count("rounded-dependent:" + kind)
        r = call_impl(f)
        ok = r[0] == "err" and r[1] == "LinearDependence"
        if ok and kind == "collection":
            ok = np.array_equal(np.asarray(getattr(r[2], "dependent_values", None)), np.array([True, False]))
        if not ok:
            ctx.disagree(f"{prefix}:rounded-dependent:{kind}", desc, "LinearDependenceError" + (" with mask [True, False]" if kind == "collection" else ""),
                         r[1:3] if r[0] != "ok" else "a result: " + str(np.asarray(r[1].array).tolist())[:200], replay=[desc])


def large_int_stream(ctx, n):
    """general position with integer (int64) coordinates of size 1e4 .. 2e5: never an error, and the exact span / intersection
    (all intermediate products stay below 2^63)"""
    import geometer as g
    rng = ctx.rng
    for k in range(n):
        kind = rng.choice(["P2P2", "L2L2", "EE", "P3P3P3", "P3P3", "collection"])
        big = lambda m: int(rng.choice([-1, 1]) * rng.randint(m // 10, m))
        if kind in ("P2P2", "L2L2", "collection"):
            a = [big(200000), rng.randint(-9, 9), 1]
            b = [rng.randint(-9, 9), big(200000), 1]
            rng.shuffle(a); rng.shuffle(b)
            if np.linalg.matrix_rank(np.array([a, b], dtype=float)) < 2:
                continue
            exp = [a[1] * b[2] - a[2] * b[1], a[2] * b[0] - a[0] * b[2], a[0] * b[1] - a[1] * b[0]]
            if kind == "P2P2":
                f = lambda: g.join(g.Point(np.array(a)), g.Point(np.array(b)))
            elif kind == "L2L2":
                f = lambda: g.meet(g.Line(np.array(a)), g.Line(np.array(b)))
            else:
                f = lambda: g.join(g.PointCollection(np.array([a, [0, 0, 1], b])), g.PointCollection(np.array([b, [1, 2, 1], b])))
        elif kind in ("EE", "P3P3"):
            a = [big(100000), 0, rng.randint(-9, 9), 1]
            b = [rng.randint(-9, 9), big(100000), 0, 1]
            exp = None
            f = (lambda: g.meet(g.Plane(np.array(a)), g.Plane(np.array(b)))) if kind == "EE" else (lambda: g.join(g.Point(np.array(a)), g.Point(np.array(b))))
        else:
            a = [big(5000), big(5000), rng.randint(-9, 9), 1]
            b = [rng.randint(-9, 9), big(5000), big(5000), 1]
            c = [big(5000), rng.randint(-9, 9), big(5000), 1]
            if abs(np.linalg.det(np.array([a, b, c, [0, 0, 0, 1]], dtype=float))) < 1:
                continue
            exp = None
            f = lambda: g.join(g.Point(np.array(a)), g.Point(np.array(b)), g.Point(np.array(c)))
        desc = f"large integer coordinates {kind}: {a} {b}" + (f" {c}" if kind == "P3P3P3" else "")
        ctx.case(desc)
        ctx.count("large-int:" + kind)
        r = call_impl(f)
        if kind == "collection":
            ok = r[0] == "err" and r[1] == "LinearDependence" and np.array_equal(np.asarray(getattr(r[2], "dependent_values", None)), np.array([False, False, True]))
            if not ok:
                ctx.disagree("C02:large-int:collection-mask", desc, "LinearDependenceError with mask [False, False, True]", r[1:3] if r[0] != "ok" else "no error", replay=[desc])
            continue
        if r[0] != "ok":
            ctx.disagree(f"C02:large-int:{kind}:raises", desc, "the span / intersection (general position)", r[1:3], replay=[desc])
            continue
        res = np.asarray(r[1].array, dtype=float)
        if exp is not None:
            e = np.array([float(x) for x in exp])
            ok = proj_close_nn(res, e, 1e-9)
        else:
            # incidence with every argument, scale-free
            args = [np.array(x, dtype=float) for x in ((a, b, c) if kind == "P3P3P3" else (a, b))]
            if res.ndim == 1:
                ok = all(abs(res @ v) <= 1e-9 * np.linalg.norm(res) * np.linalg.norm(v) for v in args)
            else:
                M = res
                if kind == "EE":
                    # the returned contravariant matrix annihilates the points of the line; the planes through the line are
                    # annihilated by its dual (Hodge star of the Pluecker matrix)
                    L = res
                    M = np.array([[0, L[2, 3], -L[1, 3], L[1, 2]], [-L[2, 3], 0, L[0, 3], -L[0, 2]], [L[1, 3], -L[0, 3], 0, L[0, 1]],
                                  [-L[1, 2], L[0, 2], -L[0, 1], 0]])
                ok = all(np.linalg.norm(M @ v) <= 1e-9 * np.linalg.norm(M) * np.linalg.norm(v) for v in args)
        if not ok:
            ctx.disagree(f"C02:large-int:{kind}:value", desc, "incident with every argument", res.tolist(), replay=[desc])


def correspondence(ctx):
    jmlib.l3_shape_stream(ctx, ctx.budget(40, 400), "C02")
    rounded_dependent_stream(ctx, ctx.budget(60, 600))
    large_int_stream(ctx, ctx.budget(60, 600))
    variants_stream(ctx, ctx.budget(40, 400))
    same_object_stream(ctx, ctx.budget(40, 400))
    import glob, json, os
    for f in sorted(glob.glob(os.path.join(os.path.dirname(__file__), "..", "..", "corpus", "C02", "*.json"))):
        replay(ctx, json.load(open(f)))
    g = Gen(ctx.rng)
    cases = []
    n = ctx.budget(70, 1000)
    for sc in jmlib.SCENARIOS:
        for k in range(n):
            if k % 3 == 2:
                op, args = jmlib.collection_case(g, sc, degen_rate=0.4, mixed_scale=True)
            else:
                op, args = jmlib.single_case(g, sc, DEGS[k % len(DEGS)])
            cases.append((sc, op, args))
    if ctx.tier == "thorough":
        v3 = [v for v in itertools.product((-1, 0, 1), repeat=3) if any(v)]
        for a in v3:
            for b in v3:
                cases.append(("J_P2P2:lattice", "join", [Obj("P", ET((3,), list(a))), Obj("P", ET((3,), list(b)))]))
                cases.append(("M_L2L2:lattice", "meet", [Obj("L", ET((3,), list(a))), Obj("L", ET((3,), list(b)))]))
        v4 = [v for v in itertools.product((-1, 0, 1), repeat=4) if any(v)]
        for a in v4:
            for b in v4:
                cases.append(("J_P3P3:lattice", "join", [Obj("P", ET((4,), list(a))), Obj("P", ET((4,), list(b)))]))
        b4 = [v for v in itertools.product((0, 1), repeat=4) if any(v)]
        for a in b4:
            for b in b4:
                for c in b4:
                    cases.append(("J_P3P3P3:lattice", "join", [Obj("P", ET((4,), list(x))) for x in (a, b, c)]))
                    cases.append(("M_EEE:lattice", "meet", [Obj("E", ET((4,), list(x))) for x in (a, b, c)]))
        # all pairs of lines spanned by points of {0,1}^4
        from geolib import pluecker, G
        lines = []
        for a, b in itertools.combinations(b4, 2):
            L = pluecker([G(x) for x in a], [G(x) for x in b])
            flat = [e for row in L for e in row]
            if any(e != (0, 0) for e in flat):
                lines.append(Obj("L", ET((4, 4), flat)))
        rng = ctx.rng
        pairs = [(x, y) for x in lines for y in lines]
        rng.shuffle(pairs)
        for x, y in pairs[:6000]:
            cases.append(("L3L3:lattice", rng.choice(["join", "meet"]), [x, y]))
        ctx.exhaustive = True
    jmlib.check_cases(ctx, cases, "C02")


def replay(ctx, rec):
    for line in rec.get("ops") or []:
        op, args = jmlib.parse_request(line)
        jmlib.check_cases(ctx, [("replay", op, args)], "C02")
