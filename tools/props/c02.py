"""C02 — degenerate join/meet inputs raise the documented error, never a wrong answer."""
from __future__ import annotations

import itertools

import jmlib
from geolib import Gen, Obj, call_impl
import numpy as np
from proto import ET, proj_close_nn

ID = "C02"
LEAN_FILES = ["Geo/Props/C02.lean", "Geo/Props/C01b.lean"]
RULE = ("the 12 join/meet scenarios with the degenerate stream as main stream: equal / proportional arguments, incident "
        "(point on line, line in plane, third element in the span), skew / identical 3-D lines, zero vectors, the same Python "
        "object twice, mixed collections (mask compared position by position); thorough: exhaustive over small integer lattices; "
        "compared: exception class + mask + value; non-trivial = at least one degenerate position")
ASSUMPTIONS = ["zero tests are exact in the model; lattice inputs keep float64 arithmetic exact so 1e-8 tolerance and exact zero agree"]

DEGS = ["equal", "multiple", "incident", "skew", "zero", "same-object", None]


def same_object_stream(ctx, n):
    """one Python object passed in several argument positions (adjacent or not) is a dependent configuration like any other:
    LinearDependenceError, never an internal error of the diagram machinery"""
    import geometer as g
    rng = ctx.rng
    for k in range(n):
        kind = rng.choice(["join3", "meet3", "join2", "meet2"])
        def pt(d):
            return g.Point(*[float(rng.randint(-4, 4)) for _ in range(d)])
        def pl():
            return g.Plane(*[float(rng.randint(-4, 4)) for _ in range(3)], float(rng.randint(1, 4)))
        if kind == "join3":
            a, b = pt(3), pt(3)
            f, args = g.join, rng.choice([(a, b, a), (a, a, b), (b, a, a)])
        elif kind == "meet3":
            a, b = pl(), pl()
            f, args = g.meet, rng.choice([(a, b, a), (a, a, b), (b, a, a)])
        elif kind == "join2":
            a = pt(rng.choice([2, 3]))
            f, args = g.join, (a, a)
        else:
            a = g.Line(float(rng.randint(1, 4)), float(rng.randint(-4, 4)), float(rng.randint(-4, 4)))
            f, args = g.meet, (a, a)
        pattern = "".join("ab"[0 if x is args[0] else 1] for x in args)
        desc = f"same object {kind} pattern={pattern} {[np.asarray(x.array).tolist() for x in args]}"
        ctx.case(desc)
        ctx.count(f"same-object:{kind}:{pattern}")
        r = call_impl(f, *args)
        if not (r[0] == "err" and r[1] == "LinearDependence"):
            ctx.disagree(f"C02:same-object:{kind}", desc, "LinearDependenceError", r[1:3] if r[0] != "ok" else "a result", replay=[desc])


def variants_stream(ctx, n):
    """(a) the keyword variant join(..., _normalize_result=False) used inside the library still rejects dependent arguments;
    (b) grids of joins built with expand_dims: every pair, with the exact mask of the dependent ones"""
    import geometer as g
    from geometer.exceptions import LinearDependenceError
    rng = ctx.rng
    for k in range(n):
        dim = rng.choice([2, 3])
        p = np.array([float(rng.randint(-4, 4)) for _ in range(dim)] + [1.0])
        lam = rng.choice([2.0, -1.0, 0.5])
        desc = f"join(p, {lam} p, _normalize_result=False) p={p.tolist()}"
        ctx.case(desc)
        ctx.count("keyword-variant")
        r = call_impl(lambda: g.join(g.Point(p), g.Point(p * lam), _normalize_result=False))
        if not (r[0] == "err" and r[1] == "LinearDependence"):
            ctx.disagree("C02:keyword-variant", desc, "LinearDependenceError", r[1:3] if r[0] != "ok" else "a result", replay=[desc])
        # grid
        A = np.array([[float(rng.randint(-3, 3)) for _ in range(dim)] + [1.0] for _ in range(2)])
        B = np.array([[float(rng.randint(-3, 3)) for _ in range(dim)] + [1.0] for _ in range(3)])
        if rng.random() < 0.6:
            B[rng.randrange(3)] = A[rng.randrange(2)] * rng.choice([1.0, -2.0])          # a dependent pair somewhere
        desc = f"grid join A={A.tolist()} B={B.tolist()}"
        ctx.case(desc)
        ctx.count("grid-join")
        exp_mask = np.array([[np.linalg.matrix_rank(np.stack([a, b])) < 2 for b in B] for a in A])
        def run():
            return g.join(g.PointCollection(A).expand_dims(1), g.PointCollection(B).expand_dims(0))
        r = call_impl(run)
        if exp_mask.any():
            ok = r[0] == "err" and r[1] == "LinearDependence" and np.array_equal(np.asarray(getattr(r[2], "dependent_values", None)), exp_mask)
            if not ok:
                ctx.disagree("C02:grid-join:dependent", desc, exp_mask.tolist(), r[1:3] if r[0] != "ok" else "no error", replay=[desc])
        else:
            ok = r[0] == "ok" and np.asarray(r[1].array).shape[:2] == (2, 3)
            if ok:
                for i in range(2):
                    for j in range(3):
                        single = g.join(g.Point(A[i]), g.Point(B[j]))
                        ok = ok and proj_close_nn(np.asarray(r[1].array)[i, j], np.asarray(single.array), 1e-9)
            if not ok:
                ctx.disagree("C02:grid-join:value", desc, "join of every pair", r[1:3] if r[0] != "ok" else "differs", replay=[desc])


def correspondence(ctx):
    variants_stream(ctx, ctx.budget(40, 400))
    same_object_stream(ctx, ctx.budget(40, 400))
    import glob, json, os
    for f in sorted(glob.glob(os.path.join(os.path.dirname(__file__), "..", "..", "corpus", "C02", "*.json"))):
        replay(ctx, json.load(open(f)))
    g = Gen(ctx.rng)
    cases = []
    n = ctx.budget(70, 1000)
    for sc in jmlib.SCENARIOS:
        for k in range(n):
            if k % 3 == 2:
                op, args = jmlib.collection_case(g, sc, degen_rate=0.4)
            else:
                op, args = jmlib.single_case(g, sc, DEGS[k % len(DEGS)])
            cases.append((sc, op, args))
    if ctx.tier == "thorough":
        v3 = [v for v in itertools.product((-1, 0, 1), repeat=3) if any(v)]
        for a in v3:
            for b in v3:
                cases.append(("J_P2P2:lattice", "join", [Obj("P", ET((3,), list(a))), Obj("P", ET((3,), list(b)))]))
                cases.append(("M_L2L2:lattice", "meet", [Obj("L", ET((3,), list(a))), Obj("L", ET((3,), list(b)))]))
        v4 = [v for v in itertools.product((-1, 0, 1), repeat=4) if any(v)]
        for a in v4:
            for b in v4:
                cases.append(("J_P3P3:lattice", "join", [Obj("P", ET((4,), list(a))), Obj("P", ET((4,), list(b)))]))
        b4 = [v for v in itertools.product((0, 1), repeat=4) if any(v)]
        for a in b4:
            for b in b4:
                for c in b4:
                    cases.append(("J_P3P3P3:lattice", "join", [Obj("P", ET((4,), list(x))) for x in (a, b, c)]))
                    cases.append(("M_EEE:lattice", "meet", [Obj("E", ET((4,), list(x))) for x in (a, b, c)]))
        # all pairs of lines spanned by points of {0,1}^4
        from geolib import pluecker, G
        lines = []
        for a, b in itertools.combinations(b4, 2):
            L = pluecker([G(x) for x in a], [G(x) for x in b])
            flat = [e for row in L for e in row]
            if any(e != (0, 0) for e in flat):
                lines.append(Obj("L", ET((4, 4), flat)))
        rng = ctx.rng
        pairs = [(x, y) for x in lines for y in lines]
        rng.shuffle(pairs)
        for x, y in pairs[:6000]:
            cases.append(("L3L3:lattice", rng.choice(["join", "meet"]), [x, y]))
        ctx.exhaustive = True
    jmlib.check_cases(ctx, cases, "C02")


def replay(ctx, rec):
    for line in rec.get("ops") or []:
        op, args = jmlib.parse_request(line)
        jmlib.check_cases(ctx, [("replay", op, args)], "C02")
