"""C02 — degenerate join/meet inputs raise the documented error, never a wrong answer."""
from __future__ import annotations

import itertools

import jmlib
from geolib import Gen, Obj
from proto import ET

ID = "C02"
LEAN_FILES = ["Geo/Props/C02.lean", "Geo/Props/C01b.lean"]
RULE = ("the 12 join/meet scenarios with the degenerate stream as main stream: equal / proportional arguments, incident "
        "(point on line, line in plane, third element in the span), skew / identical 3-D lines, zero vectors, the same Python "
        "object twice, mixed collections (mask compared position by position); thorough: exhaustive over small integer lattices; "
        "compared: exception class + mask + value; non-trivial = at least one degenerate position")
ASSUMPTIONS = ["zero tests are exact in the model; lattice inputs keep float64 arithmetic exact so 1e-8 tolerance and exact zero agree"]

DEGS = ["equal", "multiple", "incident", "skew", "zero", "same-object", None]


def correspondence(ctx):
    import glob, json, os
    for f in sorted(glob.glob(os.path.join(os.path.dirname(__file__), "..", "..", "corpus", "C02", "*.json"))):
        replay(ctx, json.load(open(f)))
    g = Gen(ctx.rng)
    cases = []
    n = ctx.budget(70, 1000)
    for sc in jmlib.SCENARIOS:
        for k in range(n):
            if k % 3 == 2:
                op, args = jmlib.collection_case(g, sc, degen_rate=0.4)
            else:
                op, args = jmlib.single_case(g, sc, DEGS[k % len(DEGS)])
            cases.append((sc, op, args))
    if ctx.tier == "thorough":
        v3 = [v for v in itertools.product((-1, 0, 1), repeat=3) if any(v)]
        for a in v3:
            for b in v3:
                cases.append(("J_P2P2:lattice", "join", [Obj("P", ET((3,), list(a))), Obj("P", ET((3,), list(b)))]))
                cases.append(("M_L2L2:lattice", "meet", [Obj("L", ET((3,), list(a))), Obj("L", ET((3,), list(b)))]))
        v4 = [v for v in itertools.product((-1, 0, 1), repeat=4) if any(v)]
        for a in v4:
            for b in v4:
                cases.append(("J_P3P3:lattice", "join", [Obj("P", ET((4,), list(a))), Obj("P", ET((4,), list(b)))]))
        b4 = [v for v in itertools.product((0, 1), repeat=4) if any(v)]
        for a in b4:
            for b in b4:
                for c in b4:
                    cases.append(("J_P3P3P3:lattice", "join", [Obj("P", ET((4,), list(x))) for x in (a, b, c)]))
                    cases.append(("M_EEE:lattice", "meet", [Obj("E", ET((4,), list(x))) for x in (a, b, c)]))
        # all pairs of lines spanned by points of {0,1}^4
        from geolib import pluecker, G
        lines = []
        for a, b in itertools.combinations(b4, 2):
            L = pluecker([G(x) for x in a], [G(x) for x in b])
            flat = [e for row in L for e in row]
            if any(e != (0, 0) for e in flat):
                lines.append(Obj("L", ET((4, 4), flat)))
        rng = ctx.rng
        pairs = [(x, y) for x in lines for y in lines]
        rng.shuffle(pairs)
        for x, y in pairs[:6000]:
            cases.append(("L3L3:lattice", rng.choice(["join", "meet"]), [x, y]))
        ctx.exhaustive = True
    jmlib.check_cases(ctx, cases, "C02")


def replay(ctx, rec):
    for line in rec.get("ops") or []:
        op, args = jmlib.parse_request(line)
        jmlib.check_cases(ctx, [("replay", op, args)], "C02")
