"""Translator A, part 2: in-place array write sites of geometer/**.py  ->  lean/Geo/Gen/Effects.lean

For every function that contains an in-place write (x[...] = ..., x op= ... on an array, out=x) the def-use
structure of the array-valued names of that function is emitted in the IR of Geo/Effects.lean.  The classification
of right-hand sides (alias / fresh) is conservative: anything unknown is an alias of everything it mentions.
"""
from __future__ import annotations

import ast
import os

FRESH_CALLS = {
    "np.zeros", "np.ones", "np.eye", "np.empty", "np.zeros_like", "np.empty_like", "np.ones_like", "np.append", "np.stack", "np.concatenate",
    "np.where", "np.cross", "np.einsum", "np.tensordot", "np.arange", "np.indices", "np.delete", "np.roll", "np.flip", "np.tile", "np.sum",
    "np.prod", "np.abs", "np.max", "np.maximum", "np.sqrt", "np.cos", "np.sin", "np.arccos", "np.cbrt", "np.conj", "np.conjugate", "np.isclose",
    "np.all", "np.any", "np.argmax", "np.argsort", "np.unravel_index", "np.ravel_multi_index", "np.linalg.inv", "np.linalg.det",
    "np.linalg.svd", "np.linalg.qr", "np.linalg.norm", "np.linalg.solve", "np.linalg.eigvalsh", "np.matmul", "np.dot", "np.multiply", "np.divide",
    "np.ldexp", "np.frexp", "np.sign", "np.triu_indices", "np.fromfunction", "np.vectorize", "np.column_stack", "np.diag", "np.average",
    "np.min", "np.isreal", "np.log", "np.real", "np.imag", "np.array", "np.common_type", "np.promote_types", "np.take_along_axis", "np.mean",
    "det", "inv", "adjugate", "outer", "matmul", "matvec", "null_space", "orth", "hat_matrix", "csqrt", "is_multiple", "roots", "len", "range",
    "tuple", "list", "int", "float", "bool", "sum", "max", "min", "abs", "math.factorial", "math.gamma", "math.pi", "isinstance", "type", "str",
    "enumerate", "zip", "reversed", "sorted", "set", "permutations", "combinations", "np.ndindex", "np.isinf", "np.isscalar", "np.clip",
    # geometry constructors / operations returning new objects with new arrays
    "join", "meet", "dist", "angle", "crossratio", "harmonic_set", "rotation", "translation", "reflection", "affine_transform", "identity",
    "scaling", "Point", "Line", "Plane", "Tensor", "Conic", "Quadric", "Segment", "Polygon", "Transformation", "LeviCivitaTensor",
    "KroneckerDelta", "TensorDiagram", "PointCollection", "LineCollection", "PlaneCollection", "QuadricCollection", "SegmentCollection",
    "PolygonCollection", "TransformationCollection", "infty_hyperplane", "normalize_index", "sanitize_index", "posify_index",
}
# view-producing numpy functions and methods: the result shares memory with the argument
ALIAS_CALLS = {"np.asarray", "np.asanyarray", "np.real_if_close", "np.swapaxes", "np.moveaxis", "np.reshape", "np.squeeze", "np.expand_dims",
               "np.broadcast_arrays", "np.transpose", "np.atleast_1d", "np.diagonal", "cast", "np.ravel", "np.broadcast"}
ALIAS_METHODS = {"reshape", "transpose", "swapaxes", "squeeze", "ravel", "view", "copy", "from_tensor", "from_array", "expand_dims"}
FRESH_METHODS = {"astype", "dot", "conj", "sum", "tolist", "nonzero", "argmax", "any", "all", "calculate", "meet", "join", "parallel", "perpendicular",
                 "project", "mirror", "contains", "is_zero", "inverse", "apply", "intersect", "tangent", "polar", "flatten", "is_coplanar"}
GLOBAL_NAMES = {"I", "J", "infty", "infty_plane", "absolute_conic"}
CACHE_ATTRS = {"_cache"}


class Untranslatable(Exception):
    pass


def call_name(node):
    try:
        return ast.unparse(node.func)
    except Exception:  # noqa: BLE001
        return "?"


def names_in(node):
    return sorted({n.id for n in ast.walk(node) if isinstance(n, ast.Name)})


def root_name(node):
    """root Name of an attribute / subscript chain, or None"""
    while isinstance(node, (ast.Attribute, ast.Subscript, ast.Starred)):
        node = node.value
    return node.id if isinstance(node, ast.Name) else None


def is_basic_index(sl):
    elts = sl.elts if isinstance(sl, ast.Tuple) else [sl]
    for e in elts:
        if isinstance(e, ast.Slice):
            continue
        if isinstance(e, ast.Constant) and (e.value is None or e.value is Ellipsis or isinstance(e.value, int)):
            continue
        if isinstance(e, ast.UnaryOp) and isinstance(e.operand, ast.Constant):
            continue
        return False
    return True


class FunctionIR:
    def __init__(self, qual, fn):
        self.qual, self.fn = qual, fn
        self.vars = {}
        self.writes = 0

    def v(self, name):
        if name not in self.vars:
            self.vars[name] = len(self.vars)
        return self.vars[name]

    # expression classification: returns ("fresh",) | ("alias", [names]) | ("bind", origin)
    def classify(self, e):
        if isinstance(e, ast.Name):
            if e.id in GLOBAL_NAMES and e.id not in self.assigned:
                return ("bind", "global")
            return ("alias", [e.id])
        if isinstance(e, ast.Attribute):
            if e.attr in CACHE_ATTRS:
                return ("bind", "cache")
            r = root_name(e)
            if r is None:
                return self.classify_unknown(e)
            if e.attr in ("T", "real", "imag", "array", "_line", "_plane", "flat") or True:
                return ("alias", [r])
        if isinstance(e, ast.Subscript):
            r = root_name(e)
            if isinstance(e.value, ast.Attribute) and e.value.attr in CACHE_ATTRS:
                return ("bind", "cache")
            if r is None:
                return self.classify_unknown(e)
            # basic indexing gives a view; an index containing a list literal is advanced indexing and copies; for index
            # expressions given by names (integer? mask?) it is not decidable here: conservatively a view
            elts = e.slice.elts if isinstance(e.slice, ast.Tuple) else [e.slice]
            if any(isinstance(x, (ast.List, ast.ListComp)) for x in elts):
                return ("fresh",)
            return ("alias", [r])
        if isinstance(e, (ast.BinOp, ast.UnaryOp, ast.Compare, ast.BoolOp, ast.Constant, ast.JoinedStr, ast.ListComp, ast.GeneratorExp, ast.Dict, ast.Set,
                          ast.SetComp, ast.DictComp, ast.Lambda)):
            return ("fresh",)
        if isinstance(e, (ast.List, ast.Tuple)):
            # a container of references: alias of every name inside (np.broadcast_arrays(*[...]) etc.)
            ns = [n for n in names_in(e)]
            return ("alias", ns) if ns else ("fresh",)
        if isinstance(e, ast.IfExp):
            a, b = self.classify(e.body), self.classify(e.orelse)
            ns = []
            for c in (a, b):
                if c[0] == "alias":
                    ns += c[1]
                elif c[0] == "bind":
                    return c
            return ("alias", ns) if ns else ("fresh",)
        if isinstance(e, ast.Call):
            cn = call_name(e)
            if cn in FRESH_CALLS or cn.split(".")[-1] in FRESH_CALLS and not isinstance(e.func, ast.Attribute):
                return ("fresh",)
            if cn in ALIAS_CALLS:
                cs = [self.classify(a) for a in (e.args if cn in ("np.broadcast_arrays", "np.broadcast", "cast") else e.args[:1])]
                if cn == "cast":
                    cs = [self.classify(e.args[-1])]
                ns = [n for c in cs if c[0] == "alias" for n in c[1]]
                binds = [c for c in cs if c[0] == "bind"]
                if binds:
                    return binds[0]
                return ("alias", ns) if ns else ("fresh",)
            if isinstance(e.func, ast.Attribute):
                m = e.func.attr
                recv = e.func.value
                if m == "copy" and isinstance(recv, ast.Attribute) and recv.attr == "array":
                    return ("fresh",)
                if m == "astype" and any(kw.arg == "copy" and isinstance(kw.value, ast.Constant) and kw.value.value is False for kw in e.keywords):
                    return self.classify(recv)       # astype(..., copy=False) may return the array itself
                if m in FRESH_METHODS:
                    return ("fresh",)
                if m in ALIAS_METHODS:
                    if m in ("from_tensor", "from_array"):
                        return self.classify(e.args[0]) if e.args else ("fresh",)
                    return self.classify(recv)
                if cn.startswith("np.") or cn.startswith("math."):
                    return ("fresh",) if cn in FRESH_CALLS else ("alias", names_in(e))
            return self.classify_unknown(e)
        return self.classify_unknown(e)

    def classify_unknown(self, e):
        ns = names_in(e)
        return ("alias", ns) if ns else ("fresh",)

    def assign(self, target, value):
        """IR for `target = value` (target a Name / Tuple of Names)"""
        out = []
        if isinstance(target, ast.Tuple):
            for t in target.elts:
                out += self.assign(t, value)
            return out
        if isinstance(target, ast.Starred):
            return self.assign(target.value, value)
        if not isinstance(target, ast.Name):
            return out
        c = self.classify(value)
        x = self.v(target.id)
        if c[0] == "fresh":
            out.append(f".fresh {x}")
        elif c[0] == "bind":
            out.append(f".bind {x} .{c[1]}")
        else:
            ns = [n for n in c[1] if n in self.vars or n in self.params or n in GLOBAL_NAMES]
            if not ns:
                out.append(f".fresh {x}")
            elif len(ns) == 1:
                out.append(self.alias_stmt(x, ns[0]))
            else:
                # may alias any of them: choice
                alts = [self.alias_stmt(x, n) for n in ns]
                s = alts[0]
                for a in alts[1:]:
                    s = f".choice ({s}) ({a})"
                out.append(s)
        return out

    def alias_stmt(self, x, n):
        if n in GLOBAL_NAMES and n not in self.assigned and n not in self.params:
            return f".bind {x} .global"
        return f".alias {x} {self.v(n)}"

    def write(self, node):
        """IR for an in-place write through the root name of `node`"""
        r = root_name(node)
        if r is None or r in ("kwargs",):
            return []          # keyword dictionaries, not arrays
        if r == "out" and r in self.params:
            return []          # numpy-style `out=` parameter: writing into it is the documented contract of the function
        self.writes += 1
        if r in GLOBAL_NAMES and r not in self.assigned and r not in self.params:
            x = self.v("$global")
            return [f".bind {x} .global", f".write {x}"]
        if isinstance(node, ast.Attribute) and node.attr in CACHE_ATTRS or (isinstance(node, ast.Subscript) and isinstance(node.value, ast.Attribute) and node.value.attr in CACHE_ATTRS):
            return []        # `self._cache[size] = array` inserts a key into the dict; it does not write into a cached array
        return [f".write {self.v(r)}"]

    def block(self, stmts):
        out = []
        for s in stmts:
            out += self.stmt(s)
        return out

    def seq(self, items):
        items = [i for i in items if i]
        if not items:
            return ".skip"
        s = items[-1]
        for i in reversed(items[:-1]):
            s = f".seq ({i}) ({s})"
        return s

    def stmt(self, s):
        if isinstance(s, ast.Assign):
            out = []
            for t in s.targets:
                if isinstance(t, ast.Subscript):
                    out += self.write(t)
                elif isinstance(t, ast.Attribute):
                    # self.array = ..., result._plane = ...: rebinding an attribute of an object, not an in-place array write;
                    # rebinding an attribute of an ARGUMENT would be a mutation of the argument: flagged
                    r = root_name(t)
                    if r is not None and self.is_fresh_object(r):
                        if t.attr == "array" and isinstance(t.value, ast.Name):
                            # the buffer of a Tensor-like object is its `array`: rebinding it re-targets the object
                            out += self.assign(ast.Name(id=r, ctx=ast.Store()), s.value)
                    elif (r in self.params and r != "self") or (r == "self" and self.fn.name not in ("__init__", "__new__")):
                        self.writes += 1
                        out += [f".write {self.v(r)}"]
                else:
                    out += self.assign(t, s.value)
            out += self.calls_out(s.value)
            return out
        if isinstance(s, ast.AnnAssign) and s.value is not None:
            return self.assign(s.target, s.value) + self.calls_out(s.value)
        if isinstance(s, ast.AugAssign):
            out = self.calls_out(s.value)
            if isinstance(s.target, ast.Subscript):
                return out + self.write(s.target)
            if isinstance(s.target, ast.Name):
                if s.target.id in self.scalars:
                    return out
                self.writes += 1
                return out + [f".write {self.v(s.target.id)}"]
            if isinstance(s.target, ast.Attribute):
                self.writes += 1
                return out + [f".write {self.v(root_name(s.target) or '$unknown')}"]
            return out
        if isinstance(s, ast.Expr):
            return self.calls_out(s.value)
        if isinstance(s, ast.Return) and s.value is not None:
            return self.calls_out(s.value)
        if isinstance(s, ast.If):
            a, b = self.seq(self.block(s.body)), self.seq(self.block(s.orelse))
            pre = self.calls_out(s.test)
            return pre + ([f".choice ({a}) ({b})"] if (a != ".skip" or b != ".skip") else [])
        if isinstance(s, (ast.For, ast.While)):
            pre = []
            if isinstance(s, ast.For):
                pre = self.assign(s.target, s.iter)
            body = self.seq((self.assign(s.target, s.iter) if isinstance(s, ast.For) else []) + self.block(s.body))
            orelse = self.block(s.orelse)
            return pre + ([f".loop ({body})"] if body != ".skip" else []) + orelse
        if isinstance(s, ast.Try):
            body = self.seq(self.block(s.body))
            alts = [self.seq(self.block(h.body)) for h in s.handlers]
            out = body
            for a in alts:
                out = f".choice ({out}) (.seq ({body}) ({a}))"
            return [out] + self.block(s.orelse) + self.block(s.finalbody)
        if isinstance(s, ast.With):
            return self.block(s.body)
        return []

    def is_fresh_object(self, name):
        return name in self.fresh_objects

    def calls_out(self, e):
        """writes through `out=` keywords anywhere inside an expression"""
        out = []
        for n in ast.walk(e):
            if isinstance(n, ast.Call):
                for kw in n.keywords:
                    if kw.arg == "out" and not (isinstance(kw.value, ast.Constant) and kw.value.value is None):
                        out += self.write(kw.value)
        return out

    def translate(self):
        fn = self.fn
        self.params = [a.arg for a in fn.args.posonlyargs + fn.args.args + fn.args.kwonlyargs]
        if fn.args.vararg:
            self.params.append(fn.args.vararg.arg)
        if fn.args.kwarg:
            self.params.append(fn.args.kwarg.arg)
        self.assigned = {n.id for node in ast.walk(fn) for n in ast.walk(node) if isinstance(node, (ast.Assign, ast.AugAssign, ast.For, ast.AnnAssign))
                         and isinstance(n, ast.Name) and isinstance(n.ctx, ast.Store)}
        # names that are obviously integer / boolean scalars (loop counters, ranks, sizes)
        self.scalars = set()
        for node in ast.walk(fn):
            if isinstance(node, ast.Assign) and len(node.targets) == 1 and isinstance(node.targets[0], ast.Name):
                v = node.value
                if isinstance(v, ast.Constant) and isinstance(v.value, (int, float, bool)) or (isinstance(v, ast.Call) and call_name(v) in ("len", "int", "sum", "max", "min")):
                    self.scalars.add(node.targets[0].id)
        self.scalars |= {"i", "j", "k", "n_sliced_dims", "tensor_rank", "power", "axis", "loc"} & (set(self.params) | self.assigned)
        # objects created in this function by self.copy() / cls.__new__ are fresh OBJECTS (their attributes may be rebound)
        self.fresh_objects = set()
        for node in ast.walk(fn):
            if isinstance(node, ast.Assign) and len(node.targets) == 1 and isinstance(node.targets[0], ast.Name) and isinstance(node.value, ast.Call):
                cn = call_name(node.value)
                if cn.endswith(".copy") or cn.endswith("__new__") or cn.split(".")[-1] in FRESH_CALLS or cn.startswith("super().__apply__") or cn.startswith("super()"):
                    self.fresh_objects.add(node.targets[0].id)
        pre = []
        for p in self.params:
            pre.append(f".bind {self.v(p)} .input")
        body = self.block(fn.body)
        return self.seq(pre + body)


def functions(tree, prefix=""):
    for node in tree.body:
        if isinstance(node, ast.FunctionDef):
            yield prefix + node.name, node
        elif isinstance(node, ast.ClassDef):
            for sub in node.body:
                if isinstance(sub, ast.FunctionDef):
                    yield prefix + node.name + "." + sub.name, sub


# the one documented mutator of the library
EXCLUDED = {"geometer/base.py:Tensor.__setitem__",          # in-place item assignment on tensors (documented)
            "geometer/base.py:TensorDiagram.add_node", "geometer/base.py:TensorDiagram.add_edge"}   # mutators of the diagram object itself


def regenerate(repo, gendir):
    sites = []
    report = {}
    for root, _, files in os.walk(os.path.join(repo, "geometer")):
        for f in sorted(files):
            if not f.endswith(".py"):
                continue
            path = os.path.join(root, f)
            rel = os.path.relpath(path, repo)
            tree = ast.parse(open(path).read())
            for qual, fn in functions(tree):
                key = f"{rel}:{qual}"
                if key in EXCLUDED:
                    continue
                # overload stubs
                if len(fn.body) == 1 and isinstance(fn.body[0], ast.Expr):
                    continue
                ir = FunctionIR(key, fn)
                try:
                    term = ir.translate()
                except Exception as e:  # noqa: BLE001
                    report[key] = f"NOT translated: {type(e).__name__}: {e}"
                    continue
                if ir.writes:
                    sites.append((key, len(ir.vars), term, ir.writes))
    lines = ["/- GENERATED by tools/effects.py from the source text of /repo (in-place array write sites); do not edit. -/",
             "import Geo.Effects", "namespace Geo.Gen", "open Geo.Effects", "",
             "/-- (function, number of variables, IR of the def-use structure around its in-place writes) -/",
             "def writeSites : List (String × Nat × Stmt) := ["]
    for i, (key, nv, term, nw) in enumerate(sites):
        lines.append(f'  ("{key}", {nv}, {term})' + ("," if i + 1 < len(sites) else ""))
    lines += ["]", "", "end Geo.Gen", ""]
    text = "\n".join(lines)
    p = os.path.join(gendir, "Effects.lean")
    if not os.path.exists(p) or open(p).read() != text:
        open(p, "w").write(text)
    report["Effects.lean:functions-with-write-sites"] = len(sites)
    report["Effects.lean:write-sites"] = sum(s[3] for s in sites)
    return report


if __name__ == "__main__":
    import json
    here = os.path.dirname(os.path.abspath(__file__))
    print(json.dumps(regenerate(os.environ.get("GEOMETER_REPO", "/repo"), os.path.join(here, "..", "lean", "Geo", "Gen")), indent=1))
