#!/usr/bin/env python3
"""(Re)write MANIFEST.json from the table below — one place to keep it valid."""
import json, os
VERIF = os.path.dirname(os.path.dirname(os.path.abspath(__file__)))
ALL = [f"C{i:02d}" for i in range(1, 21)]
NOTE_COMMON = ("Trusted: Lean kernel + propext/Classical.choice/Quot.sound; translator B (tools/trace.py) that records the einsum calls; "
               "numpy.einsum semantics (Geo.evalEinsum); float64 exactness on lattice inputs; harness/driver parser. ")
CLAIMED = {
    "C01": ("Lean 4 theorems (simp+ring over any commutative ring) about the einsum calls recorded from the running library (regenerated every run) for all 12 join/meet scenarios; correspondence with the exact Lean dispatcher model",
            "Kernel-checked incidence / antisymmetry / closed-form / rank-one (Blinn) / round-trip theorems stated on the diagrams the code actually builds (lean/Geo/Gen/Diagrams.lean is regenerated from /repo on every run), for all coordinate vectors; the dispatcher (branch selection, arg-max row/column, collections) is tied by a differential run against the exact model (Gaussian rationals) incl. every argument permutation, collections and round trips.",
            NOTE_COMMON + "Uniqueness of the span is proved in the plane (2x2 minors) and via closed forms in space; collections rely on C04's T04_2.",
            "DESIGN.md 7/C01"),
    "C02": ("Lean 4 theorems: traced contractions vanish on dependent arguments, entries are the maximal minors, coplanarity scalar = ±4 det, model dispatcher raises iff a position is zero; correspondence on a degenerate-first stream and exhaustive small lattices",
            "Kernel-checked: dependent arguments give the zero tensor for every traced scenario (no silent wrong answer), entries are ± the minors (general position never raises), coplanarity scalar = ±4·det[a,b,c,d], error/mask of the dispatcher model; tied to the code by the regenerated diagrams and by differential runs that compare exception class, mask and value (quick: random degenerate stream; thorough: exhaustive lattices).",
            NOTE_COMMON + "Tolerance 1e-8 is modelled as exact zero (agrees on exactly representable inputs of moderate size).",
            "DESIGN.md 7/C02"),
    "C04": ("Lean 4 theorem T04_2 (induction over summed labels, any diagram): einsum at a collection position = einsum of the slices; correspondence comparing every collection call position-by-position with the model on single objects; element access classes/attributes",
            "Kernel-checked general elementwise theorem for the einsum issued by TensorDiagram.calculate (all diagrams, all ranks, broadcasting of operands with fewer collection axes); the vectorised special branches and __getitem__/__iter__ are tied by differential runs: impl(collection)[pos] vs model(single objects at pos), masks, element class and attributes (is_dual, pdim, cached line/plane).",
            NOTE_COMMON + "Size-1 broadcasting inside an axis and the label bookkeeping of calculate (T04.1) are covered by the C05 correspondence, not by a theorem.",
            "DESIGN.md 7/C04"),
    # id: (technique, level text, level note, design ref)
    "C06": ("Lean 4: traced Tensor.__apply__ diagrams compute t / t^-T / t^-T X t^-1 / t X t^T (simp+ring); the four actions are group actions for every n (Mathlib matrices); powers; correspondence of apply/compose/pow/inverse with the exact model + group laws on the implementation",
            "Kernel-checked: what each recorded apply-diagram computes (points, hyperplanes, quadrics, dual quadrics, 3-D lines, t**3), and that these four actions satisfy (s t)x = s(t x), 1x = x, t^-1(t x) = x for all invertible matrices in every dimension, t^(k+1) = t t^k, (t^-1)^k = (t^k)^-1. Tied to the code by the regenerated diagrams and a differential run over all object kinds (incl. polytopes with cached line/plane), collections of transformations, exponents -3..5 and chains.",
            NOTE_COMMON + "LAPACK inverse is trusted and compared with the exact inverse on every sample; polytope caches are checked by correspondence only.",
            "DESIGN.md 7/C06"),
    "C07": ("Lean 4: incidence / quadric membership / tangency invariance for every n (Mathlib), inverse-free cofactor identities for join/meet in dimension 3 and 4 (ring), brackets scale by det (cross ratio); correspondence t*join = join(t*..) on all 12 scenarios, contains/is_tangent/crossratio before vs after, polytope vertices",
            "Kernel-checked: (t^-T l).(t p) = l.p, (tp)^T(t^-T X t^-1)(tp) = p^T X p, tangency dual; (ta)x(tb) = cof(t)(axb), cof(t)^T t = det t, det4 multiplicative, traced 3-point join = ±det4, all 3x3 brackets scale by det t so cross ratios are unchanged. Tied by differential runs with generic (non-isometric) matrices.",
            NOTE_COMMON,
            "DESIGN.md 7/C07"),
    "C08": ("Lean 4: constructor models (translation, scaling, rotation 2-D/3-D Rodrigues as written in the code, Householder reflection, from_points) meet their definitions (field_simp/ring/linear_combination with sympy-found, kernel-checked certificates; Real.cos_add); correspondence of every constructor with the exact model matrix on Pythagorean data",
            "Kernel-checked: translation adds v and fixes infinity; rotation(a) is ccw and additive (over R via cos_add/sin_add); rotation(a,axis): R^T R = 1, det R = 1, R a = a, tr R = 1+2c for unit axes and c^2+s^2 = 1; reflection = classical mirror image (2-D, 3-D); from_points maps the frame (every n). Tied by a differential run: exact model matrices vs the implementation (axes in all octants, axis points of any homogeneous scale, oblique mirrors, non-affine frames, from_points_and_conics).",
            NOTE_COMMON + "cos/sin/atan2/norm trusted (few ulp); from_points_and_conics is decided by correspondence only.",
            "DESIGN.md 7/C08"),
    "C09": ("Lean 4: the bracket expressions of _point_dist and crossratio are regenerated from operators.py (ast translator) and evaluated at I, J over Gaussian numbers (simp with re/im lemmas + ring): dist^2 = Cartesian distance^2, Laguerre numerator/denominator; foot-point lemmas; correspondence with exact S-layer values (dist^2, cos/sin 2θ)",
            "Kernel-checked about the regenerated formulas: [P,Q,I][P,Q,J] and [P,I,J][Q,I,J] in closed form for all representatives, (4√rad/den)² = |p-q|², symmetry, foot of the perpendicular at distance (h·p)²/|n|² (2-D, 3-D), cr(b,c,I,J;a) = u v̄/(ū v). Tied by differential runs against the exact S-layer (all kind pairs, both argument orders, incident pairs, points at infinity, collections, segments, polygons, polyhedra, 3-D angles under translation).",
            NOTE_COMMON + "The 3-D reduction through an orthonormal basis (orth / basis_matrix), sqrt, log and the kind dispatch are decided by correspondence only.",
            "DESIGN.md 7/C09"),
    "C10": ("Lean 4: the I/J construction of LineTensor.mirror (six cross products over Gaussian numbers) = 2i z (a²+b²) x classical mirror image; S-layer lemmas (involution, midpoint = foot, normal direction; 2-D and 3-D); is_perpendicular bracket identity on regenerated formulas; correspondence of project/mirror/perpendicular/parallel/predicates/representatives with the exact S-layer",
            "Kernel-checked: mechanism model of the 2-D mirror equals a non-zero complex multiple of the Cartesian mirror image for every line and point representative; the Cartesian mirror is an involution whose midpoint with p is the foot; num+den of the perpendicularity cross ratio = 2 u·v. Tied by differential runs over every line/plane orientation (incl. x=0, through the origin, far from the origin), points on and off, 3-D lines, predicates on constructed positive/negative instances, base_point/direction/basis_matrix/general_point, collections with mixed on/off.",
            NOTE_COMMON + "3-D constructions through _matrix_transform / absolute conic, QR/SVD orthonormality and the predicates' tolerance are decided by correspondence only (orthonormality verified numerically per sample). One recorded finding (KF-C10-1).",
            "DESIGN.md 7/C10"),
    "C11": ("Lean 4: regenerated cross-ratio determinants and quotient evaluated on p_i = a + x_i b: closed form (on a line via Gram coordinates, and from a fifth point), the five symmetries, harmonic parameter, complete-quadrilateral construction = -det[o,a,b]^3 (λa - μb) (ring / field_simp); correspondence with exact parameter values",
            "Kernel-checked about the code's own determinants: value = (x1-x3)(x2-x4)/((x1-x4)(x2-x3)) cross-multiplied, the Gram determinant / det[o,a,b] cancels; symmetries of the closed form; cr = -1 for the harmonic parameter; the quadrilateral construction returns the harmonic conjugate for any auxiliary point. Tied by differential runs (points 2-D/3-D, from a point, concurrent lines with vertices on axes / at infinity, coaxial planes, invariance under random projective maps, NotCollinear / NotConcurrent, harmonic_set incl. special lines).",
            NOTE_COMMON + "Coaxial planes and 3-D harmonic_set go through basis matrices (correspondence only).",
            "DESIGN.md 7/C11"),
    "C12": ("Lean 4: verified may-point-to checker for an alias/effect IR (soundness by induction over executions: any branches, unbounded loop iterations, any aliasing) applied by `decide +kernel` to the write-site IR regenerated from geometer/**.py on every run; history differential with byte-wise snapshot monitor of all operands, module constants and caches",
            "Kernel-checked: if the checker accepts a function's IR then every execution writes only into buffers allocated inside the function (theorem T12_2_check_sound), and it accepts all 26 functions with in-place array writes of the current tree (T12_2_all_write_sites_local, regenerated IR). Tied dynamically: random histories of ~70 public operations on a shared pool with a snapshot comparison after every call and re-asking of every query at the end and on a fresh pool (shrunk to the culprit).",
            "Trusted: Lean kernel + standard axioms; the IR extraction and its alias/fresh classification table (tools/effects.py), cross-checked by the dynamic monitor; numpy view/copy semantics; Tensor.__setitem__, TensorDiagram.add_node/add_edge and `out=` parameters are documented mutators and excluded.",
            "DESIGN.md 7/C12"),
    "C13": ("Lean 4: the bracket formula of Conic.from_points is regenerated from curve.py and proved to vanish on all five points (ring, any commutative ring); Ellipse / Sphere matrix = Cartesian locus, centre / radius read-back (field_simp); correspondence: every constructor on lattice / Pythagorean data with exact on/off decisions from the S-layer quadratic form",
            "Kernel-checked about the code's own formula: pᵀ(m+mᵀ)p = 0 for p in {a,b,c,d,e}; the assembled ellipse / sphere matrices cut out exactly ((x-cx)/hr)²+((y-cy)/vr)² = 1 resp. |x-c|² = r². Tied by differential runs: from_points / from_crossratio / from_tangent (incl. tangents through the origin) / from_foci; Circle, Ellipse, Sphere with centres of any homogeneous scale (points on the locus contained, near misses rejected, centre/radius/foci/area/volume); Cone and Cylinder with rational orthonormal frames in all octants.",
            NOTE_COMMON + "from_tangent, from_foci, foci, Cone/Cylinder alignment and the measures are decided by correspondence only (csqrt/eigvalsh/rotation trusted).",
            "DESIGN.md 7/C13"),
    "C14": ("Lean 4: regenerated hat_matrix tables = ε-skew matrix; reduction uᵀ(mᵀAm)u = (u×l)ᵀA(u×l); decomposition of ghᵀ+hgᵀ (adjugate = -(g×h)(g×h)ᵀ, B + hat(±g×h) = 2ghᵀ / 2hgᵀ); secant identity via linear_combination; tangent/polar/dual facts for every n (Mathlib); correspondence with constructed rational intersection points",
            "Kernel-checked: the degenerate dual conic of a line consists of the line's points on the quadric; its decomposition returns exactly the two components; a secant through two points of the quadric yields -2(u·p1)(u·p2)(p1ᵀAp2); tangent at a point contains it and is tangent, pole/polar reciprocity, dual of dual (all dimensions). Tied by differential runs: secants through two constructed rational points (exactly these two), tangents (contact point only), generic / missing / at-infinity lines (points on both, scale-free), circles, spheres, cones, line pairs, plane pairs; tangent from outside; dual and is_tangent for every quadric class, also after moving the quadric.",
            NOTE_COMMON + "The 3-D projection step (basis_matrix) and csqrt are decided by correspondence only.",
            "DESIGN.md 7/C14"),
    "C15": ("Lean 4: det(ghᵀ+hgᵀ) = 0 and components via T14.2; pencil cubic coefficients regenerated from curve.py: det(xA+B) = αx³+βx²+γx+δ (ring); common points lie on the degenerate member and hence on a component (2(g·p)(h·p)); plane-pair minors identity explaining finding KF-C15-1; correspondence over all small line pairs, random plane pairs, conic pairs through four known common points",
            "Kernel-checked about the code's own coefficients: the cubic whose root selects the degenerate member is det(xA+B); every common point of two conics lies on a component of that member, so intersecting one conic with both components finds all of them (at most four). Tied by differential runs: from_lines over all pairs in [-2,2]³ (thorough), from_planes (recorded finding: ~90% fail), non-degenerate not degenerate, cones raise NotReducible (also in mixed collections), conic pairs through 4 lattice points (sound + complete + ≤4), tangent / crossing circles, degenerate operand in either position.",
            NOTE_COMMON + "roots() is C20; components in 3-D carries the known finding KF-C15-1.",
            "DESIGN.md 7/C15"),
    "C16": ("Lean 4: the arithmetic of SegmentTensor.contains and Triangle.contains is regenerated from shapes.py (ast translator) and proved: z = -tD, w = -D (Gram determinant), interval test <=> 0<=t<=1; barycentric determinants = alpha,beta,gamma x det, sign test <=> closed triangle (ordered fields, linarith); polygon membership: correspondence against an independent exact even-odd specification, exhaustive over lattice polygons in the thorough tier",
            "Kernel-checked about the code's own expressions, for every ordered field: the segment test decides 0<=t<=1 whenever the endpoints are independent (Gram determinant > 0 by a Lagrange identity), the triangle test decides alpha,beta,gamma>=0 for both orientations, boundary included. Polygon.contains (ray casting with vertex/edge special cases, 3-D projection) is decided by differential runs against Spec.inPolygon (a different algorithm) on every lattice and half-lattice query point, all rotations/reversals of the cycle, embedded copies in 3-space, points off the plane and at infinity.",
            NOTE_COMMON + "The polygon crossing rule itself is not proved (exhaustive enumeration on the 4x4 lattice instead, labelled as a test); that even-odd parity is the closed region of a simple polygon is classical.",
            "DESIGN.md 7/C16"),
    "C17": ("Lean 4: fan sum = shoelace sum for every number of vertices (induction over the vertex list), affine maps scale fan terms by det, Binet-Cauchy for the 3-D projection, Cayley-Menger for a triangle, midpoint as harmonic conjugate; correspondence of area/centroid/volume/length/midpoint/circumcenter/regular polygons/cuboids/== with exact S-layer values incl. moved objects",
            "Kernel-checked: the summation the code performs (det[v0,vi,vi+1]) equals the shoelace formula for all n; isometry invariance of each term; projected area = n.(vector area); CM = 4(|u|²|v|²-(u.v)²). Tied by differential runs (roll/flip, far from the origin, embedded in 3-space, after rotations+translations applied to the object so that cached planes must follow, concave polygons for the centroid, tetrahedra, Cayley-Menger triangles, RegularPolygon at arbitrary centres, polyhedra equality under face reordering).",
            NOTE_COMMON + "centroid, circumcenter, RegularPolygon and == are decided by correspondence only.",
            "DESIGN.md 7/C17"),
    "C18": ("Lean 4: soundness/completeness lemmas for 'meet of supporting subspaces filtered by membership' (common point of two lines is their meet; parallel -> at infinity; collinear -> zero vector) on top of C01/C16; correspondence with exactly computed common points (Lean meets + S-layer membership), exhaustive over lattice segment pairs in the thorough tier",
            "Kernel-checked: a point on two distinct coplanar lines is proportional to their cross product, the cross product lies on both, parallel lines meet at infinity, identical lines give the zero vector (dropped by is_zero). Tied by differential runs: every pair of segments on the 3x3 lattice (thorough), 3-D crossing/skew/touching segments, segment x line/plane incl. parallel, lattice polygons x lines/segments (through vertices, along edges, missing), pierced 3-D polygons, in-plane lines, cuboids x lines (faces, edges, vertices, diagonal, miss) also after .area; each common point exactly once.",
            NOTE_COMMON + "Counting statements for convex bodies are decided by correspondence only.",
            "DESIGN.md 7/C18"),
    "C19": ("Lean 4: model of _get_index_mapping/normalize_index vs an independent model of NumPy's indexing semantics: complete kernel-evaluated table (<=3 components, rank<=4) on the agreeing fragment + kernel-checked counterexamples outside it; type read-off and transpose lemmas (induction-free list reasoning); affine point arithmetic; correspondence: arithmetic with all operand pairings / ufunc routes, exhaustive index expressions (thorough)",
            "Kernel-checked: on the fragment (no >=2-D mask, no integer or None together with an array index) the code's axis mapping equals NumPy's for every index expression of <=3 components and rank <=4 (finite table, labelled as such), is provably different on three witnesses outside it (known findings KF-C19-1/2/3, replayed on the implementation every run); index types are read off the mapping; transpose types; point +/- is affine with points at infinity as directions. Tied by differential runs: value = numpy's own array[index], types = reference model (itself cross-checked against numpy's result ndim), arithmetic for Tensor/Point/Quadric x tensor/array/list/scalar x operator/ufunc.",
            "Trusted: Lean kernel + standard axioms; numpy's array[index] as value reference; the harness. The unbounded-length statement for basic indexing is not proved (finite table only); elementwise arithmetic on arrays is decided by correspondence.",
            "DESIGN.md 7/C19"),
    "C20": ("Lean 4: formulas, tables and branch conditions of det/adjugate/inv/hat_matrix/roots are regenerated from utils/math.py by an ast translator and proved against Mathlib's Matrix.det/adjugate and the cubic identities (ring, field_simp, linear_combination with kernel-checked certificates); correspondence over n=2..5 and batch sizes around the thresholds",
            "Kernel-checked about the code's own text: det2/Sarrus = Matrix.det, 2x2 gather tables = Matrix.adjugate, slice sign flips = (-1)^(i+j) for all n, thresholds, Laplace model A adj A = det A I (n=2,3,4) and for every n in Mathlib, hat_matrix(x) v = v x x, roots: linear, quadratic (with Vieta), depressed-cubic reduction, Cardano and trigonometric branches all three roots, triple root. Tied additionally by a differential run (int/float/complex, singular matrices, batch 1/2/63/64/65, prescribed roots incl. repeated).",
            "Trusted: Lean kernel + standard axioms; translator A (tools/extract.py); LAPACK/SVD (null_space, orth and the LAPACK branches of det/inv are decided by correspondence only: exact rank from the model, A Q = 0, orthonormality); cbrt/sqrt/cos/arccos enter the theorems as numbers constrained by their defining identities.",
            "DESIGN.md 7/C20"),
    "C05": ("Lean 4 proofs about a hand-written model of TensorDiagram/LeviCivita/KroneckerDelta (induction over arbitrary op sequences; sign of permutations for all n via Mathlib) + correspondence (differential, exact integers) of model vs implementation",
            "Machine-checked theorems (Lean 4 kernel) about the executable model of add_node/add_edge/calculate and of the epsilon/delta constructions, for every diagram / every n; the model is tied to /repo's working tree on every run by an in-process differential run on random and exhaustively enumerated edge sequences.",
            "Trusted: Lean kernel + propext/Classical.choice/Quot.sound, numpy.einsum semantics, CPython set order for small ints, the harness and driver parser. delta(n,p) is a complete kernel-evaluated table for p<=n<=4 except p=n=4.",
            "DESIGN.md 7/C05"),
}
def main():
    checks = []
    for pid in ALL:
        if pid not in CLAIMED:
            continue
        tech, text, note, ref = CLAIMED[pid]
        checks.append({
            "property_id": pid,
            "quick_cmd": f"/venv/bin/python tools/check.py --property {pid} --tier quick",
            "thorough_cmd": f"/venv/bin/python tools/check.py --property {pid} --tier thorough",
            "evidence_file": f"evidence/{pid}.json",
            "replay_cmd_template": f"/venv/bin/python tools/check.py --property {pid} --replay {{path}}",
            "engine": "lean4-model+correspondence",
            "level_claimed": {"category": "proof", "text": text, "design_ref": ref},
            "level_note": note,
            "technique": tech,
        })
    m = {
        "version": 1,
        "setup_cmd": "/venv/bin/python tools/setup.py",
        "hooks": {"guard": "GEOMETER_VERIF", "enable": "no hooks in /repo are needed: tracing and purity monitoring wrap methods from the harness process (GEOMETER_VERIF=1 is exported by tools/check.py for completeness)",
                  "baseline_off_cmd": "cd /repo && /venv/bin/python -m pytest -ra -q -p no:cacheprovider --timeout=900 --continue-on-collection-errors",
                  "source_commits": [], "add_only": True},
        "engines": [{"name": "lean4-model+correspondence", "path": "lean/ + tools/", "serves_properties": sorted(CLAIMED),
                     "kind_free_text": "Lean 4 (4.33.0 + Mathlib) theorems about an executable model; translators regenerate Lean from the source; compiled model driver compared with the implementation in-process"}],
        "checks": checks,
        "not_applicable": [{"property_id": p, "reason": "check not built yet in this round (planned: DESIGN.md section 7); not claimed"} for p in ALL if p not in CLAIMED],
        "notes": "All checks: tools/check.py --property <id>. Exit 2 = infrastructure problem, never a verdict.",
    }
    json.dump(m, open(os.path.join(VERIF, "MANIFEST.json"), "w"), indent=1)
if __name__ == "__main__":
    main()
