"""Shared pieces of the correspondence harness: exact geometric objects, generators, conversion to and
from the implementation's classes, error enum, position-wise projective comparison."""
from __future__ import annotations

import itertools
from fractions import Fraction

import numpy as np

from proto import ET, dec_bools, dec_tens, proj_close

# ----------------------------------------------------------------------------- exact helpers

def perm_sign(p):
    s = 1
    p = list(p)
    for i in range(len(p)):
        for j in range(i + 1, len(p)):
            if p[i] > p[j]:
                s = -s
    return s


def gmul(a, b):
    return (a[0] * b[0] - a[1] * b[1], a[0] * b[1] + a[1] * b[0])


def gadd(a, b):
    return (a[0] + b[0], a[1] + b[1])


def G(x):
    if isinstance(x, tuple):
        return (Fraction(x[0]), Fraction(x[1]))
    return (Fraction(x), Fraction(0))


def pluecker(p, q):
    """L^{kl} = eps^{ijkl} p_i q_j for two exact 4-vectors (lists of Gaussian pairs)"""
    L = [[(Fraction(0), Fraction(0)) for _ in range(4)] for _ in range(4)]
    for perm in itertools.permutations(range(4)):
        i, j, k, l = perm
        s = perm_sign(perm)
        t = gmul(p[i], q[j])
        L[k][l] = gadd(L[k][l], (s * t[0], s * t[1]))
    return L


# ----------------------------------------------------------------------------- objects

class Obj:
    """exact projective object. kind: P (point), L (line), E (plane); data: ET with shape free+tensor shape"""

    def __init__(self, kind, data: ET, nfree=0, cov=None):
        self.kind, self.data, self.nfree = kind, data, nfree
        self.cov = (kind == "P") if cov is None else cov
        self._impl = None

    @property
    def n(self):
        return self.data.shape[-1]

    def enc(self, ident):
        return f"{ident}|{self.kind}|{1 if self.cov else 0}|{self.nfree}|{self.data.enc()}"

    def impl(self):
        """the implementation object (cached: one Python object per Obj, so identity is preserved)"""
        if self._impl is None:
            import geometer as g
            a = self.data.numpy()
            if self.kind == "P":
                self._impl = g.Point(a) if self.nfree == 0 else g.PointCollection(a)
            elif self.kind == "L":
                if self.cov:
                    self._impl = (g.Line(a, covariant=True) if self.nfree == 0 else g.LineCollection(a, covariant=True))
                else:
                    self._impl = g.Line(a) if self.nfree == 0 else g.LineCollection(a)
            else:
                self._impl = g.Plane(a) if self.nfree == 0 else g.PlaneCollection(a)
        return self._impl

    def positions(self):
        return list(itertools.product(*[range(s) for s in self.data.shape[:self.nfree]]))

    def at(self, pos):
        """single object at a collection position (broadcast for singles)"""
        if self.nfree == 0:
            return self
        tshape = self.data.shape[self.nfree:]
        size = int(np.prod(tshape, dtype=int))
        flat = int(np.ravel_multi_index(pos[-self.nfree:], self.data.shape[:self.nfree]))
        return Obj(self.kind, ET(tshape, self.data.entries[flat * size:(flat + 1) * size]), 0, self.cov)

    def scaled(self, lam):
        lam = G(lam)
        return Obj(self.kind, ET(self.data.shape, [gmul(e, lam) for e in self.data.entries]), self.nfree, self.cov)

    def __repr__(self):
        return f"{self.kind}{'c' if self.cov and self.kind != 'P' else ''}[{self.nfree}]{self.data.enc()}"


def stack(objs, shape):
    """collection from single objects (row-major over `shape`)"""
    ents = []
    for o in objs:
        ents += o.data.entries
    return Obj(objs[0].kind, ET(tuple(shape) + objs[0].data.shape, ents), len(shape), objs[0].cov)


def classify_impl(x):
    """(kind, cov, nfree, array) of an implementation object"""
    from geometer.point import LineTensor, PlaneTensor, PointTensor
    kind = "P" if isinstance(x, PointTensor) else "L" if isinstance(x, LineTensor) else "E" if isinstance(x, PlaneTensor) else "?"
    return kind, x.tensor_shape[0] > 0, x.free_indices, x.array


ERRMAP = [("LinearDependenceError", "LinearDependence"), ("NotCoplanar", "NotCoplanar"), ("NotCollinear", "NotCollinear"),
          ("NotConcurrent", "NotConcurrent"), ("TensorComputationError", "TensorComputation"), ("NotReducible", "NotReducible"),
          ("IncidenceError", "Incidence"), ("NoIncidence", "NoIncidence"), ("IncompatibleShapeError", "IncompatibleShape"),
          ("GeometryException", "GeometryException"), ("LinAlgError", "LinAlg"), ("RecursionError", "Recursion"),
          ("NotImplementedError", "NotImplemented"), ("ValueError", "ValueError"), ("TypeError", "TypeError"),
          ("IndexError", "IndexError"), ("AttributeError", "AttributeError"), ("RuntimeError", "RuntimeError"),
          ("ZeroDivisionError", "ZeroDivision")]


def err_enum(e):
    names = [c.__name__ for c in type(e).__mro__]
    for cls, name in ERRMAP:
        if cls in names:
            return name
    return "Other:" + type(e).__name__


def call_impl(f, *args, **kw):
    """('ok', value) or ('err', enum, exception)"""
    import warnings
    try:
        with warnings.catch_warnings():
            warnings.simplefilter("ignore")
            return ("ok", f(*args, **kw))
    except RecursionError as e:
        return ("err", "Recursion", e)
    except Exception as e:  # noqa: BLE001
        return ("err", err_enum(e), e)


def compare_obj(ans, res, rtol=1e-9):
    """driver answer line vs implementation result of an object-valued op.
    returns None when they agree, else a short description"""
    a = ans.split(" ")
    if res[0] == "err":
        if a[0] != "err":
            return f"impl raised {res[1]} ({str(res[2])[:80]}), model returned {a[1] if len(a) > 1 else a}"
        if a[1] != res[1]:
            return f"impl raised {res[1]}, model raised {a[1]}"
        if a[1] == "LinearDependence":
            mask = dec_bools(a[2])
            iv = np.asarray(getattr(res[2], "dependent_values", True))
            if mask.shape != iv.shape or not np.array_equal(mask, iv.astype(bool)):
                return f"dependence mask differs: impl {iv.astype(int).tolist()} model {mask.astype(int).tolist()}"
        return None
    if a[0] != "ok":
        return f"model raised {a[1]}, impl returned {type(res[1]).__name__}"
    kind, cov, nfree, arr = classify_impl(res[1])
    if kind != a[1] or int(cov) != int(a[2]) or nfree != int(a[3]):
        return f"result class/type differs: impl {kind} cov={int(cov)} free={nfree}; model {a[1]} cov={a[2]} free={a[3]}"
    exp = dec_tens(a[4])
    if tuple(arr.shape) != exp.shape:
        return f"shape differs: impl {arr.shape} model {exp.shape}"
    nf = nfree
    tshape = exp.shape[nf:]
    size = int(np.prod(tshape, dtype=int))
    flat = np.asarray(arr).reshape((-1,) + tuple(tshape))
    for k in range(flat.shape[0]):
        e = ET(tshape, exp.entries[k * size:(k + 1) * size])
        if not proj_close(e, flat[k], rtol):
            return f"position {k}: impl {np.round(flat[k], 6).tolist()} not a multiple of model {e.enc()}"
    return None


def compare_mask(ans, res):
    a = ans.split(" ")
    if res[0] == "err":
        if a[0] == "err" and a[1] == res[1]:
            return None
        return f"impl raised {res[1]}, model {' '.join(a[:2])}"
    if a[0] != "ok":
        return f"model raised {a[1]}, impl returned {res[1]}"
    mask = dec_bools(a[1])
    iv = np.asarray(res[1])
    if mask.shape != iv.shape or not np.array_equal(mask, iv.astype(bool)):
        return f"booleans differ: impl {iv.astype(int).tolist()} model {mask.astype(int).tolist()}"
    return None


# ----------------------------------------------------------------------------- generators

class Gen:
    """type-directed generator of exact points / lines / planes, generic and degenerate"""

    def __init__(self, rng, lim=3, gaussian=0.15):
        self.rng, self.lim, self.gaussian = rng, lim, gaussian

    def coord(self, cplx=False):
        r = self.rng
        x = Fraction(r.randint(-self.lim, self.lim))
        if r.random() < 0.1:
            x = x / r.choice([2, 4])
        if cplx:
            return (x, Fraction(r.randint(-2, 2)))
        return (x, Fraction(0))

    def vec(self, n, cplx=False, inf=False):
        while True:
            v = [self.coord(cplx) for _ in range(n)]
            if inf:
                v[-1] = (Fraction(0), Fraction(0))
            if any(e != (0, 0) for e in v):
                return v

    def point(self, dim, cplx=None, inf=None):
        r = self.rng
        cplx = (r.random() < self.gaussian) if cplx is None else cplx
        finite = inf is False
        inf = (r.random() < 0.12) if inf is None else inf
        v = self.vec(dim + 1, cplx, inf)
        if not inf and (r.random() < 0.5 or (finite and v[-1] == (0, 0))):
            v[-1] = (Fraction(1), Fraction(0))
        return Obj("P", ET((dim + 1,), v))

    def hyper(self, dim, cplx=None):
        r = self.rng
        cplx = (r.random() < self.gaussian) if cplx is None else cplx
        v = self.vec(dim + 1, cplx, r.random() < 0.1)
        return Obj("L" if dim == 2 else "E", ET((dim + 1,), v))

    def line3(self, p=None, q=None):
        """contravariant 3-D line through two (generated) points"""
        while True:
            pp = p or self.point(3)
            qq = q or self.point(3)
            L = pluecker(pp.data.entries, qq.data.entries)
            flat = [e for row in L for e in row]
            if any(e != (0, 0) for e in flat):
                return Obj("L", ET((4, 4), flat)), pp, qq
            if p is not None and q is not None:
                return None, pp, qq

    def lincomb(self, objs, nonzero=True):
        """random linear combination of single objects of one kind (a dependent element)"""
        r = self.rng
        while True:
            cs = [Fraction(r.randint(-2, 2)) for _ in objs]
            if any(cs):
                break
        ents = []
        for k in range(len(objs[0].data.entries)):
            acc = (Fraction(0), Fraction(0))
            for c, o in zip(cs, objs):
                acc = gadd(acc, gmul(o.data.entries[k], (c, Fraction(0))))
            ents.append(acc)
        if nonzero and not any(e != (0, 0) for e in ents):
            return objs[0].scaled(2)
        return Obj(objs[0].kind, ET(objs[0].data.shape, ents), 0, objs[0].cov)

    def point_on(self, hyper_or_points):
        """a point in the span of given points"""
        return self.lincomb(hyper_or_points)

    def free_shape(self):
        r = self.rng.random()
        if r < 0.55:
            return ()
        if r < 0.65:
            return (1,)
        if r < 0.85:
            return (self.rng.randint(2, 4),)
        if r < 0.95:
            return (self.rng.randint(1, 2), self.rng.randint(1, 3))
        # three collection axes, the two leading ones of equal length (a transposition there would go unnoticed by shapes)
        return (2, 2, self.rng.randint(1, 2))
