#!/bin/bash
# usage: tools/seedtest.sh <patch.diff> <prop> [<prop> ...]   — apply a seeded change to /repo, run checks, undo
patch=$1; shift
cd /repo && git apply "$patch" || { echo "APPLY FAILED $patch"; exit 3; }
cd /verif
for p in "$@"; do
  out=$(/venv/bin/python tools/check.py --property $p 2>&1 | grep -E "VIOLATION|KNOWN|INFRA|tier=" | head -4)
  echo "[$p] $out" | tr '\n' ' '; echo
done
git -C /repo checkout -- .
