/-
  geodriver — line-protocol driver of the executable model (M-layer).
  One request per line: `<op> <arg> …`; one answer per line. See tools/proto.py.
-/
import Geo.Proto
import Geo.LeviCivita
open Geo

/-- `<id>|<cov>|<con>|<tensor>` -/
def parseNode (s : String) : Option (Node × Tens Q) :=
  match s.splitOn "|" with
  | [i, cov, con, t] => do
    let id ← i.toNat?
    let cov ← parseNatList "." cov
    let con ← parseNatList "." con
    let t ← parseTens t
    some (⟨id, t.shape, cov, con⟩, t)
  | _ => none

def parseEdge (s : String) : Option (Nat × Nat) :=
  match s.splitOn ">" with
  | [a, b] => do some ((← a.toNat?), (← b.toNat?))
  | _ => none

def errName : DErr → String
  | .noIndicesLeft => "noIndicesLeft"
  | .dimMismatch => "dimMismatch"

/-- `diagram <k> <node>×k <edge>…` (a leading `+id` token = `add_node`) -/
def opDiagram (args : List String) : String := Id.run do
  let some k := (args.headD "").toNat? | return "bad-op"
  let nodeToks := (args.drop 1).take k
  let some nodes := nodeToks.mapM parseNode | return "bad-op"
  let find (id : Nat) := nodes.find? (·.1.id = id)
  let mut d := Diagram.empty
  let mut step := 0
  for tok in args.drop (1 + k) do
    if tok.startsWith "+" then
      let some id := (tok.drop 1).toNat? | return "bad-op"
      let some n := find id | return "bad-op"
      d := d.addNode n.1
    else
      let some (a, b) := parseEdge tok | return "bad-op"
      let some na := find a | return "bad-op"
      let some nb := find b | return "bad-op"
      let (d', e) := d.addEdge' na.1 nb.1
      d := d'
      if let some e := e then return s!"err {errName e} {step}"
    step := step + 1
  -- arrays in node order (a node object may occur several times)
  let arrays := d.nodes.filterMap fun n => (find n.id).map (·.2)
  let (res, sp) := d.eval arrays
  return s!"ok {showTens res} {sp.nFree} {sp.nCov} {showNatList "." sp.out} {String.intercalate ";" (sp.operands.map (showNatList "."))}"

def dispatch (op : String) (args : List String) : String :=
  match op, args with
  | "diagram", _ => opDiagram args
  | "eps", [n] => match n.toNat? with
    | some n => s!"ok {showTens (epsTens n : Tens Q)}"
    | none => "bad-op"
  | "delta", [n, p] => match n.toNat?, p.toNat? with
    | some n, some p => s!"ok {showTens (deltaTens n p : Tens Q)}"
    | _, _ => "bad-op"
  | _, _ => "bad-op"

partial def loop (h : IO.FS.Stream) (out : IO.FS.Stream) : IO Unit := do
  let line ← h.getLine
  if line.isEmpty then return ()
  let toks := (line.trimAscii.toString.splitOn " ").filter (· ≠ "")
  match toks with
  | [] => out.putStrLn "bad-op"
  | op :: args => out.putStrLn (dispatch op args)
  loop h out

def main : IO Unit := do
  let out ← IO.getStdout
  loop (← IO.getStdin) out
  out.flush
