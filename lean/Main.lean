/-
  geodriver — line-protocol driver of the executable model (M-layer).
  One request per line: `<op> <arg> …`; one answer per line. See tools/proto.py.
-/
import Geo.Proto
import Geo.LeviCivita
import Geo.JoinMeet
import Geo.Transform
import Geo.Indexing
import Geo.Arith
import Geo.Spec.Euclid
import Geo.Spec.Shapes
import Geo.Shapes
import Geo.Constructions
import Geo.Gen.Curve
import Geo.Gen.Point
open Geo

def absLeQ (a b : Q) : Bool := decide (Gauss.normSq a ≤ Gauss.normSq b)

def kindName : Kind → String
  | .point => "P" | .line => "L" | .plane => "E"

/-- `<id>|<P|L|E>|<cov 0/1>|<nfree>|<tensor>` -/
def parseObj (s : String) : Option (GObj Q) :=
  match s.splitOn "|" with
  | [i, k, c, nf, t] => do
    let id ← i.toNat?
    let kind ← (match k with | "P" => some Kind.point | "L" => some Kind.line | "E" => some Kind.plane | _ => none)
    let nf ← nf.toNat?
    let t ← parseTens t
    some ⟨id, kind, c = "1", nf, t⟩
  | _ => none

def showObj (o : GObj Q) : String :=
  s!"{kindName o.kind} {if o.cov then 1 else 0} {o.nfree} {showTens o.t}"

def showJMErr : JMErr → String
  | .linearDependence sh m => s!"err LinearDependence {showBools sh m}"
  | .notCoplanar => "err NotCoplanar"
  | .tensorComputation => "err TensorComputation"
  | .valueError => "err ValueError"
  | .geometryException => "err GeometryException"
  | .runtimeError => "err RuntimeError"

def showObjRes : Except JMErr (GObj Q) → String
  | .ok o => "ok " ++ showObj o
  | .error e => showJMErr e

def showMaskRes : Except JMErr (List Nat × List Bool) → String
  | .ok m => "ok " ++ showBools m.1 m.2
  | .error e => showJMErr e

/-- `<id>|<cov>|<con>|<tensor>` -/
def parseNode (s : String) : Option (Node × Tens Q) :=
  match s.splitOn "|" with
  | [i, cov, con, t] => do
    let id ← i.toNat?
    let cov ← parseNatList "." cov
    let con ← parseNatList "." con
    let t ← parseTens t
    some (⟨id, t.shape, cov, con⟩, t)
  | _ => none

def parseEdge (s : String) : Option (Nat × Nat) :=
  match s.splitOn ">" with
  | [a, b] => do some ((← a.toNat?), (← b.toNat?))
  | _ => none

def errName : DErr → String
  | .noIndicesLeft => "noIndicesLeft"
  | .dimMismatch => "dimMismatch"

/-- `diagram <k> <node>×k <edge>…` (a leading `+id` token = `add_node`) -/
def opDiagram (args : List String) : String := Id.run do
  let some k := (args.headD "").toNat? | return "bad-op"
  let nodeToks := (args.drop 1).take k
  let some nodes := nodeToks.mapM parseNode | return "bad-op"
  let find (id : Nat) := nodes.find? (·.1.id = id)
  let mut d := Diagram.empty
  let mut step := 0
  for tok in args.drop (1 + k) do
    if tok.startsWith "+" then
      let some id := (tok.drop 1).toNat? | return "bad-op"
      let some n := find id | return "bad-op"
      d := d.addNode n.1
    else
      let some (a, b) := parseEdge tok | return "bad-op"
      let some na := find a | return "bad-op"
      let some nb := find b | return "bad-op"
      let (d', e) := d.addEdge' na.1 nb.1
      d := d'
      if let some e := e then return s!"err {errName e} {step}"
    step := step + 1
  -- arrays in node order (a node object may occur several times)
  let arrays := d.nodes.filterMap fun n => (find n.id).map (·.2)
  let (res, sp) := d.eval arrays
  return s!"ok {showTens res} {sp.nFree} {sp.nCov} {showNatList "." sp.out} {String.intercalate ";" (sp.operands.map (showNatList "."))}"

/-- `<nfree>|<tensor>` -/
def parseTObj (s : String) : Option (TObj Q) :=
  match s.splitOn "|" with
  | [nf, t] => do some ⟨(← nf.toNat?), (← parseTens t)⟩
  | _ => none

def parseVec (s : String) : Option (List Q) := (parseTens s).map (·.data.toList)

def showMatOpt : Option (Mat Q) → String
  | some m => "ok " ++ showTens m.toTens
  | none => "err LinAlg"

def parseInt? (s : String) : Option Int := s.toInt?

def opApply (args : List String) : String :=
  match args with
  | [t, x] =>
    match parseTObj t, x.splitOn "|" with
    | some t, [nf, nc, nn, xt] =>
      match nf.toNat?, nc.toNat?, nn.toNat?, parseTens xt with
      | some nf, some nc, some nn, some xt =>
        match applyT t nf nc nn xt with
        | .ok r => s!"ok {showTens r.1} {r.2.nFree} {r.2.nCov}"
        | .error .runtimeError => "err LinAlg"
        | .error e => showJMErr e
      | _, _, _, _ => "bad-op"
    | _, _ => "bad-op"
  | _ => "bad-op"

/-- apply a matrix function to every matrix of a batch `(..., n, n)` -/
def batchMats (t : Tens Q) : List Nat × List (Mat Q) :=
  let fs := t.shape.take (t.shape.length - 2)
  (fs, (Tens.allIndices fs).map fun pos => Mat.ofTens (t.slice pos))

def opKernel (op : String) (t : Tens Q) : String :=
  let (fs, ms) := batchMats t
  let n := t.shape.getLast?.getD 0
  match op with
  | "det" => "ok " ++ showTens ⟨fs, (ms.map Mat.det).toArray⟩
  | "adjugate" => "ok " ++ showTens ⟨fs ++ [n, n], (ms.flatMap fun m => (Mat.adjugate m).flatten).toArray⟩
  | "inv" =>
    let is := ms.map Mat.inv
    if is.any (·.isNone) then "err LinAlg"
    else "ok " ++ showTens ⟨fs ++ [n, n], (is.flatMap fun m => (m.getD []).flatten).toArray⟩
  | "rank" => "ok " ++ showTens ⟨fs, (ms.map fun m => (⟨(m.rank : Int), 0⟩ : Q)).toArray⟩
  | _ => "bad-op"

def parseIx (s : String) : Option Ix :=
  match s.toList with
  | ['i'] => some .int
  | ['s'] => some .slice
  | ['n'] => some .none
  | ['e'] => some .ellipsis
  | 'a' :: d => (String.ofList d).toNat?.map fun d => Ix.arr d true
  | 'l' :: d => (String.ofList d).toNat?.map fun d => Ix.arr d false
  | 'm' :: d => (String.ofList d).toNat?.map Ix.mask
  | _ => none

def showMapping : Option (List (Option Nat)) → String
  | none => "err IndexError"
  | some m => "ok " ++ (if m.isEmpty then "-" else String.intercalate "." (m.map fun x => match x with | some a => toString a | none => "N"))

def parseRVec (s : String) : Option (List Rat) := (parseVec s).map (·.map (·.re))
def showRVec (v : List Rat) : String := showTens ⟨[v.length], (v.map fun x => (⟨x, 0⟩ : Q)).toArray⟩
def showB (b : Bool) : String := showBools [] [b]

/-- affine 2-D coordinates `[x, y]` as the normalised homogeneous vector `(x, y, 1)` -/
def affH (v : List Rat) : Nat → Rat := v3 (v.getD 0 0) (v.getD 1 0) 1

def opShapes (op : String) (args : List String) : String :=
  match args.mapM parseRVec with
  | none => "bad-op"
  | some vs =>
    match op, vs with
    | "spec.onsegment", [a, b, p] => "ok " ++ showB (Spec.onSegment a b p)
    | "spec.onray", [a, d, p] => "ok " ++ showB (Spec.onRay a d p)
    | "spec.intriangle", [a, b, c, p] => "ok " ++ showB (Spec.inTriangle a b c p)
    | "spec.inpolygon", _ => match vs.getLast? with
      | some p => "ok " ++ showB (Spec.inPolygon vs.dropLast p)
      | none => "bad-op"
    -- the M-layer membership models (Geo/Shapes.lean over the regenerated Geo/Gen/Shapes.lean), affine 2-D input
    | "m.polycontains", _ => match vs.getLast? with
      | some p => "ok " ++ showB (polyContains (vs.dropLast.map affH) (affH p))
      | none => "bad-op"
    | "m.polyfan2", _ => "ok " ++ showRat (polyFan2 (vs.map affH))
    | "m.segcontains", [a, b, p] => "ok " ++ showB (segContains (affH a) (affH b) (Spec.cross (affH a) (affH b)) (affH p))
    | "m.tricontains", [a, b, c, p] => "ok " ++ showB (triContains (affH a) (affH b) (affH c) (affH p))
    | "m.segintersect", [a, b, c, d] => match segIntersect (affH a) (affH b) (affH c) (affH d) with
      | some x => "ok " ++ showRVec [x 0, x 1, x 2]
      | none => "ok none"
    | "m.polyintersectline", _ => match vs.getLast? with
      | some l =>
        let pts := polyIntersectLine (vs.dropLast.map affH) (fun k => l.getD k 0)
        "ok " ++ showTens ⟨[pts.length, 3], (pts.flatMap fun x => [(⟨x 0, 0⟩ : Q), ⟨x 1, 0⟩, ⟨x 2, 0⟩]).toArray⟩
      | none => "bad-op"
    | "spec.shoelace2", _ => "ok " ++ showRat (Spec.shoelace2 vs)
    | "spec.vecarea2", _ => "ok " ++ showRVec (Spec.vectorArea2 vs)
    | "spec.centroidnum", _ => "ok " ++ showRVec (Spec.centroidNum vs)
    | _, _ => "bad-op"

def dispatch (op : String) (args : List String) : String :=
  match op, args with
  | "diagram", _ => opDiagram args
  | "join", _ => match args.mapM parseObj with
    | some os => showObjRes (join absLeQ os)
    | none => "bad-op"
  | "meet", _ => match args.mapM parseObj with
    | some os => showObjRes (meet absLeQ os)
    | none => "bad-op"
  | "contains", [a, b] => match parseObj a, parseObj b with
    | some a, some b => showMaskRes (contains a b)
    | _, _ => "bad-op"
  | "coplanar", [a, b] => match parseObj a, parseObj b with
    | some a, some b => showMaskRes (isCoplanar a b)
    | _, _ => "bad-op"
  | "covt", [a] => match parseObj a with
    | some a => showObjRes (covariantTensor a)
    | _ => "bad-op"
  | "contrat", [a] => match parseObj a with
    | some a => showObjRes (contravariantTensor a)
    | _ => "bad-op"
  | "apply", _ => opApply args
  | "compose", [a, b] => match parseTObj a, parseTObj b with
    | some a, some b => let r := composeT a b; s!"ok {showTens r.t} {r.nfree}"
    | _, _ => "bad-op"
  | "inverse", [a] => match parseTObj a with
    | some a => match a.inverse with
      | some r => s!"ok {showTens r.t} {r.nfree}"
      | none => "err LinAlg"
    | _ => "bad-op"
  | "pow", [a, k] => match parseTObj a, parseInt? k with
    | some a, some k => match powT a k with
      | .ok r => s!"ok {showTens r.t} {r.nfree}"
      | .error .runtimeError => "err LinAlg"
      | .error e => showJMErr e
    | _, _ => "bad-op"
  | "translation", [v] => match parseVec v with
    | some v => showMatOpt (some (translationM v))
    | _ => "bad-op"
  | "scaling", [v] => match parseVec v with
    | some v => showMatOpt (some (scalingM v))
    | _ => "bad-op"
  | "rot2", [c, s] => match parseQ c, parseQ s with
    | some c, some s => showMatOpt (some (rotation2M c s))
    | _, _ => "bad-op"
  | "rot3", [c, s, a] => match parseQ c, parseQ s, parseVec a with
    | some c, some s, some a => showMatOpt (some (rotation3M c s a))
    | _, _, _ => "bad-op"
  | "reflection", [v, x] => match parseVec v, parseVec x with
    | some v, some x => showMatOpt (some (reflectionM v x))
    | _, _ => "bad-op"
  | "frompoints", _ => match args.mapM parseVec with
    | some ps => let k := ps.length / 2; showMatOpt (fromPointsM (ps.take k) (ps.drop k))
    | none => "bad-op"
  | "det", [t] | "adjugate", [t] | "inv", [t] | "rank", [t] => match parseTens t with
    | some t => opKernel op t
    | none => "bad-op"
  | "hat", [v] => match parseVec v with
    | some v =>
      let x := fun k => v.getD k 0
      let m := if v.length = 3 then hatMatrix3 [1, 2, 0] [2, 0, 1] x
               else hatMatrixN ((1 + Nat.sqrt (1 + 8 * v.length)) / 2) x
      "ok " ++ showTens m.toTens
    | none => "bad-op"
  | "ismultiple", [a, b] => match parseVec a, parseVec b with
    | some a, some b => s!"ok {showBools [] [isMultiple a b]}"
    | _, _ => "bad-op"
  | "polyfromroots", lead :: rs => match parseQ lead, rs.mapM parseQ with
    | some l, some rs => "ok " ++ showTens ⟨[rs.length + 1], (polyFromRoots l rs).toArray⟩
    | _, _ => "bad-op"
  | "ewise", [o, a, b] => match parseTens a, parseTens b with
    | some a, some b =>
      let f : Q → Q → Q := match o with | "add" => (· + ·) | "sub" => (· - ·) | "mul" => (· * ·) | _ => (· / ·)
      match ewise f a b with
      | some r => "ok " ++ showTens r
      | none => "err ValueError"
    | _, _ => "bad-op"
  | "padd", [a, b] | "psub", [a, b] => match parseTens a, parseTens b with
    | some a, some b => match pointAddSub (op == "psub") a b with
      | some r => "ok " ++ showTens r
      | none => "err ValueError"
    | _, _ => "bad-op"
  | "pmul", [a, c] | "pdiv", [a, c] => match parseTens a, parseQ c with
    | some a, some c => "ok " ++ showTens (pointScale (op == "pdiv") a c)
    | _, _ => "bad-op"
  | "transpose", [r, perm, cov, con] => match r.toNat?, parseNatList "." perm, parseNatList "." cov, parseNatList "." con with
    | some r, some perm, some cov, some con =>
      let p := cyclePerm r perm
      let t := transposeTypes p cov con
      s!"ok {showNatList "." p} {showNatList "." t.1} {showNatList "." t.2}"
    | _, _, _, _ => "bad-op"
  | "expanddims", [axis, cov, con] => match axis.toNat?, parseNatList "." cov, parseNatList "." con with
    | some axis, some cov, some con => s!"ok {showNatList "." (expandDimsTypes axis cov)} {showNatList "." (expandDimsTypes axis con)}"
    | _, _, _ => "bad-op"
  | "spec.dist2", [p, q] => match parseVec p, parseVec q with
    | some p, some q => "ok " ++ showQ (Spec.dist2 p q)
    | _, _ => "bad-op"
  | "spec.foot", [h, p] | "spec.mirror", [h, p] => match parseVec h, parseVec p with
    | some h, some p => "ok " ++ showTens ⟨[p.length], ((if op == "spec.foot" then Spec.footHyper h p else Spec.mirrorHyper h p)).toArray⟩
    | _, _ => "bad-op"
  | "spec.dist2hyper", [h, p] => match parseVec h, parseVec p with
    | some h, some p => "ok " ++ showQ (Spec.dist2Hyper h p)
    | _, _ => "bad-op"
  | "spec.footline", [a, b, p] | "spec.mirrorline", [a, b, p] => match parseVec a, parseVec b, parseVec p with
    | some a, some b, some p => "ok " ++ showTens ⟨[p.length], ((if op == "spec.footline" then Spec.footLine a b p else Spec.mirrorLine a b p)).toArray⟩
    | _, _, _ => "bad-op"
  | "spec.dist2line", [a, b, p] => match parseVec a, parseVec b, parseVec p with
    | some a, some b, some p => "ok " ++ showQ (Spec.dist2Line a b p)
    | _, _, _ => "bad-op"
  | "spec.angle", [a, b, c] => match parseVec a, parseVec b, parseVec c with
    | some a, some b, some c => let r := Spec.angle2 a b c; s!"ok {showQ r.1} {showQ r.2}"
    | _, _, _ => "bad-op"
  | "spec.cr", [a, b, c, d] => match parseQ a, parseQ b, parseQ c, parseQ d with
    | some a, some b, some c, some d => "ok " ++ showQ (Spec.crParam a b c d)
    | _, _, _, _ => "bad-op"
  | "m.polyfan2", _ | "m.polycontains", _ | "m.segcontains", _ | "m.tricontains", _ | "m.segintersect", _ | "m.polyintersectline", _
  | "spec.onsegment", _ | "spec.onray", _ | "spec.intriangle", _ | "spec.inpolygon", _ | "spec.shoelace2", _
  | "spec.vecarea2", _ | "spec.centroidnum", _ => opShapes op args
  | "spec.quadform", [a, p] => match parseTens a, parseVec p with
    | some a, some p =>
      -- pᵀ A p
      let n := p.length
      let v := sumRange n fun i => sumRange n fun j => p.getD i 0 * a.get [i, j] * p.getD j 0
      "ok " ++ showQ v
    | _, _ => "bad-op"
  -- the matrices regenerated from Ellipse.__init__ / Sphere.__init__ (translator A), evaluated exactly
  | "gen.ellipse", [cx, cy, hr, vr] => match parseQ cx, parseQ cy, parseQ hr, parseQ vr with
    | some cx, some cy, some hr, some vr =>
      "ok " ++ showTens ⟨[3, 3], ((List.range 3).flatMap fun i => (List.range 3).map fun j => Gen.ellipse_m cx cy hr vr i j).toArray⟩
    | _, _, _, _ => "bad-op"
  | "gen.sphere", [c0, c1, c2, r] => match parseQ c0, parseQ c1, parseQ c2, parseQ r with
    | some c0, some c1, some c2, some r =>
      "ok " ++ showTens ⟨[4, 4], ((List.range 4).flatMap fun i => (List.range 4).map fun j => Gen.sphere_m c0 c1 c2 r i j).toArray⟩
    | _, _, _, _ => "bad-op"
  -- the case analyses regenerated from LineTensor.base_point / direction (2-D), evaluated exactly
  | "gen.basepoint2", [l] | "gen.direction2", [l] => match parseRVec l with
    | some v =>
      let f : Nat → Rat := fun k => v.getD k 0
      let r := if op == "gen.basepoint2"
        then Gen.line_base_point (decide (f (Gen.line_base_point_masks.getD 0 0) = 0)) (decide (f (Gen.line_base_point_masks.getD 1 0) = 0)) f
        else Gen.line_direction (decide (f (Gen.line_direction_masks.getD 0 0) = 0)) (decide (f (Gen.line_direction_masks.getD 1 0) = 0)) f
      "ok " ++ showRVec [r 0, r 1, r 2]
    | none => "bad-op"
  -- the Euclidean constructions of geometer/point.py as compositions of cross products (Geo.Constructions), over the Gaussian rationals
  | "m.parallel2", [l, p] | "m.perpon2", [l, p] | "m.perpoff2", [l, p] | "m.project2", [l, p] | "m.mirror2", [l, p] =>
    match parseVec l, parseVec p with
    | some l, some p =>
      let f : Nat → Q := fun k => l.getD k 0
      let g : Nat → Q := fun k => p.getD k 0
      let r : Nat → Q := match op with
        | "m.parallel2" => parallel2 f g
        | "m.perpon2" => perpOn2 f g
        | "m.perpoff2" => perpOff2 f g
        | "m.mirror2" => mirror2G f g
        | _ => project2 f g
      "ok " ++ showTens ⟨[3], #[r 0, r 1, r 2]⟩
    | _, _ => "bad-op"
  | "m.circumcenter2", [a, b, c] => match parseVec a, parseVec b, parseVec c with
    | some a, some b, some c =>
      let r : Nat → Q := circumcenter2 (fun k => a.getD k 0) (fun k => b.getD k 0) (fun k => c.getD k 0)
      "ok " ++ showTens ⟨[3], #[r 0, r 1, r 2]⟩
    | _, _, _ => "bad-op"
  | "m.crconic", [cr, a, b, c, d] => match parseQ cr, parseVec a, parseVec b, parseVec c, parseVec d with
    | some cr, some a, some b, some c, some d =>
      let f (v : List Q) : Nat → Q := fun k => v.getD k 0
      "ok " ++ showTens ⟨[3, 3], ((List.range 3).flatMap fun i => (List.range 3).map fun j =>
        crM cr (f a) (f b) (f c) (f d) i j + crM cr (f a) (f b) (f c) (f d) j i).toArray⟩
    | _, _, _, _, _ => "bad-op"
  | "m.bisectordirs", [a, b] => match parseQ a, parseQ b with
    | some a, some b =>
      let r := bisectorR a b
      let s := bisectorS a b
      "ok " ++ showTens ⟨[2, 3], #[r 0, r 1, r 2, s 0, s 1, s 2]⟩
    | _, _ => "bad-op"
  | "m.planefoot", [e, p] => match parseVec e, parseVec p with
    | some e, some p =>
      let r : Nat → Q := planeFoot (fun k => e.getD k 0) (fun k => p.getD k 0)
      "ok " ++ showTens ⟨[4], #[r 0, r 1, r 2, r 3]⟩
    | _, _ => "bad-op"
  | "ixmap", r :: comps => match r.toNat?, comps.mapM parseIx with
    | some r, some cs => showMapping (indexMapping r cs)
    | _, _ => "bad-op"
  | "npaxes", r :: comps => match r.toNat?, comps.mapM parseIx with
    | some r, some cs => showMapping (numpyAxes r cs)
    | _, _ => "bad-op"
  | "eps", [n] => match n.toNat? with
    | some n => s!"ok {showTens (epsTens n : Tens Q)}"
    | none => "bad-op"
  | "delta", [n, p] => match n.toNat?, p.toNat? with
    | some n, some p => s!"ok {showTens (deltaTens n p : Tens Q)}"
    | _, _ => "bad-op"
  | _, _ => "bad-op"

partial def loop (h : IO.FS.Stream) (out : IO.FS.Stream) : IO Unit := do
  let line ← h.getLine
  if line.isEmpty then return ()
  let toks := (line.trimAscii.toString.splitOn " ").filter (· ≠ "")
  match toks with
  | [] => out.putStrLn "bad-op"
  | op :: args => out.putStrLn (dispatch op args)
  loop h out

def main : IO Unit := do
  let out ← IO.getStdout
  loop (← IO.getStdin) out
  out.flush
