import Geo.Props.C09
#print axioms Geo.T09_1_brackets
#print axioms Geo.T09_1_dist_sq
#print axioms Geo.T09_1_symmetric
#print axioms Geo.T09_3_foot_2d
#print axioms Geo.T09_3_foot_3d
#print axioms Geo.T09_5_laguerre
