import Geo.Props.C09
open Geo
#print axioms C09_placeholder
