import Geo.Props.C09
open Geo
#print axioms T09_1_brackets
#print axioms T09_1_dist_sq
#print axioms T09_1_symmetric
#print axioms T09_3_foot_2d
#print axioms T09_3_foot_3d
#print axioms T09_5_laguerre
