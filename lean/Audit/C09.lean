import Geo.Props.C09
import Geo.Props.C09b
#print axioms Geo.T09_1_brackets
#print axioms Geo.T09_1_dist_sq
#print axioms Geo.T09_1_symmetric
#print axioms Geo.T09_3_foot_2d
#print axioms Geo.T09_3_foot_3d
#print axioms Geo.T09_5_laguerre
#print axioms Geo.ang_closed
#print axioms Geo.T09_5_antisymmetric
#print axioms Geo.T09_5_unit_modulus
#print axioms Geo.T09_5_isometry
#print axioms Geo.T09_3_dist_point_line_sq
