import Geo.Props.C15
#print axioms Geo.T15_from_lines_degenerate
#print axioms Geo.T15_from_lines_components
#print axioms Geo.T15_pencil_cubic
#print axioms Geo.T15_common_point_on_component
#print axioms Geo.T15_pencil_member
#print axioms Geo.T15_from_planes_minor
