import Geo.Props.C15
open Geo
#print axioms T15_from_lines_degenerate
#print axioms T15_from_lines_components
#print axioms T15_pencil_cubic
#print axioms T15_common_point_on_component
#print axioms T15_pencil_member
#print axioms T15_from_planes_minor
