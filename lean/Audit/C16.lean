import Geo.Props.C16
#print axioms Geo.T16_1_segment_zw
#print axioms Geo.T16_2_triangle_lambdas
#print axioms Geo.T16_1_segment_interval
#print axioms Geo.T16_2_triangle_sign
#print axioms Geo.T16_1_gram_pos
