import Geo.Props.C16
open Geo
#print axioms C16_placeholder
