import Geo.Props.C16
open Geo
#print axioms T16_1_segment_zw
#print axioms T16_2_triangle_lambdas
#print axioms T16_1_segment_interval
#print axioms T16_2_triangle_sign
#print axioms T16_1_gram_pos
