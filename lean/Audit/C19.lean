import Geo.Props.C19
open Geo
#print axioms T19_index_table_1
#print axioms T19_index_table_2
#print axioms T19_index_table_3
#print axioms T19_index_counterexamples
#print axioms T19_types_of_mapping
#print axioms T19_transpose_types
#print axioms T19_cycle_table
#print axioms T19_point_add_finite
#print axioms T19_point_add_direction
