import Geo.Props.C19
#print axioms Geo.T19_index_table_1
#print axioms Geo.T19_index_table_2
#print axioms Geo.T19_index_table_3
#print axioms Geo.T19_index_table_4
#print axioms Geo.T19_index_former_counterexamples
#print axioms Geo.T19_types_of_mapping
#print axioms Geo.T19_transpose_types
#print axioms Geo.T19_cycle_table
#print axioms Geo.T19_point_add_finite
#print axioms Geo.T19_point_add_direction
