import Geo.Props.C12
#print axioms Geo.Effects.mem_allOrigins
#print axioms Geo.Effects.get_put
#print axioms Geo.Effects.conc_put
#print axioms Geo.Effects.subO_sound
#print axioms Geo.Effects.mem_unionO
#print axioms Geo.Effects.get_join
#print axioms Geo.Effects.conc_join_left
#print axioms Geo.Effects.conc_join_right
#print axioms Geo.Effects.conc_le
#print axioms Geo.Effects.loop_sound
#print axioms Geo.Effects.ainterp_sound
#print axioms Geo.Effects.T12_2_check_sound
#print axioms Geo.Effects.T12_2_all_write_sites_local
