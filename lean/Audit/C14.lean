import Geo.Props.C14
open Geo
#print axioms C14_placeholder
