import Geo.Props.C14
open Geo
#print axioms T14_hat_is_code
#print axioms T14_1_line_reduction
#print axioms T14_2_decomposition
#print axioms T14_3_secant
#print axioms T14_5_tangent
#print axioms T14_5_polar_reciprocity
