import Geo.Props.C14
#print axioms Geo.T14_hat_is_code
#print axioms Geo.T14_1_line_reduction
#print axioms Geo.T14_2_decomposition
#print axioms Geo.T14_3_secant
#print axioms Geo.T14_5_tangent
#print axioms Geo.T14_5_is_tangent_iff
#print axioms Geo.T14_5_polar_reciprocity
