import Geo.Props.C01
import Geo.Props.C01b
import Geo.Props.C01c
#print axioms Geo.T01_1_join_P2P2_incident
#print axioms Geo.T01_1_join_P2P2_cross
#print axioms Geo.T01_2_meet_L2L2_incident
#print axioms Geo.T01_8_unique_P2
#print axioms Geo.T01_3_join_P3P3P3_incident
#print axioms Geo.T01_3_join_P3P3P3_antisymm
#print axioms Geo.T01_5_meet_EEE_incident
#print axioms Geo.T01_4_join_P3P3_incident
#print axioms Geo.T01_4_join_P3P3_plucker
#print axioms Geo.join_P3P3_signed
#print axioms Geo.T01_4_join_L3P3_eq_three
#print axioms Geo.T01_6_meet_L3E
#print axioms Geo.T01_6_point_on_plane
#print axioms Geo.T01_5_meet_EE
#print axioms Geo.T01_7_blinn_rank_one
#print axioms Geo.T01_9_roundtrip_P2
#print axioms Geo.T01_9_roundtrip_L2
#print axioms Geo.T01_8_unique_plane
#print axioms Geo.T01_8_unique_point
#print axioms Geo.minors4Zero_prop
#print axioms Geo.T01_8_span_is_unique
