import Geo.Props.C01
open Geo
#print axioms C01_placeholder
