import Geo.Props.C20
open Geo
#print axioms T20_det2
#print axioms T20_det3_sarrus
#print axioms T20_det_model
#print axioms T20_thresholds
#print axioms T20_adj2
#print axioms T20_adj_sign_slices
#print axioms T20_mul_adjugate_2
#print axioms T20_mul_adjugate_3
#print axioms T20_mul_adjugate_4
#print axioms T20_inv_general
#print axioms T20_hat3
#print axioms T20_roots_linear
#print axioms T20_roots_quadratic
#print axioms T20_roots_depressed
#print axioms T20_roots_cardano
#print axioms T20_roots_trig
#print axioms T20_roots_triple
