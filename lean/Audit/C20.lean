import Geo.Props.C20
#print axioms Geo.T20_det2
#print axioms Geo.T20_det3_sarrus
#print axioms Geo.T20_det_model
#print axioms Geo.T20_thresholds
#print axioms Geo.T20_adj2
#print axioms Geo.T20_adj_sign_slices
#print axioms Geo.T20_mul_adjugate_2
#print axioms Geo.T20_mul_adjugate_3
#print axioms Geo.T20_mul_adjugate_4
#print axioms Geo.T20_inv_general
#print axioms Geo.T20_hat3
#print axioms Geo.T20_roots_linear
#print axioms Geo.T20_roots_quadratic
#print axioms Geo.T20_roots_depressed
#print axioms Geo.T20_roots_cardano
#print axioms Geo.T20_roots_trig
#print axioms Geo.T20_roots_triple
