import Geo.Props.C05
open Geo
#print axioms C05_placeholder
