import Geo.Props.C05
open Geo
#print axioms T05_1_addEdge_ok_iff
#print axioms T05_1_addEdge_noIndices_iff
#print axioms T05_1_addEdge_dimMismatch_iff
#print axioms T05_1_addEdge_contraction
#print axioms T05_1_locate_nodes
#print axioms inv_empty
#print axioms inv_addNode
#print axioms inv_locate
#print axioms inv_shrink
#print axioms inv_addEdge'
#print axioms T05_2_reachable_inv
#print axioms T05_4_out_order
#print axioms T05_4_cov_part
#print axioms T05_4_con_part
#print axioms T05_6_eps_perm
#print axioms T05_6_eps_repeated
#print axioms T05_6_eps_range
#print axioms T05_6_eps_identity
#print axioms T05_7_delta_1
#print axioms T05_7_delta_2
#print axioms T05_7_delta_3
