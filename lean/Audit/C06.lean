import Geo.Props.C06
#print axioms Geo.T06_1_apply_point
#print axioms Geo.T06_1_apply_hyperplane
#print axioms Geo.T06_1_apply_quadric2
#print axioms Geo.T06_1_apply_quadric3_line3
#print axioms Geo.T06_1_apply_dual_quadric
#print axioms Geo.T06_3_pow3
#print axioms Geo.T06_2_point
#print axioms Geo.T06_2_point_inv
#print axioms Geo.T06_2_hyper
#print axioms Geo.T06_2_hyper_inv
#print axioms Geo.T06_2_quadric
#print axioms Geo.T06_2_quadric_inv
#print axioms Geo.T06_2_dual
#print axioms Geo.T06_2_dual_inv
#print axioms Geo.T06_3_pow
