import Geo.Props.C06
open Geo
#print axioms C06_placeholder
