import Geo.Props.C06
open Geo
#print axioms T06_1_apply_point
#print axioms T06_1_apply_hyperplane
#print axioms T06_1_apply_quadric2
#print axioms T06_1_apply_quadric3_line3
#print axioms T06_1_apply_dual_quadric
#print axioms T06_3_pow3
#print axioms T06_2_point
#print axioms T06_2_point_inv
#print axioms T06_2_hyper
#print axioms T06_2_hyper_inv
#print axioms T06_2_quadric
#print axioms T06_2_quadric_inv
#print axioms T06_2_dual
#print axioms T06_2_dual_inv
#print axioms T06_3_pow
