import Geo.Props.C17
open Geo
#print axioms C17_placeholder
