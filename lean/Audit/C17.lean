import Geo.Props.C17
import Geo.Props.C17b
import Geo.Props.C17c
#print axioms Geo.fanTerm_is_det
#print axioms Geo.T17_fan_eq_shoelace
#print axioms Geo.T17_crs_antisymm
#print axioms Geo.T17_fan_affine
#print axioms Geo.T17_binet_cauchy
#print axioms Geo.T17_cayley_menger_triangle
#print axioms Geo.T17_midpoint
#print axioms Geo.foldl_add_acc'
#print axioms Geo.range_chain
#print axioms Geo.chainSum'_eq
#print axioms Geo.zip_cycle_sum
#print axioms Geo.shoelace2_cycle
#print axioms Geo.polyFan2_chain
#print axioms Geo.T17_area_fan_is_shoelace
#print axioms Geo.fan_moment_x
#print axioms Geo.fan_moment_y
#print axioms Geo.mom_antisymm
#print axioms Geo.fan_chain_general
#print axioms Geo.polyMoment6_chain
#print axioms Geo.zip_cycle_sumG
#print axioms Geo.foldl_vadd_pairs
#print axioms Geo.centroidNum_cycle
#print axioms Geo.T17_centroid_fan
#print axioms Geo.T17_circumcenter_equidistant
#print axioms Geo.T17_circumcenter_edge_choice
