import Geo.Props.C17
open Geo
#print axioms fanTerm_is_det
#print axioms T17_fan_eq_shoelace
#print axioms T17_crs_antisymm
#print axioms T17_fan_affine
#print axioms T17_binet_cauchy
#print axioms T17_cayley_menger_triangle
#print axioms T17_midpoint
