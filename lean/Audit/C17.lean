import Geo.Props.C17
#print axioms Geo.fanTerm_is_det
#print axioms Geo.T17_fan_eq_shoelace
#print axioms Geo.T17_crs_antisymm
#print axioms Geo.T17_fan_affine
#print axioms Geo.T17_binet_cauchy
#print axioms Geo.T17_cayley_menger_triangle
#print axioms Geo.T17_midpoint
