import Geo.Props.C13
#print axioms Geo.T13_from_points_contains
#print axioms Geo.T13_ellipse_locus
#print axioms Geo.T13_sphere_locus
