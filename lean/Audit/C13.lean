import Geo.Props.C13
#print axioms Geo.T13_from_points_contains
#print axioms Geo.T13_from_crossratio_contains
#print axioms Geo.T13_from_crossratio_agrees
#print axioms Geo.T13_ellipse_locus
#print axioms Geo.T13_sphere_locus
#print axioms Geo.T13_ellipse_code_form
#print axioms Geo.T13_ellipse_code_locus
#print axioms Geo.T13_sphere_code_locus
