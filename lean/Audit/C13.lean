import Geo.Props.C13
open Geo
#print axioms C13_placeholder
