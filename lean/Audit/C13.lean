import Geo.Props.C13
open Geo
#print axioms T13_from_points_contains
#print axioms T13_ellipse_locus
#print axioms T13_sphere_locus
