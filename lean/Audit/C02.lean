import Geo.Props.C02
open Geo
#print axioms C02_placeholder
