import Geo.Props.C02
import Geo.Props.C01b
#print axioms Geo.T02_1_join_P2P2_dep
#print axioms Geo.T02_1_meet_L2L2_dep
#print axioms Geo.T02_1_join_P3P3_dep
#print axioms Geo.T02_1_join_P3P3P3_dep
#print axioms Geo.T02_1_meet_EEE_dep
#print axioms Geo.T02_1_meet_EE_dep
#print axioms Geo.T02_1_join_L3P3_dep
#print axioms Geo.T02_2_join_P2P2_minors
#print axioms Geo.T02_2_minors_zero_dependent
#print axioms Geo.T02_3_coplanarity_scalar
#print axioms Geo.T02_5_error_iff_zero
#print axioms Geo.T02_5_mask_positions
#print axioms Geo.T01_7_blinn_rank_one
#print axioms Geo.T01_9_roundtrip_P2
#print axioms Geo.T01_9_roundtrip_L2
