import Geo.Props.C07
open Geo
#print axioms T07_1_incidence
#print axioms T07_1_quadric
#print axioms T07_1_tangent
#print axioms T07_2_cross_cofactor
#print axioms T07_2_cofactor_is_inverse_transpose
#print axioms T07_2_det4_mul
#print axioms T07_2_join3_is_det
#print axioms T07_3_bracket3
#print axioms T07_3_crossratio_invariant
