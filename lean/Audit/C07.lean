import Geo.Props.C07
open Geo
#print axioms C07_placeholder
