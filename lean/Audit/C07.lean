import Geo.Props.C07
#print axioms Geo.T07_1_incidence
#print axioms Geo.T07_1_quadric
#print axioms Geo.T07_1_tangent
#print axioms Geo.T07_2_cross_cofactor
#print axioms Geo.T07_2_cofactor_is_inverse_transpose
#print axioms Geo.T07_2_det4_mul
#print axioms Geo.T07_2_join3_is_det
#print axioms Geo.T07_3_bracket3
#print axioms Geo.T07_3_crossratio_invariant
#print axioms Geo.T07_5_line_plane_commutes
#print axioms Geo.T07_5_line_point_commutes
