import Geo.Props.C10
open Geo
#print axioms T10_mirror2
#print axioms T10_mirror_spec
#print axioms T10_mirror_involution_2d
#print axioms T10_mirror_involution_3d
#print axioms T10_is_perpendicular
