import Geo.Props.C10
#print axioms Geo.T10_mirror2
#print axioms Geo.T10_mirror_spec
#print axioms Geo.T10_mirror_involution_2d
#print axioms Geo.T10_mirror_involution_3d
#print axioms Geo.T10_is_perpendicular
