import Geo.Props.C10
import Geo.Props.C10b
#print axioms Geo.T10_mirror2
#print axioms Geo.T10_mirror_spec
#print axioms Geo.T10_mirror_involution_2d
#print axioms Geo.T10_mirror_involution_3d
#print axioms Geo.T10_is_perpendicular
#print axioms Geo.T10_base_point_2d
#print axioms Geo.T10_direction_2d
#print axioms Geo.T10_base_point_nonzero
