import Geo.Props.C10
import Geo.Props.C10b
import Geo.Props.C10c
import Geo.Props.C10d
#print axioms Geo.T10_mirror2
#print axioms Geo.T10_mirror_spec
#print axioms Geo.T10_mirror_involution_2d
#print axioms Geo.T10_mirror_involution_3d
#print axioms Geo.T10_is_perpendicular
#print axioms Geo.T10_base_point_2d
#print axioms Geo.T10_direction_2d
#print axioms Geo.T10_base_point_nonzero
#print axioms Geo.T10_parallel_2d
#print axioms Geo.T10_is_parallel_2d
#print axioms Geo.T10_perpendicular_on_2d
#print axioms Geo.T10_perpendicular_off_2d
#print axioms Geo.T10_project_2d
#print axioms Geo.T10_project_2d_spec
#print axioms Geo.T10_mirror_project_collinear
#print axioms Geo.T10_plane_project
#print axioms Geo.T10_plane_project_spec
#print axioms Geo.T10_plane_perpendicular
#print axioms Geo.T10_planes_parallel_iff
#print axioms Geo.mirror2G_eq_mirror2
#print axioms Geo.bracket_is_zeta
#print axioms Geo.zeta_bisectors
#print axioms Geo.T10_angle_bisectors
