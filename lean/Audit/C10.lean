import Geo.Props.C10
open Geo
#print axioms C10_placeholder
