import Geo.Props.C11
open Geo
#print axioms T11_closed_form_line
#print axioms T11_closed_form_from_point
#print axioms T11_harmonic_construction
#print axioms T11_symmetries
#print axioms T11_harmonic_param
