import Geo.Props.C11
#print axioms Geo.T11_closed_form_line
#print axioms Geo.T11_closed_form_from_point
#print axioms Geo.T11_harmonic_construction
#print axioms Geo.T11_symmetries
#print axioms Geo.T11_harmonic_param
