import Geo.Props.C11
open Geo
#print axioms C11_placeholder
