import Geo.Props.C18
#print axioms Geo.T18_common_point_is_meet
#print axioms Geo.T18_meet_on_both
#print axioms Geo.T18_parallel_meet_at_infinity
#print axioms Geo.T18_collinear_gives_zero
