import Geo.Props.C18
open Geo
#print axioms C18_placeholder
