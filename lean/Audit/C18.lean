import Geo.Props.C18
import Geo.Props.C18b
#print axioms Geo.T18_common_point_is_meet
#print axioms Geo.T18_meet_on_both
#print axioms Geo.T18_parallel_meet_at_infinity
#print axioms Geo.T18_collinear_gives_zero
#print axioms Geo.segContains_smul
#print axioms Geo.cross_cross
#print axioms Geo.meet_on_first
#print axioms Geo.T18_parallel_none
#print axioms Geo.segContains_finite
#print axioms Geo.T18_segIntersect_sound
#print axioms Geo.T18_segIntersect_complete
#print axioms Geo.T18_polyIntersectLine_sound
#print axioms Geo.T18_polyIntersectLine_nil
