import Geo.Props.C18
open Geo
#print axioms T18_common_point_is_meet
#print axioms T18_meet_on_both
#print axioms T18_parallel_meet_at_infinity
#print axioms T18_collinear_gives_zero
