import Geo.Props.C08
import Geo.Props.C08b
#print axioms Geo.T08_translation_2d
#print axioms Geo.T08_translation_3d
#print axioms Geo.T08_scaling_3d
#print axioms Geo.T08_scaling_2d
#print axioms Geo.T08_rot2_action
#print axioms Geo.T08_rot2_compose
#print axioms Geo.T08_rot2_additive
#print axioms Geo.rot3_entries
#print axioms Geo.T08_rot3_orthogonal
#print axioms Geo.T08_rot3_det
#print axioms Geo.T08_rot3_axis_trace
#print axioms Geo.T08_reflection_2d
#print axioms Geo.T08_reflection_3d
#print axioms Geo.T08_from_points
#print axioms Geo.T08_gen_affine3
#print axioms Geo.T08_gen_affine4
#print axioms Geo.T08_gen_rot2
#print axioms Geo.T08_gen_translation2
#print axioms Geo.T08_gen_translation3
#print axioms Geo.T08_gen_scaling2
#print axioms Geo.T08_gen_rot3
#print axioms Geo.T08_gen_householder2
#print axioms Geo.T08_gen_householder3
#print axioms Geo.T08_gen_structure
