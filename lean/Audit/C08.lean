import Geo.Props.C08
open Geo
#print axioms T08_translation_2d
#print axioms T08_translation_3d
#print axioms T08_scaling_3d
#print axioms T08_scaling_2d
#print axioms T08_rot2_action
#print axioms T08_rot2_compose
#print axioms T08_rot2_additive
#print axioms rot3_entries
#print axioms T08_rot3_orthogonal
#print axioms T08_rot3_det
#print axioms T08_rot3_axis_trace
#print axioms T08_reflection_2d
#print axioms T08_reflection_3d
#print axioms T08_from_points
