import Geo.Props.C08
open Geo
#print axioms C08_placeholder
