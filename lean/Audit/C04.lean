import Geo.Props.C04
open Geo
#print axioms T04_2_elementwise
#print axioms T04_3_mask_positionwise
