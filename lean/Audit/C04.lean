import Geo.Props.C04
open Geo
#print axioms C04_placeholder
