import Geo.Props.C04
import Geo.Props.C05c
import Geo.Props.C04b
#print axioms Geo.T04_2_elementwise
#print axioms Geo.T04_3_mask_positionwise
#print axioms Geo.calcFold_nil
#print axioms Geo.calcFold_cons
#print axioms Geo.calcStep_indices_length
#print axioms Geo.calcStep_indices_outside
#print axioms Geo.calcStep_ops
#print axioms Geo.calcStep_r0
#print axioms Geo.calcFold_indices_length
#print axioms Geo.calcFold_ops_prefix
#print axioms Geo.calcFold_r0_suffix
#print axioms Geo.T05_5_calc_align_all
#print axioms Geo.T05_5_free_labels_are_positions
#print axioms Geo.T05_5_free_labels_nodup
#print axioms Geo.calcFold_split
#print axioms Geo.items_length
#print axioms Geo.items_get
#print axioms Geo.items_blocks
#print axioms Geo.T04_1_spec_alignment
#print axioms Geo.T05_5_label_pos_or_end
#print axioms Geo.T04_1_collections_positionwise
#print axioms Geo.tensor_pos_not_free
#print axioms Geo.inv3_empty
#print axioms Geo.inv3_addNode
#print axioms Geo.inv3_locate
#print axioms Geo.inv3_addEdge'
#print axioms Geo.T05_2_reachable_inv3
#print axioms Geo.ends_not_free
#print axioms Geo.T04_1_reachable
#print axioms Geo.summedLabels_not_out
#print axioms Geo.nfree_le_nFree
#print axioms Geo.T04_calculate_positionwise
