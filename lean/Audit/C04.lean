import Geo.Props.C04
#print axioms Geo.T04_2_elementwise
#print axioms Geo.T04_3_mask_positionwise
