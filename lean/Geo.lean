import Geo.Basic
import Geo.Diagram
import Geo.Tensor
import Geo.LeviCivita
import Geo.Proto
import Geo.JoinMeet
