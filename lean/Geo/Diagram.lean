/-
  Geo.Diagram — model of `geometer/base.py:TensorDiagram` (add_node / add_edge / calculate)
  and an exact evaluator for the `numpy.einsum` call that `calculate` issues.
-/
import Geo.Basic
namespace Geo

/-- what the diagram code reads of a `Tensor`: Python object identity, array shape,
    covariant / contravariant axes (ascending: `add_node` sorts them);
    the remaining leading axes are the free (collection) axes. -/
structure Node where
  id : Nat
  shape : List Nat
  cov : List Nat
  con : List Nat
deriving DecidableEq, Repr

def Node.rank (n : Node) : Nat := n.shape.length
/-- `node.shape[i]` -/
def Node.dimAt (n : Node) (i : Nat) : Nat := n.shape.getD i 0
def Node.nfree (n : Node) : Nat := n.rank - (n.cov.length + n.con.length)

inductive DErr | noIndicesLeft | dimMismatch
deriving DecidableEq, Repr

structure Diagram where
  nodes : List Node := []
  unused : List (List Nat × List Nat) := []
  positions : List Nat := []
  contractions : List (Nat × Nat × Nat × Nat) := []
  indexCount : Nat := 0
deriving DecidableEq, Repr

def Diagram.empty : Diagram := {}

/-- `add_node` -/
def Diagram.addNode (d : Diagram) (n : Node) : Diagram :=
  { d with nodes := d.nodes ++ [n], positions := d.positions ++ [d.indexCount],
           indexCount := d.indexCount + n.rank, unused := d.unused ++ [(n.cov, n.con)] }

/-- first loop of `add_edge`: scan the node list, remember the last match of source and target,
    stop as soon as both are known -/
def findLoop (src tgt : Nat) : List Node → Nat → Option Nat → Option Nat → Option Nat × Option Nat
  | [], _, s, t => (s, t)
  | n :: ns, i, s, t =>
    let s := if n.id = src then some i else s
    let t := if n.id = tgt then some i else t
    if s.isSome && t.isSome then (s, t) else findLoop src tgt ns (i + 1) s t

def Diagram.freeCov (d : Diagram) (k : Nat) : List Nat := (d.unused.getD k ([], [])).1
def Diagram.freeCon (d : Diagram) (k : Nat) : List Nat := (d.unused.getD k ([], [])).2

/-- first and second step of `add_edge`: look both nodes up by object identity, append the ones
    that were not found (source first); returns the diagram and the two node indices -/
def Diagram.locate (d : Diagram) (src tgt : Node) : Diagram × Nat × Nat :=
  let st := findLoop src.id tgt.id d.nodes 0 none none
  let d1 := if st.1.isSome then d else d.addNode src
  let si := st.1.getD d.nodes.length
  -- a loop on a node that has just been added: `target is source`, the node is not added a second time
  let loop := st.2.isNone && (tgt.id == src.id)
  let d2 := if st.2.isSome || loop then d1 else d1.addNode tgt
  let ti := if loop then si else st.2.getD d1.nodes.length
  (d2, si, ti)

/-- `free_source.pop(0)`; `free_target.pop(0)` on the per-node lists of unused indices -/
def popUnused (u : List (List Nat × List Nat)) (si ti : Nat) : List (List Nat × List Nat) :=
  let u1 := u.set si ((u.getD si ([], [])).1.tail, (u.getD si ([], [])).2)
  u1.set ti ((u1.getD ti ([], [])).1, (u1.getD ti ([], [])).2.tail)

/-- `add_edge(source, target)`: the diagram after the call (nodes that were not yet part of the diagram stay registered
    even when the call raises; the indices are consumed only by an accepted edge) and the error raised, if any -/
def Diagram.addEdge' (d : Diagram) (src tgt : Node) : Diagram × Option DErr :=
  let loc := d.locate src tgt
  let d2 := loc.1
  let si := loc.2.1
  let ti := loc.2.2
  match d2.freeCov si, d2.freeCon ti with
  | i :: _, j :: _ =>
    -- the dimension test comes first; the two indices are consumed only when the edge is accepted
    let u2 := popUnused d2.unused si ti
    if src.dimAt i ≠ tgt.dimAt j then (d2, some .dimMismatch)
    else ({ d2 with unused := u2, contractions := d2.contractions ++ [(si, ti, i, j)] }, none)
  | _, _ => (d2, some .noIndicesLeft)

def Diagram.addEdge (d : Diagram) (src tgt : Node) : Except DErr Diagram :=
  match d.addEdge' src tgt with
  | (d', none) => .ok d'
  | (_, some e) => .error e

/-- `TensorDiagram(*edges)` -/
def Diagram.ofEdges (es : List (Node × Node)) : Except DErr Diagram :=
  es.foldlM (fun d e => d.addEdge e.1 e.2) Diagram.empty

/-- the arguments of the `numpy.einsum` call: one label list per operand, the output labels,
    and the index types of the result -/
structure EinsumSpec where
  operands : List (List Nat)
  out : List Nat
  nFree : Nat
  nCov : Nat
deriving DecidableEq, Repr

/-- relabel after the contraction list: `indices[max(i,j)] = min(i,j)` -/
def relabel (pos : List Nat) (cs : List (Nat × Nat × Nat × Nat)) (n : Nat) : List Nat :=
  cs.foldl (fun ind c =>
    let i := pos.getD c.1 0 + c.2.2.1
    let j := pos.getD c.2.1 0 + c.2.2.2
    ind.set (max i j) (min i j)) (List.range n)

structure CalcState where
  indices : List Nat
  r0 : List Nat
  r1 : List Nat
  r2 : List Nat
  ops : List (List Nat)

/-- body of the per-node loop of `calculate` -/
def calcStep (st : CalcState) (node : Node) (ind : List Nat × List Nat) (offset : Nat) : CalcState :=
  let nf := node.nfree
  let freeInd := (List.range nf).reverse
  -- align with the free labels collected so far, from the right
  let indices := (freeInd.take st.r0.length).zipIdx.foldl
      (fun acc (kj : Nat × Nat) => acc.set (offset + kj.1) (st.r0.getD (st.r0.length - kj.2 - 1) 0)) st.indices
  let r0 := (freeInd.drop st.r0.length).foldl (fun acc k => (offset + k) :: acc) st.r0
  { indices := indices, r0 := r0,
    r1 := st.r1 ++ ind.1.map (offset + ·),
    r2 := st.r2 ++ ind.2.map (offset + ·),
    ops := st.ops ++ [(indices.drop offset).take node.rank] }

/-- `calculate` up to the einsum call -/
def Diagram.spec (d : Diagram) : EinsumSpec :=
  let ind0 := relabel d.positions d.contractions d.indexCount
  let st := (d.nodes.zip (d.unused.zip d.positions)).foldl
      (fun st x => calcStep st x.1 x.2.1 x.2.2) ⟨ind0, [], [], [], []⟩
  { operands := st.ops, out := st.r0 ++ st.r1 ++ st.r2, nFree := st.r0.length, nCov := st.r1.length }

/-! ### einsum semantics -/

/-- association list label ↦ value -/
def lookup (env : List (Nat × Nat)) (l : Nat) : Nat :=
  match env with
  | [] => 0
  | (k, v) :: rest => if k = l then v else lookup rest l

/-- sum over all assignments of the labels in `ls` (each with its dimension) -/
def sumOver {α : Type} [Add α] [Zero α] : List (Nat × Nat) → List (Nat × Nat) → (List (Nat × Nat) → α) → α
  | [], env, f => f env
  | (l, dim) :: rest, env, f => sumRange dim fun v => sumOver rest ((l, v) :: env) f

/-- product of operand entries under an assignment -/
def prodOps {α : Type} [Mul α] [One α] : List (List Nat) → List (List Nat → α) → List (Nat × Nat) → α
  | ls :: lss, t :: ts, env => t (ls.map (lookup env)) * prodOps lss ts env
  | _, _, _ => 1

/-- labels that are summed: those of the operands that are not output labels (first occurrence
    order), with the dimension of the axis where they first occur -/
def summedLabels (operands : List (List Nat)) (shapes : List (List Nat)) (out : List Nat) : List (Nat × Nat) :=
  let all := (operands.zip shapes).flatMap fun (ls, sh) => ls.zip sh
  all.foldl (fun acc (p : Nat × Nat) => if out.contains p.1 || acc.any (·.1 == p.1) then acc else acc ++ [p]) []

/-- value of `numpy.einsum(op₀, labels₀, …, out)` at output index `oidx` -/
def evalEinsum {α : Type} [Add α] [Mul α] [Zero α] [One α]
    (operands : List (List Nat)) (out : List Nat) (summed : List (Nat × Nat))
    (ts : List (List Nat → α)) (oidx : List Nat) : α :=
  sumOver summed (out.zip oidx) fun env => prodOps operands ts env

end Geo
