/-
  Geo.Traced — the form in which translator B (tools/trace.py) writes down the einsum calls that the
  real library issues for a scenario, and their evaluation.  `Geo/Gen/Diagrams.lean` is generated.
-/
import Geo.LeviCivita
namespace Geo

/-- where an einsum operand comes from -/
inductive Role
  | arg (k : Nat)        -- the array of the k-th argument of the scenario
  | eps (n : Nat)        -- the cached Levi-Civita array of size n
  | prev (j : Nat)       -- the result of the j-th earlier einsum call of the scenario (possibly rescaled
                         --   by the power-of-two normalisation, a non-zero scalar)
  | inv (k : Nat)        -- the matrix inverse of argument k
  | unknown
deriving DecidableEq, Repr

/-- one recorded `numpy.einsum(op₀, labels₀, …, out)` call -/
structure TCall where
  roles : List Role
  operands : List (List Nat)
  shapes : List (List Nat)
  out : List Nat
  nFree : Nat
  nCov : Nat
deriving DecidableEq, Repr

/-- `none` = the translator could not recognise the roles of all operands -/
abbrev Traced := Option (List TCall)

section
variable {α : Type} [Add α] [Mul α] [Zero α] [One α] [Neg α]

def epsFn (n : Nat) : List Nat → α := fun idx => ofInt (epsEntry n idx)

def roleFn (args invs prevs : List (List Nat → α)) : Role → (List Nat → α)
  | .arg k => args.getD k (fun _ => 0)
  | .eps n => epsFn n
  | .prev j => prevs.getD j (fun _ => 0)
  | .inv k => invs.getD k (fun _ => 0)
  | .unknown => fun _ => 0

def TCall.eval (c : TCall) (args invs prevs : List (List Nat → α)) : List Nat → α :=
  fun oidx => evalEinsum c.operands c.out (summedLabels c.operands c.shapes c.out)
    (c.roles.map (roleFn args invs prevs)) oidx

/-- results of all calls of a scenario, in order -/
def evalCalls (cs : List TCall) (args invs : List (List Nat → α)) : List (List Nat → α) :=
  cs.foldl (fun prevs c => prevs ++ [c.eval args invs prevs]) []

/-- the last result of a traced scenario (`fun _ => 0` when nothing was traced) -/
def lastResult (cs : List TCall) (args invs : List (List Nat → α)) : List Nat → α :=
  (evalCalls cs args invs).getLast?.getD (fun _ => 0)

end

/-- a coordinate vector `v` as an einsum operand -/
def vec {α : Type} (v : Nat → α) : List Nat → α := fun idx => v (idx.getD 0 0)
/-- a matrix as an einsum operand -/
def mat {α : Type} (m : Nat → Nat → α) : List Nat → α := fun idx => m (idx.getD 0 0) (idx.getD 1 0)

end Geo
