/-
  Geo.Constructions — executable model of the Euclidean constructions that geometer/point.py composes from join and meet
  (no Mathlib import: compiled into the driver; theorems in Geo/Props/C10c.lean).

  `SubspaceTensor.parallel`     : x = l ∧ l∞,  result = x ∨ p
  `LineTensor.mirror` (plane)   : l1 = I∨p, l2 = J∨p, p1 = l∧l1, p2 = l∧l2, m1 = p1∨J, m2 = p2∨I, result = m1∧m2
  `LineTensor.perpendicular`    : p on l :  p ∨ (a, b, 0)        p off l :  mirror(p) ∨ p
  `SubspaceTensor.project`      : l ∧ perpendicular(p)
  `PlaneTensor.perpendicular`   : p ∨ (a, b, c, 0);   `project` : e ∧ that line, closed form (e·q) p − (e·p) q  (C01, T01.6)
  `Triangle.circumcenter` (plane): meet of the perpendiculars through the midpoints of the first two edges
  join and meet of the plane are cross products (C01, T01.1 / T01.2).
-/
import Geo.Spec.Basic
namespace Geo
open Spec

section
variable {α : Type} [Add α] [Sub α] [Mul α] [Neg α] [Zero α] [One α]

/-- real coordinate vector inside the Gaussian numbers -/
def cplxG (p : Nat → α) : Nat → Gauss α := fun k => Gauss.ofReal (p k)
/-- the circular points `I`, `J` of geometer/point.py -/
def circIG : Nat → Gauss α := fun k => match k with | 0 => ⟨0, -1⟩ | 1 => ⟨1, 0⟩ | _ => ⟨0, 0⟩
def circJG : Nat → Gauss α := fun k => match k with | 0 => ⟨0, 1⟩ | 1 => ⟨1, 0⟩ | _ => ⟨0, 0⟩

/-- `LineTensor.mirror` in the plane -/
def mirror2G (l p : Nat → Gauss α) : Nat → Gauss α :=
  let l1 := cross circIG p
  let l2 := cross circJG p
  let p1 := cross l l1
  let p2 := cross l l2
  let m1 := cross p1 circJG
  let m2 := cross p2 circIG
  cross m1 m2

/-- the line at infinity of the plane -/
def linf2 : Nat → α := fun k => match k with | 2 => 1 | _ => 0

/-- `SubspaceTensor.parallel` in the plane -/
def parallel2 (l p : Nat → α) : Nat → α := cross (cross l linf2) p

/-- the point at infinity in the normal direction of `l`: `np.append(l.array[..., :-1], 0)` -/
def normalDir2 (l : Nat → α) : Nat → α := fun k => match k with | 0 => l 0 | 1 => l 1 | _ => 0

/-- `LineTensor.perpendicular`, branch "the point lies on the line" -/
def perpOn2 (l p : Nat → α) : Nat → α := cross p (normalDir2 l)

/-- `LineTensor.perpendicular`, branch "the point is off the line", over the Gaussian numbers -/
def perpOff2 (l p : Nat → Gauss α) : Nat → Gauss α := cross (mirror2G l p) p

/-- `SubspaceTensor.project` in the plane (on the real line both branches of `perpendicular` give) -/
def project2 (l p : Nat → α) : Nat → α := cross l (perpOn2 l p)

/-- the point at infinity in the normal direction of the plane `e` -/
def normalDir3 (e : Nat → α) : Nat → α := fun k => match k with | 0 => e 0 | 1 => e 1 | 2 => e 2 | _ => 0

/-- `PlaneTensor.project`: `e ∧ (p ∨ (a,b,c,0))` up to the factor `±2s` of `T01_6_meet_L3E` -/
def planeFoot (e p : Nat → α) : Nat → α :=
  fun i => dot 4 e (normalDir3 e) * p i - dot 4 e p * normalDir3 e i

/-- the circumcentre construction on vertices with last coordinate 1 (midpoints as `a + b`, a representative of `(a + b)/2`) -/
def circumcenter2 (a b c : Nat → α) : Nat → α :=
  let m1 : Nat → α := fun k => a k + b k
  let m2 : Nat → α := fun k => b k + c k
  cross (perpOn2 (cross a b) m1) (perpOn2 (cross b c) m2)


/-- entry (i, j) of the matrix `outer(ac, bd) − cr·outer(ad, bc)` of `Conic.from_crossratio` (`adjugate([1, x, y])[:, 0] = x × y`;
    the conic matrix is this plus its transpose) -/
def crM (cr : α) (a b c d : Nat → α) (i j : Nat) : α :=
  cross a c i * cross b d j - cr * (cross a d i * cross b c j)


/-- the two directions `a·I ± b·J` of `angle_bisectors` -/
def bisectorR (a b : Gauss α) : Nat → Gauss α := fun k => a * circIG k + b * circJG k
def bisectorS (a b : Gauss α) : Nat → Gauss α := fun k => a * circIG k - b * circJG k

/-- the vertex `p = (0, 0, 1)` of the brackets -/
def originG : Nat → Gauss α := fun k => match k with | 2 => 1 | _ => 0


end
end Geo
