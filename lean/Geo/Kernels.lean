/-
  Geo.Kernels — exact counterparts of `geometer/utils/math.py` (det, adjugate, inv, hat_matrix, is_multiple, roots
  branch selection) on matrices given as functions / lists.  No Mathlib.
-/
import Geo.Tensor
namespace Geo

abbrev Mat (α : Type) := List (List α)

namespace Mat
variable {α : Type}

def get [Zero α] (m : Mat α) (i j : Nat) : α := (m.getD i []).getD j 0
def ofFn (r c : Nat) (f : Nat → Nat → α) : Mat α := (List.range r).map fun i => (List.range c).map fun j => f i j
def rows (m : Mat α) : Nat := m.length
def transpose [Zero α] (m : Mat α) : Mat α := ofFn ((m.headD []).length) m.length fun i j => m.get j i
/-- delete row `i` and column `j` -/
def minor (m : Mat α) (i j : Nat) : Mat α := (m.eraseIdx i).map (·.eraseIdx j)

section
variable [Add α] [Mul α] [Zero α] [One α] [Neg α]

def mul (a b : Mat α) : Mat α :=
  ofFn a.length ((b.headD []).length) fun i j => sumRange b.length fun k => a.get i k * b.get k j

def mulVec (a : Mat α) (v : List α) : List α :=
  (List.range a.length).map fun i => sumRange v.length fun k => a.get i k * v.getD k 0

def identity (n : Nat) : Mat α := ofFn n n fun i j => if i = j then 1 else 0

def smul (c : α) (m : Mat α) : Mat α := m.map (·.map (c * ·))

/-- Laplace expansion along the first row (fuel = size) -/
def detAux : Nat → Mat α → α
  | 0, _ => 1
  | n + 1, m =>
    sumRange (n + 1) fun j =>
      (if j % 2 = 0 then m.get 0 j else -(m.get 0 j)) * detAux n (m.minor 0 j)

def det (m : Mat α) : α := detAux m.length m

/-- classical adjoint: `adj(A)_{ij} = (−1)^{i+j} det(minor_{ji})` -/
def adjugate (m : Mat α) : Mat α :=
  ofFn m.length m.length fun i j =>
    let c := detAux (m.length - 1) (m.minor j i)
    if (i + j) % 2 = 0 then c else -c
end

/-- `inv`: adjugate / det; `none` when the determinant is zero (the code raises `LinAlgError`) -/
def inv [Add α] [Mul α] [Zero α] [One α] [Neg α] [Div α] [DecidableEq α] (m : Mat α) : Option (Mat α) :=
  let d := det m
  if d = 0 then none else some ((adjugate m).map (·.map (· / d)))

def toTens (m : Mat α) : Tens α := ⟨[m.length, (m.headD []).length], m.flatten.toArray⟩
def ofTens [Zero α] (t : Tens α) : Mat α :=
  ofFn (t.shape.getD 0 0) (t.shape.getD 1 0) fun i j => t.get [i, j]

end Mat
end Geo

namespace Geo
section
variable {α : Type} [Add α] [Mul α] [Zero α] [One α] [Neg α]

/-- `hat_matrix(x)` for 3 scalars: `result[i[k], j[k]] = x[k]`, `result[j[k], i[k]] = −x[k]` with the index
    tables of the code (`i = [1,2,0]`, `j = [2,0,1]`) -/
def hatMatrix3 (ti tj : List Nat) (x : Nat → α) : Mat α :=
  Mat.ofFn 3 3 fun r c =>
    match (List.range 3).find? (fun k => ti.getD k 0 = r ∧ tj.getD k 0 = c) with
    | some k => x k
    | none => match (List.range 3).find? (fun k => tj.getD k 0 = r ∧ ti.getD k 0 = c) with
      | some k => -(x k)
      | none => 0

/-- pairs `(i,j)`, `i<j`, in the order of `np.triu_indices(n, 1)` -/
def triuPairs (n : Nat) : List (Nat × Nat) :=
  (List.range n).flatMap fun i => ((List.range n).filter (i < ·)).map fun j => (i, j)

/-- `hat_matrix(x)` for n ≠ 3: the reversed `triu` order -/
def hatMatrixN (n : Nat) (x : Nat → α) : Mat α :=
  let ps := (triuPairs n).reverse
  Mat.ofFn n n fun r c =>
    match ps.findIdx? (fun p => p.1 = r ∧ p.2 = c) with
    | some k => x k
    | none => match ps.findIdx? (fun p => p.2 = r ∧ p.1 = c) with
      | some k => -(x k)
      | none => 0

/-- exact `is_multiple(a, b)` along the whole vector: true iff one of them is zero or `a = c·b` with `c ≠ 0`
    (decided through the vanishing of all 2×2 minors and equal zero patterns) -/
def isMultiple [Sub α] [DecidableEq α] (a b : List α) : Bool :=
  let az := a.all (· = 0)
  let bz := b.all (· = 0)
  let zerosEqual := (a.zip b).all fun p => decide (p.1 = 0) == decide (p.2 = 0)
  let minors := (a.zip b).all fun p => (a.zip b).all fun q => p.1 * q.2 - q.1 * p.2 = 0
  az || bz || (zerosEqual && minors)

/-- coefficients (highest first) of `lead · Π (x − r)` -/
def polyFromRoots [Sub α] (lead : α) (rs : List α) : List α :=
  rs.foldl (fun (p : List α) r =>
    -- multiply by (x − r)
    let shifted := p ++ [0]
    let scaled := (0 : α) :: p.map (r * ·)
    (shifted.zip scaled).map fun q => q.1 - q.2) [lead]

/-- Horner evaluation -/
def polyEval (p : List α) (x : α) : α := p.foldl (fun acc c => acc * x + c) 0

end

/-- exact rank by fraction-free-free Gaussian elimination over a field -/
def Mat.rank {α : Type} [Add α] [Mul α] [Sub α] [Div α] [Zero α] [DecidableEq α] (m : Mat α) : Nat :=
  let cols := (m.headD []).length
  let rec go (fuel : Nat) (rows : Mat α) (col : Nat) (r : Nat) : Nat :=
    match fuel with
    | 0 => r
    | fuel + 1 =>
      if col ≥ cols then r else
      match rows.find? (fun row => row.getD col 0 ≠ 0) with
      | none => go fuel rows (col + 1) r
      | some piv =>
        let rest := (rows.erase piv).map fun row =>
          let f := row.getD col 0 / piv.getD col 0
          (row.zip piv).map fun q => q.1 - f * q.2
        go fuel rest (col + 1) (r + 1)
  go (cols + 1) m 0 0

end Geo
