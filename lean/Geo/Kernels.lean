/-
  Geo.Kernels — exact counterparts of `geometer/utils/math.py` (det, adjugate, inv, hat_matrix, is_multiple, roots
  branch selection) on matrices given as functions / lists.  No Mathlib.
-/
import Geo.Tensor
namespace Geo

abbrev Mat (α : Type) := List (List α)

namespace Mat
variable {α : Type}

def get [Zero α] (m : Mat α) (i j : Nat) : α := (m.getD i []).getD j 0
def ofFn (r c : Nat) (f : Nat → Nat → α) : Mat α := (List.range r).map fun i => (List.range c).map fun j => f i j
def rows (m : Mat α) : Nat := m.length
def transpose [Zero α] (m : Mat α) : Mat α := ofFn ((m.headD []).length) m.length fun i j => m.get j i
/-- delete row `i` and column `j` -/
def minor (m : Mat α) (i j : Nat) : Mat α := (m.eraseIdx i).map (·.eraseIdx j)

section
variable [Add α] [Mul α] [Zero α] [One α] [Neg α]

def mul (a b : Mat α) : Mat α :=
  ofFn a.length ((b.headD []).length) fun i j => sumRange b.length fun k => a.get i k * b.get k j

def mulVec (a : Mat α) (v : List α) : List α :=
  (List.range a.length).map fun i => sumRange v.length fun k => a.get i k * v.getD k 0

def identity (n : Nat) : Mat α := ofFn n n fun i j => if i = j then 1 else 0

def smul (c : α) (m : Mat α) : Mat α := m.map (·.map (c * ·))

/-- Laplace expansion along the first row (fuel = size) -/
def detAux : Nat → Mat α → α
  | 0, _ => 1
  | n + 1, m =>
    sumRange (n + 1) fun j =>
      (if j % 2 = 0 then m.get 0 j else -(m.get 0 j)) * detAux n (m.minor 0 j)

def det (m : Mat α) : α := detAux m.length m

/-- classical adjoint: `adj(A)_{ij} = (−1)^{i+j} det(minor_{ji})` -/
def adjugate (m : Mat α) : Mat α :=
  ofFn m.length m.length fun i j =>
    let c := detAux (m.length - 1) (m.minor j i)
    if (i + j) % 2 = 0 then c else -c
end

/-- `inv`: adjugate / det; `none` when the determinant is zero (the code raises `LinAlgError`) -/
def inv [Add α] [Mul α] [Zero α] [One α] [Neg α] [Div α] [DecidableEq α] (m : Mat α) : Option (Mat α) :=
  let d := det m
  if d = 0 then none else some ((adjugate m).map (·.map (· / d)))

def toTens (m : Mat α) : Tens α := ⟨[m.length, (m.headD []).length], m.flatten.toArray⟩
def ofTens [Zero α] (t : Tens α) : Mat α :=
  ofFn (t.shape.getD 0 0) (t.shape.getD 1 0) fun i j => t.get [i, j]

end Mat
end Geo
