/-
  Geo.Transform — model of `Tensor.__apply__` (the generic tensor action through a diagram),
  `TransformationTensor.__apply__/__pow__/inverse` and the constructors of `geometer/transformation.py`.
-/
import Geo.Kernels
import Geo.JoinMeet
namespace Geo

section
variable {α : Type} [Add α] [Mul α] [Zero α] [One α] [Neg α] [Div α] [DecidableEq α]

/-- evaluate a diagram whose node arrays are given explicitly (id ↦ array) -/
def runDiagramWith (arrays : List (Nat × Tens α)) (edges : List (Node × Node)) :
    Except JMErr (Tens α × EinsumSpec) :=
  match Diagram.ofEdges edges with
  | .error _ => .error .tensorComputation
  | .ok d => .ok (d.eval (d.nodes.map fun nd => ((arrays.find? (·.1 = nd.id)).map (·.2)).getD ⟨[], #[]⟩))

/-- a transformation (collection): `nfree` leading collection axes, then an (n, n) matrix, type (1,1) -/
structure TObj (α : Type) where
  nfree : Nat
  t : Tens α

def TObj.node (t : TObj α) (id : Nat) : Node :=
  ⟨id, t.t.shape, [t.nfree], [t.nfree + 1]⟩

/-- matrix inverse, position by position (`inv` of utils/math.py); `none` = singular -/
def TObj.inverse (t : TObj α) : Option (TObj α) :=
  let fs := t.t.shape.take t.nfree
  let n := t.t.shape.getLast?.getD 0
  let invs := (Tens.allIndices fs).map fun pos => (Mat.ofTens (t.t.slice pos)).inv
  if invs.any (·.isNone) then none
  else some ⟨t.nfree, ⟨fs ++ [n, n], (invs.flatMap fun m => (m.getD []).flatten).toArray⟩⟩

/-- `Tensor.__apply__`: one copy of the transformation per covariant index (edge self → t),
    one copy of the inverse per contravariant index (edge t⁻¹ → self) -/
def applyT (t : TObj α) (nfree ncov ncon : Nat) (x : Tens α) : Except JMErr (Tens α × EinsumSpec) :=
  let xnode : Node := ⟨1, x.shape, (List.range ncov).map (nfree + ·), (List.range ncon).map (nfree + ncov + ·)⟩
  let covEdges := (List.range ncov).map fun k => (xnode, t.node (10 + k))
  if ncon = 0 then
    runDiagramWith ((1, x) :: (List.range ncov).map fun k => (10 + k, t.t)) covEdges
  else
    match t.inverse with
    | none => .error .runtimeError       -- LinAlgError("Singular matrix")
    | some ti =>
      let conEdges := (List.range ncon).map fun k => (ti.node (20 + k), xnode)
      runDiagramWith ((1, x) :: ((List.range ncov).map fun k => (10 + k, t.t)) ++ (List.range ncon).map fun k => (20 + k, ti.t))
        (covEdges ++ conEdges)

/-- `TransformationTensor.__apply__`: matrix product `t · self`, broadcasting collection axes from the right -/
def composeT (t s : TObj α) : TObj α :=
  let n := t.t.shape.getLast?.getD 0
  let fsT := t.t.shape.take t.nfree
  let fsS := s.t.shape.take s.nfree
  let fs := if fsT.length ≥ fsS.length then fsT else fsS
  let data := (Tens.allIndices fs).flatMap fun pos =>
    let a := Mat.ofTens (t.t.slice (pos.drop (fs.length - fsT.length)))
    let b := Mat.ofTens (s.t.slice (pos.drop (fs.length - fsS.length)))
    (Mat.mul a b).flatten
  ⟨fs.length, ⟨fs ++ [n, n], data.toArray⟩⟩

def identityT (n : Nat) (fs : List Nat) : TObj α :=
  ⟨fs.length, Tens.ofFn (fs ++ [n, n]) fun idx => if idx.getD fs.length 0 = idx.getD (fs.length + 1) 0 then 1 else 0⟩

/-- `Tensor.__pow__` for k ≥ 1: the chain diagram `cur → prev` over k copies -/
def powDiagram (t : TObj α) (k : Nat) : Except JMErr (Tens α × EinsumSpec) :=
  let edges := (List.range (k - 1)).map fun i => (t.node (i + 2), t.node (i + 1))
  runDiagramWith ((List.range k).map fun i => (i + 1, t.t)) edges

/-- `TransformationTensor.__pow__` -/
def powT (t : TObj α) (k : Int) : Except JMErr (TObj α) :=
  let n := t.t.shape.getLast?.getD 0
  if k = 0 then .ok (identityT n (t.t.shape.take t.nfree))
  else
    let base : Option (TObj α) := if k < 0 then t.inverse else some t
    match base with
    | none => .error .runtimeError
    | some b =>
      let e := k.natAbs
      if e = 1 then .ok b else (powDiagram b e).map fun r => ⟨r.2.nFree, r.1⟩

end

/-! ### constructors (exact; trigonometric values enter as given numbers `c`, `s`) -/
section
variable {α : Type} [Add α] [Mul α] [Sub α] [Zero α] [One α] [Neg α] [Div α]

/-- `affine_transform(matrix, offset)` -/
def affineTransform (m : Mat α) (offset : List α) : Mat α :=
  let d := offset.length
  Mat.ofFn (d + 1) (d + 1) fun i j =>
    if i < d ∧ j < d then m.get i j
    else if i < d ∧ j = d then offset.getD i 0
    else if i = d ∧ j = d then 1 else 0

/-- `translation(v)` with `v` the *normalised* coordinates of the offset point -/
def translationM (v : List α) : Mat α := affineTransform (Mat.identity v.length) v

/-- `scaling(*factors)` -/
def scalingM (f : List α) : Mat α :=
  affineTransform (Mat.ofFn f.length f.length fun i j => if i = j then f.getD i 0 else 0) (f.map fun _ => 0)

/-- `rotation(angle)` in the plane with `c = cos angle`, `s = sin angle` -/
def rotation2M (c s : α) : Mat α := affineTransform [[c, -s], [s, c]] [0, 0]

/-- `rotation(angle, axis)` (Rodrigues as the code writes it): `c·1 + s·u + (1−c)·a aᵀ` with `u^{jk} = ε^{ijk} a_i`
    and `a` the unit axis -/
def rotation3M (c s : α) (a : List α) : Mat α :=
  let u (j k : Nat) : α := sumRange 3 fun i => ofInt (epsEntry 3 [i, j, k]) * a.getD i 0
  affineTransform (Mat.ofFn 3 3 fun j k =>
    c * (if j = k then 1 else 0) + s * u j k + (1 - c) * (a.getD j 0 * a.getD k 0)) [0, 0, 0]

/-- Householder part of `reflection`, written without the square root: `1 − 2 v vᵀ / |v|²` -/
def householderM (v : List α) : Mat α :=
  let n2 := sumRange v.length fun i => v.getD i 0 * v.getD i 0
  affineTransform (Mat.ofFn v.length v.length fun i j =>
    (if i = j then 1 else 0) - (1 + 1) * (v.getD i 0 * v.getD j 0) / n2) (v.map fun _ => 0)

/-- `reflection(h)` for a hyperplane `h = (v, d)` with a finite point `x` on it: `T(x) · H(v) · T(−x)` -/
def reflectionM (v x : List α) : Mat α :=
  Mat.mul (Mat.mul (translationM x) (householderM v)) (translationM (x.map (- ·)))

/-- `Transformation.from_points`: `t = M₂ D₂ (M₁ D₁)⁻¹` with `Mᵢ` the first n+1 points as columns and
    `Dᵢ = diag(Mᵢ⁻¹ · last point)`; `none` when a matrix that the code inverts is singular -/
def fromPointsM [DecidableEq α] (src tgt : List (List α)) : Option (Mat α) :=
  let n1 := src.length - 1
  let cols (ps : List (List α)) : Mat α := Mat.ofFn n1 n1 fun i j => (ps.getD j []).getD i 0
  let m1 := cols src
  let m2 := cols tgt
  match m1.inv, m2.inv with
  | some i1, some i2 =>
    let d1 := i1.mulVec (src.getD n1 [])
    let d2 := i2.mulVec (tgt.getD n1 [])
    let t1 := Mat.ofFn n1 n1 fun i j => m1.get i j * d1.getD j 0
    let t2 := Mat.ofFn n1 n1 fun i j => m2.get i j * d2.getD j 0
    t1.inv.map fun t1i => Mat.mul t2 t1i
  | _, _ => none

end
end Geo
