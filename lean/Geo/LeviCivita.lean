/-
  Geo.LeviCivita — model of `LeviCivitaTensor.__init__` and `KroneckerDelta.__init__`.
-/
import Geo.Tensor
namespace Geo

/-- `∏_{i<j} sign(idx[j] − idx[i])` — the product over `np.triu_indices(size, 1)` -/
def pairProd : List Nat → Int
  | [] => 1
  | x :: xs => (xs.foldl (fun (acc : Int) (y : Nat) => acc * sgnInt ((y : Int) - (x : Int))) 1) * pairProd xs

/-- is `idx` one of `itertools.permutations(range(n))`? -/
def isPermOfRange (n : Nat) (idx : List Nat) : Bool :=
  idx.length == n && idx.all (· < n) && decide idx.Nodup

/-- entry of `LeviCivitaTensor(n).array`: zero-initialised, the permutation tuples are overwritten -/
def epsEntry (n : Nat) (idx : List Nat) : Int :=
  if isPermOfRange n idx then pairProd idx else 0

/-- entry of `KroneckerDelta(n, p).array` at `idx = ν₁…ν_p μ₁…μ_p` -/
def deltaEntry (n : Nat) : Nat → List Nat → Int
  | 0, _ => 0   -- the library cannot instantiate p = 0 (unbounded recursion)
  | p + 1, idx =>
    if p + 1 = 1 then (if idx.getD 0 0 = idx.getD 1 0 then 1 else 0)
    else if p + 1 = n then epsEntry n (idx.take n) * epsEntry n (idx.drop n)
    else
      let last := idx.getLast?.getD 0
      let front := idx.dropLast
      ((List.range (p + 1)).map fun k =>
        (if (p + 1 + k + 1) % 2 = 0 then (1 : Int) else -1)
          * (if idx.getD k 0 = last then 1 else 0)
          * deltaEntry n p (front.eraseIdx k)).foldl (· + ·) 0

def epsTens {α : Type} [Zero α] [One α] [Add α] [Neg α] (n : Nat) : Tens α :=
  Tens.ofFn (List.replicate n n) fun idx => ofInt (epsEntry n idx)

def deltaTens {α : Type} [Zero α] [One α] [Add α] [Neg α] (n p : Nat) : Tens α :=
  Tens.ofFn (List.replicate (2 * p) n) fun idx => ofInt (deltaEntry n p idx)

end Geo
