/-
  Geo.Basic — scalars and elementary sums shared by the whole model (M-layer).
  No Mathlib import: these files are also compiled into the `geodriver` executable.
-/
namespace Geo

/-- Gaussian numbers `re + i·im` over `α` (used at `α = Rat` by the driver, at a field `K` in proofs). -/
structure Gauss (α : Type) where
  re : α
  im : α
deriving DecidableEq, Repr

namespace Gauss
variable {α : Type}
instance [Zero α] : Zero (Gauss α) := ⟨⟨0, 0⟩⟩
instance [One α] [Zero α] : One (Gauss α) := ⟨⟨1, 0⟩⟩
instance [Add α] : Add (Gauss α) := ⟨fun a b => ⟨a.re + b.re, a.im + b.im⟩⟩
instance [Sub α] : Sub (Gauss α) := ⟨fun a b => ⟨a.re - b.re, a.im - b.im⟩⟩
instance [Neg α] : Neg (Gauss α) := ⟨fun a => ⟨-a.re, -a.im⟩⟩
instance [Add α] [Sub α] [Mul α] : Mul (Gauss α) :=
  ⟨fun a b => ⟨a.re * b.re - a.im * b.im, a.re * b.im + a.im * b.re⟩⟩
def conj [Neg α] (a : Gauss α) : Gauss α := ⟨a.re, -a.im⟩
def normSq [Add α] [Mul α] (a : Gauss α) : α := a.re * a.re + a.im * a.im
instance [Add α] [Sub α] [Mul α] [Div α] : Div (Gauss α) :=
  ⟨fun a b => ⟨(a.re * b.re + a.im * b.im) / normSq b, (a.im * b.re - a.re * b.im) / normSq b⟩⟩
/-- the imaginary unit -/
def I [Zero α] [One α] : Gauss α := ⟨0, 1⟩
def ofReal [Zero α] (x : α) : Gauss α := ⟨x, 0⟩

@[simp] theorem zero_re [Zero α] : (0 : Gauss α).re = 0 := rfl
@[simp] theorem zero_im [Zero α] : (0 : Gauss α).im = 0 := rfl
@[simp] theorem one_re [One α] [Zero α] : (1 : Gauss α).re = 1 := rfl
@[simp] theorem one_im [One α] [Zero α] : (1 : Gauss α).im = 0 := rfl
@[simp] theorem add_re [Add α] (a b : Gauss α) : (a + b).re = a.re + b.re := rfl
@[simp] theorem add_im [Add α] (a b : Gauss α) : (a + b).im = a.im + b.im := rfl
@[simp] theorem sub_re [Sub α] (a b : Gauss α) : (a - b).re = a.re - b.re := rfl
@[simp] theorem sub_im [Sub α] (a b : Gauss α) : (a - b).im = a.im - b.im := rfl
@[simp] theorem neg_re [Neg α] (a : Gauss α) : (-a).re = -a.re := rfl
@[simp] theorem neg_im [Neg α] (a : Gauss α) : (-a).im = -a.im := rfl
@[simp] theorem mul_re [Add α] [Sub α] [Mul α] (a b : Gauss α) :
    (a * b).re = a.re * b.re - a.im * b.im := rfl
@[simp] theorem mul_im [Add α] [Sub α] [Mul α] (a b : Gauss α) :
    (a * b).im = a.re * b.im + a.im * b.re := rfl
@[simp] theorem I_re [Zero α] [One α] : (I : Gauss α).re = 0 := rfl
@[simp] theorem I_im [Zero α] [One α] : (I : Gauss α).im = 1 := rfl
@[simp] theorem ofReal_re [Zero α] (x : α) : (ofReal x).re = x := rfl
@[simp] theorem ofReal_im [Zero α] (x : α) : (ofReal x).im = 0 := rfl
@[simp] theorem mk_re (x y : α) : (Gauss.mk x y).re = x := rfl
@[simp] theorem mk_im (x y : α) : (Gauss.mk x y).im = y := rfl
theorem ext' {a b : Gauss α} (h1 : a.re = b.re) (h2 : a.im = b.im) : a = b := by
  cases a; cases b; simp_all
end Gauss

/-- `Σ_{i<n} f i` by structural recursion (unfolds with `simp [sumRange]` on numerals). -/
def sumRange {α : Type} [Add α] [Zero α] : Nat → (Nat → α) → α
  | 0, _ => 0
  | n + 1, f => sumRange n f + f n

/-- natural number into a generic scalar -/
def ofNat' {α : Type} [Zero α] [One α] [Add α] : Nat → α
  | 0 => 0
  | n + 1 => ofNat' n + 1

/-- integer literal into a generic scalar (only −1, 0, 1 … small values are ever needed) -/
def ofInt {α : Type} [Zero α] [One α] [Add α] [Neg α] : Int → α
  | .ofNat n => ofNat' n
  | .negSucc n => -(ofNat' (n + 1))

def sgnInt (x : Int) : Int := if x > 0 then 1 else if x < 0 then -1 else 0

end Geo
