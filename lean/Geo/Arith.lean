/-
  Geo.Arith — elementwise tensor arithmetic with NumPy broadcasting, and the affine point arithmetic of
  `PointLikeTensor.__add__/__sub__/__mul__/__truediv__`.
-/
import Geo.Tensor
namespace Geo

section
variable {α : Type} [Zero α]

/-- broadcast two shapes from the right (`none` = incompatible) -/
def broadcastShape (a b : List Nat) : Option (List Nat) :=
  let n := max a.length b.length
  let pa := List.replicate (n - a.length) 1 ++ a
  let pb := List.replicate (n - b.length) 1 ++ b
  (pa.zip pb).mapM fun p => if p.1 = p.2 then some p.1 else if p.1 = 1 then some p.2 else if p.2 = 1 then some p.1 else none

/-- entry of a tensor broadcast to a larger shape -/
def Tens.bget (t : Tens α) (outRank : Nat) (idx : List Nat) : α :=
  let own := idx.drop (outRank - t.shape.length)
  t.get ((own.zip t.shape).map fun p => if p.2 = 1 then 0 else p.1)

/-- `a op b` elementwise with broadcasting -/
def ewise (f : α → α → α) (a b : Tens α) : Option (Tens α) :=
  (broadcastShape a.shape b.shape).map fun sh =>
    Tens.ofFn sh fun idx => f (a.bget sh.length idx) (b.bget sh.length idx)
end

section
variable {α : Type} [Add α] [Sub α] [Mul α] [Div α] [Zero α] [One α] [DecidableEq α]

/-- one point: `_normalize_array` -/
def normalizePoint1 (p : List α) : List α :=
  let z := p.getLast?.getD 0
  if z = 0 then p else p.map (· / z)

/-- one pair of points: `PointLikeTensor.__add__ / __sub__` -/
def pointAddSub1 (sub : Bool) (a b : List α) : List α :=
  let na := normalizePoint1 a
  let nb := normalizePoint1 b
  (na.dropLast.zipWith (fun x y => if sub then x - y else x + y) nb.dropLast)
    ++ [if na.getLast?.getD 0 = 0 ∧ nb.getLast?.getD 0 = 0 then 0 else 1]

/-- `_normalize_array`: divide every finite point by its last coordinate (points at infinity unchanged) -/
def normalizePoints (t : Tens α) : Tens α :=
  let n := t.shape.getLast?.getD 1
  Tens.ofFn t.shape fun idx =>
    let z := t.get (idx.dropLast ++ [n - 1])
    if z = 0 then t.get idx else t.get idx / z

/-- `PointLikeTensor.__add__ / __sub__` for two point-like operands: affine parts added / subtracted on the
    normalised coordinates, last coordinate = max of the two (1 if either is finite, 0 if both are directions) -/
def pointAddSub (sub : Bool) (a b : Tens α) : Option (Tens α) :=
  let na := normalizePoints a
  let nb := normalizePoints b
  (broadcastShape a.shape b.shape).map fun sh =>
    let n := sh.getLast?.getD 1
    Tens.ofFn sh fun idx =>
      let x := na.bget sh.length idx
      let y := nb.bget sh.length idx
      if idx.getLast?.getD 0 = n - 1 then (if x = 0 ∧ y = 0 then 0 else 1)
      else if sub then x - y else x + y

/-- `p * c` / `p / c` for a scalar c: affine part scaled, last coordinate `self.array[..., -1] != 0` -/
def pointScale (divide : Bool) (a : Tens α) (c : α) : Tens α :=
  let na := normalizePoints a
  let n := a.shape.getLast?.getD 1
  Tens.ofFn a.shape fun idx =>
    if idx.getLast?.getD 0 = n - 1 then (if a.get idx = 0 then 0 else 1)
    else if divide then na.get idx / c else na.get idx * c

end
end Geo
