/-
  Geo.Proto — line protocol of the correspondence driver: parsing and printing of
  exact (Gaussian-)rational tensors, integer lists and results.
-/
import Geo.Tensor
namespace Geo

abbrev Q := Gauss Rat

def parseRat (s : String) : Option Rat :=
  match s.splitOn "/" with
  | [n] => n.toInt?.map fun i => (i : Rat)
  | [n, d] => do
    let i ← n.toInt?
    let j ← d.toInt?
    if j = 0 then none else some (Rat.divInt i j)
  | _ => none

def parseQ (s : String) : Option Q :=
  match s.splitOn "_" with
  | [r] => (parseRat r).map fun x => ⟨x, 0⟩
  | [r, i] => do
    let x ← parseRat r
    let y ← parseRat i
    some ⟨x, y⟩
  | _ => none

def showRat (r : Rat) : String := if r.den = 1 then toString r.num else s!"{r.num}/{r.den}"
def showQ (q : Q) : String := if q.im = 0 then showRat q.re else s!"{showRat q.re}_{showRat q.im}"

def parseNatList (sep : String) (s : String) : Option (List Nat) :=
  if s = "-" || s = "" then some [] else (s.splitOn sep).mapM (·.toNat?)

def showNatList (sep : String) (l : List Nat) : String :=
  if l.isEmpty then "-" else String.intercalate sep (l.map toString)

/-- `T:<d1>x<d2>…:<e1>,<e2>,…`  (shape `-` = scalar) -/
def parseTens (s : String) : Option (Tens Q) :=
  match s.splitOn ":" with
  | ["T", sh, es] => do
    let shape ← parseNatList "x" sh
    let entries ← (if es = "" then some [] else (es.splitOn ",").mapM parseQ)
    if entries.length ≠ shape.foldl (· * ·) 1 then none else some ⟨shape, entries.toArray⟩
  | _ => none

def showTens (t : Tens Q) : String :=
  s!"T:{showNatList "x" t.shape}:{String.intercalate "," (t.data.toList.map showQ)}"

def showBools (shape : List Nat) (bs : List Bool) : String :=
  s!"B:{showNatList "x" shape}:{String.join (bs.map fun b => if b then "1" else "0")}"

/-- a zero entry test on Gaussian rationals -/
instance : DecidableEq Q := inferInstance

end Geo
