/-
  Geo.Tensor — concrete arrays (row-major) used by the driver, and the bridge to the
  function view `List Nat → α` that the einsum evaluator and the proofs use.
-/
import Geo.Diagram
namespace Geo

structure Tens (α : Type) where
  shape : List Nat
  data : Array α
deriving Repr, BEq

namespace Tens
variable {α : Type}

def flatIndex (shape idx : List Nat) : Nat :=
  (shape.zip idx).foldl (fun acc (p : Nat × Nat) => acc * p.1 + p.2) 0

def get [Zero α] (t : Tens α) (idx : List Nat) : α := t.data.getD (flatIndex t.shape idx) 0

/-- all multi-indices of a shape in row-major order -/
def allIndices : List Nat → List (List Nat)
  | [] => [[]]
  | d :: ds => (List.range d).flatMap fun i => (allIndices ds).map (i :: ·)

def ofFn (shape : List Nat) (f : List Nat → α) : Tens α :=
  ⟨shape, ((allIndices shape).map f).toArray⟩

def size (t : Tens α) : Nat := t.shape.foldl (· * ·) 1
def rank (t : Tens α) : Nat := t.shape.length
def map {β : Type} (f : α → β) (t : Tens α) : Tens β := ⟨t.shape, t.data.map f⟩
def scalar (x : α) : Tens α := ⟨[], #[x]⟩
def isZero [Zero α] [DecidableEq α] (t : Tens α) : Bool := t.data.all (· = 0)

/-- slice at the leading (collection) position `pos` -/
def slice [Zero α] (t : Tens α) (pos : List Nat) : Tens α :=
  ofFn (t.shape.drop pos.length) fun idx => t.get (pos ++ idx)

end Tens

/-- evaluate a diagram on concrete tensors: `TensorDiagram.calculate` -/
def Diagram.eval {α : Type} [Add α] [Mul α] [Zero α] [One α] (d : Diagram) (arrays : List (Tens α)) :
    Tens α × EinsumSpec :=
  let s := d.spec
  let shapes := d.nodes.map (·.shape)
  let summed := summedLabels s.operands shapes s.out
  let dimOf (l : Nat) : Nat :=
    lookup ((s.operands.zip shapes).flatMap fun (ls, sh) => ls.zip sh) l
  let outShape := s.out.map dimOf
  (Tens.ofFn outShape fun oidx => evalEinsum s.operands s.out summed (arrays.map fun t => t.get) oidx, s)

end Geo
