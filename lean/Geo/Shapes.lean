/-
  Geo.Shapes — executable model (M-layer) of the planar membership tests of `geometer/shapes.py`:
  `SegmentTensor.contains`, `Triangle.contains`, `PolygonTensor.contains` (2-D branch, finite query point) and
  `SegmentTensor.intersect` for two planar segments.

  The arithmetic and the boolean combinations are NOT written here: they are the definitions of `Geo/Gen/Shapes.lean`,
  which translator A regenerates from the source text on every run (`seg_cd … seg_verdict`, `poly_v1 … poly_final`,
  `tri_lambda* / tri_verdict`).  What is written here is the glue the source expresses through library calls:
  `m mᵀ` (Gram matrix of the two end points), `_matrix_transform` (`m · X`), `join`/`meet` of the plane (cross
  products — the traced diagrams of C01 show `± p × q`; every use below is invariant under a non-zero factor),
  `is_multiple` (the exact model of Geo.Kernels) and the edge list (`np.roll`).
  Tolerances are exact zero tests (DESIGN 3).  No Mathlib.
-/
import Geo.Gen.Shapes
import Geo.Kernels
import Geo.Spec.Shapes
namespace Geo
open Spec

section
variable {α : Type} [Add α] [Sub α] [Mul α] [Neg α] [Zero α] [One α] [DecidableEq α]
  [LE α] [DecidableLE α] [LT α] [DecidableLT α]

/-- a homogeneous 3-vector -/
def v3 (x y z : α) : Nat → α
  | 0 => x
  | 1 => y
  | _ => z

def toL3 (v : Nat → α) : List α := [v 0, v 1, v 2]
def dot3 (a b : Nat → α) : α := a 0 * b 0 + a 1 * b 1 + a 2 * b 2

/-- `SegmentTensor.contains(X)` for a planar segment with (normalised) end point rows `a`, `b`, cached supporting line `l`
    and a homogeneous query `X` -/
def segContains (a b l X : Nat → α) : Bool :=
  let onLine := decide (dot3 l X = 0)                                        -- self._line.contains(other)
  let row : Nat → Nat → α := fun i => if i = 0 then a else b                   -- m = self.normalized_array
  let gram : Nat → Nat → α := fun i j => dot3 (row i) (row j)                  -- arr = m mᵀ
  let gb : Nat → α := fun k => gram k Gen.seg_gram_cols.1                      -- b = arr[..., 0]
  let gc : Nat → α := fun k => gram k Gen.seg_gram_cols.2                      -- c = arr[..., 1]
  let d : Nat → α := fun k => dot3 (row k) X                                   -- d = other._matrix_transform(m)
  let cd := Gen.seg_cd gb gc d
  let bd := Gen.seg_bd gb gc d
  let z := Gen.seg_z cd bd
  let w := Gen.seg_w cd bd
  let x := Gen.seg_x z 0 w 0                                                   -- real coordinates: imaginary parts 0
  let y := Gen.seg_y w 0
  Gen.seg_verdict onLine (decide (x = 0)) (decide (y = 0)) x y 0

/-- `Triangle.contains` (planar branch) on normalised rows -/
def triContains (a b c p : Nat → α) : Bool :=
  Gen.tri_verdict (Gen.tri_lambda1 a b c p) (Gen.tri_lambda2 a b c p) (Gen.tri_lambda3 a b c p) 0

/-- the ray direction of `PolygonTensor.contains` for a finite query point -/
def rayDir : Nat → α := fun k => ofInt (Gen.poly_ray_dir.getD k 0)

/-- does the edge `(a, b)` (normalised end points) count as a crossing of the ray from the finite point `p`? -/
def polyEdgeCounts (a b p : Nat → α) : Bool :=
  let le := cross a b                                                         -- edges._line = join(v1, v2)
  let lr := cross p rayDir                                                    -- rays._line = join(p, direction)
  let X := cross le lr                                                        -- intersections = meet(edges._line, rays._line)
  let rayEdge := isMultiple (toL3 le) (toL3 lr)                               -- ray_edges
  let n : Nat → Nat → α := fun i => if i = 0 then a else b                     -- edges.normalized_array
  let v1i := Gen.poly_v1 n (isMultiple (toL3 X) (toL3 a))
  let v2i := Gen.poly_v2 n (isMultiple (toL3 X) (toL3 b))
  Gen.poly_edge (segContains a b le X) (segContains p rayDir lr X) rayEdge v1i v2i

/-- `PolytopeTensor._edges`: vertex k with vertex k − roll -/
def polyEdges {β : Type} (vs : List β) : List (β × β) := vs.zip (vs.rotateLeft (-Gen.poly_edges_roll).toNat)

/-- `PolygonTensor.contains(p)`, planar branch, finite `p`, normalised vertices -/
def polyContains (vs : List (Nat → α)) (p : Nat → α) : Bool :=
  let es := polyEdges vs
  Gen.poly_final ((es.filter fun e => polyEdgeCounts e.1 e.2 p).length) (es.any fun e => segContains e.1 e.2 (cross e.1 e.2) p)

/-- the sum that `PolygonTensor.area` forms (twice the signed area; the result is half its absolute value):
    `Σ_{i ∈ range(lo, hi)} det[v_{r₀(i)}, v_{r₁(i)}, v_{r₂(i)}]` with the row table and the range of the source -/
def polyFan2 (vs : List (Nat → α)) : α :=
  let r := Gen.area_range vs.length
  ((List.range (r.2 - r.1)).map fun k =>
      let rows := Gen.area_rows (r.1 + k)
      let v : Nat → Nat → α := fun j => vs.getD (rows.getD j 0) (fun _ => 0)
      det3 (v 0) (v 1) (v 2)).foldl (· + ·) 0

/-- the numerators `Polygon.centroid` forms for the coordinate `c`: `Σ_i det_i · (sum of coordinate c over the three vertices of the
    i-th triangle of the fan)`, i.e. `6 · Σ wᵢ cᵢ` with `wᵢ = det_i / 2`, `cᵢ` = mean of the three vertices; the centroid is this
    over `3 · polyFan2` (`np.average(centroids, weights=weights)`) -/
def polyMoment6 (c : Nat) (vs : List (Nat → α)) : α :=
  let r := Gen.centroid_range vs.length
  ((List.range (r.2 - r.1)).map fun k =>
      let rows := Gen.centroid_rows (r.1 + k)
      let v : Nat → Nat → α := fun j => vs.getD (rows.getD j 0) (fun _ => 0)
      det3 (v 0) (v 1) (v 2) * (v 0 c + v 1 c + v 2 c)).foldl (· + ·) 0

/-- `SegmentTensor.intersect(SegmentTensor)` in the plane: the meet of the supporting lines if it is non-zero and both
    segments contain it -/
def segIntersect (a b c d : Nat → α) : Option (Nat → α) :=
  let l1 := cross a b
  let l2 := cross c d
  let X := cross l1 l2
  if (!(decide (X 0 = 0 ∧ X 1 = 0 ∧ X 2 = 0))) && segContains a b l1 X && segContains c d l2 X then some X else none

/-- `SegmentTensor.intersect(LineTensor)` in the plane: the meet of the supporting line with `l` if it is non-zero and the segment
    contains it -/
def segIntersectLine (a b l : Nat → α) : Option (Nat → α) :=
  let l1 := cross a b
  let X := cross l1 l
  if (!(decide (X 0 = 0 ∧ X 1 = 0 ∧ X 2 = 0))) && segContains a b l1 X then some X else none

/-- `PolygonTensor.intersect(LineTensor)` in the plane, before `distinct`: the edges' intersections with the line, in edge order -/
def polyIntersectLine (vs : List (Nat → α)) (l : Nat → α) : List (Nat → α) :=
  (polyEdges vs).filterMap fun e => segIntersectLine e.1 e.2 l

end

section
variable {α : Type} [Add α] [Sub α] [Mul α] [Div α] [Neg α] [Zero α] [One α] [DecidableEq α]

/-- `normalized_array` of a finite point / the unchanged array of a point at infinity -/
def normalize3 (v : Nat → α) : Nat → α := if v 2 = 0 then v else v3 (v 0 / v 2) (v 1 / v 2) 1

end
end Geo
