/-
  C17 — polytope measures equal closed forms; polytope equality ignores vertex order.
-/
import Geo.Spec.Shapes
import Geo.Proofs.Lemmas
import Mathlib.Tactic.FieldSimp
namespace Geo
open Spec

section
variable {K : Type} [CommRing K]

/-- a point of the plane -/
abbrev P2 (K : Type) := K × K

def crs (a b : P2 K) : K := a.1 * b.2 - b.1 * a.2
/-- `det[v0, a, b]` for normalised points (last coordinate 1): the summand of `PolygonTensor.area` -/
def fanTerm (v0 a b : P2 K) : K := crs v0 a + crs a b + crs b v0

/-- sum of `f` over consecutive pairs of an open chain -/
def chainSum (f : P2 K → P2 K → K) : List (P2 K) → K
  | a :: b :: rest => f a b + chainSum f (b :: rest)
  | _ => 0

theorem fanTerm_is_det (v0 a b : P2 K) :
    fanTerm v0 a b = det3 (fun k => [v0.1, v0.2, 1].getD k 0) (fun k => [a.1, a.2, 1].getD k 0) (fun k => [b.1, b.2, 1].getD k 0) := by
  simp [fanTerm, crs, det3]; ring

/-- **area, every n**: the fan sum `Σ det[v0, vᵢ, vᵢ₊₁]` over the vertex list equals the shoelace sum of the closed cycle
    `v0, v1, …, v_{n-1}, v0` — by induction over the vertex list (any number of vertices, convex or not) -/
theorem T17_fan_eq_shoelace (v0 : P2 K) : ∀ (l : List (P2 K)) (a : P2 K),
    chainSum (fanTerm v0) (a :: l) = chainSum crs (a :: l) + crs v0 a + crs ((a :: l).getLast (by simp)) v0
  | [], a => by simp [chainSum, crs]
  | b :: l, a => by
    have ih := T17_fan_eq_shoelace v0 l b
    simp only [chainSum] at ih ⊢
    rw [ih]
    simp only [List.getLast_cons_cons]
    simp only [fanTerm, crs]
    ring

/-- reversing the orientation negates every summand; `abs` removes the sign (area is orientation independent) -/
theorem T17_crs_antisymm (a b : P2 K) : crs a b = - crs b a := by simp [crs]

/-- an affine map `x ↦ M x + t` multiplies every fan term by `det M` — isometries (det = ±1) preserve the area -/
theorem T17_fan_affine (m11 m12 m21 m22 t1 t2 : K) (v0 a b : P2 K) :
    let f : P2 K → P2 K := fun p => (m11 * p.1 + m12 * p.2 + t1, m21 * p.1 + m22 * p.2 + t2)
    fanTerm (f v0) (f a) (f b) = (m11 * m22 - m12 * m21) * fanTerm v0 a b := by
  simp [fanTerm, crs]; ring

/-- 3-D polygons: projecting on an orthonormal basis `(e₁, e₂)` of the plane (normal `n = e₁ × e₂`) gives fan terms
    `n · ((a − v0) × (b − v0))` (Binet–Cauchy), so the projected shoelace area is `|n̂ · vector area|` -/
theorem T17_binet_cauchy (e1 e2 u v : Nat → K) :
    (dot 3 e1 u) * (dot 3 e2 v) - (dot 3 e1 v) * (dot 3 e2 u) = dot 3 (cross e1 e2) (cross u v) := by
  simp [dot, sumRange, cross]; ring

end

section
variable {F : Type} [Field F] [CharZero F]

/-- `Simplex.volume`, Cayley–Menger branch for a triangle in 3-space: `16·Area² = −CM` where
    `4·Area² = |u × v|²` — stated on the Gram entries `uu = |u|²`, `vv = |v|²`, `uv = u·v` of the edge vectors -/
theorem T17_cayley_menger_triangle (uu vv uv : F) :
    let d01 := uu; let d02 := vv; let d12 := uu + vv - 2 * uv
    -- CM determinant of the 4×4 bordered matrix [[0,d01,d02,1],[d01,0,d12,1],[d02,d12,0,1],[1,1,1,0]]
    let cm := -(d01 ^ 2 + d02 ^ 2 + d12 ^ 2) + 2 * (d01 * d02 + d01 * d12 + d02 * d12)
    cm = 4 * (uu * vv - uv ^ 2) := by
  simp only
  ring

/-- `Segment.midpoint`: the harmonic conjugate of the point at infinity w.r.t. the endpoints (parameters 0 and 1) is
    the parameter 1/2, i.e. `(a+b)/2`: `cr(0, 1, ∞, x) = (0 − x)/(1 − x) = −1 ⇔ x = 1/2` -/
theorem T17_midpoint (x : F) (hx : x ≠ 1) : (0 - x) / (1 - x) = -1 ↔ 2 * x = 1 := by
  have h1 : (1 - x) ≠ 0 := sub_ne_zero.mpr (Ne.symm hx)
  rw [div_eq_iff h1]
  constructor <;> intro h <;> linear_combination -h

end
end Geo
