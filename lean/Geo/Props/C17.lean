import Geo.Spec.Shapes
namespace Geo
theorem C17_placeholder : (1 : Nat) = 1 := rfl
end Geo
