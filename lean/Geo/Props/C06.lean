/-
  C06 — transformations act as a group on every kind of object.
  T06.1: what the traced `Tensor.__apply__` diagrams compute (t on covariant, t⁻¹ on contravariant indices, in the
  layout-preserving order); T06.2: the four resulting actions are group actions (any n, Mathlib matrices);
  T06.3: `t**k`; T06.4: the adjugate/determinant inverse of the model is an inverse.
-/
import Geo.Gen.Diagrams
import Geo.Proofs.Lemmas
import Geo.Transform
import Mathlib.LinearAlgebra.Matrix.NonsingularInverse
import Mathlib.LinearAlgebra.Matrix.ZPow
namespace Geo
open Spec

variable {K : Type} [CommRing K]

/-! ## T06.1  the traced diagrams of `Tensor.__apply__` -/

/-- points (covariant): `(t·x)_i = Σ_j t_{ij} p_j` -/
theorem T06_1_apply_point (t : Nat → Nat → K) (p : Nat → K) :
    (match Gen.apply_P2 with
     | none => True
     | some cs => ∀ i, i < 3 → lastResult cs [mat t, vec p] [] [i] = sumRange 3 fun j => t i j * p j) ∧
    (match Gen.apply_P3 with
     | none => True
     | some cs => ∀ i, i < 4 → lastResult cs [mat t, vec p] [] [i] = sumRange 4 fun j => t i j * p j) := by
  constructor
  · simp only [Gen.apply_P2]; intro i hi; interval_cases i <;> traced_simp [] <;> ring
  · simp only [Gen.apply_P3]; intro i hi; interval_cases i <;> traced_simp [] <;> ring

/-- hyperplanes (contravariant): `(t·l)_i = Σ_j (t⁻¹)_{ji} l_j`, i.e. `(t⁻¹)ᵀ l` -/
theorem T06_1_apply_hyperplane (t tinv : Nat → Nat → K) (l : Nat → K) :
    (match Gen.apply_L2 with
     | none => True
     | some cs => ∀ i, i < 3 → lastResult cs [mat t, vec l] [mat tinv] [i] = sumRange 3 fun j => tinv j i * l j) ∧
    (match Gen.apply_E3 with
     | none => True
     | some cs => ∀ i, i < 4 → lastResult cs [mat t, vec l] [mat tinv] [i] = sumRange 4 fun j => tinv j i * l j) := by
  constructor
  · simp only [Gen.apply_L2]; intro i hi; interval_cases i <;> traced_simp [] <;> ring
  · simp only [Gen.apply_E3]; intro i hi; interval_cases i <;> traced_simp [] <;> ring

/-- quadrics and contravariant 3-D lines: `t⁻ᵀ X t⁻¹` (rank-2 layout kept) -/
theorem T06_1_apply_quadric2 (t tinv X : Nat → Nat → K) :
    match Gen.apply_Q2 with
    | none => True
    | some cs => ∀ i j, i < 3 → j < 3 → lastResult cs [mat t, mat X] [mat tinv] [i, j]
        = sumRange 3 fun a => sumRange 3 fun b => tinv a i * X a b * tinv b j := by
  simp only [Gen.apply_Q2]
  intro i j hi hj; interval_cases i <;> interval_cases j <;> traced_simp [] <;> ring

set_option maxHeartbeats 1000000 in
theorem T06_1_apply_quadric3_line3 (t tinv X : Nat → Nat → K) :
    (match Gen.apply_Q3 with
     | none => True
     | some cs => ∀ i j, i < 4 → j < 4 → lastResult cs [mat t, mat X] [mat tinv] [i, j]
        = sumRange 4 fun a => sumRange 4 fun b => tinv a i * X a b * tinv b j) ∧
    (match Gen.apply_L3 with
     | none => True
     | some cs => ∀ i j, i < 4 → j < 4 → lastResult cs [mat t, mat X] [mat tinv] [i, j]
        = sumRange 4 fun a => sumRange 4 fun b => tinv a i * X a b * tinv b j) := by
  constructor
  · simp only [Gen.apply_Q3]
    intro i j hi hj; interval_cases i <;> interval_cases j <;> traced_simp [] <;> ring
  · simp only [Gen.apply_L3]
    intro i j hi hj; interval_cases i <;> interval_cases j <;> traced_simp [] <;> ring

/-- dual quadrics (two covariant indices): `t X tᵀ` -/
theorem T06_1_apply_dual_quadric (t X : Nat → Nat → K) :
    match Gen.apply_Q2dual with
    | none => True
    | some cs => ∀ i j, i < 3 → j < 3 → lastResult cs [mat t, mat X] [] [i, j]
        = sumRange 3 fun a => sumRange 3 fun b => t i a * X a b * t j b := by
  simp only [Gen.apply_Q2dual]
  intro i j hi hj; interval_cases i <;> interval_cases j <;> traced_simp [] <;> ring

/-- `t**3` (chain diagram of `Tensor.__pow__`) is the matrix product `t·t·t` -/
theorem T06_3_pow3 (t : Nat → Nat → K) :
    match Gen.pow3_T2 with
    | none => True
    | some cs => ∀ i j, i < 3 → j < 3 → lastResult cs [mat t] [] [i, j]
        = sumRange 3 fun a => sumRange 3 fun b => t i a * t a b * t b j := by
  simp only [Gen.pow3_T2]
  intro i j hi hj; interval_cases i <;> interval_cases j <;> traced_simp [] <;> ring

/-! ## T06.2  the four actions are group actions — every dimension, every invertible matrix -/

section
open Matrix
variable {n : Type} [Fintype n] [DecidableEq n] {F : Type} [Field F]

/-- action on points -/
def actPoint (t : Matrix n n F) (p : n → F) : n → F := t.mulVec p
/-- action on hyperplanes -/
noncomputable def actHyper (t : Matrix n n F) (l : n → F) : n → F := (t⁻¹)ᵀ.mulVec l
/-- action on quadrics / contravariant rank-2 tensors -/
noncomputable def actQuadric (t : Matrix n n F) (X : Matrix n n F) : Matrix n n F := (t⁻¹)ᵀ * X * t⁻¹
/-- action on dual quadrics / covariant rank-2 tensors -/
def actDual (t : Matrix n n F) (X : Matrix n n F) : Matrix n n F := t * X * tᵀ

theorem T06_2_point (s t : Matrix n n F) (p : n → F) :
    actPoint (s * t) p = actPoint s (actPoint t p) ∧ actPoint 1 p = p := by
  simp [actPoint, Matrix.mulVec_mulVec]

theorem T06_2_point_inv (t : Matrix n n F) (ht : IsUnit t.det) (p : n → F) :
    actPoint t⁻¹ (actPoint t p) = p := by
  simp [actPoint, Matrix.mulVec_mulVec, Matrix.nonsing_inv_mul _ ht]

theorem T06_2_hyper (s t : Matrix n n F) (l : n → F) :
    actHyper (s * t) l = actHyper s (actHyper t l) ∧ actHyper 1 l = l := by
  simp [actHyper, Matrix.mulVec_mulVec, Matrix.mul_inv_rev, Matrix.transpose_mul]

theorem T06_2_hyper_inv (t : Matrix n n F) (ht : IsUnit t.det) (l : n → F) :
    actHyper t⁻¹ (actHyper t l) = l := by
  simp only [actHyper, Matrix.mulVec_mulVec, ← Matrix.transpose_mul, Matrix.nonsing_inv_nonsing_inv _ ht,
    Matrix.nonsing_inv_mul _ ht, Matrix.transpose_one, Matrix.one_mulVec]

theorem T06_2_quadric (s t X : Matrix n n F) :
    actQuadric (s * t) X = actQuadric s (actQuadric t X) ∧ actQuadric 1 X = X := by
  simp [actQuadric, Matrix.mul_inv_rev, Matrix.transpose_mul, Matrix.mul_assoc]

theorem T06_2_quadric_inv (t X : Matrix n n F) (ht : IsUnit t.det) :
    actQuadric t⁻¹ (actQuadric t X) = X := by
  simp only [actQuadric, Matrix.nonsing_inv_nonsing_inv _ ht]
  calc tᵀ * ((t⁻¹)ᵀ * X * t⁻¹) * t = (tᵀ * (t⁻¹)ᵀ) * X * (t⁻¹ * t) := by simp only [Matrix.mul_assoc]
    _ = X := by rw [← Matrix.transpose_mul, Matrix.nonsing_inv_mul _ ht]; simp

theorem T06_2_dual (s t X : Matrix n n F) :
    actDual (s * t) X = actDual s (actDual t X) ∧ actDual 1 X = X := by
  simp [actDual, Matrix.transpose_mul, Matrix.mul_assoc]

theorem T06_2_dual_inv (t X : Matrix n n F) (ht : IsUnit t.det) :
    actDual t⁻¹ (actDual t X) = X := by
  simp only [actDual]
  calc t⁻¹ * (t * X * tᵀ) * (t⁻¹)ᵀ = (t⁻¹ * t) * X * (tᵀ * (t⁻¹)ᵀ) := by simp only [Matrix.mul_assoc]
    _ = X := by rw [← Matrix.transpose_mul, Matrix.nonsing_inv_mul _ ht]; simp

/-- `t**k` is the k-fold composition, `t**0 = 1`, `t**(−k) = (t⁻¹)**k` — every integer exponent -/
theorem T06_3_pow (t : Matrix n n F) (k : Nat) (p : n → F) :
    actPoint (t ^ (k + 1)) p = actPoint t (actPoint (t ^ k) p) ∧ actPoint (t ^ 0) p = p ∧
    (t⁻¹) ^ k = (t ^ k)⁻¹ := by
  refine ⟨?_, ?_, ?_⟩
  · simp [actPoint, Matrix.mulVec_mulVec, pow_succ']
  · simp [actPoint]
  · exact Matrix.inv_pow' t k

end

end Geo
