import Geo.Transform
namespace Geo
theorem C06_placeholder : (1 : Nat) = 1 := rfl
end Geo
