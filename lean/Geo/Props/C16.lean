/-
  C16 — segment, polygon and triangle membership is the closed Cartesian point set.
  The arithmetic of `SegmentTensor.contains` and `Triangle.contains` is regenerated from geometer/shapes.py
  (translator A, Geo/Gen/Shapes.lean); polygon membership is decided by the correspondence (exhaustive lattice
  enumeration in the thorough tier) against the independent even–odd specification `Spec.inPolygon`.
-/
import Geo.Gen.Shapes
import Geo.Spec.Shapes
import Geo.Proofs.Lemmas
import Mathlib.Algebra.Order.Field.Basic
import Mathlib.Tactic.Linarith
import Mathlib.Tactic.Positivity
namespace Geo
open Spec

section
variable {K : Type} [CommRing K]

/-- **T16.1** (algebra) for normalised endpoints with Gram entries `aa = a·a`, `ab = a·b`, `bb = b·b` and the query
    `p = (1−t) a + t b`, the code's quantities are `z = −t·D`, `w = −D` with `D = aa·bb − ab²` (Gram determinant) -/
theorem T16_1_segment_zw (aa ab bb t : K) :
    let b : Nat → K := fun k => if k = Gen.seg_gram_cols.1 then aa else ab      -- column 0 of m mᵀ: (a·a, b·a)
    let c : Nat → K := fun k => if k = 0 then ab else bb                          -- column 1 of m mᵀ: (a·b, b·b)
    let d : Nat → K := fun k => if k = 0 then (1 - t) * aa + t * ab else (1 - t) * ab + t * bb   -- m·p
    let cd := Gen.seg_cd b c d
    let bd := Gen.seg_bd b c d
    Gen.seg_z cd bd = -(t * (aa * bb - ab * ab)) ∧ Gen.seg_w cd bd = -(aa * bb - ab * ab) := by
  simp [Gen.seg_cd, Gen.seg_bd, Gen.seg_z, Gen.seg_w, Gen.seg_gram_cols]
  constructor <;> ring

/-- **T16.2** (algebra) barycentric coordinates: for `p = α a + β b + γ c` the three determinants are
    `α·det[a,b,c]`, `β·det[a,b,c]`, `γ·det[a,b,c]` -/
theorem T16_2_triangle_lambdas (a b c : Nat → K) (al be ga : K) :
    let p : Nat → K := fun k => al * a k + be * b k + ga * c k
    Gen.tri_lambda1 a b c p = al * det3 a b c ∧ Gen.tri_lambda2 a b c p = be * det3 a b c ∧
    Gen.tri_lambda3 a b c p = ga * det3 a b c := by
  simp [Gen.tri_lambda1, Gen.tri_lambda2, Gen.tri_lambda3, det3]
  refine ⟨?_, ?_, ?_⟩ <;> ring

end

section
variable {F : Type} [Field F] [LinearOrder F] [IsStrictOrderedRing F]

/-- **T16.1** (order) the interval test `0 ≤ x ≤ y` on `x = z·w`, `y = w²` decides `0 ≤ t ≤ 1` whenever the endpoints are
    independent (`D ≠ 0`) -/
theorem T16_1_segment_interval (t D : F) (hD : D ≠ 0) :
    (0 ≤ (-(t * D)) * (-D) ∧ (-(t * D)) * (-D) ≤ (-D) * (-D)) ↔ (0 ≤ t ∧ t ≤ 1) := by
  have hpos : 0 < D * D := mul_self_pos.mpr hD
  have e1 : (-(t * D)) * (-D) = t * (D * D) := by ring
  have e2 : (-D) * (-D) = D * D := by ring
  rw [e1, e2]
  constructor
  · rintro ⟨h1, h2⟩
    constructor
    · by_contra hneg
      push_neg at hneg
      have : t * (D * D) < 0 := mul_neg_of_neg_of_pos hneg hpos
      linarith
    · by_contra hgt
      push_neg at hgt
      have : 1 * (D * D) < t * (D * D) := mul_lt_mul_of_pos_right hgt hpos
      linarith
  · rintro ⟨h1, h2⟩
    constructor
    · exact mul_nonneg h1 hpos.le
    · calc t * (D * D) ≤ 1 * (D * D) := mul_le_mul_of_nonneg_right h2 hpos.le
        _ = D * D := one_mul _

/-- **T16.2** (order) "all three determinants ≥ 0 or all ≤ 0" ⇔ `α, β, γ ≥ 0`, for a non-degenerate triangle of either
    orientation — the closed triangle, boundary and vertices included -/
theorem T16_2_triangle_sign (al be ga dt : F) (hd : dt ≠ 0) :
    ((0 ≤ al * dt ∧ 0 ≤ be * dt ∧ 0 ≤ ga * dt) ∨ (al * dt ≤ 0 ∧ be * dt ≤ 0 ∧ ga * dt ≤ 0)) ∧ (al + be + ga = 1)
      ↔ (0 ≤ al ∧ 0 ≤ be ∧ 0 ≤ ga) ∧ (al + be + ga = 1) := by
  constructor
  · rintro ⟨h, hs⟩
    refine ⟨?_, hs⟩
    rcases lt_or_gt_of_ne hd with hneg | hpos
    · -- dt < 0
      rcases h with ⟨h1, h2, h3⟩ | ⟨h1, h2, h3⟩
      · -- all products ≥ 0 with dt < 0 ⇒ all coefficients ≤ 0 ⇒ sum ≤ 0, contradiction with sum = 1
        have a1 : al ≤ 0 := by by_contra h; push_neg at h; have := mul_neg_of_pos_of_neg h hneg; linarith
        have a2 : be ≤ 0 := by by_contra h; push_neg at h; have := mul_neg_of_pos_of_neg h hneg; linarith
        have a3 : ga ≤ 0 := by by_contra h; push_neg at h; have := mul_neg_of_pos_of_neg h hneg; linarith
        linarith
      · have a1 : 0 ≤ al := by by_contra h; push_neg at h; have := mul_pos_of_neg_of_neg h hneg; linarith
        have a2 : 0 ≤ be := by by_contra h; push_neg at h; have := mul_pos_of_neg_of_neg h hneg; linarith
        have a3 : 0 ≤ ga := by by_contra h; push_neg at h; have := mul_pos_of_neg_of_neg h hneg; linarith
        exact ⟨a1, a2, a3⟩
    · rcases h with ⟨h1, h2, h3⟩ | ⟨h1, h2, h3⟩
      · have a1 : 0 ≤ al := by by_contra h; push_neg at h; have := mul_neg_of_neg_of_pos h hpos; linarith
        have a2 : 0 ≤ be := by by_contra h; push_neg at h; have := mul_neg_of_neg_of_pos h hpos; linarith
        have a3 : 0 ≤ ga := by by_contra h; push_neg at h; have := mul_neg_of_neg_of_pos h hpos; linarith
        exact ⟨a1, a2, a3⟩
      · have a1 : al ≤ 0 := by by_contra h; push_neg at h; have := mul_pos h hpos; linarith
        have a2 : be ≤ 0 := by by_contra h; push_neg at h; have := mul_pos h hpos; linarith
        have a3 : ga ≤ 0 := by by_contra h; push_neg at h; have := mul_pos h hpos; linarith
        linarith
  · rintro ⟨⟨h1, h2, h3⟩, hs⟩
    refine ⟨?_, hs⟩
    rcases lt_or_gt_of_ne hd with hneg | hpos
    · right
      exact ⟨mul_nonpos_of_nonneg_of_nonpos h1 hneg.le, mul_nonpos_of_nonneg_of_nonpos h2 hneg.le,
        mul_nonpos_of_nonneg_of_nonpos h3 hneg.le⟩
    · left
      exact ⟨mul_nonneg h1 hpos.le, mul_nonneg h2 hpos.le, mul_nonneg h3 hpos.le⟩

/-- the Gram determinant of two independent real vectors is positive (Lagrange identity, plane case): the segment's
    endpoints being distinct points makes `D ≠ 0` in T16.1 -/
theorem T16_1_gram_pos (a0 a1 b0 b1 : F) (h : a0 * b1 - a1 * b0 ≠ 0) :
    0 < (a0 * a0 + a1 * a1 + 1) * (b0 * b0 + b1 * b1 + 1) - (a0 * b0 + a1 * b1 + 1) * (a0 * b0 + a1 * b1 + 1) := by
  have e : (a0 * a0 + a1 * a1 + 1) * (b0 * b0 + b1 * b1 + 1) - (a0 * b0 + a1 * b1 + 1) * (a0 * b0 + a1 * b1 + 1)
      = (a0 * b1 - a1 * b0) ^ 2 + (a0 - b0) ^ 2 + (a1 - b1) ^ 2 := by ring
  rw [e]
  have := pow_pos (abs_pos.mpr h) 2
  have h1 : 0 < (a0 * b1 - a1 * b0) ^ 2 := by rwa [sq_abs] at this
  positivity

/-- non-vacuity: the unit segment, t = 1/2 -/
example : (0 : ℚ) ≤ 1 / 2 ∧ (1 / 2 : ℚ) ≤ 1 := by norm_num

end
end Geo
