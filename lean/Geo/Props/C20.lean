/-
  C20 — the numeric kernels agree with exact linear algebra on every code path.
  Statements about `Geo.Gen.*` are about terms regenerated from geometer/utils/math.py on every run (translator A).
-/
import Geo.Gen.Kernels
import Geo.Kernels
import Geo.Proofs.Lemmas
import Mathlib.LinearAlgebra.Matrix.Adjugate
import Mathlib.LinearAlgebra.Matrix.Determinant.Basic
import Mathlib.LinearAlgebra.Matrix.Notation
import Mathlib.Tactic.FieldSimp
import Mathlib.Tactic.Linarith
import Mathlib.Algebra.CharZero.Defs
namespace Geo
open Spec

variable {K : Type} [Field K]

/-! ## det -/

theorem T20_det2 (A : Nat → Nat → K) :
    Gen.det2 A = Matrix.det (Matrix.of fun (i j : Fin 2) => A i j) := by
  simp [Gen.det2, Matrix.det_fin_two]; ring

theorem T20_det3_sarrus (A : Nat → Nat → K) :
    Gen.det3Sarrus A = Matrix.det (Matrix.of fun (i j : Fin 3) => A i j) := by
  simp [Gen.det3Sarrus, Matrix.det_fin_three]; ring

/-- the hand-written Laplace model agrees with the generated closed forms (so the driver's exact `det` is `Matrix.det`) -/
theorem T20_det_model (A : Nat → Nat → K) :
    Mat.det (Mat.ofFn 2 2 A) = Gen.det2 A ∧ Mat.det (Mat.ofFn 3 3 A) = Gen.det3Sarrus A := by
  constructor
  · simp [Mat.det, Mat.detAux, Mat.ofFn, Mat.get, Mat.minor, sumRange, List.range_succ, Gen.det2]; ring
  · simp [Mat.det, Mat.detAux, Mat.ofFn, Mat.get, Mat.minor, sumRange, List.range_succ, Gen.det3Sarrus]; ring

/-- the switch-over conditions are exactly the documented ones (3×3 batches of at least 64 matrices; …) -/
theorem T20_thresholds (n size : Nat) :
    (Gen.detUses2x2 n size = true ↔ n = 2) ∧
    (Gen.detUsesSarrus n size = true ↔ n = 3 ∧ 9 * 64 ≤ size) ∧
    (Gen.adjUsesMinors n size = true ↔ 5 ≤ n ∨ n * n * 64 ≤ size) ∧
    (Gen.invUsesAdjugate n size = true ↔ n ≤ 4 ∧ n * n * 64 ≤ size) := by
  simp [Gen.detUses2x2, Gen.detUsesSarrus, Gen.adjUsesMinors, Gen.invUsesAdjugate]

/-! ## adjugate -/

/-- 2×2: the gather tables followed by the two sign flips give the classical adjoint -/
theorem T20_adj2 (A : Nat → Nat → K) :
    ∀ i j : Fin 2,
      (if (i.val, j.val) ∈ Gen.adj2Negated then -1 else 1) *
        A ((Gen.adj2Rows.getD i []).getD j 0) ((Gen.adj2Cols.getD i []).getD j 0)
      = Matrix.adjugate (Matrix.of fun (i j : Fin 2) => A i j) i j := by
  intro i j
  fin_cases i <;> fin_cases j <;> simp [Gen.adj2Negated, Gen.adj2Rows, Gen.adj2Cols, Matrix.adjugate_fin_two]

/-- minors branch, every n: the two slice sign flips negate exactly the entries with `i + j` odd,
    i.e. they implement the factor `(−1)^{i+j}` of the cofactor -/
theorem T20_adj_sign_slices (i j : Nat) :
    (Gen.adjSignSlices.any fun s =>
        decide (s.1.1 ≤ i ∧ (i - s.1.1) % s.1.2 = 0 ∧ s.2.1 ≤ j ∧ (j - s.2.1) % s.2.2 = 0)) = true
      ↔ (i + j) % 2 = 1 := by
  simp [Gen.adjSignSlices]
  omega

/-- the model's adjugate (cofactors by Laplace minors, as in the minors branch) satisfies `A · adj A = det A · 1`
    — sizes 2, 3, 4, over any commutative ring -/
theorem T20_mul_adjugate_2 {R : Type} [CommRing R] (A : Nat → Nat → R) :
    Mat.mul (Mat.ofFn 2 2 A) (Mat.adjugate (Mat.ofFn 2 2 A)) = Mat.smul (Mat.det (Mat.ofFn 2 2 A)) (Mat.identity 2) := by
  simp [Mat.mul, Mat.adjugate, Mat.det, Mat.detAux, Mat.ofFn, Mat.get, Mat.minor, Mat.smul, Mat.identity, sumRange,
    List.range_succ]
    <;> (try constructor) <;> (try constructor) <;> (try constructor) <;> (try ring)

set_option maxHeartbeats 1000000 in
theorem T20_mul_adjugate_3 {R : Type} [CommRing R] (A : Nat → Nat → R) :
    ∀ i j, i < 3 → j < 3 →
      (Mat.mul (Mat.ofFn 3 3 A) (Mat.adjugate (Mat.ofFn 3 3 A))).get i j
        = if i = j then Mat.det (Mat.ofFn 3 3 A) else 0 := by
  intro i j hi hj
  interval_cases i <;> interval_cases j <;>
    simp [Mat.mul, Mat.adjugate, Mat.det, Mat.detAux, Mat.ofFn, Mat.get, Mat.minor, sumRange, List.range_succ] <;> ring

set_option maxHeartbeats 4000000 in
theorem T20_mul_adjugate_4 {R : Type} [CommRing R] (A : Nat → Nat → R) :
    ∀ i j, i < 4 → j < 4 →
      (Mat.mul (Mat.ofFn 4 4 A) (Mat.adjugate (Mat.ofFn 4 4 A))).get i j
        = if i = j then Mat.det (Mat.ofFn 4 4 A) else 0 := by
  intro i j hi hj
  interval_cases i <;> interval_cases j <;>
    simp [Mat.mul, Mat.adjugate, Mat.det, Mat.detAux, Mat.ofFn, Mat.get, Mat.minor, sumRange, List.range_succ] <;> ring

/-- Mathlib, every n: `A · adj A = det A · 1`, and `adj A / det A` is the inverse when `det A ≠ 0`
    (the statement the `inv` branch `adjugate(A) / det(A)` relies on) -/
theorem T20_inv_general {n : Type} [Fintype n] [DecidableEq n] (A : Matrix n n K) (h : A.det ≠ 0) :
    A * Matrix.adjugate A = A.det • (1 : Matrix n n K) ∧ A * ((A.det)⁻¹ • Matrix.adjugate A) = 1 := by
  refine ⟨Matrix.mul_adjugate A, ?_⟩
  rw [Matrix.mul_smul, Matrix.mul_adjugate, smul_smul, inv_mul_cancel₀ h, one_smul]

/-! ## hat_matrix -/

/-- n = 3: `hat_matrix(x) · v = v × x`, and the matrix is skew-symmetric -/
theorem T20_hat3 (x v : Nat → K) :
    (∀ i, i < 3 → (Mat.mulVec (hatMatrix3 Gen.hat3I Gen.hat3J x) [v 0, v 1, v 2]).getD i 0 = cross v x i) ∧
    (∀ i j, i < 3 → j < 3 → (hatMatrix3 Gen.hat3I Gen.hat3J x).get i j = - (hatMatrix3 Gen.hat3I Gen.hat3J x).get j i) := by
  constructor
  · intro i hi
    interval_cases i <;>
      simp [hatMatrix3, Gen.hat3I, Gen.hat3J, Mat.mulVec, Mat.ofFn, Mat.get, sumRange, List.range_succ, cross, List.find?] <;> ring
  · intro i j hi hj
    interval_cases i <;> interval_cases j <;>
      simp [hatMatrix3, Gen.hat3I, Gen.hat3J, Mat.ofFn, Mat.get, List.range_succ, List.find?]

/-! ## roots -/
section
variable [CharZero K]

theorem T20_roots_linear (c d : K) (hc : c ≠ 0) : c * Gen.rootsLinear c d + d = 0 := by
  simp [Gen.rootsLinear]; field_simp; ring

/-- quadratic: with `D² = c² − 4bd` both returned numbers are roots, and they are all roots with multiplicity
    (Vieta: sum `−c/b`, product `d/b`) -/
theorem T20_roots_quadratic (b c d D : K) (hb : b ≠ 0) (hD : D ^ 2 = Gen.rootsQuadDisc b c d) :
    b * Gen.rootsQuadX1 b c D ^ 2 + c * Gen.rootsQuadX1 b c D + d = 0 ∧
    b * Gen.rootsQuadX2 b c D ^ 2 + c * Gen.rootsQuadX2 b c D + d = 0 ∧
    Gen.rootsQuadX1 b c D + Gen.rootsQuadX2 b c D = -c / b ∧
    Gen.rootsQuadX1 b c D * Gen.rootsQuadX2 b c D = d / b := by
  simp only [Gen.rootsQuadDisc] at hD
  simp only [Gen.rootsQuadX1, Gen.rootsQuadX2]
  refine ⟨?_, ?_, ?_, ?_⟩
  · field_simp; linear_combination hD
  · field_simp; linear_combination hD
  · field_simp; ring
  · field_simp; linear_combination -hD

/-- reduction to the depressed cubic: `a x³ + b x² + c x + d = a (t³ + f t + g)` for `x = t − b/(3a)` -/
theorem T20_roots_depressed (a b c d t : K) (ha : a ≠ 0) :
    a * (t - b / (3 * a)) ^ 3 + b * (t - b / (3 * a)) ^ 2 + c * (t - b / (3 * a)) + d
      = a * (t ^ 3 + Gen.rootsF a b c * t + Gen.rootsG a b c d) := by
  simp only [Gen.rootsF, Gen.rootsG]
  field_simp
  ring

/-- Cardano branch: with `S³ = R`, `U³ = T`, `S·U = −f/3` (the real cube roots chosen by `cbrt` satisfy this),
    `t = S + U` solves the depressed cubic; so does `x2 − P` with `r3² = 3`, `i² = −1` -/
theorem T20_roots_cardano (a b f g S U sh r3 i : K) (hS : S ^ 3 = Gen.rootsCardR g sh) (hU : U ^ 3 = Gen.rootsCardT g sh)
    (hSU : S * U = -f / 3) (h3 : r3 ^ 2 = 3) (hi : i ^ 2 = -1) :
    (let t := Gen.rootsCardX1 a b S U + b / (3 * a); t ^ 3 + f * t + g = 0) ∧
    (let t := Gen.rootsCardX2 a b S U r3 i + b / (3 * a); t ^ 3 + f * t + g = 0) := by
  simp only [Gen.rootsCardR, Gen.rootsCardT] at hS hU
  simp only [Gen.rootsCardX1, Gen.rootsCardX2]
  constructor
  · linear_combination hS + hU + 3 * (S + U) * hSU
  · linear_combination ((i*r3 - 1)^3/8) * hS + (-(i*r3 + 1)^3/8) * hU +
      (-3*(i*r3 - 1)*(i*r3 + 1)*(S*i*r3 - S - U*i*r3 - U)/8) * hSU +
      (i^2*(S*f*i*r3 - S*f - U*f*i*r3 - U*f + 3*g + 2*i*r3*sh)/8) * h3 +
      (3*(S*f*i*r3 - S*f - U*f*i*r3 - U*f + 3*g + 2*i*r3*sh)/8) * hi

/-- trigonometric branch (three real roots): with `j² = −f/3`, `cos k · 2j³ = −g` where `cos k = 4ck³ − 3ck`
    (`ck = cos(k/3)`), `ck² + sk² = 1`, `r3² = 3`: all three returned numbers solve the depressed cubic -/
theorem T20_roots_trig (a b f g j ck sk r3 : K) (hj : j ^ 2 = -f / 3) (hk : (4 * ck ^ 3 - 3 * ck) * (2 * j ^ 3) = -g)
    (h3 : r3 ^ 2 = 3) (hcs : sk ^ 2 + ck ^ 2 = 1) :
    (let t := Gen.rootsTrigX1 a b j ck + b / (3 * a); t ^ 3 + f * t + g = 0) ∧
    (let t := Gen.rootsTrigX2 (Gen.rootsTrigL j) (Gen.rootsTrigM ck) (Gen.rootsTrigN r3 sk) (Gen.rootsTrigP a b) + b / (3 * a);
      t ^ 3 + f * t + g = 0) ∧
    (let t := Gen.rootsTrigX3 (Gen.rootsTrigL j) (Gen.rootsTrigM ck) (Gen.rootsTrigN r3 sk) (Gen.rootsTrigP a b) + b / (3 * a);
      t ^ 3 + f * t + g = 0) := by
  simp only [Gen.rootsTrigX1, Gen.rootsTrigX2, Gen.rootsTrigX3, Gen.rootsTrigL, Gen.rootsTrigM, Gen.rootsTrigN, Gen.rootsTrigP]
  refine ⟨?_, ?_, ?_⟩
  · linear_combination (6 * j * ck) * hj + hk
  · linear_combination (-j*(ck + r3*sk)^3 - 2*j*(4*ck^3 - 3*ck)) * hj + hk +
      (f*j*sk^2*(3*ck + r3*sk)/3) * h3 + (f*j*(3*ck + r3*sk)) * hcs
  · linear_combination (-j*(ck - r3*sk)^3 - 2*j*(4*ck^3 - 3*ck)) * hj + hk +
      (f*j*sk^2*(3*ck - r3*sk)/3) * h3 + (f*j*(3*ck - r3*sk)) * hcs

/-- triple root: for `a (x − r)³` (so `d = −a r³`) and `cb³ = d/a` the returned value satisfies `x³ = r³`; for the
    real cube root that `cbrt` takes this means `x = r` -/
theorem T20_roots_triple (a r cb : K) (ha : a ≠ 0) (hcb : cb ^ 3 = (a * (-(r ^ 3))) / a) :
    (Gen.rootsTriple a (a * (-(r ^ 3))) cb) ^ 3 = r ^ 3 := by
  simp only [Gen.rootsTriple]
  have : cb ^ 3 = -(r ^ 3) := by rw [hcb]; field_simp
  linear_combination -this

end
end Geo
