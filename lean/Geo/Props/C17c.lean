/-
  C17c — `Triangle.circumcenter` in the plane, as the code composes it: the two edge lines `e1 = a ∨ b`, `e2 = b ∨ c`, their
  midpoints, the perpendiculars through the midpoints (`LineTensor.perpendicular`, branch "point on the line" of
  Geo/Constructions.lean — the midpoint lies on its edge) and their meet.  Theorem: the point is equidistant from the three
  vertices and finite exactly for a proper triangle (last coordinate = 4·det[a, b, c]).
-/
import Geo.Constructions
import Mathlib.Tactic.Ring
namespace Geo
open Spec

variable {K : Type} [CommRing K]

/-- **circumcenter**: equidistant from a, b, c (squared distances, cleared of the denominator `X_z²`), and
    `X_z = 4·det[a, b, c]`: a finite point iff the triangle is not degenerate -/
theorem T17_circumcenter_equidistant (a0 a1 b0 b1 c0 c1 : K) :
    let a : Nat → K := fun k => [a0, a1, 1].getD k 0
    let b : Nat → K := fun k => [b0, b1, 1].getD k 0
    let c : Nat → K := fun k => [c0, c1, 1].getD k 0
    let X := circumcenter2 a b c
    (X 0 - a0 * X 2) ^ 2 + (X 1 - a1 * X 2) ^ 2 = (X 0 - b0 * X 2) ^ 2 + (X 1 - b1 * X 2) ^ 2 ∧
    (X 0 - b0 * X 2) ^ 2 + (X 1 - b1 * X 2) ^ 2 = (X 0 - c0 * X 2) ^ 2 + (X 1 - c1 * X 2) ^ 2 ∧
    X 2 = 4 * det3 a b c := by
  simp [circumcenter2, perpOn2, normalDir2, cross, det3]
  refine ⟨by ring, by ring, by ring⟩

/-- the construction does not depend on which two edges are used: with the edges (b,c), (c,a) the same projective point
    results (all 2×2 minors of the two coordinate vectors vanish) -/
theorem T17_circumcenter_edge_choice (a0 a1 b0 b1 c0 c1 : K) :
    let a : Nat → K := fun k => [a0, a1, 1].getD k 0
    let b : Nat → K := fun k => [b0, b1, 1].getD k 0
    let c : Nat → K := fun k => [c0, c1, 1].getD k 0
    let X := circumcenter2 a b c
    let Y := circumcenter2 b c a
    X 0 * Y 1 = X 1 * Y 0 ∧ X 0 * Y 2 = X 2 * Y 0 ∧ X 1 * Y 2 = X 2 * Y 1 := by
  simp [circumcenter2, perpOn2, normalDir2, cross]
  refine ⟨by ring, by ring, by ring⟩

/-- non-vacuity: the right triangle (0,0), (4,0), (0,2) has circumcentre (2, 1) -/
example : (circumcenter2 (fun k => [(0 : ℚ), 0, 1].getD k 0) (fun k => [(4 : ℚ), 0, 1].getD k 0) (fun k => [(0 : ℚ), 2, 1].getD k 0)) 0
    / (circumcenter2 (fun k => [(0 : ℚ), 0, 1].getD k 0) (fun k => [(4 : ℚ), 0, 1].getD k 0) (fun k => [(0 : ℚ), 2, 1].getD k 0)) 2 = 2 := by
  simp [circumcenter2, perpOn2, normalDir2, cross]
  norm_num

end Geo
