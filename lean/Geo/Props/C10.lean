import Geo.Spec.Euclid
namespace Geo
theorem C10_placeholder : (1 : Nat) = 1 := rfl
end Geo
