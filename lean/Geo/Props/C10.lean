/-
  C10 — perpendicular / parallel / projection / mirror constructions meet their definitions.
  Mechanism: the construction of `LineTensor.mirror` through the circular points (six joins / meets = cross products,
  over the Gaussian numbers); specification: Geo.Spec.Euclid.  The implementation is compared with the
  specification on every run (tools/props/c10.py).
-/
import Geo.Gen.Operators
import Geo.Spec.Euclid
import Geo.Proofs.Lemmas
import Geo.Props.C09
import Mathlib.Tactic.FieldSimp
namespace Geo
open Spec

variable {F : Type} [Field F]

/-- `LineTensor.mirror` in the plane: l1 = I∨p, l2 = J∨p, p1 = l∧l1, p2 = l∧l2, m1 = p1∨J, m2 = p2∨I, result = m1∧m2
    (join and meet of the plane are cross products up to sign, C01's T01.1/T01.2) -/
def mirror2 (l p : Nat → Gauss F) : Nat → Gauss F :=
  let l1 := cross circI p
  let l2 := cross circJ p
  let p1 := cross l l1
  let p2 := cross l l2
  let m1 := cross p1 circJ
  let m2 := cross p2 circI
  cross m1 m2

/-- **mirror** the construction returns `2i·z·(a²+b²)` times the classical mirror image
    `(x,y) − 2(ax+by+cz)/(a²+b²)·(a,b)` (written without division): a real projective point, for every
    representative of line and point -/
theorem T10_mirror2 (a b c x y z : F) :
    let r := mirror2 (cplx fun k => [a, b, c].getD k 0) (cplx fun k => [x, y, z].getD k 0)
    let t := a * x + b * y + c * z
    (r 0).re = 0 ∧ (r 1).re = 0 ∧ (r 2).re = 0 ∧
    (r 0).im = 2 * z * ((a ^ 2 + b ^ 2) * x - 2 * t * a) ∧
    (r 1).im = 2 * z * ((a ^ 2 + b ^ 2) * y - 2 * t * b) ∧
    (r 2).im = 2 * z * ((a ^ 2 + b ^ 2) * z) := by
  simp [mirror2, cross, cplx, circI, circJ]
  refine ⟨?_, ?_, ?_, ?_, ?_, ?_⟩ <;> ring

/-- the Cartesian mirror image of the specification is exactly that point (dehomogenised) -/
theorem T10_mirror_spec (a b c x y : F) (hn : a ^ 2 + b ^ 2 ≠ 0) :
    mirrorHyper [a, b, c] [x, y, 1] =
      [((a ^ 2 + b ^ 2) * x - 2 * (a * x + b * y + c) * a) / (a ^ 2 + b ^ 2),
       ((a ^ 2 + b ^ 2) * y - 2 * (a * x + b * y + c) * b) / (a ^ 2 + b ^ 2), 1] := by
  simp [mirrorHyper, norm2, ldot, vsub, vscale, affine, normal, offset, homog]
  constructor <;> field_simp <;> ring

/-- mirror is an involution, the midpoint of p and its image is the foot, and p − foot is normal to the line -/
theorem T10_mirror_involution_2d (a b c x y : F) (hn : a ^ 2 + b ^ 2 ≠ 0) :
    mirrorHyper [a, b, c] (mirrorHyper [a, b, c] [x, y, 1]) = [x, y, 1] ∧
    (∀ i, i < 2 → ((mirrorHyper [a, b, c] [x, y, 1]).getD i 0 + [x, y, 1].getD i 0) = 2 * (footHyper [a, b, c] [x, y, 1]).getD i 0) ∧
    (x - (footHyper [a, b, c] [x, y, 1]).getD 0 0) * b - (y - (footHyper [a, b, c] [x, y, 1]).getD 1 0) * a = 0 := by
  refine ⟨?_, ?_, ?_⟩
  · simp [mirrorHyper, norm2, ldot, vsub, vscale, affine, normal, offset, homog]
    constructor <;> field_simp <;> ring
  · intro i hi
    interval_cases i <;> simp [mirrorHyper, footHyper, norm2, ldot, vsub, vscale, affine, normal, offset, homog] <;> field_simp <;> ring
  · simp [footHyper, norm2, ldot, vsub, vscale, affine, normal, offset, homog]
    field_simp; ring

theorem T10_mirror_involution_3d (a b c d x y z : F) (hn : a ^ 2 + b ^ 2 + c ^ 2 ≠ 0) :
    mirrorHyper [a, b, c, d] (mirrorHyper [a, b, c, d] [x, y, z, 1]) = [x, y, z, 1] ∧
    ldot [a, b, c, d] (footHyper [a, b, c, d] [x, y, z, 1]) = 0 := by
  constructor
  · simp [mirrorHyper, norm2, ldot, vsub, vscale, affine, normal, offset, homog]
    refine ⟨?_, ?_, ?_⟩ <;> field_simp <;> ring
  · simp [footHyper, norm2, ldot, vsub, vscale, affine, normal, offset, homog]
    field_simp; ring

/-- `is_perpendicular`: the cross ratio `cr(L, M, I, J)` of the points at infinity `L = (u,0)`, `M = (v,0)` seen from a
    finite point is `−1` exactly when `u·v = 0`: numerator + denominator `= 2 (u·v)·(…)`; here in the form
    `num + den = 2·(u·v)` for the brackets with the vertex `(0,0,1)` (any finite vertex gives a common factor) -/
theorem T10_is_perpendicular (u0 u1 v0 v1 : F) :
    let L : Nat → Gauss F := cplx fun k => [u0, u1, 0].getD k 0
    let M : Nat → Gauss F := cplx fun k => [v0, v1, 0].getD k 0
    let o : Nat → Gauss F := cplx fun k => [0, 0, 1].getD k 0
    let num := Gen.cr_num (Gen.cr_ac_from o L M circI circJ) (Gen.cr_bd_from o L M circI circJ) (Gen.cr_ad_from o L M circI circJ) (Gen.cr_bc_from o L M circI circJ)
    let den := Gen.cr_den (Gen.cr_ac_from o L M circI circJ) (Gen.cr_bd_from o L M circI circJ) (Gen.cr_ad_from o L M circI circJ) (Gen.cr_bc_from o L M circI circJ)
    (num + den).re = 2 * (u0 * v0 + u1 * v1) ∧ (num + den).im = 0 := by
  simp [Gen.cr_num, Gen.cr_den, Gen.cr_ac_from, Gen.cr_bd_from, Gen.cr_ad_from, Gen.cr_bc_from, det3, cplx, circI, circJ]
    <;> (try constructor) <;> (try ring)

end Geo
