/-
  C17 (second file) — the sum that `PolygonTensor.area` forms, with the row table and the range of the fan REGENERATED from
  shapes.py (Gen.area_rows, Gen.area_range; translator A), is the shoelace sum of the closed vertex cycle for every number of
  vertices.  (C17.lean proves the same for a hand-written fan; this file ties it to the source.)
-/
import Geo.Shapes
import Geo.Props.C17
namespace Geo
open Spec
variable {K : Type} [CommRing K]

def hK (v : K × K) : Nat → K := v3 v.1 v.2 1
def lK (v : K × K) : List K := [v.1, v.2]

/-- sum of `f` over consecutive pairs of an open chain (any element type) -/
def chainSum' {β : Type} (f : β → β → K) : List β → K
  | a :: b :: rest => f a b + chainSum' f (b :: rest)
  | _ => 0

theorem foldl_add_acc' (l : List K) (a : K) : l.foldl (· + ·) a = a + l.foldl (· + ·) 0 := by
  induction l generalizing a with
  | nil => simp
  | cons x xs ih => simp only [List.foldl_cons]; rw [ih, ih (0 + x)]; ring

/-- an index-based sum over consecutive pairs is the structural chain sum -/
theorem range_chain {β : Type} (f : β → β → K) (d : β) : ∀ (l : List β),
    ((List.range (l.length - 1)).map fun k => f (l.getD k d) (l.getD (k + 1) d)).foldl (· + ·) 0 = chainSum' f l
  | [] => by simp [chainSum']
  | [a] => by simp [chainSum']
  | a :: b :: rest => by
    have ih := range_chain f d (b :: rest)
    simp only [List.length_cons, Nat.add_sub_cancel] at ih ⊢
    rw [List.range_succ_eq_map, List.map_cons, List.foldl_cons, foldl_add_acc', List.map_map]
    simp only [chainSum', List.getD_cons_zero, List.getD_cons_succ, zero_add]
    congr 1

theorem chainSum'_eq (f : P2 K → P2 K → K) : ∀ l : List (P2 K), chainSum' f l = chainSum f l
  | [] => rfl
  | [_] => rfl
  | a :: b :: rest => by simp only [chainSum', chainSum]; rw [chainSum'_eq f (b :: rest)]

/-- the closed cycle `a, …, last, v0` as a sum over `zip` -/
theorem zip_cycle_sum (v0 : P2 K) : ∀ (l : List (P2 K)) (a : P2 K),
    (((a :: l).zip (l ++ [v0])).map fun e => crs e.1 e.2).foldl (· + ·) 0
      = chainSum crs (a :: l) + crs ((a :: l).getLast (List.cons_ne_nil a l)) v0
  | [], a => by
    simp only [List.nil_append, List.zip_cons_cons, List.zip_nil_right, List.map_cons, List.map_nil, List.foldl_cons,
      List.foldl_nil, chainSum, List.getLast_singleton]
  | b :: l, a => by
    have ih := zip_cycle_sum v0 l b
    simp only [List.cons_append, List.zip_cons_cons, List.map_cons, List.foldl_cons, zero_add] at ih ⊢
    rw [foldl_add_acc', ih]
    simp only [chainSum, List.getLast_cons_cons]
    ring

/-- the specification's shoelace sum of the cycle `v0, a, …` -/
theorem shoelace2_cycle (v0 a : P2 K) (l : List (P2 K)) :
    Spec.shoelace2 ((v0 :: a :: l).map lK) = crs v0 a + chainSum crs (a :: l) + crs ((a :: l).getLast (List.cons_ne_nil a l)) v0 := by
  have e : (cycleEdges ((v0 :: a :: l).map lK)).map
      (fun e => e.1.getD 0 0 * e.2.getD 1 0 - e.2.getD 0 0 * e.1.getD 1 0)
      = ((v0 :: a :: l).zip (a :: l ++ [v0])).map fun e => crs e.1 e.2 := by
    simp only [cycleEdges, List.map_cons]
    rw [show lK a :: List.map lK l ++ [lK v0] = List.map lK (a :: l ++ [v0]) by simp]
    rw [show lK v0 :: lK a :: List.map lK l = List.map lK (v0 :: a :: l) by simp, List.zip_map, List.map_map]
    apply List.map_congr_left
    intro e _
    simp [lK, crs, Prod.map]
  unfold Spec.shoelace2
  rw [e]
  simp only [List.cons_append, List.zip_cons_cons, List.map_cons, List.foldl_cons, zero_add]
  rw [foldl_add_acc', zip_cycle_sum v0 l a]
  ring

/-- the fan of the source over the vertex list `v0 :: rest` is the structural chain sum of the fan terms -/
theorem polyFan2_chain (v0 a : P2 K) (l : List (P2 K)) :
    polyFan2 ((v0 :: a :: l).map hK) = chainSum (fanTerm v0) (a :: l) := by
  rw [← chainSum'_eq, ← range_chain (fanTerm v0) (0, 0) (a :: l)]
  unfold polyFan2
  simp only [Gen.area_range, Gen.area_rows, List.length_map, List.length_cons]
  have hlen : l.length + 1 + 1 - 1 - 1 = l.length + 1 - 1 := by omega
  rw [hlen]
  congr 1
  apply List.map_congr_left
  intro k hk
  have hk' : k < l.length := by simpa using List.mem_range.mp hk
  have gm : ∀ (m : List (P2 K)) (i : Nat), i < m.length → (m.map hK).getD i (fun _ => (0 : K)) = hK (m.getD i (0, 0)) := by
    intro m i hi
    rw [List.getD_eq_getElem?_getD, List.getD_eq_getElem?_getD, List.getElem?_map]
    simp [List.getElem?_eq_getElem hi]
  have e0 : (List.map hK (v0 :: a :: l)).getD ([0, 1 + k, 1 + k + 1].getD 0 0) (fun _ => (0 : K)) = hK v0 := by simp
  have e1 : (List.map hK (v0 :: a :: l)).getD ([0, 1 + k, 1 + k + 1].getD 1 0) (fun _ => (0 : K)) = hK ((a :: l).getD k (0, 0)) := by
    rw [show [0, 1 + k, 1 + k + 1].getD 1 0 = k + 1 by simp; omega, gm _ _ (by simp; omega)]; simp
  have e2 : (List.map hK (v0 :: a :: l)).getD ([0, 1 + k, 1 + k + 1].getD 2 0) (fun _ => (0 : K)) = hK ((a :: l).getD (k + 1) (0, 0)) := by
    rw [show [0, 1 + k, 1 + k + 1].getD 2 0 = k + 1 + 1 by simp; omega, gm _ _ (by simp; omega)]; simp
  rw [e0, e1, e2, fanTerm_is_det]
  simp [hK, det3, v3]

/-- **T17 (area, tied to the source)** the sum that `PolygonTensor.area` forms — with the row table `[0, i, i+1]` and the range
    `range(1, n − 1)` regenerated from shapes.py — is the shoelace sum of the closed vertex cycle, for every number of vertices -/
theorem T17_area_fan_is_shoelace (vs : List (P2 K)) (h : 3 ≤ vs.length) :
    polyFan2 (vs.map hK) = Spec.shoelace2 (vs.map lK) := by
  match vs, h with
  | v0 :: a :: l, _ =>
    have h1 := T17_fan_eq_shoelace v0 l a
    rw [shoelace2_cycle, polyFan2_chain, h1]
    ring

/-! ## centroid -/

/-- first-moment term of an edge: `crs(a,b)·(a_c + b_c)` for the coordinate selected by `c` -/
def mom (c : P2 K → K) (a b : P2 K) : K := crs a b * (c a + c b)

/-- per triangle: `det[v0,a,b]·(v0 + a + b)` is the sum of the three edge terms (for the coordinate x or y) -/
theorem fan_moment_x (v0 a b : P2 K) :
    fanTerm v0 a b * (v0.1 + a.1 + b.1) = mom Prod.fst v0 a + mom Prod.fst a b + mom Prod.fst b v0 := by
  simp only [fanTerm, crs, mom]; ring
theorem fan_moment_y (v0 a b : P2 K) :
    fanTerm v0 a b * (v0.2 + a.2 + b.2) = mom Prod.snd v0 a + mom Prod.snd a b + mom Prod.snd b v0 := by
  simp only [fanTerm, crs, mom]; ring

theorem mom_antisymm (c : P2 K → K) (a b : P2 K) : mom c b a = - mom c a b := by
  simp only [mom, crs]; ring

/-- telescoping over the fan, for any per-triangle quantity that is the sum of an antisymmetric edge term over the three edges -/
theorem fan_chain_general (v0 : P2 K) (T G : P2 K → P2 K → K) (hT : ∀ a b, T a b = G v0 a + G a b + G b v0)
    (hG : ∀ a b, G b a = - G a b) : ∀ (l : List (P2 K)) (a : P2 K),
    chainSum T (a :: l) = chainSum G (a :: l) + G v0 a + G ((a :: l).getLast (List.cons_ne_nil a l)) v0
  | [], a => by simp [chainSum, hG a v0]
  | b :: l, a => by
    have ih := fan_chain_general v0 T G hT hG l b
    simp only [chainSum] at ih ⊢
    rw [ih, hT a b, hG v0 b]
    simp only [List.getLast_cons_cons]
    ring

/-- the moment sum of the source over `v0 :: a :: l` is the chain sum of `det[v0,a,b]·(c v0 + c a + c b)` -/
theorem polyMoment6_chain (c : Nat) (hc : c < 2) (v0 a : P2 K) (l : List (P2 K)) :
    polyMoment6 c ((v0 :: a :: l).map hK)
      = chainSum (fun p q => fanTerm v0 p q * (hK v0 c + hK p c + hK q c)) (a :: l) := by
  rw [← chainSum'_eq, ← range_chain (fun p q => fanTerm v0 p q * (hK v0 c + hK p c + hK q c)) (0, 0) (a :: l)]
  unfold polyMoment6
  simp only [Gen.centroid_range, Gen.centroid_rows, List.length_map, List.length_cons]
  have hlen : l.length + 1 + 1 - 1 - 1 = l.length + 1 - 1 := by omega
  rw [hlen]
  congr 1
  apply List.map_congr_left
  intro k hk
  have hk' : k < l.length := by simpa using List.mem_range.mp hk
  have gm : ∀ (m : List (P2 K)) (i : Nat), i < m.length → (m.map hK).getD i (fun _ => (0 : K)) = hK (m.getD i (0, 0)) := by
    intro m i hi
    rw [List.getD_eq_getElem?_getD, List.getD_eq_getElem?_getD, List.getElem?_map]
    simp [List.getElem?_eq_getElem hi]
  have e0 : (List.map hK (v0 :: a :: l)).getD ([0, 1 + k, 1 + k + 1].getD 0 0) (fun _ => (0 : K)) = hK v0 := by simp
  have e1 : (List.map hK (v0 :: a :: l)).getD ([0, 1 + k, 1 + k + 1].getD 1 0) (fun _ => (0 : K)) = hK ((a :: l).getD k (0, 0)) := by
    rw [show [0, 1 + k, 1 + k + 1].getD 1 0 = k + 1 by simp; omega, gm _ _ (by simp; omega)]; simp
  have e2 : (List.map hK (v0 :: a :: l)).getD ([0, 1 + k, 1 + k + 1].getD 2 0) (fun _ => (0 : K)) = hK ((a :: l).getD (k + 1) (0, 0)) := by
    rw [show [0, 1 + k, 1 + k + 1].getD 2 0 = k + 1 + 1 by simp; omega, gm _ _ (by simp; omega)]; simp
  rw [e0, e1, e2, fanTerm_is_det]
  simp [hK, det3, v3]

theorem zip_cycle_sumG (G : P2 K → P2 K → K) (v0 : P2 K) : ∀ (l : List (P2 K)) (a : P2 K),
    (((a :: l).zip (l ++ [v0])).map fun e => G e.1 e.2).foldl (· + ·) 0
      = chainSum G (a :: l) + G ((a :: l).getLast (List.cons_ne_nil a l)) v0
  | [], a => by
    simp only [List.nil_append, List.zip_cons_cons, List.zip_nil_right, List.map_cons, List.map_nil, List.foldl_cons,
      List.foldl_nil, chainSum, List.getLast_singleton]
  | b :: l, a => by
    have ih := zip_cycle_sumG G v0 l b
    simp only [List.cons_append, List.zip_cons_cons, List.map_cons, List.foldl_cons, zero_add] at ih ⊢
    rw [foldl_add_acc', ih]
    simp only [chainSum, List.getLast_cons_cons]
    ring

theorem foldl_vadd_pairs {β : Type} (f g : β → K) : ∀ (L : List β) (s t : K),
    (L.map fun e => [f e, g e]).foldl Spec.vadd [s, t]
      = [s + (L.map f).foldl (· + ·) 0, t + (L.map g).foldl (· + ·) 0]
  | [], s, t => by simp
  | e :: L, s, t => by
    simp only [List.map_cons, List.foldl_cons]
    rw [show Spec.vadd [s, t] [f e, g e] = [s + f e, t + g e] from rfl, foldl_vadd_pairs f g L, foldl_add_acc' _ (0 + f e),
      foldl_add_acc' _ (0 + g e)]
    simp only [zero_add, add_assoc]

/-- the specification's centroid numerators of the cycle `v0, a, …` as cycle sums of the edge moments -/
theorem centroidNum_cycle (v0 a : P2 K) (l : List (P2 K)) :
    Spec.centroidNum ((v0 :: a :: l).map lK)
      = [mom Prod.fst v0 a + chainSum (mom Prod.fst) (a :: l) + mom Prod.fst ((a :: l).getLast (List.cons_ne_nil a l)) v0,
         mom Prod.snd v0 a + chainSum (mom Prod.snd) (a :: l) + mom Prod.snd ((a :: l).getLast (List.cons_ne_nil a l)) v0] := by
  have e : (cycleEdges ((v0 :: a :: l).map lK)).map
      (fun e => let (a, b) := e
        let w := a.getD 0 0 * b.getD 1 0 - b.getD 0 0 * a.getD 1 0
        [(a.getD 0 0 + b.getD 0 0) * w, (a.getD 1 0 + b.getD 1 0) * w])
      = ((v0 :: a :: l).zip (a :: l ++ [v0])).map fun e => [mom Prod.fst e.1 e.2, mom Prod.snd e.1 e.2] := by
    simp only [cycleEdges, List.map_cons]
    rw [show lK a :: List.map lK l ++ [lK v0] = List.map lK (a :: l ++ [v0]) by simp]
    rw [show lK v0 :: lK a :: List.map lK l = List.map lK (v0 :: a :: l) by simp, List.zip_map, List.map_map]
    apply List.map_congr_left
    intro e _
    simp only [Function.comp, Prod.map, lK, mom, crs, List.getD_cons_zero, List.getD_cons_succ]
    congr 1
    · ring
    · congr 1; ring
  unfold Spec.centroidNum
  rw [e, foldl_vadd_pairs]
  simp only [List.cons_append, List.zip_cons_cons, List.map_cons, List.foldl_cons, zero_add]
  rw [foldl_add_acc' _ (mom Prod.fst v0 a), foldl_add_acc' _ (mom Prod.snd v0 a), zip_cycle_sumG (mom Prod.fst) v0 l a,
    zip_cycle_sumG (mom Prod.snd) v0 l a]
  congr 1
  · ring
  · congr 1; ring

/-- **T17 (centroid, tied to the source)** the weighted sums `Polygon.centroid` forms over the fan of the source (regenerated
    `centroid_rows`, `centroid_range`) are the specification's centroid numerators `Σ_cycle (a + b)·crs(a, b)`; with
    `T17_area_fan_is_shoelace` (the weights sum to the shoelace sum) the centroid `Σ wᵢ cᵢ / Σ wᵢ` is the area centroid
    `centroidNum / (3 · shoelace2)` for every number of vertices, convex or not -/
theorem T17_centroid_fan (vs : List (P2 K)) (h : 3 ≤ vs.length) :
    [polyMoment6 0 (vs.map hK), polyMoment6 1 (vs.map hK)] = Spec.centroidNum (vs.map lK) := by
  match vs, h with
  | v0 :: a :: l, _ =>
    rw [centroidNum_cycle, polyMoment6_chain 0 (by omega), polyMoment6_chain 1 (by omega)]
    have hx := fan_chain_general v0 (fun p q => fanTerm v0 p q * (v0.1 + p.1 + q.1)) (mom Prod.fst)
      (fun p q => fan_moment_x v0 p q) (fun p q => mom_antisymm Prod.fst p q) l a
    have hy := fan_chain_general v0 (fun p q => fanTerm v0 p q * (v0.2 + p.2 + q.2)) (mom Prod.snd)
      (fun p q => fan_moment_y v0 p q) (fun p q => mom_antisymm Prod.snd p q) l a
    have ex : (fun p q : P2 K => fanTerm v0 p q * (hK v0 0 + hK p 0 + hK q 0)) = fun p q => fanTerm v0 p q * (v0.1 + p.1 + q.1) := by
      funext p q; simp [hK, v3]
    have ey : (fun p q : P2 K => fanTerm v0 p q * (hK v0 1 + hK p 1 + hK q 1)) = fun p q => fanTerm v0 p q * (v0.2 + p.2 + q.2) := by
      funext p q; simp [hK, v3]
    rw [ex, ey, hx, hy]
    congr 1
    · ring
    · congr 1; ring

/-- non-vacuity: the L-shaped hexagon (area 12): fan sum 24, and the range / rows of the source for six vertices -/
example : polyFan2 (([(0,0), (4,0), (4,2), (2,2), (2,4), (0,4)] : List (Int × Int)).map fun v => v3 v.1 v.2 1) = 24
    ∧ Gen.area_range 6 = (1, 5) ∧ Gen.area_rows 3 = [0, 3, 4] := by decide

/-- non-vacuity (centroid): the same hexagon: moments (60, 60) over 3·24 = 72 … centroid (5/3, 5/3)·… evaluated by the model -/
example : (polyMoment6 0 (([(0,0), (4,0), (4,2), (2,2), (2,4), (0,4)] : List (Int × Int)).map fun v => v3 v.1 v.2 1),
           polyMoment6 1 (([(0,0), (4,0), (4,2), (2,2), (2,4), (0,4)] : List (Int × Int)).map fun v => v3 v.1 v.2 1)) = (120, 120) := by decide
end Geo
