import Geo.Spec.Euclid
namespace Geo
theorem C09_placeholder : (1 : Nat) = 1 := rfl
end Geo
