/-
  C09 — dist and angle equal the Cartesian distance and angle.
  The bracket expressions are regenerated from geometer/operators.py (translator A, Geo/Gen/Operators.lean) and
  evaluated at the circular points I = (−i, 1, 0), J = (i, 1, 0) over the Gaussian numbers `Gauss F`.
-/
import Geo.Gen.Operators
import Geo.Spec.Euclid
import Geo.Proofs.Lemmas
import Mathlib.Tactic.FieldSimp
import Mathlib.Algebra.CharZero.Defs
namespace Geo
open Spec

variable {F : Type} [Field F] [CharZero F]

/-- real coordinate vector inside the Gaussian numbers -/
def cplx (p : Nat → F) : Nat → Gauss F := fun k => Gauss.ofReal (p k)
/-- the circular points as the module-level constants `I`, `J` of geometer/point.py define them -/
def circI : Nat → Gauss F := fun k => match k with | 0 => ⟨0, -1⟩ | 1 => ⟨1, 0⟩ | _ => ⟨0, 0⟩
def circJ : Nat → Gauss F := fun k => match k with | 0 => ⟨0, 1⟩ | 1 => ⟨1, 0⟩ | _ => ⟨0, 0⟩

/-- **T09.1** `[P,Q,I][P,Q,J] = (PₓQ_z − QₓP_z)² + (P_yQ_z − Q_yP_z)²` (a real number), `[P,I,J][Q,I,J] = −4 P_z Q_z` -/
theorem T09_1_brackets (p q : Nat → F) :
    let rad := Gen.pd_radicand (Gen.pd_pqi (cplx p) (cplx q) circI circJ) (Gen.pd_pqj (cplx p) (cplx q) circI circJ)
    let den := Gen.pd_den (Gen.pd_pij (cplx p) (cplx q) circI circJ) (Gen.pd_qij (cplx p) (cplx q) circI circJ)
    rad.re = (p 0 * q 2 - q 0 * p 2) ^ 2 + (p 1 * q 2 - q 1 * p 2) ^ 2 ∧ rad.im = 0 ∧
    den.re = -4 * (p 2 * q 2) ∧ den.im = 0 := by
  simp [Gen.pd_radicand, Gen.pd_den, Gen.pd_pqi, Gen.pd_pqj, Gen.pd_pij, Gen.pd_qij, det3, cplx, circI, circJ]
    <;> (try constructor) <;> (try constructor) <;> (try constructor) <;> (try ring)

/-- hence `(factor · √rad / den)² = |p/p_z − q/q_z|²` for finite points of ANY representative: with `s² = rad`
    the returned value `d = factor·s/den` satisfies `d² = dist²` -/
theorem T09_1_dist_sq (p q : Nat → F) (s : F) (hp : p 2 ≠ 0) (hq : q 2 ≠ 0)
    (hs : s ^ 2 = (p 0 * q 2 - q 0 * p 2) ^ 2 + (p 1 * q 2 - q 1 * p 2) ^ 2) :
    ((Gen.pd_factor : F) * s / (-4 * (p 2 * q 2))) ^ 2 = dist2 [p 0, p 1, p 2] [q 0, q 1, q 2] := by
  simp [Gen.pd_factor, dist2, norm2, ldot, vsub, affine]
  field_simp
  linear_combination hs

/-- symmetric in the two points; zero radicand iff the affine points coincide is the statement
    `sum of two squares = 0` (ordered fields), recorded in C16's ordered-field section -/
theorem T09_1_symmetric (p q : Nat → F) :
    (Gen.pd_radicand (Gen.pd_pqi (cplx p) (cplx q) circI circJ) (Gen.pd_pqj (cplx p) (cplx q) circI circJ)).re
      = (Gen.pd_radicand (Gen.pd_pqi (cplx q) (cplx p) circI circJ) (Gen.pd_pqj (cplx q) (cplx p) circI circJ)).re := by
  simp [Gen.pd_radicand, Gen.pd_pqi, Gen.pd_pqj, det3, cplx, circI, circJ]
  ring

/-- **T09.3** point – hyperplane: the foot of the perpendicular lies on the hyperplane and its squared distance to
    the point is `(h·p)² / |n|²` (plane: 2-D lines; space: planes) -/
theorem T09_3_foot_2d (a b c x y : F) (hn : a ^ 2 + b ^ 2 ≠ 0) :
    ldot [a, b, c] (footHyper [a, b, c] [x, y, 1]) = 0 ∧
    dist2 (footHyper [a, b, c] [x, y, 1]) [x, y, 1] = dist2Hyper [a, b, c] [x, y, 1] := by
  simp [footHyper, dist2Hyper, dist2, norm2, ldot, vsub, vscale, affine, normal, offset, homog]
  constructor <;> field_simp <;> ring

theorem T09_3_foot_3d (a b c d x y z : F) (hn : a ^ 2 + b ^ 2 + c ^ 2 ≠ 0) :
    ldot [a, b, c, d] (footHyper [a, b, c, d] [x, y, z, 1]) = 0 ∧
    dist2 (footHyper [a, b, c, d] [x, y, z, 1]) [x, y, z, 1] = dist2Hyper [a, b, c, d] [x, y, z, 1] := by
  simp [footHyper, dist2Hyper, dist2, norm2, ldot, vsub, vscale, affine, normal, offset, homog]
  constructor <;> field_simp <;> ring

/-- **T09.5** Laguerre: for `u = b − a`, `v = c − a` (points with last coordinate 1) the cross ratio that `angle(a,b,c)`
    takes the logarithm of is `(u v̄)/(ū v)`: numerator `u·v̄`, denominator its complex conjugate.  So it has modulus 1 and
    argument `2(arg u − arg v)`, is invariant under common rotations of u, v and is inverted when b, c are swapped. -/
theorem T09_5_laguerre (a b c : Nat → F) (ha : a 2 = 1) (hb : b 2 = 1) (hc : c 2 = 1) :
    let num := Gen.cr_num (Gen.cr_ac_from (cplx a) (cplx b) (cplx c) circI circJ) (Gen.cr_bd_from (cplx a) (cplx b) (cplx c) circI circJ)
                 (Gen.cr_ad_from (cplx a) (cplx b) (cplx c) circI circJ) (Gen.cr_bc_from (cplx a) (cplx b) (cplx c) circI circJ)
    let den := Gen.cr_den (Gen.cr_ac_from (cplx a) (cplx b) (cplx c) circI circJ) (Gen.cr_bd_from (cplx a) (cplx b) (cplx c) circI circJ)
                 (Gen.cr_ad_from (cplx a) (cplx b) (cplx c) circI circJ) (Gen.cr_bc_from (cplx a) (cplx b) (cplx c) circI circJ)
    let u0 := b 0 - a 0; let u1 := b 1 - a 1; let v0 := c 0 - a 0; let v1 := c 1 - a 1
    num.re = u0 * v0 + u1 * v1 ∧ num.im = u1 * v0 - u0 * v1 ∧ den.re = num.re ∧ den.im = - num.im := by
  simp [Gen.cr_num, Gen.cr_den, Gen.cr_ac_from, Gen.cr_bd_from, Gen.cr_ad_from, Gen.cr_bc_from, det3, cplx, circI, circJ, ha, hb, hc]
    <;> (try constructor) <;> (try constructor) <;> (try constructor) <;> (try ring)

end Geo
