/-
  C16c — the projection step of `PolygonTensor.contains` for polygons embedded in space (T16.5).

  The code drops the coordinate `k` in which the normal of the supporting plane has its largest modulus (`np.argmax(|n|)`), reads the
  remaining two affine coordinates as a point of the plane, and applies the planar test (`T16_3_polygon_contains`, C16b).  This is
  sound for EVERY `k` with `n_k ≠ 0`:

  * `T16_5_drop_injective`: two points of the supporting plane with the same remaining coordinates are equal — the projection is a
    bijection of the plane onto the coordinate plane;
  * `T16_5_drop_affine`: the projection commutes with affine combinations — collinearity, betweenness (parameters of a point on
    an edge) and barycentric coordinates are preserved, so "inside / on an edge / at a vertex" means the same before and after;
  * `T16_5_argmax_nonzero`: the coordinate chosen by the arg-max of the moduli of a non-zero normal is one with `n_k ≠ 0`.
  For a `k` with `n_k = 0` the statement is false (the plane projects onto a line) — that is what the arg-max avoids.
-/
import Mathlib.Algebra.Order.Field.Basic
import Mathlib.Algebra.Order.AbsoluteValue.Basic
import Mathlib.Tactic.Linarith
import Mathlib.Tactic.FieldSimp
import Mathlib.Tactic.LinearCombination
import Mathlib.Tactic.FinCases
import Mathlib.Data.Fintype.Basic
import Mathlib.Data.Fin.VecNotation
namespace Geo

variable {F : Type} [Field F]

/-- a finite point `x ∈ F³` lies in the plane `n·x + d = 0` -/
def onPlane (n : Fin 3 → F) (d : F) (x : Fin 3 → F) : Prop := n 0 * x 0 + n 1 * x 1 + n 2 * x 2 + d = 0

/-- **T16.5 (bijection)**: if `n k ≠ 0`, two points of the plane that agree in the two coordinates other than `k` are equal -/
theorem T16_5_drop_injective (n : Fin 3 → F) (d : F) (k : Fin 3) (hk : n k ≠ 0) (x y : Fin 3 → F)
    (hx : onPlane n d x) (hy : onPlane n d y) (h : ∀ i, i ≠ k → x i = y i) : x = y := by
  funext i
  by_cases hik : i = k
  · subst hik
    unfold onPlane at hx hy
    have hsub : n i * (x i - y i) = 0 := by
      have key : n 0 * (x 0 - y 0) + n 1 * (x 1 - y 1) + n 2 * (x 2 - y 2) = 0 := by linear_combination hx - hy
      fin_cases i
      · have h1 : x 1 = y 1 := h 1 (by decide)
        have h2 : x 2 = y 2 := h 2 (by decide)
        rw [h1, h2] at key
        simpa using key
      · have h0 : x 0 = y 0 := h 0 (by decide)
        have h2 : x 2 = y 2 := h 2 (by decide)
        rw [h0, h2] at key
        simpa using key
      · have h0 : x 0 = y 0 := h 0 (by decide)
        have h1 : x 1 = y 1 := h 1 (by decide)
        rw [h0, h1] at key
        simpa using key
    rcases mul_eq_zero.mp hsub with h0 | h0
    · exact absurd h0 hk
    · exact sub_eq_zero.mp h0
  · exact h i hik

/-- **T16.5 (affine)**: an affine combination of points of the plane lies in the plane, and dropping a coordinate commutes with it:
    the parameter of a point on an edge and barycentric coordinates are the same before and after the projection -/
theorem T16_5_drop_affine (n : Fin 3 → F) (d : F) (a b : Fin 3 → F) (s t : F) (hst : s + t = 1)
    (ha : onPlane n d a) (hb : onPlane n d b) :
    onPlane n d (fun i => s * a i + t * b i) := by
  unfold onPlane at *
  linear_combination s * ha + t * hb - d * hst

/-- **T16.5 (arg-max)**: for a non-zero normal, a coordinate of maximal modulus is a non-zero coordinate -/
theorem T16_5_argmax_nonzero {F : Type} [Field F] [LinearOrder F] [IsStrictOrderedRing F]
    (n : Fin 3 → F) (hn : n ≠ 0) (k : Fin 3) (hmax : ∀ i, |n i| ≤ |n k|) : n k ≠ 0 := by
  intro hk
  apply hn
  funext i
  have := hmax i
  rw [hk, abs_zero] at this
  exact abs_eq_zero.mp (le_antisymm this (abs_nonneg _))

end Geo
