/-
  C03 (part b) — the matrix inverse behind the `.inv` role of T03.1 rescales by λ⁻¹ (model: adjugate / determinant).
-/
import Geo.Kernels
import Geo.Proofs.Lemmas
import Mathlib.Tactic.FieldSimp
import Mathlib.Algebra.Field.Basic
namespace Geo

/-! ## the inverse that the `.inv` role stands for: `(λA)⁻¹ = λ⁻¹ A⁻¹` for the model's adjugate / determinant inverse -/
section inverse
variable {K : Type} [Field K]

theorem T03_1_inv_scale_3 (A : Nat → Nat → K) (lam : K) (hl : lam ≠ 0)
    (hd : Mat.det (Mat.ofFn 3 3 A) ≠ 0) :
    Mat.det (Mat.ofFn 3 3 fun i j => lam * A i j) = lam ^ 3 * Mat.det (Mat.ofFn 3 3 A) ∧
    ∀ i j, i < 3 → j < 3 →
      (Mat.adjugate (Mat.ofFn 3 3 fun i j => lam * A i j)).get i j / Mat.det (Mat.ofFn 3 3 fun i j => lam * A i j)
        = lam⁻¹ * ((Mat.adjugate (Mat.ofFn 3 3 A)).get i j / Mat.det (Mat.ofFn 3 3 A)) := by
  have hdet : Mat.det (Mat.ofFn 3 3 fun i j => lam * A i j) = lam ^ 3 * Mat.det (Mat.ofFn 3 3 A) := by
    simp [Mat.det, Mat.detAux, Mat.ofFn, Mat.get, Mat.minor, sumRange, List.range_succ]; ring
  refine ⟨hdet, ?_⟩
  intro i j hi hj
  rw [hdet]
  have hadj : (Mat.adjugate (Mat.ofFn 3 3 fun i j => lam * A i j)).get i j
      = lam ^ 2 * (Mat.adjugate (Mat.ofFn 3 3 A)).get i j := by
    interval_cases i <;> interval_cases j <;>
      simp [Mat.adjugate, Mat.detAux, Mat.ofFn, Mat.get, Mat.minor, sumRange, List.range_succ] <;> ring
  rw [hadj]
  field_simp

set_option maxHeartbeats 4000000 in
theorem T03_1_inv_scale_4 (A : Nat → Nat → K) (lam : K) (hl : lam ≠ 0)
    (hd : Mat.det (Mat.ofFn 4 4 A) ≠ 0) :
    Mat.det (Mat.ofFn 4 4 fun i j => lam * A i j) = lam ^ 4 * Mat.det (Mat.ofFn 4 4 A) ∧
    ∀ i j, i < 4 → j < 4 →
      (Mat.adjugate (Mat.ofFn 4 4 fun i j => lam * A i j)).get i j / Mat.det (Mat.ofFn 4 4 fun i j => lam * A i j)
        = lam⁻¹ * ((Mat.adjugate (Mat.ofFn 4 4 A)).get i j / Mat.det (Mat.ofFn 4 4 A)) := by
  have hdet : Mat.det (Mat.ofFn 4 4 fun i j => lam * A i j) = lam ^ 4 * Mat.det (Mat.ofFn 4 4 A) := by
    simp [Mat.det, Mat.detAux, Mat.ofFn, Mat.get, Mat.minor, sumRange, List.range_succ]; ring
  refine ⟨hdet, ?_⟩
  intro i j hi hj
  rw [hdet]
  have hadj : (Mat.adjugate (Mat.ofFn 4 4 fun i j => lam * A i j)).get i j
      = lam ^ 3 * (Mat.adjugate (Mat.ofFn 4 4 A)).get i j := by
    interval_cases i <;> interval_cases j <;>
      simp [Mat.adjugate, Mat.detAux, Mat.ofFn, Mat.get, Mat.minor, sumRange, List.range_succ] <;> ring
  rw [hadj]
  field_simp

end inverse


end Geo
