/-
  C04 — collections compute element by element what single objects compute.
  T04.2: the einsum that `TensorDiagram.calculate` issues, evaluated at a collection position, equals the
  einsum of the slices at that position — for every diagram, any number of operands, ranks and summed labels.
-/
import Geo.JoinMeet
import Mathlib.Tactic.Ring
namespace Geo

variable {α : Type} [Add α] [Mul α] [Zero α] [One α]

private theorem lookup_cons (k v : Nat) (env : List (Nat × Nat)) (l : Nat) :
    lookup ((k, v) :: env) l = if k = l then v else lookup env l := rfl

private theorem lookup_append_left (A B : List (Nat × Nat)) (l : Nat) (h : l ∈ A.map Prod.fst) :
    lookup (A ++ B) l = lookup A l := by
  induction A with
  | nil => simp at h
  | cons a A ih =>
    obtain ⟨k, v⟩ := a
    simp only [List.cons_append, lookup_cons]
    by_cases hk : k = l
    · simp [hk]
    · simp only [hk, if_false]
      apply ih
      simp only [List.map_cons, List.mem_cons] at h
      rcases h with h | h
      · exact absurd h.symm hk
      · exact h

private theorem lookup_append_right (A B : List (Nat × Nat)) (l : Nat) (h : l ∉ A.map Prod.fst) :
    lookup (A ++ B) l = lookup B l := by
  induction A with
  | nil => simp
  | cons a A ih =>
    obtain ⟨k, v⟩ := a
    simp only [List.map_cons, List.mem_cons, not_or] at h
    simp only [List.cons_append, lookup_cons]
    have : ¬ k = l := fun e => h.1 e.symm
    simp only [this, if_false]
    exact ih h.2

private theorem sumRange_congr (n : Nat) (f g : Nat → α) (h : ∀ v, f v = g v) : sumRange n f = sumRange n g := by
  have : f = g := funext h
  rw [this]

/-- operands of a collection diagram: (labels of the leading collection axes, labels of the tensor axes, array) -/
abbrev COperand (α : Type) := List Nat × List Nat × (List Nat → α)

/-- the slice of an operand at collection position `pos` (a single object is its own slice) -/
def sliceAt (free pos : List Nat) (o : COperand α) : List Nat → α :=
  fun i => o.2.2 (o.1.map (lookup (free.zip pos)) ++ i)

private theorem prodOps_slice (free pos : List Nat) (ops : List (COperand α)) (env env' : List (Nat × Nat))
    (hfree : ∀ l, l ∈ free → lookup env l = lookup (free.zip pos) l)
    (hrest : ∀ l, l ∉ free → lookup env l = lookup env' l)
    (h3 : ∀ o ∈ ops, ∀ l ∈ o.1, l ∈ free) (h4 : ∀ o ∈ ops, ∀ l ∈ o.2.1, l ∉ free) :
    prodOps (ops.map fun o => o.1 ++ o.2.1) (ops.map fun o => o.2.2) env
      = prodOps (ops.map fun o => o.2.1) (ops.map (sliceAt free pos)) env' := by
  induction ops with
  | nil => simp [prodOps]
  | cons o ops ih =>
    simp only [List.map_cons, prodOps]
    rw [ih (fun o' ho' => h3 o' (List.mem_cons_of_mem _ ho')) (fun o' ho' => h4 o' (List.mem_cons_of_mem _ ho'))]
    congr 1
    simp only [sliceAt, List.map_append]
    have e1 : List.map (lookup env) o.1 = List.map (lookup (free.zip pos)) o.1 :=
      List.map_congr_left fun l hl => hfree l (h3 o List.mem_cons_self l hl)
    have e2 : List.map (lookup env) o.2.1 = List.map (lookup env') o.2.1 :=
      List.map_congr_left fun l hl => hrest l (h4 o List.mem_cons_self l hl)
    rw [e1, e2]

private theorem sumOver_slice (free pos : List Nat) (ops : List (COperand α)) (summed : List (Nat × Nat))
    (h2 : ∀ s ∈ summed, s.1 ∉ free)
    (h3 : ∀ o ∈ ops, ∀ l ∈ o.1, l ∈ free) (h4 : ∀ o ∈ ops, ∀ l ∈ o.2.1, l ∉ free) :
    ∀ env env' : List (Nat × Nat),
    (∀ l, l ∈ free → lookup env l = lookup (free.zip pos) l) →
    (∀ l, l ∉ free → lookup env l = lookup env' l) →
    sumOver summed env (fun e => prodOps (ops.map fun o => o.1 ++ o.2.1) (ops.map fun o => o.2.2) e)
      = sumOver summed env' (fun e => prodOps (ops.map fun o => o.2.1) (ops.map (sliceAt free pos)) e) := by
  induction summed with
  | nil =>
    intro env env' hf hr
    simp only [sumOver]
    exact prodOps_slice free pos ops env env' hf hr h3 h4
  | cons s summed ih =>
    obtain ⟨l, dim⟩ := s
    intro env env' hf hr
    simp only [sumOver]
    apply sumRange_congr
    intro v
    apply ih (fun s' hs' => h2 s' (List.mem_cons_of_mem _ hs'))
    · intro f hfm
      have hne : ¬ l = f := fun e => (h2 (l, dim) List.mem_cons_self) (e ▸ hfm)
      rw [lookup_cons]; simp only [hne, if_false]; exact hf f hfm
    · intro f hfm
      rw [lookup_cons, lookup_cons]
      by_cases hlf : l = f
      · simp [hlf]
      · simp only [hlf, if_false]; exact hr f hfm

/-- **T04.2** (every diagram): the value of the einsum at output index `pos ++ idx` — collection position
    `pos`, tensor index `idx` — equals the einsum of the operands' slices at `pos`, where an operand with fewer
    (or no) collection axes is broadcast.  Hypotheses = what `calculate` guarantees: collection labels come
    first in the output and are never summed; the collection axes of every operand carry collection labels;
    tensor axes never do. -/
theorem T04_2_elementwise (free rest pos idx : List Nat) (ops : List (COperand α)) (summed : List (Nat × Nat))
    (h1 : free.length = pos.length)
    (h2 : ∀ s ∈ summed, s.1 ∉ free)
    (h3 : ∀ o ∈ ops, ∀ l ∈ o.1, l ∈ free) (h4 : ∀ o ∈ ops, ∀ l ∈ o.2.1, l ∉ free) :
    evalEinsum (ops.map fun o => o.1 ++ o.2.1) (free ++ rest) summed (ops.map fun o => o.2.2) (pos ++ idx)
      = evalEinsum (ops.map fun o => o.2.1) rest summed (ops.map (sliceAt free pos)) idx := by
  unfold evalEinsum
  apply sumOver_slice free pos ops summed h2 h3 h4
  · intro l hl
    rw [List.zip_append h1]
    apply lookup_append_left
    rw [List.map_fst_zip (by omega)]
    exact hl
  · intro l hl
    rw [List.zip_append h1]
    apply lookup_append_right
    rw [List.map_fst_zip (by omega)]
    exact hl

/-- non-vacuity: the traced collection diagram `join(PointCollection, Point)` (labels `[0,1] [1,3,4] [3] → [0,4]`)
    has exactly this shape: free = [0], the collection operand carries label 0 on its leading axis -/
example : (([0] : List Nat).length = ([1] : List Nat).length) ∧ (∀ s ∈ [((1 : Nat), (3 : Nat)), (3, 3)], s.1 ∉ ([0] : List Nat)) := by
  decide

/-! ## T04.3  the model's collection operations are position-wise by construction -/

/-- the dependence mask of a collection result is computed position by position -/
theorem T04_3_mask_positionwise [DecidableEq α] (t : Tens α) (nfree : Nat) (k : Nat)
    (hk : k < (Tens.allIndices (t.shape.take nfree)).length) :
    (isZeroMask t nfree).2.getD k false = (t.slice ((Tens.allIndices (t.shape.take nfree)).getD k [])).isZero := by
  simp [isZeroMask, List.getD_eq_getElem?_getD, hk]

end Geo
