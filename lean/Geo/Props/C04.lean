import Geo.JoinMeet
namespace Geo
theorem C04_placeholder : (1 : Nat) = 1 := rfl
end Geo
