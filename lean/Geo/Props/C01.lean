/-
  C01 — join and meet return exactly the span / the intersection of their arguments.
  All statements are about the einsum calls that the library really issues (generated file
  Geo/Gen/Diagrams.lean, translator B); `none` = scenario not regenerated (then the property is carried
  by the correspondence only and the evidence says so).
-/
import Geo.Gen.Diagrams
import Geo.Proofs.Lemmas
namespace Geo
open Spec

variable {K : Type} [CommRing K]

/-! ## T01.1 / T01.2  plane: two points, two lines -/

/-- the join of two points of the plane is incident with both -/
theorem T01_1_join_P2P2_incident (p q : Nat → K) :
    match Gen.join_P2P2 with
    | none => True
    | some cs =>
      let l := fun i => lastResult cs [vec p, vec q] [] [i]
      dot 3 l p = 0 ∧ dot 3 l q = 0 := by
  traced_simp [Gen.join_P2P2]
  constructor <;> ring

/-- … it is ± the cross product, and swapping the arguments only changes the sign -/
theorem T01_1_join_P2P2_cross (p q : Nat → K) :
    match Gen.join_P2P2 with
    | none => True
    | some cs =>
      ((∀ i, i < 3 → lastResult cs [vec p, vec q] [] [i] = cross p q i) ∨
       (∀ i, i < 3 → lastResult cs [vec p, vec q] [] [i] = - cross p q i)) ∧
      (∀ i, i < 3 → lastResult cs [vec q, vec p] [] [i] = - lastResult cs [vec p, vec q] [] [i]) := by
  simp only [Gen.join_P2P2]
  refine ⟨?_, ?_⟩
  · first
    | (left; intro i hi; interval_cases i <;> traced_simp [cross] <;> ring1)
    | (right; intro i hi; interval_cases i <;> traced_simp [cross] <;> ring1)
  · intro i hi; interval_cases i <;> traced_simp [] <;> ring

/-- the meet of two lines of the plane lies on both (dual statement) -/
theorem T01_2_meet_L2L2_incident (l m : Nat → K) :
    match Gen.meet_L2L2 with
    | none => True
    | some cs =>
      let x := fun i => lastResult cs [vec l, vec m] [] [i]
      dot 3 l x = 0 ∧ dot 3 m x = 0 := by
  traced_simp [Gen.meet_L2L2]
  constructor <;> ring

/-- uniqueness in the plane: a line through p and q is proportional to p × q (all 2×2 minors vanish) -/
theorem T01_8_unique_P2 (p q l : Nat → K) (hp : dot 3 l p = 0) (hq : dot 3 l q = 0) :
    ∀ i j, i < 3 → j < 3 → l i * cross p q j - l j * cross p q i = 0 := by
  simp [dot, sumRange] at hp hq
  intro i j hi hj
  interval_cases i <;> interval_cases j <;> simp [cross] <;>
    first
    | ring1
    | linear_combination (q 0) * hp - (p 0) * hq
    | linear_combination (q 1) * hp - (p 1) * hq
    | linear_combination (q 2) * hp - (p 2) * hq
    | linear_combination (-(q 0)) * hp + (p 0) * hq
    | linear_combination (-(q 1)) * hp + (p 1) * hq
    | linear_combination (-(q 2)) * hp + (p 2) * hq

/-! ## T01.3 – T01.6  space: ε-contractions -/

/-- three points: the plane is incident with each of them -/
theorem T01_3_join_P3P3P3_incident (p q r : Nat → K) :
    match Gen.join_P3P3P3 with
    | none => True
    | some cs =>
      let e := fun i => lastResult cs [vec p, vec q, vec r] [] [i]
      dot 4 e p = 0 ∧ dot 4 e q = 0 ∧ dot 4 e r = 0 := by
  traced_simp [Gen.join_P3P3P3]
  refine ⟨?_, ?_, ?_⟩ <;> ring

/-- … and permuting the arguments only changes the sign (so not the projective class) -/
theorem T01_3_join_P3P3P3_antisymm (p q r : Nat → K) :
    match Gen.join_P3P3P3 with
    | none => True
    | some cs => ∀ i, i < 4 →
      lastResult cs [vec q, vec p, vec r] [] [i] = - lastResult cs [vec p, vec q, vec r] [] [i] ∧
      lastResult cs [vec p, vec r, vec q] [] [i] = - lastResult cs [vec p, vec q, vec r] [] [i] := by
  simp only [Gen.join_P3P3P3]
  intro i hi
  interval_cases i <;> traced_simp [] <;> constructor <;> ring

/-- three planes: the point lies on each of them -/
theorem T01_5_meet_EEE_incident (a b c : Nat → K) :
    match Gen.meet_EEE with
    | none => True
    | some cs =>
      let x := fun i => lastResult cs [vec a, vec b, vec c] [] [i]
      dot 4 a x = 0 ∧ dot 4 b x = 0 ∧ dot 4 c x = 0 := by
  traced_simp [Gen.meet_EEE]
  refine ⟨?_, ?_, ?_⟩ <;> ring

/-- two points of space: the line `L^{kl}` annihilates both points (`L^{kl} p_k = 0`): they lie on it -/
theorem T01_4_join_P3P3_incident (p q : Nat → K) :
    match Gen.join_P3P3 with
    | none => True
    | some cs => ∀ l, l < 4 →
      sumRange 4 (fun k => lastResult cs [vec p, vec q] [] [k, l] * p k) = 0 ∧
      sumRange 4 (fun k => lastResult cs [vec p, vec q] [] [k, l] * q k) = 0 := by
  simp only [Gen.join_P3P3]
  intro l hl
  interval_cases l <;> traced_simp [] <;> constructor <;> ring

/-- closed form of the traced two-point join: the Plücker matrix (up to one global sign) -/
theorem T01_4_join_P3P3_plucker (p q : Nat → K) :
    match Gen.join_P3P3 with
    | none => True
    | some cs =>
      (∀ k l, k < 4 → l < 4 → lastResult cs [vec p, vec q] [] [k, l] = plucker p q k l) ∨
      (∀ k l, k < 4 → l < 4 → lastResult cs [vec p, vec q] [] [k, l] = - plucker p q k l) := by
  simp only [Gen.join_P3P3]
  first
  | (left; intro k l hk hl; interval_cases k <;> interval_cases l <;> traced_simp [plucker] <;> ring1)
  | (right; intro k l hk hl; interval_cases k <;> interval_cases l <;> traced_simp [plucker] <;> ring1)

/-- the same with the sign made explicit: `L = s • plucker`, `s = ±1` -/
theorem join_P3P3_signed (p q : Nat → K) :
    match Gen.join_P3P3 with
    | none => True
    | some cs => ∃ s : K, (s = 1 ∨ s = -1) ∧
        ∀ k l, k < 4 → l < 4 → lastResult cs [vec p, vec q] [] [k, l] = s * plucker p q k l := by
  have h := T01_4_join_P3P3_plucker p q
  revert h
  cases Gen.join_P3P3 with
  | none => simp
  | some cs =>
    simp only
    rintro (h | h)
    · exact ⟨1, Or.inl rfl, fun k l hk hl => by rw [h k l hk hl]; ring⟩
    · exact ⟨-1, Or.inr rfl, fun k l hk hl => by rw [h k l hk hl]; ring⟩

set_option maxHeartbeats 3000000 in
/-- line + point (both argument orders) agrees, up to sign, with the three-point join:
    `join(L, r) = ± join(p,q,r)` whenever `L = ± plucker p q` — in particular for `L = join(p,q)` -/
theorem T01_4_join_L3P3_eq_three (p q r : Nat → K) (L : List Nat → K) (s : K)
    (hL : ∀ k l, k < 4 → l < 4 → L [k, l] = s * plucker p q k l) :
    match Gen.join_L3P3, Gen.join_P3L3, Gen.join_P3P3P3 with
    | some clp, some cpl, some c3 =>
      ((∀ i, i < 4 → lastResult clp [L, vec r] [] [i] = s * lastResult c3 [vec p, vec q, vec r] [] [i]) ∨
       (∀ i, i < 4 → lastResult clp [L, vec r] [] [i] = - (s * lastResult c3 [vec p, vec q, vec r] [] [i]))) ∧
      ((∀ i, i < 4 → lastResult cpl [vec r, L] [] [i] = s * lastResult c3 [vec p, vec q, vec r] [] [i]) ∨
       (∀ i, i < 4 → lastResult cpl [vec r, L] [] [i] = - (s * lastResult c3 [vec p, vec q, vec r] [] [i])))
    | _, _, _ => True := by
  simp only [Gen.join_L3P3, Gen.join_P3L3, Gen.join_P3P3P3]
  constructor <;>
  first
  | (left; intro i hi; interval_cases i <;> traced_simp [hL, plucker] <;> ring1)
  | (right; intro i hi; interval_cases i <;> traced_simp [hL, plucker] <;> ring1)

set_option maxHeartbeats 3000000 in
/-- line ∩ plane (both orders): for `L = s • plucker p q` the result is `±s·((π·q) p − (π·p) q)`:
    a point of the line that lies on the plane -/
theorem T01_6_meet_L3E (p q e : Nat → K) (L : List Nat → K) (s : K)
    (hL : ∀ k l, k < 4 → l < 4 → L [k, l] = s * plucker p q k l) :
    match Gen.meet_L3E, Gen.meet_EL3 with
    | some cle, some cel =>
      ((∀ i, i < 4 → lastResult cle [L, vec e] [] [i] = 2 * s * (dot 4 e q * p i - dot 4 e p * q i)) ∨
       (∀ i, i < 4 → lastResult cle [L, vec e] [] [i] = -2 * s * (dot 4 e q * p i - dot 4 e p * q i))) ∧
      ((∀ i, i < 4 → lastResult cel [vec e, L] [] [i] = 2 * s * (dot 4 e q * p i - dot 4 e p * q i)) ∨
       (∀ i, i < 4 → lastResult cel [vec e, L] [] [i] = -2 * s * (dot 4 e q * p i - dot 4 e p * q i)))
    | _, _ => True := by
  simp only [Gen.meet_L3E, Gen.meet_EL3]
  constructor <;>
  first
  | (left; intro i hi; interval_cases i <;> traced_simp [hL, plucker] <;> ring1)
  | (right; intro i hi; interval_cases i <;> traced_simp [hL, plucker] <;> ring1)

/-- the point `(π·q) p − (π·p) q` lies on the plane π (so T01_6 gives a point of line and plane) -/
theorem T01_6_point_on_plane (p q e : Nat → K) :
    dot 4 e (fun i => dot 4 e q * p i - dot 4 e p * q i) = 0 := by
  simp [dot, sumRange]; ring

set_option maxHeartbeats 3000000 in
/-- two planes (the result goes through `contravariant_tensor`): `L^{kl} x_k = ±2((π·x) σ^l − (σ·x) π^l)`;
    so every point of both planes is annihilated by the line tensor, i.e. lies on the line -/
theorem T01_5_meet_EE (a b x : Nat → K) :
    match Gen.meet_EE with
    | none => True
    | some cs =>
      (∀ l, l < 4 → sumRange 4 (fun k => lastResult cs [vec a, vec b] [] [k, l] * x k)
          = 2 * (dot 4 b x * a l - dot 4 a x * b l)) ∨
      (∀ l, l < 4 → sumRange 4 (fun k => lastResult cs [vec a, vec b] [] [k, l] * x k)
          = -2 * (dot 4 b x * a l - dot 4 a x * b l)) := by
  simp only [Gen.meet_EE]
  first
  | (left; intro l hl; interval_cases l <;> traced_simp [] <;> ring1)
  | (right; intro l hl; interval_cases l <;> traced_simp [] <;> ring1)

end Geo
