import Geo.JoinMeet
namespace Geo
theorem C01_placeholder : (1 : Nat) = 1 := rfl
end Geo
