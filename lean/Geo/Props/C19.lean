/-
  C19 — tensor arithmetic and index bookkeeping follow the array semantics.
-/
import Geo.Indexing
import Geo.Arith
import Mathlib.Tactic.FieldSimp
import Mathlib.Tactic.Ring
namespace Geo

/-! ## indexing: the mapping of `_get_index_mapping` against NumPy's semantics -/

/-- index components of the finite table -/
def ixAlphabet : List Ix := [.int, .slice, .none, .ellipsis, .arr 1 false, .arr 1 true, .arr 2 true, .mask 1, .mask 2]

/-- finite tables, complete (kernel-evaluated): every index expression with at most 4 components over the alphabet,
    every rank ≤ 4: whenever NumPy accepts the index, the code's mapping is NumPy's.  (Before the repair of
    `_get_index_mapping` — /repo commit 7e7377a — this held only on a fragment: no mask with ≥ 2 dimensions, no integer
    or `None` together with an index array; the three counterexamples were the findings KF-C19-1/2/3.) -/
theorem T19_index_table_1 : ∀ r ∈ [1, 2, 3, 4], ∀ a ∈ ixAlphabet,
    (numpyAxes r [a]).isSome = true → indexMapping r [a] = numpyAxes r [a] := by
  decide +kernel

theorem T19_index_table_2 : ∀ r ∈ [1, 2, 3, 4], ∀ a ∈ ixAlphabet, ∀ b ∈ ixAlphabet,
    (numpyAxes r [a, b]).isSome = true → indexMapping r [a, b] = numpyAxes r [a, b] := by
  decide +kernel

theorem T19_index_table_3 : ∀ r ∈ [1, 2, 3, 4], ∀ a ∈ ixAlphabet, ∀ b ∈ ixAlphabet, ∀ c ∈ ixAlphabet,
    (numpyAxes r [a, b, c]).isSome = true → indexMapping r [a, b, c] = numpyAxes r [a, b, c] := by
  decide +kernel

/-- four components: reduced alphabet (list / ndarray index arrays and 1-D masks behave like `arr 1`), rank 4
    (kernel evaluation costs about 40 ms per expression; longer expressions are left to the correspondence) -/
def ixAlphabet4 : List Ix := [.int, .slice, .none, .ellipsis, .arr 1 true, .mask 2]

theorem T19_index_table_4 : ∀ r ∈ [4], ∀ a ∈ ixAlphabet4, ∀ b ∈ ixAlphabet4, ∀ c ∈ ixAlphabet4, ∀ d ∈ ixAlphabet4,
    (numpyAxes r [a, b, c, d]).isSome = true → indexMapping r [a, b, c, d] = numpyAxes r [a, b, c, d] := by
  decide +kernel

/-- the former counterexamples now agree (kept as regression statements) -/
theorem T19_index_former_counterexamples :
    indexMapping 3 [.int, .arr 1 false] = numpyAxes 3 [.int, .arr 1 false] ∧
    indexMapping 3 [.mask 2] = numpyAxes 3 [.mask 2] ∧
    indexMapping 3 [.mask 1, .none, .arr 1 false] = numpyAxes 3 [.mask 1, .none, .arr 1 false] ∧
    -- an Ellipsis that stands for no axis still separates advanced indices
    numpyAxes 3 [.slice, .int, .ellipsis, .arr 1 true] = some [none, some 0] ∧
    indexMapping 3 [.slice, .int, .ellipsis, .arr 1 true] = some [none, some 0] := by
  decide +kernel

private theorem mem_filter_zipIdx {β : Type} (l : List β) (P : β → Bool) (k : Nat) :
    k ∈ ((l.zipIdx.filter fun p => P p.1).map (·.2)) ↔ ∃ a, l[k]? = some a ∧ P a = true := by
  simp only [List.mem_map, List.mem_filter]
  constructor
  · rintro ⟨⟨x, i⟩, ⟨hmem, hx⟩, rfl⟩
    have h := List.mem_zipIdx hmem
    simp at h
    exact ⟨x, by rw [List.getElem?_eq_getElem h.1]; exact congrArg some h.2.symm, hx⟩
  · rintro ⟨a, hm, ha⟩
    refine ⟨(a, k), ⟨?_, ha⟩, rfl⟩
    rw [List.mem_zipIdx_iff_getElem?]
    simpa using hm

/-- the result's index types are read off the mapping: a surviving axis keeps its type; new / broadcast axes are
    collection axes (neither covariant nor contravariant) -/
theorem T19_types_of_mapping (cov con : List Nat) (m : List (Option Nat)) (k : Nat) :
    (k ∈ (indexTypes cov con m).1 ↔ ∃ a, m[k]? = some (some a) ∧ a ∈ cov) ∧
    (k ∈ (indexTypes cov con m).2 ↔ ∃ a, m[k]? = some (some a) ∧ a ∈ con) := by
  unfold indexTypes
  simp only []
  constructor
  · rw [mem_filter_zipIdx m (optIn cov) k]
    constructor
    · rintro ⟨x, hx, hp⟩
      cases x with
      | none => simp [optIn] at hp
      | some a => exact ⟨a, hx, by simpa [optIn] using hp⟩
    · rintro ⟨a, hx, ha⟩; exact ⟨some a, hx, by simpa [optIn] using ha⟩
  · rw [mem_filter_zipIdx m (optIn con) k]
    constructor
    · rintro ⟨x, hx, hp⟩
      cases x with
      | none => simp [optIn] at hp
      | some a => exact ⟨a, hx, by simpa [optIn] using hp⟩
    · rintro ⟨a, hx, ha⟩; exact ⟨some a, hx, by simpa [optIn] using ha⟩

/-! ## transpose -/

/-- after `transpose(perm)` result axis `i` is covariant (contravariant) iff source axis `perm[i]` was -/
theorem T19_transpose_types (perm cov con : List Nat) (i : Nat) :
    (i ∈ (transposeTypes perm cov con).1 ↔ ∃ a, perm[i]? = some a ∧ a ∈ cov) ∧
    (i ∈ (transposeTypes perm cov con).2 ↔ ∃ a, perm[i]? = some a ∧ a ∈ con) := by
  unfold transposeTypes
  simp only []
  constructor
  · rw [mem_filter_zipIdx perm (fun a => cov.contains a) i]; simp
  · rw [mem_filter_zipIdx perm (fun a => con.contains a) i]; simp

/-- cycle notation: `(p₀ p₁ p₂)` sends position `pᵢ` to `pᵢ₊₁` (finite check of the construction for all cycles of
    length 2 and 3 in rank ≤ 4) -/
theorem T19_cycle_table :
    cyclePerm 3 [0, 2] = [2, 1, 0] ∧ cyclePerm 4 [1, 3, 2] = [0, 3, 1, 2] ∧ cyclePerm 3 [2, 0, 1] = [2, 0, 1] := by
  decide

/-! ## point arithmetic is affine; a point at infinity acts as a direction -/
section
variable {K : Type} [Field K] [DecidableEq K]

theorem T19_point_add_finite (x y u v w z : K) (hw : w ≠ 0) (hz : z ≠ 0) :
    pointAddSub1 false [x * w, y * w, w] [u * z, v * z, z] = [x + u, y + v, 1] ∧
    pointAddSub1 true [x * w, y * w, w] [u * z, v * z, z] = [x - u, y - v, 1] := by
  simp [pointAddSub1, normalizePoint1, hw, hz]

theorem T19_point_add_direction (x y u v w : K) (hw : w ≠ 0) :
    pointAddSub1 false [x * w, y * w, w] [u, v, 0] = [x + u, y + v, 1] ∧
    pointAddSub1 true [x * w, y * w, w] [u, v, 0] = [x - u, y - v, 1] ∧
    pointAddSub1 false [x, y, 0] [u, v, 0] = [x + u, y + v, 0] := by
  simp [pointAddSub1, normalizePoint1, hw]

end
/-- **expand_dims**: in the index sets of the result the new axis is neither covariant nor contravariant (a collection axis),
    an axis in front of it keeps its number and its type, an axis behind it moves up by one and keeps its type -/
theorem T19_expand_dims_types (axis : Nat) (l : List Nat) (j : Nat) :
    j ∈ expandDimsTypes axis l ↔ (j < axis ∧ j ∈ l) ∨ (axis < j ∧ j - 1 ∈ l) := by
  simp only [expandDimsTypes, List.mem_map]
  constructor
  · rintro ⟨i, hi, rfl⟩
    by_cases h : i ≥ axis
    · right; simp only [h, if_true]; exact ⟨by omega, by simpa using hi⟩
    · left; simp only [h, if_false]; exact ⟨by omega, hi⟩
  · rintro (⟨h1, h2⟩ | ⟨h1, h2⟩)
    · exact ⟨j, h2, by simp [show ¬ j ≥ axis by omega]⟩
    · refine ⟨j - 1, h2, ?_⟩
      have : j - 1 ≥ axis := by omega
      simp only [this, if_true]; omega

theorem T19_expand_dims_new_axis_free (axis : Nat) (cov con : List Nat) :
    axis ∉ expandDimsTypes axis cov ∧ axis ∉ expandDimsTypes axis con := by
  constructor <;> (rw [T19_expand_dims_types]; omega)

/-- distinct index sets stay distinct (no axis becomes both covariant and contravariant) -/
theorem T19_expand_dims_disjoint (axis : Nat) (cov con : List Nat) (h : ∀ i, i ∈ cov → i ∉ con) :
    ∀ j, j ∈ expandDimsTypes axis cov → j ∉ expandDimsTypes axis con := by
  intro j hj hc
  rw [T19_expand_dims_types] at hj hc
  rcases hj with ⟨h1, h2⟩ | ⟨h1, h2⟩ <;> rcases hc with ⟨g1, g2⟩ | ⟨g1, g2⟩
  · exact h j h2 g2
  · omega
  · omega
  · exact h (j - 1) h2 g2

end Geo
