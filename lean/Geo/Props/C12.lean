/-
  C12 — queries are pure: no call changes operands, shared constants or later answers.
  T12.2: soundness of the alias / effect checker `Geo.Effects.check`: if it accepts the write-site IR of a function then
  EVERY execution (any branch choices, any number of loop iterations, any aliasing of the arguments) writes only into
  buffers that were allocated inside the function.  The IR itself is produced by translator A (trusted) and
  cross-checked dynamically by the snapshot monitor of tools/props/c12.py.
-/
import Geo.Effects
import Geo.Gen.Effects
import Mathlib.Tactic.Ring
namespace Geo.Effects

/-- concrete state: the origin of the buffer each variable currently points to -/
abbrev Env := Nat → Origin
def upd (σ : Env) (x : Nat) (o : Origin) : Env := fun y => if y = x then o else σ y

/-- big-step semantics; the trace lists the origins of the buffers that were written -/
inductive Exec : Stmt → Env → Env → List Origin → Prop
  | skip (σ) : Exec .skip σ σ []
  | fresh (σ x) : Exec (.fresh x) σ (upd σ x .local) []
  | alias (σ x y) : Exec (.alias x y) σ (upd σ x (σ y)) []
  | bind (σ x o) : Exec (.bind x o) σ (upd σ x o) []
  | write (σ x) : Exec (.write x) σ σ [σ x]
  | seq {a b σ σ' σ'' t1 t2} : Exec a σ σ' t1 → Exec b σ' σ'' t2 → Exec (.seq a b) σ σ'' (t1 ++ t2)
  | choiceL {a b σ σ' t} : Exec a σ σ' t → Exec (.choice a b) σ σ' t
  | choiceR {a b σ σ' t} : Exec b σ σ' t → Exec (.choice a b) σ σ' t
  | loopDone (b σ) : Exec (.loop b) σ σ []
  | loopStep {b σ σ' σ'' t1 t2} : Exec b σ σ' t1 → Exec (.loop b) σ' σ'' t2 → Exec (.loop b) σ σ'' (t1 ++ t2)

/-- the abstract environment covers the concrete one -/
def Conc (σ : Env) (A : AEnv) : Prop := ∀ x, σ x ∈ A.get x

theorem mem_allOrigins (o : Origin) : o ∈ allOrigins := by cases o <;> simp [allOrigins]

theorem get_put (A : AEnv) (x y : Nat) (s : List Origin) :
    (A.put x s).get y = if y = x ∧ x < A.length then s else A.get y := by
  unfold AEnv.put AEnv.get
  simp only [List.getD_eq_getElem?_getD, List.getElem?_set]
  by_cases h : x = y
  · subst h
    by_cases hx : x < A.length <;> simp [hx]
  · have h' : ¬ y = x := fun e => h e.symm
    simp [h, h']

theorem conc_put {σ : Env} {A : AEnv} (h : Conc σ A) (x : Nat) (o : Origin) (s : List Origin) (ho : o ∈ s) :
    Conc (upd σ x o) (A.put x s) := by
  intro y
  rw [get_put]
  unfold upd
  by_cases hy : y = x
  · subst hy
    by_cases hl : y < A.length
    · simp [hl, ho]
    · simp only [hl, and_false, if_false, if_true]
      have : A.get y = allOrigins := by
        unfold AEnv.get
        simp [List.getD_eq_getElem?_getD, List.getElem?_eq_none (Nat.le_of_not_lt hl)]
      rw [this]; exact mem_allOrigins o
  · simp only [hy, false_and, if_false]
    exact h y

theorem subO_sound {a b : List Origin} (h : subO a b = true) {o : Origin} (ho : o ∈ a) : o ∈ b := by
  unfold subO at h
  rw [List.all_eq_true] at h
  simpa using h o ho

theorem mem_unionO {a b : List Origin} {o : Origin} : o ∈ unionO a b ↔ o ∈ a ∨ o ∈ b := by
  unfold unionO
  simp only [List.mem_append, List.mem_filter]
  constructor
  · rintro (h | ⟨h, _⟩)
    · exact Or.inl h
    · exact Or.inr h
  · rintro (h | h)
    · exact Or.inl h
    · by_cases ha : o ∈ a
      · exact Or.inl ha
      · exact Or.inr ⟨h, by simpa using ha⟩

theorem get_join (A B : AEnv) (x : Nat) (o : Origin) (h : o ∈ A.get x ∨ o ∈ B.get x) : o ∈ (A.join B).get x := by
  unfold AEnv.join AEnv.get at *
  simp only [List.getD_eq_getElem?_getD, List.getElem?_zipWith] at *
  cases hA : A[x]? with
  | none => simp [mem_allOrigins]
  | some a =>
    cases hB : B[x]? with
    | none => simp [mem_allOrigins]
    | some b =>
      simp [hA, hB] at h ⊢
      exact mem_unionO.mpr h

theorem conc_join_left {σ : Env} {A B : AEnv} (h : Conc σ A) : Conc σ (A.join B) :=
  fun x => get_join A B x _ (Or.inl (h x))
theorem conc_join_right {σ : Env} {A B : AEnv} (h : Conc σ B) : Conc σ (A.join B) :=
  fun x => get_join A B x _ (Or.inr (h x))

theorem conc_le {σ : Env} {A B : AEnv} (hle : A.le B = true) (h : Conc σ A) : Conc σ B := by
  unfold AEnv.le at hle
  simp only [Bool.and_eq_true, beq_iff_eq, List.all_eq_true] at hle
  obtain ⟨hlen0, hall⟩ := hle
  have hlen : A.length = B.length := by simpa using hlen0
  intro x
  have hx := h x
  unfold AEnv.get at *
  simp only [List.getD_eq_getElem?_getD] at *
  by_cases hxl : x < A.length
  · have hxb : x < B.length := by omega
    have hB : B[x]? = some B[x] := List.getElem?_eq_getElem hxb
    have hAe : A[x]? = some A[x] := List.getElem?_eq_getElem hxl
    simp only [hAe, Option.getD_some] at hx
    simp only [hB, Option.getD_some]
    have hmem : subO A[x] B[x] ∈ List.zipWith subO A B := by
      rw [List.mem_iff_getElem]
      exact ⟨x, by simp only [List.length_zipWith]; omega, by simp⟩
    have hz := hall _ hmem
    exact subO_sound (by simpa using hz) hx
  · have hB : B[x]? = none := List.getElem?_eq_none (by omega)
    simp [hB, mem_allOrigins]

/-- loops: with an invariant `inv` that the body preserves and under which the body's writes are local -/
theorem loop_sound (b : Stmt) (inv : AEnv)
    (hbody : ∀ σ σ' t, Exec b σ σ' t → Conc σ inv → Conc σ' inv ∧ ∀ o ∈ t, o = Origin.local) :
    ∀ σ σ' t, Exec (.loop b) σ σ' t → Conc σ inv → Conc σ' inv ∧ ∀ o ∈ t, o = Origin.local := by
  intro σ σ' t h
  generalize hs : Stmt.loop b = s at h
  induction h with
  | loopDone b' σ => intro hc; exact ⟨hc, by simp⟩
  | loopStep h1 h2 _ ih2 =>
    cases hs
    intro hc
    obtain ⟨hc1, ht1⟩ := hbody _ _ _ h1 hc
    obtain ⟨hc2, ht2⟩ := ih2 rfl hc1
    refine ⟨hc2, ?_⟩
    intro o ho
    rcases List.mem_append.mp ho with h | h
    · exact ht1 o h
    · exact ht2 o h
  | _ => cases hs

/-- **T12.2 soundness**: whenever the abstract interpreter accepts (`.2 = true`), every execution from every covered
    state ends in a covered state and writes only into local buffers -/
theorem ainterp_sound : ∀ (s : Stmt) (A : AEnv), (ainterp s A).2 = true →
    ∀ σ σ' t, Exec s σ σ' t → Conc σ A → Conc σ' (ainterp s A).1 ∧ ∀ o ∈ t, o = Origin.local
  | .skip, A, _ => by
    intro σ σ' t h hc; cases h; exact ⟨hc, by simp⟩
  | .fresh x, A, _ => by
    intro σ σ' t h hc; cases h
    exact ⟨conc_put hc x _ _ (by simp), by simp⟩
  | .alias x y, A, _ => by
    intro σ σ' t h hc; cases h
    exact ⟨conc_put hc x _ _ (hc y), by simp⟩
  | .bind x o, A, _ => by
    intro σ σ' t h hc; cases h
    exact ⟨conc_put hc x _ _ (by simp), by simp⟩
  | .write x, A, hok => by
    intro σ σ' t h hc; cases h
    refine ⟨hc, ?_⟩
    intro o ho
    simp only [List.mem_singleton] at ho
    subst ho
    have := subO_sound (by simpa [ainterp] using hok) (hc x)
    simpa using this
  | .seq a b, A, hok => by
    intro σ σ' t h hc
    simp only [ainterp, Bool.and_eq_true] at hok
    cases h with
    | seq h1 h2 =>
      obtain ⟨hc1, ht1⟩ := ainterp_sound a A hok.1 _ _ _ h1 hc
      obtain ⟨hc2, ht2⟩ := ainterp_sound b _ hok.2 _ _ _ h2 hc1
      refine ⟨hc2, ?_⟩
      intro o ho
      rcases List.mem_append.mp ho with h | h
      · exact ht1 o h
      · exact ht2 o h
  | .choice a b, A, hok => by
    intro σ σ' t h hc
    simp only [ainterp, Bool.and_eq_true] at hok
    cases h with
    | choiceL h1 =>
      obtain ⟨hc1, ht1⟩ := ainterp_sound a A hok.1.1 _ _ _ h1 hc
      exact ⟨conc_join_left hc1, ht1⟩
    | choiceR h2 =>
      obtain ⟨hc2, ht2⟩ := ainterp_sound b A hok.1.2 _ _ _ h2 hc
      exact ⟨conc_join_right hc2, ht2⟩
  | .loop b, A, hok => by
    intro σ σ' t h hc
    simp only [ainterp, Bool.and_eq_true] at hok
    obtain ⟨⟨hb, hA⟩, hinv⟩ := hok
    generalize hI : iter (fun X => (ainterp b X).1) (4 * A.length + 1) A = inv at hb hA hinv
    have hbody : ∀ σ σ' t, Exec b σ σ' t → Conc σ inv → Conc σ' inv ∧ ∀ o ∈ t, o = Origin.local := by
      intro σ1 σ2 t1 h1 hc1
      obtain ⟨hc2, ht⟩ := ainterp_sound b inv hb _ _ _ h1 hc1
      exact ⟨conc_le hinv hc2, ht⟩
    have := loop_sound b inv hbody σ σ' t h (conc_le hA hc)
    simpa [ainterp, hI] using this

/-- corollary in the form used by the check: an accepted function never writes into an argument, a module constant
    or a cache, whatever its arguments alias -/
theorem T12_2_check_sound (nv : Nat) (s : Stmt) (h : check nv s = true) (σ σ' : Env) (t : List Origin)
    (hex : Exec s σ σ' t) : ∀ o ∈ t, o = Origin.local := by
  have hc : Conc σ (List.replicate nv allOrigins) := by
    intro x
    unfold AEnv.get
    simp only [List.getD_eq_getElem?_getD]
    by_cases hx : x < nv
    · simp [List.getElem?_replicate, hx, mem_allOrigins]
    · simp [List.getElem?_replicate, hx, mem_allOrigins]
  exact (ainterp_sound s _ h σ σ' t hex hc).2

/-- **T12.2 applied**: every function of geometer/**.py that writes into an array in place (IR regenerated from the
    source on every run) is accepted by the verified checker — hence, for the IR, never writes into an argument, a module
    constant or a cache array -/
theorem T12_2_all_write_sites_local : ∀ s ∈ Geo.Gen.writeSites, check s.2.1 s.2.2 = true := by
  decide +kernel

/-- non-vacuity: the shape of the one offending site of the unchanged tree (`e = self._plane; e[ind] = …`) is rejected,
    its repaired form (`e = e.copy(); e.array = e.array.copy(); e[ind] = …`, a fresh buffer) is accepted -/
example : check 2 (.seq (.bind 0 .input) (.seq (.alias 1 0) (.write 1))) = false := by decide
example : check 2 (.seq (.bind 0 .input) (.seq (.fresh 1) (.write 1))) = true := by decide
example : check 2 (.seq (.bind 0 .input) (.loop (.choice (.seq (.fresh 1) (.write 1)) (.alias 1 0)))) = true := by decide
example : check 2 (.seq (.bind 0 .input) (.loop (.seq (.write 1) (.alias 1 0)))) = false := by decide

end Geo.Effects
