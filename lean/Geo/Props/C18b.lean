/-
  C18 (second file) — `SegmentTensor.intersect(SegmentTensor)` in the plane, as modelled in Geo/Shapes.lean over the
  regenerated arithmetic of `SegmentTensor.contains`: the returned point is a common point of both closed segments
  (soundness), every common point of two segments on different lines is returned (completeness), and parallel or
  collinear segments return nothing.
-/
import Geo.Props.C16b
namespace Geo
open Spec
variable {F : Type} [Field F] [LinearOrder F] [IsStrictOrderedRing F]

/-- the membership test of a segment does not see the homogeneous factor of the query -/
theorem segContains_smul (a b l X : Nat → F) (s : F) (hs : s ≠ 0) (Y : Nat → F) (hY : ∀ k, k < 3 → Y k = s * X k) :
    segContains a b l Y = segContains a b l X := by
  have hs2 : 0 < s * s := mul_self_pos.mpr hs
  have e0 : dot3 l Y = s * dot3 l X := by
    simp only [dot3, hY 0 (by omega), hY 1 (by omega), hY 2 (by omega)]; ring
  have e1 : segX a b Y = (s * s) * segX a b X := by
    simp only [segX, Gen.seg_x, Gen.seg_z, Gen.seg_w, Gen.seg_cd, Gen.seg_bd, dot3, hY 0 (by omega), hY 1 (by omega), hY 2 (by omega)]
    ring
  have e2 : segY a b Y = (s * s) * segY a b X := by
    simp only [segY, Gen.seg_y, Gen.seg_w, Gen.seg_cd, Gen.seg_bd, dot3, hY 0 (by omega), hY 1 (by omega), hY 2 (by omega)]
    ring
  rw [segContains_eq, segContains_eq, e0, e1, e2, Bool.eq_iff_iff]
  simp only [Bool.and_eq_true, Bool.or_eq_true, Bool.not_eq_true', decide_eq_false_iff_not, decide_eq_true_eq,
    mul_eq_zero, hs, hs2.ne', false_or]
  constructor
  · rintro ⟨⟨⟨h0, h1⟩, h2⟩, h3⟩
    exact ⟨⟨⟨h0, h1⟩, nonneg_of_mul_nonneg_right h2 hs2⟩, le_of_mul_le_mul_left h3 hs2⟩
  · rintro ⟨⟨⟨h0, h1⟩, h2⟩, h3⟩
    exact ⟨⟨⟨h0, h1⟩, mul_nonneg hs2.le h2⟩, mul_le_mul_of_nonneg_left h3 hs2.le⟩

/-- `(u × v) × w = v (u·w) − u (v·w)` -/
theorem cross_cross (u v w : Nat → F) (k : Nat) (hk : k < 3) :
    cross (cross u v) w k = (-(dot3 v w)) * u k + (dot3 u w) * v k := by
  match k with
  | 0 => simp [cross, dot3]; ring
  | 1 => simp [cross, dot3]; ring
  | 2 => simp [cross, dot3]; ring
  | (k+3) => omega

section
variable (a b c d : F × F)

/-- the meet of the supporting lines lies on the first segment iff it is finite and its parameter is in `[0, 1]` -/
theorem meet_on_first (hab : a ≠ b) :
    segContains (homP a) (homP b) (cross (homP a) (homP b)) (cross (cross (homP a) (homP b)) (cross (homP c) (homP d)))
      = decide (cross (cross (homP a) (homP b)) (cross (homP c) (homP d)) 2 ≠ 0
          ∧ 0 ≤ dot3 (homP a) (cross (homP c) (homP d)) * cross (cross (homP a) (homP b)) (cross (homP c) (homP d)) 2
          ∧ dot3 (homP a) (cross (homP c) (homP d)) * cross (cross (homP a) (homP b)) (cross (homP c) (homP d)) 2
              ≤ cross (cross (homP a) (homP b)) (cross (homP c) (homP d)) 2
                * cross (cross (homP a) (homP b)) (cross (homP c) (homP d)) 2) := by
  have hab' : ¬ (a.1 = b.1 ∧ a.2 = b.2) := fun h => hab (Prod.ext h.1 h.2)
  have h := segContains_comb (homP a) (homP b) (cross (homP a) (homP b)) (-(dot3 (homP b) (cross (homP c) (homP d))))
    (dot3 (homP a) (cross (homP c) (homP d))) (gramDet_hom_pos a.1 a.2 b.1 b.2 hab').ne' _
    (fun k hk => cross_cross _ _ _ k hk) (dot_cross_left _ _ _)
  have e : -(dot3 (homP b) (cross (homP c) (homP d))) + dot3 (homP a) (cross (homP c) (homP d))
      = cross (cross (homP a) (homP b)) (cross (homP c) (homP d)) 2 := by
    rw [cross_cross _ _ _ 2 (by omega)]; simp [homP, hom]
  rw [h, e]

/-- parallel supporting lines (meet at infinity) and collinear segments (meet = 0): nothing is returned -/
theorem T18_parallel_none (hab : a ≠ b)
    (h : cross (cross (homP a) (homP b)) (cross (homP c) (homP d)) 2 = 0) :
    segIntersect (homP a) (homP b) (homP c) (homP d) = none := by
  simp only [segIntersect]
  rw [meet_on_first a b c d hab]
  simp [h]

/-- dehomogenised coordinates of a finite point -/
def aff (X : Nat → F) : F × F := (X 0 / X 2, X 1 / X 2)

theorem segContains_finite (hab : a ≠ b) (X : Nat → F) (hz : X 2 ≠ 0) :
    segContains (homP a) (homP b) (cross (homP a) (homP b)) X
      = Spec.onSegment (lst a) (lst b) (lst (aff X)) := by
  have hab' : ¬ (a.1 = b.1 ∧ a.2 = b.2) := fun h => hab (Prod.ext h.1 h.2)
  have hY : ∀ k, k < 3 → X k = X 2 * homP (aff X) k := by
    intro k hk
    match k with
    | 0 => simp only [homP, hom, aff, v3_0]; field_simp
    | 1 => simp only [homP, hom, aff, v3_1]; field_simp
    | 2 => simp [homP, hom]
    | (k+3) => omega
  rw [segContains_smul _ _ _ (homP (aff X)) (X 2) hz X hY, Bool.eq_iff_iff]
  exact (T16_1_segment_iff a.1 a.2 b.1 b.2 (aff X).1 (aff X).2 hab').trans
    (onSegment_iff a.1 a.2 b.1 b.2 (aff X).1 (aff X).2 hab').symm

/-- **T18 (soundness)** the point returned for two planar segments is finite and lies on both closed segments -/
theorem T18_segIntersect_sound (hab : a ≠ b) (hcd : c ≠ d) (X : Nat → F)
    (h : segIntersect (homP a) (homP b) (homP c) (homP d) = some X) :
    X 2 ≠ 0 ∧ Spec.onSegment (lst a) (lst b) (lst (aff X)) = true ∧ Spec.onSegment (lst c) (lst d) (lst (aff X)) = true := by
  simp only [segIntersect] at h
  split at h
  · rename_i hc
    simp only [Option.some.injEq] at h
    subst h
    simp only [Bool.and_eq_true] at hc
    obtain ⟨⟨_, h1⟩, h2⟩ := hc
    have hz : cross (cross (homP a) (homP b)) (cross (homP c) (homP d)) 2 ≠ 0 := by
      rw [meet_on_first a b c d hab] at h1
      simp only [decide_eq_true_eq] at h1
      exact h1.1
    refine ⟨hz, ?_, ?_⟩
    · rw [← segContains_finite a b hab _ hz]; exact h1
    · rw [← segContains_finite c d hcd _ hz]; exact h2
  · exact absurd h (by simp)

/-- **T18 (completeness)** a common finite point of two segments whose supporting lines differ is the returned point -/
theorem T18_segIntersect_complete (hab : a ≠ b) (hcd : c ≠ d) (p : F × F)
    (h1 : Spec.onSegment (lst a) (lst b) (lst p) = true) (h2 : Spec.onSegment (lst c) (lst d) (lst p) = true)
    (hX : ¬ (cross (cross (homP a) (homP b)) (cross (homP c) (homP d)) 0 = 0
           ∧ cross (cross (homP a) (homP b)) (cross (homP c) (homP d)) 1 = 0
           ∧ cross (cross (homP a) (homP b)) (cross (homP c) (homP d)) 2 = 0)) :
    ∃ X, segIntersect (homP a) (homP b) (homP c) (homP d) = some X ∧ X 2 ≠ 0 ∧ aff X = p := by
  have hab' : ¬ (a.1 = b.1 ∧ a.2 = b.2) := fun h => hab (Prod.ext h.1 h.2)
  have hcd' : ¬ (c.1 = d.1 ∧ c.2 = d.2) := fun h => hcd (Prod.ext h.1 h.2)
  set X := cross (cross (homP a) (homP b)) (cross (homP c) (homP d)) with hXdef
  -- p lies on both lines
  have o1 : dot3 (cross (homP a) (homP b)) (homP p) = 0 := by
    rw [show homP p = hom p.1 p.2 from rfl, show homP a = hom a.1 a.2 from rfl, show homP b = hom b.1 b.2 from rfl, dot_line_point]
    exact ((onSegment_iff a.1 a.2 b.1 b.2 p.1 p.2 hab').mp h1).1
  have o2 : dot3 (cross (homP c) (homP d)) (homP p) = 0 := by
    rw [show homP p = hom p.1 p.2 from rfl, show homP c = hom c.1 c.2 from rfl, show homP d = hom d.1 d.2 from rfl, dot_line_point]
    exact ((onSegment_iff c.1 c.2 d.1 d.2 p.1 p.2 hcd').mp h2).1
  -- hence X × p = 0, i.e. X = X₂ · p
  have c0 := cross_cross (cross (homP a) (homP b)) (cross (homP c) (homP d)) (homP p) 0 (by omega)
  have c1 := cross_cross (cross (homP a) (homP b)) (cross (homP c) (homP d)) (homP p) 1 (by omega)
  rw [o1, o2] at c0 c1
  simp only [neg_zero, zero_mul, add_zero] at c0 c1
  have k1 : X 1 = X 2 * p.2 := by
    have : X 1 * 1 - X 2 * p.2 = 0 := c0
    linear_combination this
  have k0 : X 0 = X 2 * p.1 := by
    have : X 2 * p.1 - X 0 * 1 = 0 := c1
    linear_combination -this
  have hz : X 2 ≠ 0 := by
    intro h0
    apply hX
    rw [k0, k1, h0]; simp
  have haff : aff X = p := by
    simp only [aff, k0, k1]
    ext <;> field_simp
  refine ⟨X, ?_, hz, haff⟩
  simp only [segIntersect]
  rw [if_pos]
  simp only [Bool.and_eq_true, Bool.not_eq_true', decide_eq_false_iff_not]
  refine ⟨⟨hX, ?_⟩, ?_⟩
  · rw [segContains_finite a b hab X hz, haff]; exact h1
  · rw [segContains_finite c d hcd X hz, haff]; exact h2

/-- non-vacuity: two crossing segments of the integer lattice (model evaluated at `Int`), two parallel ones, two collinear ones,
    and a pair whose lines cross outside one of the segments -/
example :
    let hv : Int × Int → Nat → Int := fun v => v3 v.1 v.2 1
    let show' : Option (Nat → Int) → Option (Int × Int × Int) := fun o => o.map fun x => (x 0, x 1, x 2)
    (show' (segIntersect (hv (0,0)) (hv (2,2)) (hv (0,2)) (hv (2,0))),
     show' (segIntersect (hv (0,0)) (hv (2,0)) (hv (0,1)) (hv (2,1))),
     show' (segIntersect (hv (0,0)) (hv (2,0)) (hv (1,0)) (hv (3,0))),
     show' (segIntersect (hv (0,0)) (hv (1,1)) (hv (0,4)) (hv (4,0))))
      = (some (-8, -8, -8), none, none, none) := by
  decide +kernel
end
/-! ## polygon ∩ line in the plane: every returned point is a point of the line on an edge -/

section
variable {F : Type} [Field F] [LinearOrder F] [IsStrictOrderedRing F]

/-- **T18 (polygon × line, soundness)**: every point that the model of `Polygon.intersect(line)` returns (before `distinct`) is a
    non-zero point of the line `l` that the membership test of one of the edges accepts — for every vertex cycle -/
theorem T18_polyIntersectLine_sound (vs : List (Nat → F)) (l X : Nat → F) (hX : X ∈ polyIntersectLine vs l) :
    dot 3 l X = 0 ∧ ¬ (X 0 = 0 ∧ X 1 = 0 ∧ X 2 = 0) ∧
    ∃ e ∈ polyEdges vs, segContains e.1 e.2 (cross e.1 e.2) X = true := by
  simp only [polyIntersectLine, List.mem_filterMap] at hX
  obtain ⟨e, he, hs⟩ := hX
  simp only [segIntersectLine] at hs
  split at hs
  · rename_i hc
    simp only [Option.some.injEq] at hs
    subst hs
    simp only [Bool.and_eq_true, Bool.not_eq_true', decide_eq_false_iff_not] at hc
    refine ⟨?_, hc.1, e, he, hc.2⟩
    simp [dot, sumRange, cross]; ring
  · cases hs

/-- … and a line that passes through no edge-carrying position returns nothing for an empty vertex list (degenerate input) -/
theorem T18_polyIntersectLine_nil (l : Nat → F) : polyIntersectLine ([] : List (Nat → F)) l = [] := by
  simp [polyIntersectLine, polyEdges]

end

end Geo
