import Geo.Spec.Shapes
namespace Geo
theorem C18_placeholder : (1 : Nat) = 1 := rfl
end Geo
