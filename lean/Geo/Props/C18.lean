/-
  C18 — polytope intersections return exactly the common points.
  Soundness and completeness of "meet of the supporting subspaces, filtered by the membership tests":
  membership is C16; here: a common point of two distinct coplanar lines IS their meet (so nothing is missed), and
  parallel / identical supporting lines give a point at infinity / the zero vector (so nothing spurious is produced).
-/
import Geo.Props.C01
import Geo.Spec.Shapes
namespace Geo
open Spec

variable {K : Type} [CommRing K]

/-- completeness in the plane: a point on both lines l and m is proportional to `l × m` (all 2×2 minors vanish) -/
theorem T18_common_point_is_meet (l m x : Nat → K) (hl : dot 3 x l = 0) (hm : dot 3 x m = 0) :
    ∀ i j, i < 3 → j < 3 → x i * cross l m j - x j * cross l m i = 0 :=
  T01_8_unique_P2 l m x hl hm

/-- soundness: the meet lies on both supporting lines -/
theorem T18_meet_on_both (l m : Nat → K) : dot 3 l (cross l m) = 0 ∧ dot 3 m (cross l m) = 0 := by
  simp [dot, sumRange, cross]; constructor <;> ring

/-- parallel supporting lines `(a,b,c)`, `(λa,λb,c')` meet in a point at infinity (last coordinate 0): it is filtered
    out by the closed-segment test unless an endpoint is at infinity (rays) -/
theorem T18_parallel_meet_at_infinity (a b c c' lam : K) :
    cross (fun k => [a, b, c].getD k 0) (fun k => [lam * a, lam * b, c'].getD k 0) 2 = 0 := by
  simp [cross]; ring

/-- identical supporting lines (collinear segments) give the zero vector: `~result.is_zero()` drops it -/
theorem T18_collinear_gives_zero (l : Nat → K) (lam : K) : ∀ i, i < 3 → cross l (fun k => lam * l k) i = 0 := by
  intro i hi; interval_cases i <;> simp [cross] <;> ring

end Geo
