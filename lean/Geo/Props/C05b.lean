/-
  C05 (part b) — T05.5: the label bookkeeping of `calculate`.

  `calculate` numbers all index positions of all nodes consecutively, then walks through the contraction list and gives the
  later of the two contracted positions the number of the earlier one (`indices[max(i, j)] = min(i, j)`); the label lists that
  are handed to `numpy.einsum` are slices of that list.  `evalEinsum` (the meaning of an einsum call) sums over the labels
  that do not occur in the output and multiplies the entries — so the diagram is "the Einstein sum it denotes" exactly when
    (L) two positions carry the same label iff they are the same position or the two ends of one contraction.
  This file proves (L) for every contraction list whose end points are pairwise distinct — which is what the edge
  bookkeeping guarantees (each index of a node is popped at most once: `T05_5_positions_nodup`).
-/
import Geo.Diagram
import Mathlib.Tactic.Ring
import Mathlib.Data.List.Nodup
namespace Geo

/-- the relabelling loop on global positions `(a, b)` -/
def relabelG (cs : List (Nat × Nat)) (ind : List Nat) : List Nat :=
  cs.foldl (fun ind c => ind.set (max c.1 c.2) (min c.1 c.2)) ind

/-- global end points of the contractions -/
def globalEnds (pos : List Nat) (cs : List (Nat × Nat × Nat × Nat)) : List (Nat × Nat) :=
  cs.map fun c => (pos.getD c.1 0 + c.2.2.1, pos.getD c.2.1 0 + c.2.2.2)

theorem relabel_eq_relabelG (pos : List Nat) (cs : List (Nat × Nat × Nat × Nat)) (n : Nat) :
    relabel pos cs n = relabelG (globalEnds pos cs) (List.range n) := by
  unfold relabel relabelG globalEnds
  rw [List.foldl_map]

/-- the last write into position `p`, if any -/
def lastWrite : List (Nat × Nat) → Nat → Option Nat
  | [], _ => none
  | c :: cs, p => match lastWrite cs p with
    | some v => some v
    | none => if max c.1 c.2 = p then some (min c.1 c.2) else none

theorem relabelG_length (cs : List (Nat × Nat)) (ind : List Nat) : (relabelG cs ind).length = ind.length := by
  induction cs generalizing ind with
  | nil => rfl
  | cons c cs ih => simp only [relabelG, List.foldl_cons] at *; rw [ih]; simp

/-- what the loop leaves at position `p` -/
theorem relabelG_get (cs : List (Nat × Nat)) (ind : List Nat) (p : Nat) (hp : p < ind.length) :
    (relabelG cs ind).getD p 0 = (lastWrite cs p).getD (ind.getD p 0) := by
  induction cs generalizing ind with
  | nil => simp [relabelG, lastWrite]
  | cons c cs ih =>
    simp only [relabelG, List.foldl_cons]
    have := ih (ind.set (max c.1 c.2) (min c.1 c.2)) (by simpa using hp)
    simp only [relabelG] at this
    rw [this]
    simp only [lastWrite]
    cases h : lastWrite cs p with
    | some v => simp
    | none =>
      simp only [Option.getD_none]
      by_cases hm : max c.1 c.2 = p
      · subst hm
        simp [List.getD_eq_getElem?_getD, List.getElem?_set, hp]
      · simp [List.getD_eq_getElem?_getD, List.getElem?_set, hm]

/-- all end points of the contractions, in order -/
def endsList (cs : List (Nat × Nat)) : List Nat := cs.flatMap fun c => [c.1, c.2]

/-- with pairwise distinct end points, the only write into `p` comes from the contraction that has `p` as its larger end -/
theorem lastWrite_of_nodup (cs : List (Nat × Nat)) (h : (endsList cs).Nodup) (p : Nat) :
    lastWrite cs p = (cs.find? fun c => max c.1 c.2 = p).map fun c => min c.1 c.2 := by
  induction cs with
  | nil => rfl
  | cons c cs ih =>
    have hnd : (endsList cs).Nodup := by
      simp only [endsList, List.flatMap_cons] at h
      exact (List.nodup_append.mp h).2.1
    simp only [lastWrite, ih hnd]
    by_cases hm : max c.1 c.2 = p
    · -- then no later contraction has p as an end point
      have hnot : cs.find? (fun c => max c.1 c.2 = p) = none := by
        rw [List.find?_eq_none]
        intro c' hc' hm'
        simp only [decide_eq_true_eq] at hm'
        simp only [endsList, List.flatMap_cons] at h
        have hdisj := (List.nodup_append.mp h).2.2
        have hp_in_c : p ∈ [c.1, c.2] := by
          rcases Nat.le_total c.1 c.2 with hle | hle
          · simp [Nat.max_eq_right hle] at hm; simp [hm]
          · simp [Nat.max_eq_left hle] at hm; simp [hm]
        have hp_in_cs : p ∈ cs.flatMap (fun c => [c.1, c.2]) := by
          rw [List.mem_flatMap]
          refine ⟨c', hc', ?_⟩
          rcases Nat.le_total c'.1 c'.2 with hle | hle
          · simp [Nat.max_eq_right hle] at hm'; simp [hm']
          · simp [Nat.max_eq_left hle] at hm'; simp [hm']
        exact hdisj p hp_in_c p hp_in_cs rfl
      simp [hnot, hm, List.find?_cons]
    · cases hf : cs.find? (fun c => max c.1 c.2 = p) with
      | none => simp [hm, List.find?_cons, hf]
      | some c' => simp [hm, List.find?_cons, hf]

/-- **T05.5 (labels)**: after the relabelling loop over contractions with pairwise distinct end points, position `p`
    carries the smaller end of its contraction if it is the larger end of one, and its own number otherwise -/
theorem T05_5_label (cs : List (Nat × Nat)) (n : Nat) (h : (endsList cs).Nodup) (p : Nat) (hp : p < n) :
    (relabelG cs (List.range n)).getD p 0
      = ((cs.find? fun c => max c.1 c.2 = p).map fun c => min c.1 c.2).getD p := by
  rw [relabelG_get cs (List.range n) p (by simpa using hp), lastWrite_of_nodup cs h]
  simp [List.getD_eq_getElem?_getD, hp]

/-- **T05.5 (Einstein convention)**: the two ends of every contraction carry the same label -/
theorem T05_5_contracted_equal (cs : List (Nat × Nat)) (n : Nat) (h : (endsList cs).Nodup)
    (c : Nat × Nat) (hc : c ∈ cs) (h1 : c.1 < n) (h2 : c.2 < n) :
    (relabelG cs (List.range n)).getD c.1 0 = (relabelG cs (List.range n)).getD c.2 0 := by
  -- both are min c.1 c.2
  have key : ∀ p, p < n → (p = c.1 ∨ p = c.2) → (relabelG cs (List.range n)).getD p 0 = min c.1 c.2 := by
    intro p hp hpc
    rw [T05_5_label cs n h p hp]
    have hne : c.1 ≠ c.2 := by
      intro heq
      have : [c.1, c.2].Nodup := by
        have := List.nodup_flatMap.mp h
        exact this.1 c hc
      simp [heq] at this
    by_cases hmax : max c.1 c.2 = p
    · -- p is the larger end: the find? returns c itself (end points are distinct across contractions)
      have : cs.find? (fun c' => max c'.1 c'.2 = p) = some c := by
        rw [List.find?_eq_some_iff_append]
        refine ⟨by simpa using hmax, ?_⟩
        obtain ⟨l1, l2, rfl⟩ := List.append_of_mem hc
        refine ⟨l1, l2, rfl, ?_⟩
        intro c' hc'
        simp only [Bool.not_eq_true', decide_eq_false_iff_not]
        intro hm'
        -- c' in l1 has p as an end point, and so has c: contradiction with Nodup
        simp only [endsList, List.flatMap_append, List.flatMap_cons] at h
        have hd := (List.nodup_append.mp h).2.2
        have hp1 : p ∈ l1.flatMap (fun c => [c.1, c.2]) := by
          rw [List.mem_flatMap]; refine ⟨c', hc', ?_⟩
          rcases Nat.le_total c'.1 c'.2 with hle | hle
          · simp [Nat.max_eq_right hle] at hm'; simp [hm']
          · simp [Nat.max_eq_left hle] at hm'; simp [hm']
        have hp2 : p ∈ [c.1, c.2] ++ l2.flatMap (fun c => [c.1, c.2]) := by
          rcases hpc with rfl | rfl <;> simp
        exact hd p hp1 p hp2 rfl
      simp [this]
    · -- p is the smaller end: nothing is written there
      have hmin : p = min c.1 c.2 := by
        rcases hpc with rfl | rfl
        · rcases Nat.lt_or_gt_of_ne hne with hlt | hgt
          · exact (Nat.min_eq_left (Nat.le_of_lt hlt)).symm
          · exact absurd (Nat.max_eq_left (Nat.le_of_lt hgt)) hmax
        · rcases Nat.lt_or_gt_of_ne hne with hlt | hgt
          · exact absurd (Nat.max_eq_right (Nat.le_of_lt hlt)) hmax
          · exact (Nat.min_eq_right (Nat.le_of_lt hgt)).symm
      have : cs.find? (fun c' => max c'.1 c'.2 = p) = none := by
        rw [List.find?_eq_none]
        intro c' hc' hm'
        simp only [decide_eq_true_eq] at hm'
        by_cases hcc : c' = c
        · subst hcc; exact hmax hm'
        · -- p would be an end point of two different contractions
          have hp_c : p ∈ [c.1, c.2] := by rcases hpc with rfl | rfl <;> simp
          have hp_c' : p ∈ [c'.1, c'.2] := by
            rcases Nat.le_total c'.1 c'.2 with hle | hle
            · simp [Nat.max_eq_right hle] at hm'; simp [hm']
            · simp [Nat.max_eq_left hle] at hm'; simp [hm']
          have hpw := (List.nodup_flatMap.mp h).2
          rcases List.mem_iff_getElem.mp hc with ⟨i, hi, rfl⟩
          rcases List.mem_iff_getElem.mp hc' with ⟨j, hj, rfl⟩
          have hij : i ≠ j := fun e => hcc (by subst e; rfl)
          rcases Nat.lt_or_gt_of_ne hij with hlt | hgt
          · have := List.pairwise_iff_getElem.mp hpw i j hi hj hlt
            exact this hp_c hp_c'
          · have := List.pairwise_iff_getElem.mp hpw j i hj hi hgt
            exact this hp_c' hp_c
      rw [this]; simpa using hmin
  rw [key c.1 h1 (Or.inl rfl), key c.2 h2 (Or.inr rfl)]

/-- … and a position that is no end point of any contraction keeps a label of its own: its own number, which no other
    position carries (labels are either own numbers or smaller ends, and it is neither an end nor equal to another) -/
theorem T05_5_free_label (cs : List (Nat × Nat)) (n : Nat) (h : (endsList cs).Nodup)
    (p : Nat) (hp : p < n) (hfree : p ∉ endsList cs) :
    (relabelG cs (List.range n)).getD p 0 = p ∧
    ∀ q, q < n → q ≠ p → (relabelG cs (List.range n)).getD q 0 ≠ p := by
  have hnone : ∀ q, q ∉ endsList cs → cs.find? (fun c => max c.1 c.2 = q) = none := by
    intro q hq
    rw [List.find?_eq_none]
    intro c hc hm
    simp only [decide_eq_true_eq] at hm
    apply hq
    simp only [endsList, List.mem_flatMap]
    refine ⟨c, hc, ?_⟩
    rcases Nat.le_total c.1 c.2 with hle | hle
    · simp [Nat.max_eq_right hle] at hm; simp [hm]
    · simp [Nat.max_eq_left hle] at hm; simp [hm]
  refine ⟨by rw [T05_5_label cs n h p hp, hnone p hfree]; rfl, ?_⟩
  intro q hq hqp
  rw [T05_5_label cs n h q hq]
  cases hf : cs.find? (fun c => max c.1 c.2 = q) with
  | none => simpa using hqp
  | some c =>
    simp only [Option.map_some, Option.getD_some]
    intro hmin
    apply hfree
    have hc := List.mem_of_find?_eq_some hf
    simp only [endsList, List.mem_flatMap]
    refine ⟨c, hc, ?_⟩
    rcases Nat.le_total c.1 c.2 with hle | hle
    · simp [Nat.min_eq_left hle] at hmin; simp [hmin]
    · simp [Nat.min_eq_right hle] at hmin; simp [hmin]

/-- non-vacuity: the 2-D cross product diagram `ε^{ijk} p_i q_j` (positions: p = [0], ε = [1,2,3], q = [4]) -/
example : relabelG [(0, 1), (4, 2)] (List.range 5) = [0, 0, 2, 3, 2] ∧ (endsList [(0, 1), (4, 2)]).Nodup := by decide

end Geo

/-! ## the end points of the contractions of every reachable diagram are pairwise distinct

  Bookkeeping invariant: the global positions of all *used* indices (contraction ends) together with all still *unused*
  indices are pairwise distinct and below `indexCount`.  `add_node` appends fresh positions, `add_edge` moves two positions
  from "unused" to "used" (or drops them when it raises after the pops). -/
namespace Geo

def Node.WF (n : Node) : Prop := (n.cov ++ n.con).Nodup ∧ ∀ i ∈ n.cov ++ n.con, i < n.rank

def usedEnds (pos : List Nat) (cs : List (Nat × Nat × Nat × Nat)) : List Nat := endsList (globalEnds pos cs)

/-- global positions of the unused indices of node k -/
def unusedAt (u : List (List Nat × List Nat)) (pos : List Nat) (k : Nat) : List Nat :=
  ((u.getD k ([], [])).1 ++ (u.getD k ([], [])).2).map (pos.getD k 0 + ·)

def unusedG (u : List (List Nat × List Nat)) (pos : List Nat) (n : Nat) : List Nat :=
  (List.range n).flatMap (unusedAt u pos)

def Diagram.slots (d : Diagram) : List Nat :=
  usedEnds d.positions d.contractions ++ unusedG d.unused d.positions d.nodes.length

structure Diagram.Inv2 (d : Diagram) : Prop where
  lenU : d.unused.length = d.nodes.length
  lenP : d.positions.length = d.nodes.length
  nodup : d.slots.Nodup
  bound : ∀ p ∈ d.slots, p < d.indexCount
  csBound : ∀ c ∈ d.contractions, c.1 < d.nodes.length ∧ c.2.1 < d.nodes.length

theorem inv2_empty : Diagram.empty.Inv2 := by
  constructor <;> simp [Diagram.empty, Diagram.slots, usedEnds, globalEnds, endsList, unusedG]

private theorem getD_append_lt' {α : Type} (l l' : List α) (d : α) (k : Nat) (h : k < l.length) :
    (l ++ l').getD k d = l.getD k d := by
  simp [List.getD_eq_getElem?_getD, List.getElem?_append_left h]

private theorem getD_append_len' {α : Type} (l : List α) (x d : α) : (l ++ [x]).getD l.length d = x := by
  simp [List.getD_eq_getElem?_getD]

private theorem globalEnds_append_pos (pos : List Nat) (x : Nat) (cs : List (Nat × Nat × Nat × Nat))
    (h : ∀ c ∈ cs, c.1 < pos.length ∧ c.2.1 < pos.length) :
    globalEnds (pos ++ [x]) cs = globalEnds pos cs := by
  unfold globalEnds
  apply List.map_congr_left
  intro c hc
  rw [getD_append_lt' _ _ _ _ (h c hc).1, getD_append_lt' _ _ _ _ (h c hc).2]

theorem inv2_addNode (d : Diagram) (n : Node) (hn : n.WF) (h : d.Inv2) : (d.addNode n).Inv2 := by
  obtain ⟨hU, hP, hnd, hb, hcs⟩ := h
  have hslots : (d.addNode n).slots = d.slots ++ (n.cov ++ n.con).map (d.indexCount + ·) := by
    simp only [Diagram.slots, Diagram.addNode, usedEnds, List.length_append, List.length_singleton]
    rw [globalEnds_append_pos _ _ _ (by intro c hc; rw [hP]; exact hcs c hc)]
    simp only [unusedG, List.range_succ, List.flatMap_append, List.flatMap_cons, List.flatMap_nil, List.append_nil,
      List.append_assoc]
    congr 1
    congr 1
    · apply List.flatMap_congr
      intro k hk
      have hk' : k < d.nodes.length := by simpa using hk
      simp only [unusedAt]
      rw [getD_append_lt' _ _ _ _ (by omega), getD_append_lt' _ _ _ _ (by omega)]
    · simp only [unusedAt]
      rw [← hU, getD_append_len', hU, ← hP, getD_append_len']
  constructor
  · simp [Diagram.addNode, hU]
  · simp [Diagram.addNode, hP]
  · rw [hslots]
    rw [List.nodup_append]
    refine ⟨hnd, ?_, ?_⟩
    · exact (List.nodup_map_iff (fun a b hab => by simpa using hab)).mpr hn.1
    · intro a ha b hb' hab
      have h1 := hb a ha
      simp only [List.mem_map] at hb'
      obtain ⟨i, _, rfl⟩ := hb'
      omega
  · intro p hp
    rw [hslots, List.mem_append] at hp
    simp only [Diagram.addNode]
    rcases hp with hp | hp
    · have := hb p hp; omega
    · simp only [List.mem_map] at hp
      obtain ⟨i, hi, rfl⟩ := hp
      have := hn.2 i hi
      omega
  · intro c hc
    simp only [Diagram.addNode, List.length_append, List.length_singleton] at hc ⊢
    have := hcs c hc
    omega

theorem inv2_locate (d : Diagram) (s t : Node) (hs : s.WF) (ht : t.WF) (h : d.Inv2) : (d.locate s t).1.Inv2 := by
  unfold Diagram.locate
  generalize findLoop s.id t.id d.nodes 0 none none = st
  rcases st with ⟨a, b⟩
  cases a <;> cases b <;> by_cases hl : t.id = s.id <;> simp [hl] <;>
    first
    | exact h
    | exact inv2_addNode _ _ hs h
    | exact inv2_addNode _ _ ht h
    | exact inv2_addNode _ _ ht (inv2_addNode _ _ hs h)


private theorem getD_set' {α : Type} (l : List α) (i k : Nat) (v d : α) :
    (l.set i v).getD k d = if i = k ∧ k < l.length then v else l.getD k d := by
  simp only [List.getD_eq_getElem?_getD, List.getElem?_set]
  by_cases h : i = k
  · subst h
    by_cases h2 : i < l.length <;> simp [h2]
  · simp [h]

theorem flatMap_range_perm (n k0 : Nat) (g g' : Nat → List Nat) (a : Nat) (hk : k0 < n)
    (hperm : (g k0).Perm (a :: g' k0)) (heq : ∀ k, k ≠ k0 → g k = g' k) :
    ((List.range n).flatMap g).Perm (a :: (List.range n).flatMap g') := by
  induction n with
  | zero => omega
  | succ n ih =>
    simp only [List.range_succ, List.flatMap_append, List.flatMap_cons, List.flatMap_nil, List.append_nil]
    by_cases hkn : k0 = n
    · subst hkn
      have : (List.range k0).flatMap g = (List.range k0).flatMap g' :=
        List.flatMap_congr (fun k hk' => heq k (by simp at hk'; omega))
      rw [this]
      exact (List.Perm.append_left _ hperm).trans List.perm_middle
    · have := ih (by omega)
      rw [heq n (Ne.symm hkn)]
      exact List.Perm.append_right _ this

/-- popping the first unused covariant index of node `si` and the first unused contravariant index of node `ti` removes
    exactly their two global positions from the unused positions -/
theorem unusedG_pop (u : List (List Nat × List Nat)) (pos : List Nat) (n si ti i j : Nat) (rs rt : List Nat)
    (hlen : u.length = n)
    (h1 : (u.getD si ([], [])).1 = i :: rs) (h2 : (u.getD ti ([], [])).2 = j :: rt) :
    (unusedG u pos n).Perm
      ((pos.getD si 0 + i) :: (pos.getD ti 0 + j) :: unusedG (popUnused u si ti) pos n) := by
  have hsi : si < u.length := by
    by_contra hc
    have : u.getD si ([], []) = ([], []) := by
      simp [List.getD_eq_getElem?_getD, List.getElem?_eq_none (Nat.le_of_not_lt hc)]
    rw [this] at h1; simp at h1
  have hti : ti < u.length := by
    by_contra hc
    have : u.getD ti ([], []) = ([], []) := by
      simp [List.getD_eq_getElem?_getD, List.getElem?_eq_none (Nat.le_of_not_lt hc)]
    rw [this] at h2; simp at h2
  -- first pop
  let u1 := u.set si ((u.getD si ([], [])).1.tail, (u.getD si ([], [])).2)
  have hu1len : u1.length = u.length := by simp [u1]
  have hp1 : (unusedG u pos n).Perm ((pos.getD si 0 + i) :: unusedG u1 pos n) := by
    apply flatMap_range_perm n si _ _ _ (by omega)
    · simp only [unusedAt, u1, getD_set', hsi, and_self, if_true, h1, List.tail_cons, List.cons_append, List.map_cons]
      exact List.Perm.refl _
    · intro k hk
      simp only [unusedAt, u1, getD_set']
      simp [Ne.symm hk]
  -- the contravariant list of node ti is untouched by the first pop
  have h2' : (u1.getD ti ([], [])).2 = j :: rt := by
    simp only [u1, getD_set']
    by_cases hst : si = ti
    · subst hst; rw [if_pos ⟨rfl, hsi⟩]; exact h2
    · rw [if_neg (fun hh => hst hh.1)]; exact h2
  have hp2 : (unusedG u1 pos n).Perm
      ((pos.getD ti 0 + j) :: unusedG (u1.set ti ((u1.getD ti ([], [])).1, (u1.getD ti ([], [])).2.tail)) pos n) := by
    apply flatMap_range_perm n ti _ _ _ (by omega)
    · simp only [unusedAt, getD_set', hu1len, hti, and_self, if_true, h2', List.tail_cons, List.map_append, List.map_cons]
      exact List.perm_middle
    · intro k hk
      simp only [unusedAt, getD_set']
      simp [Ne.symm hk]
  have : popUnused u si ti = u1.set ti ((u1.getD ti ([], [])).1, (u1.getD ti ([], [])).2.tail) := rfl
  rw [this]
  exact hp1.trans (List.Perm.cons _ hp2)

theorem inv2_addEdge' (d : Diagram) (s t : Node) (hs : s.WF) (ht : t.WF) (h : d.Inv2) : (d.addEdge' s t).1.Inv2 := by
  have hl := inv2_locate d s t hs ht h
  unfold Diagram.addEdge'
  generalize d.locate s t = loc at hl ⊢
  obtain ⟨d2, si, ti⟩ := loc
  simp only at hl ⊢
  cases h1 : d2.freeCov si with
  | nil => simpa [h1] using hl
  | cons i rs =>
    cases h2 : d2.freeCon ti with
    | nil => simpa [h1, h2] using hl
    | cons j rt =>
      obtain ⟨hU, hP, hnd, hb, hcs⟩ := hl
      have hperm := unusedG_pop d2.unused d2.positions d2.nodes.length si ti i j rs rt hU h1 h2
      have hsi : si < d2.nodes.length := by
        rw [← hU]; by_contra hc
        have : d2.unused.getD si ([], []) = ([], []) := by
          simp [List.getD_eq_getElem?_getD, List.getElem?_eq_none (Nat.le_of_not_lt hc)]
        simp only [Diagram.freeCov] at h1; rw [this] at h1; simp at h1
      have hti : ti < d2.nodes.length := by
        rw [← hU]; by_contra hc
        have : d2.unused.getD ti ([], []) = ([], []) := by
          simp [List.getD_eq_getElem?_getD, List.getElem?_eq_none (Nat.le_of_not_lt hc)]
        simp only [Diagram.freeCon] at h2; rw [this] at h2; simp at h2
      -- all slots, rearranged
      have hall : d2.slots.Perm (usedEnds d2.positions d2.contractions ++
          (d2.positions.getD si 0 + i) :: (d2.positions.getD ti 0 + j) ::
            unusedG (popUnused d2.unused si ti) d2.positions d2.nodes.length) :=
        List.Perm.append_left _ hperm
      have hnd2 := hall.nodup_iff.mp hnd
      by_cases hd : s.dimAt i = t.dimAt j
      · -- success: the two positions become the ends of the new contraction
        simp only [h1, h2, hd, ne_eq, not_true_eq_false, if_false]
        have hslots : ({ d2 with unused := popUnused d2.unused si ti,
                                 contractions := d2.contractions ++ [(si, ti, i, j)] } : Diagram).slots
            = usedEnds d2.positions d2.contractions ++ (d2.positions.getD si 0 + i) :: (d2.positions.getD ti 0 + j) ::
                unusedG (popUnused d2.unused si ti) d2.positions d2.nodes.length := by
          simp [Diagram.slots, usedEnds, globalEnds, endsList]
        constructor
        · simpa [popUnused] using hU
        · simpa using hP
        · rw [hslots]; exact hnd2
        · intro p hp; rw [hslots] at hp; exact hb p (hall.mem_iff.mpr hp)
        · intro c hc
          simp only [List.mem_append, List.mem_singleton] at hc
          rcases hc with hc | rfl
          · exact hcs c hc
          · exact ⟨hsi, hti⟩
      · -- the dimension test refuses the edge before anything is consumed: the diagram is the located one
        simp only [h1, h2, hd, ne_eq, not_false_eq_true, if_true]
        exact ⟨hU, hP, hnd, hb, hcs⟩

/-- **T05.5 (distinct positions)**: in every diagram reachable by any sequence of `add_node` / `add_edge` calls on
    well-formed nodes (failing edges included), the end points of the contractions are pairwise distinct global positions
    below `indexCount` — the hypothesis of `T05_5_label`, `T05_5_contracted_equal`, `T05_5_free_label` -/
def DOp2WF : (Node ⊕ (Node × Node)) → Prop
  | .inl n => n.WF
  | .inr (s, t) => s.WF ∧ t.WF

def Diagram.step2 (d : Diagram) : (Node ⊕ (Node × Node)) → Diagram
  | .inl n => d.addNode n
  | .inr (s, t) => (d.addEdge' s t).1

theorem T05_5_positions_nodup (ops : List (Node ⊕ (Node × Node))) (hwf : ∀ o ∈ ops, DOp2WF o) :
    let d := ops.foldl Diagram.step2 Diagram.empty
    (endsList (globalEnds d.positions d.contractions)).Nodup ∧
    ∀ p ∈ endsList (globalEnds d.positions d.contractions), p < d.indexCount := by
  have : ∀ (d : Diagram), d.Inv2 → (ops.foldl Diagram.step2 d).Inv2 := by
    induction ops with
    | nil => intro d h; simpa
    | cons op ops ih =>
      intro d h
      simp only [List.foldl_cons]
      apply ih (fun o ho => hwf o (List.mem_cons_of_mem _ ho))
      have hop := hwf op (List.mem_cons_self)
      cases op with
      | inl n => exact inv2_addNode d n hop h
      | inr st => obtain ⟨s, t⟩ := st; exact inv2_addEdge' d s t hop.1 hop.2 h
  have hinv := this _ inv2_empty
  intro d
  refine ⟨(List.nodup_append.mp hinv.nodup).1, fun p hp => hinv.bound p ?_⟩
  simp only [Diagram.slots, usedEnds, List.mem_append]
  exact Or.inl hp

/-- … hence, for every reachable diagram, the label list that `calculate` slices into einsum subscripts identifies exactly
    the two ends of each contraction -/
theorem T05_5_reachable_labels (ops : List (Node ⊕ (Node × Node))) (hwf : ∀ o ∈ ops, DOp2WF o) :
    let d := ops.foldl Diagram.step2 Diagram.empty
    let labels := relabel d.positions d.contractions d.indexCount
    ∀ c ∈ globalEnds d.positions d.contractions, labels.getD c.1 0 = labels.getD c.2 0 := by
  intro d labels c hc
  obtain ⟨hnd, hb⟩ := T05_5_positions_nodup ops hwf
  simp only [labels, relabel_eq_relabelG]
  apply T05_5_contracted_equal _ _ hnd c hc
  · exact hb c.1 (by simp only [endsList, List.mem_flatMap]; exact ⟨c, hc, by simp⟩)
  · exact hb c.2 (by simp only [endsList, List.mem_flatMap]; exact ⟨c, hc, by simp⟩)

/-- non-vacuity: the reachable cross-product diagram has WF nodes and two contractions -/
example : (Node.WF ⟨1, [3], [0], []⟩ ∧ Node.WF ⟨9, [3, 3, 3], [], [0, 1, 2]⟩) := by
  constructor <;> constructor <;> simp [Node.rank]


/-! ## the einsum subscripts are slices of the label list -/

private theorem calc_fold_nofree (xs : List (Node × (List Nat × List Nat) × Nat)) (st : CalcState)
    (h : ∀ x ∈ xs, x.1.nfree = 0) :
    (xs.foldl (fun st x => calcStep st x.1 x.2.1 x.2.2) st).indices = st.indices ∧
    (xs.foldl (fun st x => calcStep st x.1 x.2.1 x.2.2) st).r0 = st.r0 ∧
    (xs.foldl (fun st x => calcStep st x.1 x.2.1 x.2.2) st).ops
      = st.ops ++ xs.map (fun x => (st.indices.drop x.2.2).take x.1.rank) := by
  induction xs generalizing st with
  | nil => simp
  | cons x xs ih =>
    have hx : x.1.nfree = 0 := h x (List.mem_cons_self)
    have hstep : (calcStep st x.1 x.2.1 x.2.2).indices = st.indices ∧ (calcStep st x.1 x.2.1 x.2.2).r0 = st.r0 ∧
        (calcStep st x.1 x.2.1 x.2.2).ops = st.ops ++ [(st.indices.drop x.2.2).take x.1.rank] := by
      simp [calcStep, hx]
    obtain ⟨h1, h2, h3⟩ := ih (calcStep st x.1 x.2.1 x.2.2) (fun y hy => h y (List.mem_cons_of_mem _ hy))
    simp only [List.foldl_cons]
    refine ⟨h1.trans hstep.1, h2.trans hstep.2.1, ?_⟩
    rw [h3, hstep.2.2, hstep.1]
    simp

/-- **T05.5 (subscripts)**: for diagrams of single objects (no collection axes) operand k of the einsum call carries the labels
    `labels[pos k], …, labels[pos k + rank k - 1]`, and no free labels are produced -/
theorem T05_5_operands (d : Diagram) (h : ∀ n ∈ d.nodes, n.nfree = 0) :
    d.spec.operands = (d.nodes.zip (d.unused.zip d.positions)).map
        (fun x => ((relabel d.positions d.contractions d.indexCount).drop x.2.2).take x.1.rank) ∧
    d.spec.nFree = 0 := by
  have := calc_fold_nofree (d.nodes.zip (d.unused.zip d.positions))
    ⟨relabel d.positions d.contractions d.indexCount, [], [], [], []⟩
    (fun x hx => h x.1 (List.of_mem_zip hx).1)
  unfold Diagram.spec
  simp only []
  refine ⟨by rw [this.2.2]; simp, by rw [this.2.1]; rfl⟩


/-! ## collection axes: alignment from the right (the part of `calculate` that `T05_5_operands` leaves out) -/


theorem push_front (offset : Nat) (ks : List Nat) (r0 : List Nat) :
    ks.foldl (fun acc k => (offset + k) :: acc) r0 = (ks.reverse.map (offset + ·)) ++ r0 := by
  induction ks generalizing r0 with
  | nil => simp
  | cons k ks ih => simp [List.foldl_cons, ih]

theorem matched_list (nf L : Nat) :
    ((List.range nf).reverse.take L).zipIdx = (List.range (min L nf)).map fun i => (nf - 1 - i, i) := by
  apply List.ext_getElem
  · simp
  · intro i h1 h2
    simp at h1 h2 ⊢

/-- setting the positions `offset + nf - 1 - i` (i < m) one after the other -/
theorem set_fold (ind : List Nat) (offset nf m : Nat) (v : Nat → Nat) (hm : m ≤ nf) (hlen : offset + nf ≤ ind.length) :
    let res := ((List.range m).map fun i => (nf - 1 - i, i)).foldl (fun acc (kj : Nat × Nat) => acc.set (offset + kj.1) (v kj.2)) ind
    res.length = ind.length ∧
    (∀ j, j < m → res.getD (offset + (nf - 1 - j)) 0 = v j) ∧
    (∀ q, (∀ j, j < m → q ≠ offset + (nf - 1 - j)) → res.getD q 0 = ind.getD q 0) := by
  induction m with
  | zero => simp
  | succ m ih =>
    obtain ⟨h1, h2, h3⟩ := ih (by omega)
    simp only [List.range_succ, List.map_append, List.map_cons, List.map_nil, List.foldl_append, List.foldl_cons, List.foldl_nil]
    refine ⟨by simpa using h1, ?_, ?_⟩
    · intro j hj
      by_cases hjm : j = m
      · subst hjm
        simp only [List.getD_eq_getElem?_getD, List.getElem?_set, if_true]
        rw [if_pos (by rw [h1]; omega)]
        rfl
      · have hlt : j < m := by omega
        have hne : offset + (nf - 1 - m) ≠ offset + (nf - 1 - j) := by omega
        simp only [List.getD_eq_getElem?_getD, List.getElem?_set, hne, if_false] at *
        exact h2 j hlt
    · intro q hq
      have hne : offset + (nf - 1 - m) ≠ q := fun h => hq m (by omega) h.symm
      simp only [List.getD_eq_getElem?_getD, List.getElem?_set, hne, if_false] at *
      exact h3 q (fun j hj => hq j (by omega))


theorem unmatched_list (nf L : Nat) : ((List.range nf).reverse.drop L).reverse = List.range (nf - L) := by
  apply List.ext_getElem
  · simp
  · intro i h1 h2
    simp at h1 h2 ⊢
    omega

/-- **T05.5 (collection axes)**: one step of the per-node loop of `calculate`.  If the free (collection) axes of the node still
    carry their own numbers, then afterwards the j-th free axis from the right carries the j-th free label from the right,
    and the free labels collected so far only grow at the front -/
theorem T05_5_calcStep_align (st : CalcState) (node : Node) (ind : List Nat × List Nat) (offset : Nat)
    (hfree : ∀ k, k < node.nfree → st.indices.getD (offset + k) 0 = offset + k)
    (hlen : offset + node.nfree ≤ st.indices.length) :
    (calcStep st node ind offset).r0
        = (List.range (node.nfree - st.r0.length)).map (offset + ·) ++ st.r0 ∧
    ∀ j, j < node.nfree →
      (calcStep st node ind offset).indices.getD (offset + (node.nfree - 1 - j)) 0
        = (calcStep st node ind offset).r0.getD ((calcStep st node ind offset).r0.length - 1 - j) 0 := by
  have hr0 : (calcStep st node ind offset).r0
      = (List.range (node.nfree - st.r0.length)).map (offset + ·) ++ st.r0 := by
    simp only [calcStep]
    rw [push_front, unmatched_list]
  refine ⟨hr0, ?_⟩
  intro j hj
  rw [hr0]
  have hidx : (calcStep st node ind offset).indices
      = ((List.range (min st.r0.length node.nfree)).map fun i => (node.nfree - 1 - i, i)).foldl
          (fun acc (kj : Nat × Nat) => acc.set (offset + kj.1) (st.r0.getD (st.r0.length - kj.2 - 1) 0)) st.indices := by
    simp only [calcStep]
    rw [matched_list]
  rw [hidx]
  obtain ⟨-, h2, h3⟩ := set_fold st.indices offset node.nfree (min st.r0.length node.nfree)
    (fun i => st.r0.getD (st.r0.length - i - 1) 0) (Nat.min_le_right _ _) hlen
  simp only [List.length_append, List.length_map, List.length_range]
  by_cases hjL : j < st.r0.length
  · -- matched with an earlier free label
    rw [h2 j (by omega)]
    simp only [List.getD_eq_getElem?_getD]
    rw [List.getElem?_append_right (by simp; omega)]
    simp only [List.length_map, List.length_range]
    congr 2
    omega
  · -- a new free label: the axis keeps its own number, which is pushed in front of r0
    rw [h3 _ (by intro j' hj'; omega), hfree _ (by omega)]
    simp only [List.getD_eq_getElem?_getD]
    rw [List.getElem?_append_left (by simp; omega)]
    have hi : node.nfree - st.r0.length + st.r0.length - 1 - j = node.nfree - 1 - j := by omega
    have hlt : node.nfree - 1 - j < node.nfree - st.r0.length := by omega
    rw [hi, List.getElem?_map, List.getElem?_range hlt]
    rfl


/-- along the whole per-node loop the free labels only grow at the front, so the label of the j-th collection axis from the
    right, once fixed by `T05_5_calcStep_align`, stays the j-th free output label from the right -/
theorem T05_5_r0_suffix (xs : List (Node × (List Nat × List Nat) × Nat)) (st : CalcState) :
    ∃ pre, (xs.foldl (fun st x => calcStep st x.1 x.2.1 x.2.2) st).r0 = pre ++ st.r0 := by
  induction xs generalizing st with
  | nil => exact ⟨[], rfl⟩
  | cons x xs ih =>
    obtain ⟨pre, h⟩ := ih (calcStep st x.1 x.2.1 x.2.2)
    have hstep : (calcStep st x.1 x.2.1 x.2.2).r0
        = (List.range (x.1.nfree - st.r0.length)).map (x.2.2 + ·) ++ st.r0 := by
      simp only [calcStep]
      rw [push_front, unmatched_list]
    exact ⟨pre ++ (List.range (x.1.nfree - st.r0.length)).map (x.2.2 + ·), by
      simp only [List.foldl_cons]; rw [h, hstep]; simp⟩

/-- non-vacuity: a point collection of shape (2, 3) joined with a single point through ε: the collection axis keeps label 0 -/
example : (calcStep ⟨[0, 1, 2, 3, 4, 5], [], [], [], []⟩ ⟨1, [2, 3], [1], []⟩ ([], []) 0).r0 = [0] := by decide

/-- a loop edge on a node that is not yet in the diagram registers the node once and contracts two of ITS indices
    (the repaired `add_edge`; before the repair the model, like the code, appended the node twice) -/
example : ((Diagram.empty.addEdge' ⟨7, [2, 2], [0], [1]⟩ ⟨7, [2, 2], [0], [1]⟩).1.nodes.length,
           (Diagram.empty.addEdge' ⟨7, [2, 2], [0], [1]⟩ ⟨7, [2, 2], [0], [1]⟩).1.contractions) = (1, [(0, 0, 0, 1)]) := by decide

end Geo
