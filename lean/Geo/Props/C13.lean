/-
  C13 — quadric constructors produce the quadric of their defining data.
-/
import Geo.Gen.Curve
import Geo.Constructions
import Geo.Proofs.Lemmas
import Mathlib.Tactic.FieldSimp
import Mathlib.Tactic.LinearCombination
namespace Geo
open Spec

section
variable {K : Type} [CommRing K]

/-- quadratic form of the conic `m + mᵀ` built by `Conic.from_points` (regenerated from geometer/curve.py) -/
def c5Form (a b c d e p : Nat → K) : K :=
  sumRange 3 fun i => sumRange 3 fun j =>
    p i * (Gen.c5_m (Gen.c5_ace a b c d e) (Gen.c5_bde a b c d e) (Gen.c5_ade a b c d e) (Gen.c5_bce a b c d e) a b c d i j
         + Gen.c5_m (Gen.c5_ace a b c d e) (Gen.c5_bde a b c d e) (Gen.c5_ade a b c d e) (Gen.c5_bce a b c d e) a b c d j i) * p j

/-- **Conic.from_points contains its five points** — for all coordinate vectors (the first four because each lies on a
    line of both degenerate conics, the fifth because the two products of four brackets cancel) -/
theorem T13_from_points_contains (a b c d e : Nat → K) :
    c5Form a b c d e a = 0 ∧ c5Form a b c d e b = 0 ∧ c5Form a b c d e c = 0 ∧ c5Form a b c d e d = 0 ∧
    c5Form a b c d e e = 0 := by
  simp only [c5Form, Gen.c5_m, Gen.c5_ace, Gen.c5_bde, Gen.c5_ade, Gen.c5_bce, det3, cross, sumRange]
  refine ⟨?_, ?_, ?_, ?_, ?_⟩ <;> ring

/-- quadratic form of the `from_crossratio` conic -/
def crForm (cr : K) (a b c d p : Nat → K) : K :=
  sumRange 3 fun i => sumRange 3 fun j => p i * (crM cr a b c d i j + crM cr a b c d j i) * p j

/-- **from_crossratio contains a, b, c, d**, and a point `p` lies on it exactly when the brackets satisfy
    `[p,a,c][p,b,d] = cr·[p,a,d][p,b,c]` — the four points are seen from `p` under the cross ratio `cr` -/
theorem T13_from_crossratio_contains (cr : K) (a b c d p : Nat → K) :
    crForm cr a b c d a = 0 ∧ crForm cr a b c d b = 0 ∧ crForm cr a b c d c = 0 ∧ crForm cr a b c d d = 0 ∧
    crForm cr a b c d p = 2 * (det3 p a c * det3 p b d - cr * (det3 p a d * det3 p b c)) := by
  simp only [crForm, crM, det3, cross, sumRange]
  refine ⟨?_, ?_, ?_, ?_, ?_⟩ <;> ring

/-- **from_crossratio agrees with from_points**: if `cr` is the cross ratio under which a fifth point `e` sees a, b, c, d
    (`[a,d,e][b,c,e]·cr = [a,c,e][b,d,e]`), the matrix of `from_points(a,b,c,d,e)` (regenerated) is `−[a,d,e][b,c,e]` times the
    matrix of `from_crossratio(cr, a,b,c,d)`, entry by entry: the same conic -/
theorem T13_from_crossratio_agrees (cr : K) (a b c d e : Nat → K)
    (hcr : Gen.c5_ade a b c d e * Gen.c5_bce a b c d e * cr = Gen.c5_ace a b c d e * Gen.c5_bde a b c d e) (i j : Nat) :
    Gen.c5_m (Gen.c5_ace a b c d e) (Gen.c5_bde a b c d e) (Gen.c5_ade a b c d e) (Gen.c5_bce a b c d e) a b c d i j
      = -(Gen.c5_ade a b c d e * Gen.c5_bce a b c d e) * crM cr a b c d i j := by
  simp only [Gen.c5_m, crM]
  linear_combination (-(cross a d i * cross b c j)) * hcr

end

section
variable {F : Type} [Field F]

/-- matrix assembled by `Ellipse.__init__` (before the positive normalisation factor): rows
    (vr², 0, −vr²cx), (0, hr², −hr²cy), (−vr²cx, −hr²cy, vr²cx² + hr²cy² − hr²vr²) -/
def ellipseForm (cx cy hr vr x y : F) : F :=
  vr ^ 2 * x ^ 2 + hr ^ 2 * y ^ 2 + 2 * (-(vr ^ 2 * cx)) * x + 2 * (-(hr ^ 2 * cy)) * y
    + (vr ^ 2 * cx ^ 2 + hr ^ 2 * cy ^ 2 - hr ^ 2 * vr ^ 2)

/-- the ellipse contains exactly the Cartesian locus `((x−cx)/hr)² + ((y−cy)/vr)² = 1` -/
theorem T13_ellipse_locus (cx cy hr vr x y : F) (hh : hr ≠ 0) (hv : vr ≠ 0) :
    ellipseForm cx cy hr vr x y = 0 ↔ ((x - cx) / hr) ^ 2 + ((y - cy) / vr) ^ 2 = 1 := by
  unfold ellipseForm
  constructor
  · intro h
    field_simp
    linear_combination h
  · intro h
    field_simp at h
    linear_combination h

/-- sphere: `|x − c|² = r²`, and `center` / `radius²` are read back from the matrix entries
    (`c = −m[:-1,-1]/m[0,0]`, `r² = c·c − m[-1,-1]/m[0,0]`) -/
theorem T13_sphere_locus (c0 c1 c2 r x y z : F) :
    (x ^ 2 + y ^ 2 + z ^ 2 + 2 * (-c0) * x + 2 * (-c1) * y + 2 * (-c2) * z + (c0 ^ 2 + c1 ^ 2 + c2 ^ 2 - r ^ 2) = 0
      ↔ (x - c0) ^ 2 + (y - c1) ^ 2 + (z - c2) ^ 2 = r ^ 2) ∧
    ((-c0) ^ 2 + (-c1) ^ 2 + (-c2) ^ 2 - (c0 ^ 2 + c1 ^ 2 + c2 ^ 2 - r ^ 2) = r ^ 2) := by
  constructor
  · constructor <;> intro h <;> linear_combination h
  · ring

end

/-! ## the matrices that `Ellipse.__init__` and `Sphere.__init__` assemble (regenerated from geometer/curve.py by symbolic
    execution of the assembly code) are the matrices of the Cartesian loci -/
section
variable {F : Type} [Field F]

/-- quadratic form of the regenerated ellipse matrix at the finite point (x, y, 1) -/
def ellipseGenForm (cx cy hr vr x y : F) : F :=
  let p : Nat → F := fun k => match k with | 0 => x | 1 => y | _ => 1
  sumRange 3 fun i => sumRange 3 fun j => p i * Gen.ellipse_m cx cy hr vr i j * p j

theorem T13_ellipse_code_form (cx cy hr vr x y : F) :
    ellipseGenForm cx cy hr vr x y = ellipseForm cx cy hr vr x y ∧
    (∀ i j, i < 3 → j < 3 → Gen.ellipse_m cx cy hr vr i j = Gen.ellipse_m cx cy hr vr j i) := by
  constructor
  · simp only [ellipseGenForm, ellipseForm, Gen.ellipse_m, sumRange]; ring
  · intro i j hi hj
    interval_cases i <;> interval_cases j <;> simp [Gen.ellipse_m]

/-- **Ellipse(center, hr, vr)** as built by the code contains exactly the points of the Cartesian ellipse -/
theorem T13_ellipse_code_locus (cx cy hr vr x y : F) (hh : hr ≠ 0) (hv : vr ≠ 0) :
    ellipseGenForm cx cy hr vr x y = 0 ↔ ((x - cx) / hr) ^ 2 + ((y - cy) / vr) ^ 2 = 1 := by
  rw [(T13_ellipse_code_form cx cy hr vr x y).1]
  exact T13_ellipse_locus cx cy hr vr x y hh hv

/-- quadratic form of the regenerated sphere matrix at the finite point (x, y, z, 1) -/
def sphereGenForm (c0 c1 c2 r x y z : F) : F :=
  let p : Nat → F := fun k => match k with | 0 => x | 1 => y | 2 => z | _ => 1
  sumRange 4 fun i => sumRange 4 fun j => p i * Gen.sphere_m c0 c1 c2 r i j * p j

/-- **Sphere(center, r)** as built by the code: `|x − c|² = r²`; symmetric matrix; `center` and `radius` read back from the
    entries the properties use (`-m[:-1,-1]`, `m[0,0]`, `m[-1,-1]`) -/
theorem T13_sphere_code_locus (c0 c1 c2 r x y z : F) :
    (sphereGenForm c0 c1 c2 r x y z = 0 ↔ (x - c0) ^ 2 + (y - c1) ^ 2 + (z - c2) ^ 2 = r ^ 2) ∧
    (∀ i j, i < 4 → j < 4 → Gen.sphere_m c0 c1 c2 r i j = Gen.sphere_m c0 c1 c2 r j i) ∧
    (-Gen.sphere_m c0 c1 c2 r 0 3 / Gen.sphere_m c0 c1 c2 r 0 0 = c0 ∧
     -Gen.sphere_m c0 c1 c2 r 1 3 / Gen.sphere_m c0 c1 c2 r 0 0 = c1 ∧
     -Gen.sphere_m c0 c1 c2 r 2 3 / Gen.sphere_m c0 c1 c2 r 0 0 = c2) ∧
    ((Gen.sphere_m c0 c1 c2 r 0 3) ^ 2 + (Gen.sphere_m c0 c1 c2 r 1 3) ^ 2 + (Gen.sphere_m c0 c1 c2 r 2 3) ^ 2
      - Gen.sphere_m c0 c1 c2 r 3 3 = r ^ 2) := by
  refine ⟨?_, ?_, ?_, ?_⟩
  · simp only [sphereGenForm, Gen.sphere_m, sumRange]
    constructor <;> intro h <;> linear_combination h
  · intro i j hi hj
    interval_cases i <;> interval_cases j <;> simp [Gen.sphere_m]
  · simp [Gen.sphere_m]
  · simp only [Gen.sphere_m]; ring

end

end Geo
