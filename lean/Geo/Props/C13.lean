/-
  C13 — quadric constructors produce the quadric of their defining data.
-/
import Geo.Gen.Curve
import Geo.Proofs.Lemmas
import Mathlib.Tactic.FieldSimp
namespace Geo
open Spec

section
variable {K : Type} [CommRing K]

/-- quadratic form of the conic `m + mᵀ` built by `Conic.from_points` (regenerated from geometer/curve.py) -/
def c5Form (a b c d e p : Nat → K) : K :=
  sumRange 3 fun i => sumRange 3 fun j =>
    p i * (Gen.c5_m (Gen.c5_ace a b c d e) (Gen.c5_bde a b c d e) (Gen.c5_ade a b c d e) (Gen.c5_bce a b c d e) a b c d i j
         + Gen.c5_m (Gen.c5_ace a b c d e) (Gen.c5_bde a b c d e) (Gen.c5_ade a b c d e) (Gen.c5_bce a b c d e) a b c d j i) * p j

/-- **Conic.from_points contains its five points** — for all coordinate vectors (the first four because each lies on a
    line of both degenerate conics, the fifth because the two products of four brackets cancel) -/
theorem T13_from_points_contains (a b c d e : Nat → K) :
    c5Form a b c d e a = 0 ∧ c5Form a b c d e b = 0 ∧ c5Form a b c d e c = 0 ∧ c5Form a b c d e d = 0 ∧
    c5Form a b c d e e = 0 := by
  simp only [c5Form, Gen.c5_m, Gen.c5_ace, Gen.c5_bde, Gen.c5_ade, Gen.c5_bce, det3, cross, sumRange]
  refine ⟨?_, ?_, ?_, ?_, ?_⟩ <;> ring

end

section
variable {F : Type} [Field F]

/-- matrix assembled by `Ellipse.__init__` (before the positive normalisation factor): rows
    (vr², 0, −vr²cx), (0, hr², −hr²cy), (−vr²cx, −hr²cy, vr²cx² + hr²cy² − hr²vr²) -/
def ellipseForm (cx cy hr vr x y : F) : F :=
  vr ^ 2 * x ^ 2 + hr ^ 2 * y ^ 2 + 2 * (-(vr ^ 2 * cx)) * x + 2 * (-(hr ^ 2 * cy)) * y
    + (vr ^ 2 * cx ^ 2 + hr ^ 2 * cy ^ 2 - hr ^ 2 * vr ^ 2)

/-- the ellipse contains exactly the Cartesian locus `((x−cx)/hr)² + ((y−cy)/vr)² = 1` -/
theorem T13_ellipse_locus (cx cy hr vr x y : F) (hh : hr ≠ 0) (hv : vr ≠ 0) :
    ellipseForm cx cy hr vr x y = 0 ↔ ((x - cx) / hr) ^ 2 + ((y - cy) / vr) ^ 2 = 1 := by
  unfold ellipseForm
  constructor
  · intro h
    field_simp
    linear_combination h
  · intro h
    field_simp at h
    linear_combination h

/-- sphere: `|x − c|² = r²`, and `center` / `radius²` are read back from the matrix entries
    (`c = −m[:-1,-1]/m[0,0]`, `r² = c·c − m[-1,-1]/m[0,0]`) -/
theorem T13_sphere_locus (c0 c1 c2 r x y z : F) :
    (x ^ 2 + y ^ 2 + z ^ 2 + 2 * (-c0) * x + 2 * (-c1) * y + 2 * (-c2) * z + (c0 ^ 2 + c1 ^ 2 + c2 ^ 2 - r ^ 2) = 0
      ↔ (x - c0) ^ 2 + (y - c1) ^ 2 + (z - c2) ^ 2 = r ^ 2) ∧
    ((-c0) ^ 2 + (-c1) ^ 2 + (-c2) ^ 2 - (c0 ^ 2 + c1 ^ 2 + c2 ^ 2 - r ^ 2) = r ^ 2) := by
  constructor
  · constructor <;> intro h <;> linear_combination h
  · ring

end
end Geo
