import Geo.Spec.Basic
namespace Geo
theorem C13_placeholder : (1 : Nat) = 1 := rfl
end Geo
