/-
  C08 (second file) — the hand-written constructors of Geo/Transform.lean (about which the theorems of C08.lean are stated)
  are, entry by entry, the matrices that `geometer/transformation.py` writes out: `Geo/Gen/Transform.lean` is regenerated
  from the source text on every run (translator A), and the bridging theorems below are re-checked against it.
-/
import Geo.Gen.Transform
import Geo.Transform
import Geo.Proofs.Lemmas
namespace Geo
variable {K : Type} [Field K]

/-- `affine_transform(matrix, offset)` (2-D): the assembled matrix is the model's affine embedding -/
theorem T08_gen_affine3 (m : Nat → Nat → K) (o : Nat → K) (i j : Nat) (hi : i < 3) (hj : j < 3) :
    (affineTransform (Mat.ofFn 2 2 m) [o 0, o 1]).get i j = Gen.affine3_m m o i j := by
  interval_cases i <;> interval_cases j <;>
    simp [affineTransform, Mat.ofFn, Mat.get, Gen.affine3_m, List.range_succ]

/-- `affine_transform(matrix, offset)` (3-D) -/
theorem T08_gen_affine4 (m : Nat → Nat → K) (o : Nat → K) (i j : Nat) (hi : i < 4) (hj : j < 4) :
    (affineTransform (Mat.ofFn 3 3 m) [o 0, o 1, o 2]).get i j = Gen.affine4_m m o i j := by
  interval_cases i <;> interval_cases j <;>
    simp [affineTransform, Mat.ofFn, Mat.get, Gen.affine4_m, List.range_succ]

/-- `rotation(angle)`: the model matrix is the affine embedding of the 2×2 matrix written in the source -/
theorem T08_gen_rot2 (c s : K) (i j : Nat) (hi : i < 3) (hj : j < 3) :
    (rotation2M c s).get i j = Gen.affine3_m (Gen.rot2_m c s) (fun _ => 0) i j := by
  interval_cases i <;> interval_cases j <;>
    simp [rotation2M, affineTransform, Mat.ofFn, Mat.get, Gen.affine3_m, Gen.rot2_m, List.range_succ]

/-- `translation(v)` in the plane and in space -/
theorem T08_gen_translation2 (a b : K) (i j : Nat) (hi : i < 3) (hj : j < 3) :
    (translationM [a, b]).get i j = Gen.affine3_m (fun i j => if i = j then 1 else 0) (fun k => [a, b].getD k 0) i j := by
  interval_cases i <;> interval_cases j <;>
    simp [translationM, affineTransform, Mat.identity, Mat.ofFn, Mat.get, Gen.affine3_m, List.range_succ]

theorem T08_gen_translation3 (a b c : K) (i j : Nat) (hi : i < 4) (hj : j < 4) :
    (translationM [a, b, c]).get i j = Gen.affine4_m (fun i j => if i = j then 1 else 0) (fun k => [a, b, c].getD k 0) i j := by
  interval_cases i <;> interval_cases j <;>
    simp [translationM, affineTransform, Mat.identity, Mat.ofFn, Mat.get, Gen.affine4_m, List.range_succ]

/-- `scaling(f)` -/
theorem T08_gen_scaling2 (a b : K) (i j : Nat) (hi : i < 3) (hj : j < 3) :
    (scalingM [a, b]).get i j = Gen.affine3_m (fun i j => if i = j then [a, b].getD i 0 else 0) (fun _ => 0) i j := by
  interval_cases i <;> interval_cases j <;>
    simp [scalingM, affineTransform, Mat.ofFn, Mat.get, Gen.affine3_m, List.range_succ]

/-- `rotation(angle, axis)`: the model matrix is the affine embedding of the Rodrigues expression written in the source, with
    `u^{jk} = Σ_i ε^{ijk} a_i` (the diagram `(Tensor(a), ε)`) and `v = a aᵀ` -/
theorem T08_gen_rot3 (c s : K) (a : Nat → K) (i j : Nat) (hi : i < 4) (hj : j < 4) :
    (rotation3M c s [a 0, a 1, a 2]).get i j
      = Gen.affine4_m (Gen.rodrigues_m c s (fun j k => sumRange 3 fun i => ofInt (epsEntry 3 [i, j, k]) * a i) (fun j k => a j * a k))
          (fun _ => 0) i j := by
  interval_cases i <;> interval_cases j <;>
    simp [rotation3M, affineTransform, Mat.ofFn, Mat.get, Gen.affine4_m, Gen.rodrigues_m, List.range_succ, sumRange, epsEntry,
      isPermOfRange, pairProd, sgnInt]

/-- Householder part of `reflection`: with `vv = v vᵀ / |v|²` (the outer product of the unit normal) -/
theorem T08_gen_householder2 (v0 v1 : K) (i j : Nat) (hi : i < 2) (hj : j < 2) :
    (householderM [v0, v1]).get i j
      = Gen.householder_m (fun i j => [v0, v1].getD i 0 * [v0, v1].getD j 0 / (v0 * v0 + v1 * v1)) i j := by
  interval_cases i <;> interval_cases j <;>
    simp [householderM, affineTransform, Mat.ofFn, Mat.get, Gen.householder_m, List.range_succ, sumRange, ofNat'] <;> ring

theorem T08_gen_householder3 (v0 v1 v2 : K) (i j : Nat) (hi : i < 3) (hj : j < 3) :
    (householderM [v0, v1, v2]).get i j
      = Gen.householder_m (fun i j => [v0, v1, v2].getD i 0 * [v0, v1, v2].getD j 0 / (v0 * v0 + v1 * v1 + v2 * v2)) i j := by
  interval_cases i <;> interval_cases j <;>
    simp [householderM, affineTransform, Mat.ofFn, Mat.get, Gen.householder_m, List.range_succ, sumRange, ofNat'] <;> ring

/-- the call structure of the constructors, as recognised by the translator in the current source: `translation` and `scaling`
    are `affine_transform` of an offset / of a diagonal matrix, `reflection` is the Householder map conjugated by the translation
    to a finite point of the mirror, the Rodrigues `u` is the ε-contraction of the unit axis -/
theorem T08_gen_structure :
    Gen.translation_is_affine_offset = true ∧ Gen.scaling_is_affine_diag = true ∧
    Gen.reflection_is_conjugated_householder = true ∧ Gen.rodrigues_u_is_eps_axis = true := by decide

end Geo
