/-
  C04b — the capstone of C04 / C05c: `TensorDiagram.calculate` evaluates collections position by position.

  `T04_1_reachable` (C05c) describes the subscripts of the einsum call for every reachable diagram; `T04_2_elementwise` (C04)
  says what an einsum with such subscripts computes.  Here the two are joined: for every diagram reachable by `add_node` /
  `add_edge` on well-formed tensors, for ALL arrays, the value of the einsum call at output index `pos ++ idx` (collection
  position `pos`, tensor index `idx`) is the value, at `idx`, of the einsum of the operands' slices at `pos` — an operand with
  fewer (or no) collection axes is broadcast from the right.  No hypothesis about the label list remains.
-/
import Geo.Props.C04
import Geo.Props.C05c
namespace Geo

variable {α : Type} [Add α] [Mul α] [Zero α] [One α]

/-- summed labels are never output labels -/
theorem summedLabels_not_out (operands : List (List Nat)) (shapes : List (List Nat)) (out : List Nat) :
    ∀ s ∈ summedLabels operands shapes out, s.1 ∉ out := by
  unfold summedLabels
  generalize ((operands.zip shapes).flatMap fun x => x.1.zip x.2) = all
  suffices h : ∀ (acc : List (Nat × Nat)), (∀ s ∈ acc, s.1 ∉ out) →
      ∀ s ∈ all.foldl (fun acc (p : Nat × Nat) => if out.contains p.1 || acc.any (·.1 == p.1) then acc else acc ++ [p]) acc, s.1 ∉ out from
    h [] (by simp)
  induction all with
  | nil => intro acc h; simpa using h
  | cons p all ih =>
    intro acc hacc
    simp only [List.foldl_cons]
    apply ih
    by_cases hc : (out.contains p.1 || acc.any (·.1 == p.1)) = true
    · rw [if_pos hc]; exact hacc
    · rw [if_neg hc]
      intro s hs
      rcases List.mem_append.mp hs with hs | hs
      · exact hacc s hs
      · simp only [List.mem_singleton] at hs
        subst hs
        simp only [Bool.or_eq_true, not_or, Bool.not_eq_true] at hc
        intro hmem
        have : out.contains s.1 = true := by simpa using hmem
        rw [this] at hc
        exact absurd hc.1 (by decide)

/-- the number of collection axes of a node never exceeds the number of free output labels -/
theorem nfree_le_nFree (d : Diagram) (k : Nat) (hk : k < d.items.length) :
    d.items[k].1.nfree ≤ d.spec.nFree := by
  have hnf : d.spec.nFree
      = (calcFold d.items ⟨relabel d.positions d.contractions d.indexCount, [], [], [], []⟩).r0.length := rfl
  rw [hnf, calcFold_split d.items k hk]
  obtain ⟨pre, hpre⟩ := calcFold_r0_suffix (d.items.drop (k + 1))
    (calcStep (calcFold (d.items.take k) ⟨relabel d.positions d.contractions d.indexCount, [], [], [], []⟩)
      d.items[k].1 d.items[k].2.1 d.items[k].2.2)
  rw [hpre, calcStep_r0]
  simp only [List.length_append, List.length_map, List.length_range]
  omega

/-- **C04 (calculate is position-wise).**  `ops` = the operands of the einsum call of a reachable diagram, each with its labels
    split after its collection axes (`hops`, `hsplit`) and ANY array.  Then the einsum that `calculate` issues, read at the output
    index `pos ++ idx`, equals the einsum of the slices at collection position `pos` read at `idx`. -/
theorem T04_calculate_positionwise (opsD : List DOp) (d : Diagram) (hd : d = opsD.foldl Diagram.step Diagram.empty)
    (hnodes : ∀ o ∈ opsD, match o with
      | .node n => n.WF
      | .edge s t => s.WF ∧ t.WF)
    (hwf : ∀ n ∈ d.nodes, ∀ i ∈ n.cov ++ n.con, n.nfree ≤ i ∧ i < n.rank)
    (hnf : ∀ n ∈ d.nodes, n.nfree ≤ n.rank)
    (ops : List (COperand α))
    (hops : (ops.map fun o => o.1 ++ o.2.1) = d.spec.operands)
    (hsplit : ∀ k (hk : k < ops.length) (hk' : k < d.items.length),
        (ops[k]).1.length = (d.items[k]).1.nfree ∧ (ops[k]).2.1.length + (d.items[k]).1.nfree = (d.items[k]).1.rank)
    (shapes : List (List Nat)) (pos idx : List Nat)
    (hpos : pos.length = d.spec.nFree) :
    evalEinsum d.spec.operands d.spec.out (summedLabels d.spec.operands shapes d.spec.out) (ops.map fun o => o.2.2) (pos ++ idx)
      = evalEinsum (ops.map fun o => o.2.1) (d.spec.out.drop d.spec.nFree) (summedLabels d.spec.operands shapes d.spec.out)
          (ops.map (sliceAt (d.spec.out.take d.spec.nFree) pos)) idx := by
  generalize hfree : d.spec.out.take d.spec.nFree = free
  generalize hrest : d.spec.out.drop d.spec.nFree = rest
  generalize hsummed : summedLabels d.spec.operands shapes d.spec.out = summed
  have hreach : ∀ k (hk : k < d.items.length),
      (∀ j, j < d.items[k].1.nfree →
        (d.spec.operands.getD k []).getD (d.items[k].1.nfree - 1 - j) 0 = d.spec.out.getD (d.spec.nFree - 1 - j) 0) ∧
      (∀ i, d.items[k].1.nfree ≤ i → i < d.items[k].1.rank →
        (d.spec.operands.getD k []).getD i 0 ∉ d.spec.out.take d.spec.nFree) := by
    subst hd; exact T04_1_reachable opsD hnodes hwf hnf
  have h3 : d.Inv3 := by subst hd; exact T05_2_reachable_inv3 opsD
  -- lengths
  have hlenOps : ops.length = d.items.length := by
    have h1 : (ops.map fun o => o.1 ++ o.2.1).length = d.spec.operands.length := by rw [hops]
    have hrl : (relabel d.positions d.contractions d.indexCount).length = d.indexCount := by
      rw [relabel_eq_relabelG, relabelG_length]; simp
    have h2 : d.spec.operands.length = d.nodes.length := by
      obtain ⟨hpw, hbound⟩ := items_blocks d h3.base
      have key := T05_5_calc_align_all d.items ⟨relabel d.positions d.contractions d.indexCount, [], [], [], []⟩ hpw
        (fun x hx => by simpa [hrl] using hbound x hx)
        (fun x hx => hnf x.1 (List.of_mem_zip hx).1)
      -- only the length part is needed; its hypothesis on the collection positions is irrelevant for it, so use the reachable facts
      have : (calcFold d.items ⟨relabel d.positions d.contractions d.indexCount, [], [], [], []⟩).ops.length = d.items.length := by
        obtain ⟨suf, hs, hl⟩ := calcFold_ops_prefix d.items ⟨relabel d.positions d.contractions d.indexCount, [], [], [], []⟩
        rw [hs]; simpa using hl
      show (calcFold d.items ⟨relabel d.positions d.contractions d.indexCount, [], [], [], []⟩).ops.length = d.nodes.length
      rw [this, items_length d h3.base]
    rw [List.length_map] at h1
    rw [h1, h2, items_length d h3.base]
  have hout : d.spec.out = free ++ rest := by rw [← hfree, ← hrest]; exact (List.take_append_drop _ _).symm
  have hfreeLen : free.length = d.spec.nFree := by
    have : d.spec.nFree ≤ d.spec.out.length := by
      show (calcFold d.items ⟨relabel d.positions d.contractions d.indexCount, [], [], [], []⟩).r0.length
          ≤ ((calcFold d.items ⟨relabel d.positions d.contractions d.indexCount, [], [], [], []⟩).r0
            ++ (calcFold d.items ⟨relabel d.positions d.contractions d.indexCount, [], [], [], []⟩).r1
            ++ (calcFold d.items ⟨relabel d.positions d.contractions d.indexCount, [], [], [], []⟩).r2).length
      simp only [List.length_append]; omega
    rw [← hfree]; simp [List.length_take, Nat.min_eq_left this]
  -- the operand labels in terms of `ops`
  have hopk : ∀ k (hk : k < ops.length), d.spec.operands.getD k [] = ops[k].1 ++ ops[k].2.1 := by
    intro k hk
    rw [← hops]
    simp [List.getD_eq_getElem?_getD, hk]
  have hh3 : ∀ o ∈ ops, ∀ l ∈ o.1, l ∈ free := by
    intro o ho l hl
    obtain ⟨k, hk, rfl⟩ := List.getElem_of_mem ho
    have hk' : k < d.items.length := by rw [← hlenOps]; exact hk
    obtain ⟨hs1, _⟩ := hsplit k hk hk'
    obtain ⟨i, hi, rfl⟩ := List.getElem_of_mem hl
    obtain ⟨ha, -⟩ := hreach k hk'
    have hile : i < d.items[k].1.nfree := by rw [← hs1]; exact hi
    have hnle := nfree_le_nFree d k hk'
    have := ha (d.items[k].1.nfree - 1 - i) (by omega)
    rw [hopk k hk] at this
    have hidx : d.items[k].1.nfree - 1 - (d.items[k].1.nfree - 1 - i) = i := by omega
    rw [hidx] at this
    simp only [List.getD_eq_getElem?_getD] at this
    rw [List.getElem?_append_left hi, List.getElem?_eq_getElem hi] at this
    simp only [Option.getD_some] at this
    rw [this]
    -- an entry of the output in the free block
    have hpos' : d.spec.nFree - 1 - (d.items[k].1.nfree - 1 - i) < free.length := by rw [hfreeLen]; omega
    have : d.spec.out[d.spec.nFree - 1 - (d.items[k].1.nfree - 1 - i)]? = free[d.spec.nFree - 1 - (d.items[k].1.nfree - 1 - i)]? := by
      rw [hout, List.getElem?_append_left hpos']
    rw [this, List.getElem?_eq_getElem hpos']
    simp only [Option.getD_some]
    exact List.getElem_mem hpos'
  have hh4 : ∀ o ∈ ops, ∀ l ∈ o.2.1, l ∉ free := by
    intro o ho l hl
    obtain ⟨k, hk, rfl⟩ := List.getElem_of_mem ho
    have hk' : k < d.items.length := by rw [← hlenOps]; exact hk
    obtain ⟨hs1, hs2⟩ := hsplit k hk hk'
    obtain ⟨i, hi, rfl⟩ := List.getElem_of_mem hl
    obtain ⟨-, hb⟩ := hreach k hk'
    have := hb (d.items[k].1.nfree + i) (by omega) (by omega)
    rw [hopk k hk] at this
    simp only [List.getD_eq_getElem?_getD] at this
    rw [List.getElem?_append_right (by omega)] at this
    have hidx : d.items[k].1.nfree + i - ops[k].1.length = i := by omega
    rw [hidx, List.getElem?_eq_getElem hi] at this
    rw [hfree] at this
    simpa using this
  have hh2 : ∀ s ∈ summed, s.1 ∉ free := by
    intro s hs hmem
    rw [← hsummed] at hs
    exact summedLabels_not_out _ _ _ s hs (by rw [hout]; exact List.mem_append_left _ hmem)
  have key := T04_2_elementwise free rest pos idx ops summed (by rw [hfreeLen, hpos]) hh2 hh3 hh4
  rw [hops, ← hout] at key
  exact key

/-- non-vacuity: `join(PointCollection (5), PointCollection (2, 5))` as the library builds it (two edges into ε): the operands of
    the recorded einsum call `[0,1] [1,3,4] [5,0,3] → [5,0,4]` split after their collection axes as the theorem demands -/
example :
    let opsD : List DOp := [DOp.edge ⟨1, [5, 3], [1], []⟩ ⟨9, [3, 3, 3], [], [0, 1, 2]⟩,
                            DOp.edge ⟨2, [2, 5, 3], [2], []⟩ ⟨9, [3, 3, 3], [], [0, 1, 2]⟩]
    let d := opsD.foldl Diagram.step Diagram.empty
    let split : List (List Nat × List Nat) := [([0], [1]), ([], [1, 3, 4]), ([5, 0], [3])]
    (split.map fun o => o.1 ++ o.2) = d.spec.operands ∧
    split.map (fun o => o.1.length) = d.items.map (fun x => x.1.nfree) ∧
    split.map (fun o => o.1.length + o.2.length) = d.items.map (fun x => x.1.rank) ∧
    d.spec.out.take d.spec.nFree = [5, 0] := by
  decide

end Geo
