/-
  C03 — results depend on the projective object, not on its homogeneous representative.

  * T03.1: EVERY recorded einsum scenario (Geo/Gen/Diagrams.lean, translator B — but the theorem is about an arbitrary
    list of calls, so it also covers whatever the translator writes next time) is homogeneous in each argument: rescaling
    argument k by λ ≠ 0 (and, with it, its matrix inverse by λ⁻¹) multiplies the result by λ^d, where the integer d is
    computed from the roles only.  Hence the result is the same projective object.
  * T03.2: the model of `is_multiple` (what `==` decides) is reflexive, symmetric, true for non-zero multiples, and true
    only for multiples.
  * T03.3: `_normalize_array`, the dehomogenisation `affine` and everything defined through it do not see the factor.
  * T03.4: the brackets of `crossratio` and `_point_dist` (translator A) scale so that the returned quotient is unchanged.
-/
import Geo.Gen.Diagrams
import Geo.Gen.Operators
import Geo.Kernels
import Geo.Arith
import Geo.Spec.Euclid
import Geo.Proofs.Lemmas
import Mathlib.Tactic.FieldSimp
import Mathlib.Algebra.Field.Basic
import Mathlib.Algebra.GroupWithZero.Basic
import Mathlib.Data.List.Zip
namespace Geo
open Spec

/-! ## T03.1  homogeneity of the traced einsum calls -/

/-- degree of one operand in argument `k` (`ds` = degrees of the earlier results of the scenario) -/
def degRole (k : Nat) (ds : List Int) : Role → Int
  | .arg j => if j = k then 1 else 0
  | .inv j => if j = k then -1 else 0
  | .prev j => ds.getD j 0
  | _ => 0

/-- degree of one einsum call: sum over the operands that einsum really reads (same recursion as `prodOps`) -/
def degOps (k : Nat) (ds : List Int) : List (List Nat) → List Role → Int
  | _ :: lss, r :: rs => degRole k ds r + degOps k ds lss rs
  | _, _ => 0

/-- degrees of all results of a scenario, in order -/
def degrees (k : Nat) (cs : List TCall) : List Int :=
  cs.foldl (fun ds c => ds ++ [degOps k ds c.operands c.roles]) []

section einsum
variable {K : Type} [Field K]

theorem sumRange_mul_left (c : K) (n : Nat) (f : Nat → K) :
    sumRange n (fun i => c * f i) = c * sumRange n f := by
  induction n with
  | zero => simp [sumRange]
  | succ n ih => simp [sumRange, ih, mul_add]

theorem sumOver_mul_left (c : K) (ls : List (Nat × Nat)) (env : List (Nat × Nat)) (g : List (Nat × Nat) → K) :
    sumOver ls env (fun e => c * g e) = c * sumOver ls env g := by
  induction ls generalizing env with
  | nil => rfl
  | cons h t ih =>
    obtain ⟨l, dim⟩ := h
    simp only [sumOver]
    have : (fun v => sumOver t ((l, v) :: env) fun e => c * g e) = fun v => c * sumOver t ((l, v) :: env) g :=
      funext fun v => ih _
    rw [this, sumRange_mul_left]

theorem prodOps_scale (lam : K) (hl : lam ≠ 0) (k : Nat) (ds : List Int) (f f' : Role → List Nat → K)
    (h : ∀ r idx, f' r idx = lam ^ (degRole k ds r) * f r idx) (lss : List (List Nat)) (rs : List Role)
    (env : List (Nat × Nat)) :
    prodOps lss (rs.map f') env = lam ^ (degOps k ds lss rs) * prodOps lss (rs.map f) env := by
  induction lss generalizing rs with
  | nil => simp [prodOps, degOps]
  | cons ls lss ih =>
    cases rs with
    | nil => simp [prodOps, degOps]
    | cons r rs =>
      simp only [List.map_cons, prodOps, degOps]
      rw [h, ih, zpow_add₀ hl]; ring

theorem roleFn_scale (lam : K) (k : Nat) (ds : List Int) (args args' invs invs' prevs prevs' : List (List Nat → K))
    (hargs : ∀ j idx, args'.getD j (fun _ => 0) idx = (if j = k then lam else 1) * args.getD j (fun _ => 0) idx)
    (hinvs : ∀ j idx, invs'.getD j (fun _ => 0) idx = (if j = k then lam⁻¹ else 1) * invs.getD j (fun _ => 0) idx)
    (hprev : ∀ j idx, prevs'.getD j (fun _ => 0) idx = lam ^ ds.getD j 0 * prevs.getD j (fun _ => 0) idx) :
    ∀ r idx, roleFn args' invs' prevs' r idx = lam ^ degRole k ds r * roleFn args invs prevs r idx := by
  intro r idx
  cases r with
  | arg j => simp only [roleFn, degRole, hargs]; split <;> simp
  | inv j => simp only [roleFn, degRole, hinvs]; split <;> simp
  | prev j => simp only [roleFn, degRole, hprev]
  | eps n => simp [roleFn, degRole]
  | unknown => simp [roleFn, degRole]

theorem TCall_eval_scale (lam : K) (hl : lam ≠ 0) (k : Nat) (ds : List Int) (c : TCall)
    (args args' invs invs' prevs prevs' : List (List Nat → K))
    (hrole : ∀ r idx, roleFn args' invs' prevs' r idx = lam ^ degRole k ds r * roleFn args invs prevs r idx)
    (oidx : List Nat) :
    c.eval args' invs' prevs' oidx = lam ^ degOps k ds c.operands c.roles * c.eval args invs prevs oidx := by
  unfold TCall.eval evalEinsum
  rw [← sumOver_mul_left]
  congr 1
  funext env
  exact prodOps_scale lam hl k ds _ _ hrole _ _ _

private theorem getD_snoc {α : Type} (l : List α) (x d : α) (j : Nat) :
    (l ++ [x]).getD j d = if j < l.length then l.getD j d else if j = l.length then x else d := by
  simp only [List.getD_eq_getElem?_getD]
  by_cases h : j < l.length
  · simp [h, List.getElem?_append_left h]
  · simp only [h, if_false]
    rw [List.getElem?_append_right (by omega)]
    by_cases h2 : j = l.length
    · simp [h2]
    · have : j - l.length ≠ 0 := by omega
      simp only [h2, if_false]
      cases hj : j - l.length with
      | zero => omega
      | succ m => simp

theorem evalCalls_scale_aux (lam : K) (hl : lam ≠ 0) (k : Nat) (args args' invs invs' : List (List Nat → K))
    (hargs : ∀ j idx, args'.getD j (fun _ => 0) idx = (if j = k then lam else 1) * args.getD j (fun _ => 0) idx)
    (hinvs : ∀ j idx, invs'.getD j (fun _ => 0) idx = (if j = k then lam⁻¹ else 1) * invs.getD j (fun _ => 0) idx)
    (cs : List TCall) :
    ∀ (prevs prevs' : List (List Nat → K)) (ds : List Int),
      prevs.length = ds.length → prevs'.length = ds.length →
      (∀ j idx, prevs'.getD j (fun _ => 0) idx = lam ^ ds.getD j 0 * prevs.getD j (fun _ => 0) idx) →
      (cs.foldl (fun p c => p ++ [c.eval args invs p]) prevs).length
          = (cs.foldl (fun ds c => ds ++ [degOps k ds c.operands c.roles]) ds).length ∧
      (cs.foldl (fun p c => p ++ [c.eval args' invs' p]) prevs').length
          = (cs.foldl (fun ds c => ds ++ [degOps k ds c.operands c.roles]) ds).length ∧
      ∀ j idx, (cs.foldl (fun p c => p ++ [c.eval args' invs' p]) prevs').getD j (fun _ => 0) idx
          = lam ^ (cs.foldl (fun ds c => ds ++ [degOps k ds c.operands c.roles]) ds).getD j 0
            * (cs.foldl (fun p c => p ++ [c.eval args invs p]) prevs).getD j (fun _ => 0) idx := by
  induction cs with
  | nil => intro prevs prevs' ds h1 h2 h3; exact ⟨h1, h2, h3⟩
  | cons c cs ih =>
    intro prevs prevs' ds h1 h2 h3
    simp only [List.foldl_cons]
    apply ih
    · simp [h1]
    · simp [h2]
    · intro j idx
      rw [getD_snoc, getD_snoc, getD_snoc, h1, h2]
      by_cases hj : j < ds.length
      · simp only [hj, if_true]; exact h3 j idx
      · simp only [hj, if_false]
        by_cases hj2 : j = ds.length
        · simp only [hj2, if_true]
          exact TCall_eval_scale lam hl k ds c args args' invs invs' prevs prevs'
            (roleFn_scale lam k ds args args' invs invs' prevs prevs' hargs hinvs h3) idx
        · simp [hj2]

private theorem getLast?_getD_eq {α : Type} (l : List α) (d : α) : l.getLast?.getD d = l.getD (l.length - 1) d := by
  rw [List.getLast?_eq_getElem?, List.getD_eq_getElem?_getD]

/-- **T03.1** rescaling argument `k` (any representative of the same projective object; its inverse, where the scenario
    uses one, rescales by λ⁻¹ — `Matrix.inv_smul`) multiplies the result of every recorded scenario by `λ ^ d` -/
theorem T03_1_traced_homogeneous (lam : K) (hl : lam ≠ 0) (k : Nat) (cs : List TCall)
    (args args' invs invs' : List (List Nat → K))
    (hargs : ∀ j idx, args'.getD j (fun _ => 0) idx = (if j = k then lam else 1) * args.getD j (fun _ => 0) idx)
    (hinvs : ∀ j idx, invs'.getD j (fun _ => 0) idx = (if j = k then lam⁻¹ else 1) * invs.getD j (fun _ => 0) idx)
    (oidx : List Nat) :
    lastResult cs args' invs' oidx
      = lam ^ ((degrees k cs).getD ((degrees k cs).length - 1) 0) * lastResult cs args invs oidx := by
  obtain ⟨h1, h2, h3⟩ := evalCalls_scale_aux lam hl k args args' invs invs' hargs hinvs cs [] [] [] rfl rfl
    (by intro j idx; simp)
  unfold lastResult evalCalls
  rw [getLast?_getD_eq, getLast?_getD_eq, h2, h1]
  exact h3 _ _

/-- … so the result is the same projective object: a non-zero multiple, the same factor at every entry -/
theorem T03_1_same_projective_object (lam : K) (hl : lam ≠ 0) (k : Nat) (cs : List TCall)
    (args args' invs invs' : List (List Nat → K))
    (hargs : ∀ j idx, args'.getD j (fun _ => 0) idx = (if j = k then lam else 1) * args.getD j (fun _ => 0) idx)
    (hinvs : ∀ j idx, invs'.getD j (fun _ => 0) idx = (if j = k then lam⁻¹ else 1) * invs.getD j (fun _ => 0) idx) :
    ∃ mu : K, mu ≠ 0 ∧ ∀ oidx, lastResult cs args' invs' oidx = mu * lastResult cs args invs oidx :=
  ⟨_, zpow_ne_zero _ hl, fun oidx => T03_1_traced_homogeneous lam hl k cs args args' invs invs' hargs hinvs oidx⟩

/-- the hypothesis on the argument lists is what `List.set` gives -/
theorem set_scaled_getD (lam : K) (k : Nat) (args : List (List Nat → K)) :
    ∀ j idx, (args.set k (fun i => lam * args.getD k (fun _ => 0) i)).getD j (fun _ => 0) idx
      = (if j = k then lam else 1) * args.getD j (fun _ => 0) idx := by
  intro j idx
  simp only [List.getD_eq_getElem?_getD, List.getElem?_set]
  by_cases hjk : k = j
  · subst hjk
    by_cases hk : k < args.length
    · simp [hk]
    · simp [hk]
  · have : ¬ j = k := fun h => hjk h.symm
    simp [hjk, this]

end einsum

/-! non-vacuity: the degrees of the scenarios as traced now (join / meet are linear in every argument, incidence scalars
    too, a transformation acts on hyperplanes and quadrics through its inverse) -/
example : Gen.join_P2P2.map (fun cs => (degrees 0 cs, degrees 1 cs)) = some ([1], [1]) := by decide
example : Gen.join_P3P3P3.map (fun cs => (degrees 0 cs, degrees 1 cs, degrees 2 cs)) = some ([1], [1], [1]) := by decide
example : Gen.meet_L3E.map (fun cs => (degrees 0 cs, degrees 1 cs)) = some ([1], [1]) := by decide
example : Gen.apply_L2.map (fun cs => (degrees 0 cs, degrees 1 cs)) = some ([-1], [1]) := by decide
example : Gen.apply_Q3.map (fun cs => (degrees 0 cs, degrees 1 cs)) = some ([-2], [1]) := by decide
example : Gen.pow3_T2.map (fun cs => degrees 0 cs) = some [3] := by decide

/-! ## T03.2  `is_multiple` -/
section multiple
variable {K : Type} [Field K] [DecidableEq K]

theorem T03_2_isMultiple_symm (a b : List K) : isMultiple a b = isMultiple b a := by
  have hz : (b.zip a) = (a.zip b).map Prod.swap := by rw [List.zip_swap]
  unfold isMultiple
  simp only [hz, List.all_map]
  have h1 : ((a.zip b).all fun p => decide (p.1 = 0) == decide (p.2 = 0))
      = ((a.zip b).all ((fun p : K × K => decide (p.1 = 0) == decide (p.2 = 0)) ∘ Prod.swap)) := by
    congr 1; funext p; simp [Bool.beq_comm]
  have h2 : ((a.zip b).all fun p => (a.zip b).all fun q => decide (p.1 * q.2 - q.1 * p.2 = 0))
      = ((a.zip b).all ((fun p : K × K => (a.zip b).all ((fun q : K × K => decide (p.1 * q.2 - q.1 * p.2 = 0)) ∘ Prod.swap))
          ∘ Prod.swap)) := by
    congr 1; funext p; simp only [Function.comp, Prod.fst_swap, Prod.snd_swap]
    congr 1; funext q
    have : p.1 * q.2 - q.1 * p.2 = 0 ↔ p.2 * q.1 - q.2 * p.1 = 0 := by
      constructor <;> intro h <;> linear_combination -h
    simp [this]
  rw [h1, h2]
  cases a.all (· = 0) <;> cases b.all (· = 0) <;> simp

theorem T03_2_isMultiple_scale (a : List K) (lam : K) (hl : lam ≠ 0) : isMultiple a (a.map (lam * ·)) = true := by
  unfold isMultiple
  have hz : a.zip (a.map (lam * ·)) = a.map fun x => (x, lam * x) := by
    induction a with
    | nil => rfl
    | cons x xs ih => simp [ih]
  simp only [hz, List.all_map, Bool.or_eq_true, Bool.and_eq_true]
  right
  constructor
  · rw [List.all_eq_true]; intro x _; simp [hl]
  · rw [List.all_eq_true]; intro x _
    show (a.all _) = true
    rw [List.all_eq_true]; intro y _
    show decide (x * (lam * y) - y * (lam * x) = 0) = true
    simp only [decide_eq_true_eq]; ring

theorem T03_2_isMultiple_refl (a : List K) : isMultiple a a = true := by
  have := T03_2_isMultiple_scale a 1 one_ne_zero
  simpa using this

/-- … and only for multiples: when `==` answers True for two non-zero coordinate vectors, one is a non-zero multiple of
    the other (entry by entry along the zip) -/
theorem T03_2_isMultiple_only_multiples (a b : List K) (h : isMultiple a b = true)
    (ha : ∃ p ∈ a.zip b, p.1 ≠ 0) (hb : ∃ y ∈ b, y ≠ 0) :
    ∃ c : K, c ≠ 0 ∧ ∀ q ∈ a.zip b, q.2 = c * q.1 := by
  obtain ⟨p, hp, hp1⟩ := ha
  obtain ⟨y, hy, hy0⟩ := hb
  unfold isMultiple at h
  simp only [Bool.or_eq_true, Bool.and_eq_true, List.all_eq_true, decide_eq_true_eq, beq_iff_eq] at h
  have hpa : p.1 ∈ a := (List.of_mem_zip hp).1
  rcases h with (h | h) | ⟨hz, hm⟩
  · exact absurd (h p.1 hpa) hp1
  · exact absurd (h y hy) hy0
  · have hp2 : p.2 ≠ 0 := by
      have := hz p hp
      intro h0
      simp [hp1, h0] at this
    refine ⟨p.2 / p.1, div_ne_zero hp2 hp1, fun q hq => ?_⟩
    have := hm p hp q hq
    field_simp
    linear_combination this

end multiple
/-! ## T03.3  normalisation and dehomogenisation do not see the factor -/
section normalise
variable {K : Type} [Field K] [DecidableEq K]

/-- `_normalize_array` on a finite point: every representative is mapped to the same array -/
theorem T03_3_normalize_finite (p : List K) (lam : K) (hl : lam ≠ 0) (hz : p.getLast?.getD 0 ≠ 0) :
    normalizePoint1 (p.map (lam * ·)) = normalizePoint1 p := by
  unfold normalizePoint1
  have hlast : (p.map (lam * ·)).getLast?.getD 0 = lam * p.getLast?.getD 0 := by
    rw [List.getLast?_map]; cases p.getLast? <;> simp
  simp only [hlast, hz, mul_eq_zero, hl, or_self, if_false, List.map_map]
  apply List.map_congr_left
  intro x _
  simp only [Function.comp]
  field_simp

/-- a point at infinity stays a point at infinity and is left alone (its class is what the caller compares) -/
theorem T03_3_normalize_infinite (p : List K) (lam : K) (hz : p.getLast?.getD 0 = 0) :
    normalizePoint1 (p.map (lam * ·)) = p.map (lam * ·) := by
  unfold normalizePoint1
  have hlast : (p.map (lam * ·)).getLast?.getD 0 = lam * p.getLast?.getD 0 := by
    rw [List.getLast?_map]; cases p.getLast? <;> simp
  rw [hlast, hz]; simp

/-- dehomogenisation -/
theorem T03_3_affine (p : List K) (lam : K) (hl : lam ≠ 0) (hz : p.getLast?.getD 1 ≠ 0) :
    affine (vscale lam p) = affine p := by
  unfold affine vscale
  have hlast : (p.map (lam * ·)).getLast?.getD 1 = if p = [] then 1 else lam * p.getLast?.getD 1 := by
    rw [List.getLast?_map]
    cases p with
    | nil => simp
    | cons x xs => simp; cases h : (x :: xs).getLast? <;> simp_all
  cases p with
  | nil => simp
  | cons x xs =>
    simp only [hlast, List.cons_ne_nil, if_false] at *
    rw [← List.map_dropLast, List.map_map]
    apply List.map_congr_left
    intro y _
    simp only [Function.comp]
    field_simp

/-- so the specification functions of finite points are functions of the projective point -/
theorem T03_3_dist2 (p q : List K) (lam : K) (hl : lam ≠ 0) (hz : p.getLast?.getD 1 ≠ 0) :
    dist2 (vscale lam p) q = dist2 p q ∧ dist2 q (vscale lam p) = dist2 q p := by
  simp [dist2, T03_3_affine p lam hl hz]

theorem T03_3_foot_mirror_point (h p : List K) (lam : K) (hl : lam ≠ 0) (hz : p.getLast?.getD 1 ≠ 0) :
    footHyper h (vscale lam p) = footHyper h p ∧ mirrorHyper h (vscale lam p) = mirrorHyper h p ∧
    dist2Hyper h (vscale lam p) = dist2Hyper h p := by
  simp [footHyper, mirrorHyper, dist2Hyper, T03_3_affine p lam hl hz]


/-! hyperplane argument: `h` and `λh` are the same hyperplane -/
omit [DecidableEq K] in
private theorem foldl_add_acc (l : List K) (a : K) : l.foldl (· + ·) a = a + l.foldl (· + ·) 0 := by
  induction l generalizing a with
  | nil => simp
  | cons x xs ih => simp only [List.foldl_cons]; rw [ih (a + x), ih (0 + x)]; ring

omit [DecidableEq K] in
private theorem ldot_cons (x y : K) (a b : List K) : ldot (x :: a) (y :: b) = x * y + ldot a b := by
  simp only [ldot, List.zipWith_cons_cons, List.foldl_cons]; rw [foldl_add_acc]; ring

omit [DecidableEq K] in
theorem ldot_vscale_left (c : K) (a b : List K) : ldot (vscale c a) b = c * ldot a b := by
  induction a generalizing b with
  | nil => simp [ldot, vscale]
  | cons x xs ih =>
    cases b with
    | nil => simp [ldot, vscale]
    | cons y ys =>
      have := ih ys
      simp only [vscale, List.map_cons] at this ⊢
      rw [ldot_cons, ldot_cons, this]; ring

omit [DecidableEq K] in
theorem ldot_vscale_right (c : K) (a b : List K) : ldot a (vscale c b) = c * ldot a b := by
  induction a generalizing b with
  | nil => simp [ldot, vscale]
  | cons x xs ih =>
    cases b with
    | nil => simp [ldot, vscale]
    | cons y ys =>
      have := ih ys
      simp only [vscale, List.map_cons] at this ⊢
      rw [ldot_cons, ldot_cons, this]; ring

omit [DecidableEq K] in
theorem T03_3_foot_mirror_hyperplane (h p : List K) (lam : K) (hl : lam ≠ 0) (hn : norm2 (normal h) ≠ 0) :
    footHyper (vscale lam h) p = footHyper h p ∧ mirrorHyper (vscale lam h) p = mirrorHyper h p ∧
    dist2Hyper (vscale lam h) p = dist2Hyper h p := by
  have hnormal : normal (vscale lam h) = vscale lam (normal h) := by simp [normal, vscale]
  have hoff : offset (vscale lam h) = lam * offset h := by
    simp only [offset, vscale, List.getLast?_map]; cases h.getLast? <;> simp
  have hvv : ∀ (a b : K) (n : List K), vscale a (vscale b n) = vscale (a * b) n := by
    intro a b n; simp [vscale, mul_assoc]
  have hn2 : norm2 (vscale lam (normal h)) = lam * lam * norm2 (normal h) := by
    simp only [norm2, ldot_vscale_left, ldot_vscale_right]; ring
  refine ⟨?_, ?_, ?_⟩
  · simp only [footHyper, hnormal, hoff, hn2, ldot_vscale_left, hvv]
    congr 3; field_simp
  · simp only [mirrorHyper, hnormal, hoff, hn2, ldot_vscale_left, hvv]
    congr 3; field_simp
  · simp only [dist2Hyper, hnormal, hoff, hn2, ldot_vscale_left]
    field_simp

end normalise

/-! ## T03.4  the brackets of `crossratio` and `_point_dist` (translator A) -/
section brackets
variable {K : Type} [CommRing K]

/-- another representative of the same projective object -/
def scaleRep (lam : K) (p : Nat → K) : Nat → K := fun i => lam * p i

/-- cross ratio seen from `o`: rescaling any of the five points multiplies numerator and denominator by the same factor,
    so the returned quotient is unchanged (stated cross-multiplied, no division) -/
theorem T03_4_crossratio_from (o a b c d : Nat → K) (lam : K) :
    let num (o a b c d : Nat → K) := Gen.cr_num (Gen.cr_ac_from o a b c d) (Gen.cr_bd_from o a b c d) (Gen.cr_ad_from o a b c d) (Gen.cr_bc_from o a b c d)
    let den (o a b c d : Nat → K) := Gen.cr_den (Gen.cr_ac_from o a b c d) (Gen.cr_bd_from o a b c d) (Gen.cr_ad_from o a b c d) (Gen.cr_bc_from o a b c d)
    (num (scaleRep lam o) a b c d = lam ^ 2 * num o a b c d ∧ den (scaleRep lam o) a b c d = lam ^ 2 * den o a b c d) ∧
    (num o (scaleRep lam a) b c d = lam * num o a b c d ∧ den o (scaleRep lam a) b c d = lam * den o a b c d) ∧
    (num o a (scaleRep lam b) c d = lam * num o a b c d ∧ den o a (scaleRep lam b) c d = lam * den o a b c d) ∧
    (num o a b (scaleRep lam c) d = lam * num o a b c d ∧ den o a b (scaleRep lam c) d = lam * den o a b c d) ∧
    (num o a b c (scaleRep lam d) = lam * num o a b c d ∧ den o a b c (scaleRep lam d) = lam * den o a b c d) := by
  simp only [Gen.cr_num, Gen.cr_den, Gen.cr_ac_from, Gen.cr_bd_from, Gen.cr_ad_from, Gen.cr_bc_from, det3, scaleRep]
  refine ⟨⟨?_, ?_⟩, ⟨?_, ?_⟩, ⟨?_, ?_⟩, ⟨?_, ?_⟩, ⟨?_, ?_⟩⟩ <;> ring

/-- cross ratio on a line (coordinates with respect to a basis of the line) -/
theorem T03_4_crossratio_line (a b c d : Nat → K) (lam : K) :
    let num (a b c d : Nat → K) := Gen.cr_num (Gen.cr_ac_line a b c d) (Gen.cr_bd_line a b c d) (Gen.cr_ad_line a b c d) (Gen.cr_bc_line a b c d)
    let den (a b c d : Nat → K) := Gen.cr_den (Gen.cr_ac_line a b c d) (Gen.cr_bd_line a b c d) (Gen.cr_ad_line a b c d) (Gen.cr_bc_line a b c d)
    (num (scaleRep lam a) b c d = lam * num a b c d ∧ den (scaleRep lam a) b c d = lam * den a b c d) ∧
    (num a (scaleRep lam b) c d = lam * num a b c d ∧ den a (scaleRep lam b) c d = lam * den a b c d) ∧
    (num a b (scaleRep lam c) d = lam * num a b c d ∧ den a b (scaleRep lam c) d = lam * den a b c d) ∧
    (num a b c (scaleRep lam d) = lam * num a b c d ∧ den a b c (scaleRep lam d) = lam * den a b c d) := by
  simp only [Gen.cr_num, Gen.cr_den, Gen.cr_ac_line, Gen.cr_bd_line, Gen.cr_ad_line, Gen.cr_bc_line, scaleRep]
  refine ⟨⟨?_, ?_⟩, ⟨?_, ?_⟩, ⟨?_, ?_⟩, ⟨?_, ?_⟩⟩ <;> ring

/-- `_point_dist`: the radicand is homogeneous of degree 2 in p and in q, the denominator of degree 1: the value
    `factor · |sqrt(radicand) / den|` is the same for every representative -/
theorem T03_4_point_dist_p (p q i j : Nat → K) (lam : K) :
    Gen.pd_radicand (Gen.pd_pqi (scaleRep lam p) q i j) (Gen.pd_pqj (scaleRep lam p) q i j)
      = lam * lam * Gen.pd_radicand (Gen.pd_pqi p q i j) (Gen.pd_pqj p q i j) ∧
    Gen.pd_den (Gen.pd_pij (scaleRep lam p) q i j) (Gen.pd_qij (scaleRep lam p) q i j)
      = lam * Gen.pd_den (Gen.pd_pij p q i j) (Gen.pd_qij p q i j) := by
  constructor <;> simp only [Gen.pd_radicand, Gen.pd_den, Gen.pd_pqi, Gen.pd_pqj, Gen.pd_pij, Gen.pd_qij, det3] <;>
    simp only [scaleRep] <;> ring

theorem T03_4_point_dist_q (p q i j : Nat → K) (lam : K) :
    Gen.pd_radicand (Gen.pd_pqi p (scaleRep lam q) i j) (Gen.pd_pqj p (scaleRep lam q) i j)
      = lam * lam * Gen.pd_radicand (Gen.pd_pqi p q i j) (Gen.pd_pqj p q i j) ∧
    Gen.pd_den (Gen.pd_pij p (scaleRep lam q) i j) (Gen.pd_qij p (scaleRep lam q) i j)
      = lam * Gen.pd_den (Gen.pd_pij p q i j) (Gen.pd_qij p q i j) := by
  constructor <;> simp only [Gen.pd_radicand, Gen.pd_den, Gen.pd_pqi, Gen.pd_pqj, Gen.pd_pij, Gen.pd_qij, det3] <;>
    simp only [scaleRep] <;> ring

end brackets

end Geo
