/-
  C07 — transformations preserve incidence and commute with join and meet.
-/
import Geo.Gen.Diagrams
import Geo.Proofs.Lemmas
import Mathlib.LinearAlgebra.Matrix.NonsingularInverse
namespace Geo
open Spec

/-! ## T07.1  incidence is invariant (every dimension, every invertible matrix) -/
section
open Matrix
variable {n : Type} [Fintype n] [DecidableEq n] {F : Type} [Field F]

/-- `(t⁻ᵀ l)·(t p) = l·p`: a hyperplane contains a point exactly when the images do -/
theorem T07_1_incidence (t : Matrix n n F) (ht : IsUnit t.det) (l p : n → F) :
    (t⁻¹)ᵀ.mulVec l ⬝ᵥ t.mulVec p = l ⬝ᵥ p := by
  rw [Matrix.dotProduct_mulVec, Matrix.mulVec_transpose, Matrix.vecMul_vecMul, Matrix.nonsing_inv_mul _ ht,
    Matrix.vecMul_one]

/-- a point lies on a quadric exactly when its image lies on the image quadric: `(tp)ᵀ (t⁻ᵀ X t⁻¹) (tp) = pᵀ X p` -/
theorem T07_1_quadric (t X : Matrix n n F) (ht : IsUnit t.det) (p : n → F) :
    t.mulVec p ⬝ᵥ ((t⁻¹)ᵀ * X * t⁻¹).mulVec (t.mulVec p) = p ⬝ᵥ X.mulVec p := by
  rw [Matrix.mulVec_mulVec, Matrix.mul_assoc, Matrix.mul_assoc, Matrix.nonsing_inv_mul _ ht, Matrix.mul_one,
    ← Matrix.mulVec_mulVec, Matrix.dotProduct_mulVec, Matrix.vecMul_mulVec, ← Matrix.transpose_mul,
    Matrix.nonsing_inv_mul _ ht, Matrix.transpose_one]
  simp

/-- a hyperplane is tangent (`hᵀ X⁻¹ h = 0`, dual quadric `t X⁻¹ tᵀ`) exactly when the images are -/
theorem T07_1_tangent (t Y : Matrix n n F) (ht : IsUnit t.det) (h : n → F) :
    (t⁻¹)ᵀ.mulVec h ⬝ᵥ (t * Y * tᵀ).mulVec ((t⁻¹)ᵀ.mulVec h) = h ⬝ᵥ Y.mulVec h := by
  rw [Matrix.mulVec_mulVec, Matrix.mul_assoc, Matrix.mul_assoc, ← Matrix.transpose_mul, Matrix.nonsing_inv_mul _ ht,
    Matrix.transpose_one, Matrix.mul_one, ← Matrix.mulVec_mulVec, Matrix.dotProduct_mulVec, Matrix.mulVec_transpose,
    Matrix.vecMul_vecMul, Matrix.nonsing_inv_mul _ ht, Matrix.vecMul_one]
end

/-! ## T07.2  join and meet commute with a transformation: inverse-free cofactor identities over any commutative ring -/
section
variable {K : Type} [CommRing K]

/-- 3×3 matrix action on a coordinate vector -/
def mulVec3 (t : Nat → Nat → K) (p : Nat → K) : Nat → K := fun i => sumRange 3 fun j => t i j * p j
def mulVec4 (t : Nat → Nat → K) (p : Nat → K) : Nat → K := fun i => sumRange 4 fun j => t i j * p j

/-- cofactor matrix of a 3×3 matrix: `cof t i j = (−1)^{i+j} · minor_{ij}` (so `adj t = (cof t)ᵀ`) -/
def cof3 (t : Nat → Nat → K) (i j : Nat) : K :=
  let r (k : Nat) := (k + 1) % 3
  let s (k : Nat) := (k + 2) % 3
  t (r i) (r j) * t (s i) (s j) - t (r i) (s j) * t (s i) (r j)

/-- `(t a) × (t b) = cof(t) (a × b)`: with `det t ≠ 0` the line through the images is the image `t⁻ᵀ (a×b)·det t`
    of the line (plane: 2 points; dually 2 lines) -/
theorem T07_2_cross_cofactor (t : Nat → Nat → K) (a b : Nat → K) :
    ∀ i, i < 3 → cross (mulVec3 t a) (mulVec3 t b) i = sumRange 3 fun j => cof3 t i j * cross a b j := by
  intro i hi
  interval_cases i <;> simp [cross, mulVec3, cof3, sumRange] <;> ring

/-- the cofactor matrix is `det t` times the inverse transpose: `Σ_i cof(t)_{ij} t_{ik} = det t · δ_{jk}` -/
theorem T07_2_cofactor_is_inverse_transpose (t : Nat → Nat → K) :
    ∀ j k, j < 3 → k < 3 →
      (sumRange 3 fun i => cof3 t i j * t i k) = if j = k then det3 (t 0) (t 1) (t 2) else 0 := by
  intro j k hj hk
  interval_cases j <;> interval_cases k <;> simp [cof3, sumRange, det3] <;> ring

/-- traced three-point join in space: `join(ta, tb, tc)` paired with `t x` equals `det t · join(a,b,c)·x`; so
    `join(ta,tb,tc) = det t · t⁻ᵀ join(a,b,c)` (dually for three planes), and the 4×4 determinant is multiplicative -/
theorem T07_2_det4_mul (t : Nat → Nat → K) (a b c d : Nat → K) :
    det4 (mulVec4 t a) (mulVec4 t b) (mulVec4 t c) (mulVec4 t d)
      = det4 (t 0) (t 1) (t 2) (t 3) * det4 a b c d := by
  simp [det4, det3, mulVec4, sumRange]
  ring

theorem T07_2_join3_is_det (p q r x : Nat → K) :
    match Gen.join_P3P3P3 with
    | none => True
    | some cs =>
      (dot 4 (fun i => lastResult cs [vec p, vec q, vec r] [] [i]) x = det4 p q r x) ∨
      (dot 4 (fun i => lastResult cs [vec p, vec q, vec r] [] [i]) x = - det4 p q r x) := by
  simp only [Gen.join_P3P3P3]
  first
  | (left; traced_simp [det4, det3]; ring1)
  | (right; traced_simp [det4, det3]; ring1)

/-! ## T07.3  cross ratios: every bracket picks up `det t` -/

theorem T07_3_bracket3 (t : Nat → Nat → K) (a b c : Nat → K) :
    det3 (mulVec3 t a) (mulVec3 t b) (mulVec3 t c) = det3 (t 0) (t 1) (t 2) * det3 a b c := by
  simp [det3, mulVec3, sumRange]
  ring

/-- hence the quotient of brackets is unchanged (stated without division: cross-multiplied) -/
theorem T07_3_crossratio_invariant (t : Nat → Nat → K) (o a b c d : Nat → K) :
    let br (x y : Nat → K) := det3 o x y
    let br' (x y : Nat → K) := det3 (mulVec3 t o) (mulVec3 t x) (mulVec3 t y)
    br' a c * br' b d * (br a d * br b c) = br a c * br b d * (br' a d * br' b c) := by
  simp only [T07_3_bracket3]
  ring

end
/-! ## T07.5  line ∧ plane in space commutes with transformations (inverse-free) -/
section
variable {K : Type} [CommRing K]

/-- the closed form of `meet(L, e)` for `L = p ∨ q` (C01, `T01_6_meet_L3E`, up to the factor `±2s`): `(e·q) p − (e·p) q` -/
def lineMeetPlane (e p q : Nat → K) : Nat → K := fun i => dot 4 e q * p i - dot 4 e p * q i

/-- **t·meet(L, e) = meet(t·L, t·e)**: if `e'` is the image plane (`e' ∘ t = e`, i.e. `tᵀ e' = e` — what `t⁻ᵀ e` satisfies), the
    meet of the image line `tp ∨ tq` with `e'` is the image of the meet; together with `T01_6_meet_L3E` (both sides are `±2s` times
    this closed form) and `T07_2_det4_mul` for the line this is the commutation statement for the line ∧ plane branch -/
theorem T07_5_line_plane_commutes (t : Nat → Nat → K) (e e' p q : Nat → K)
    (h : ∀ j, j < 4 → sumRange 4 (fun i => e' i * t i j) = e j) :
    ∀ i, i < 4 → lineMeetPlane e' (mulVec4 t p) (mulVec4 t q) i = mulVec4 t (lineMeetPlane e p q) i := by
  have h0 := h 0 (by decide); have h1 := h 1 (by decide); have h2 := h 2 (by decide); have h3 := h 3 (by decide)
  simp only [sumRange] at h0 h1 h2 h3
  have hp : dot 4 e' (mulVec4 t p) = dot 4 e p := by
    simp only [dot, mulVec4, sumRange]
    rw [← h0, ← h1, ← h2, ← h3]; ring
  have hq : dot 4 e' (mulVec4 t q) = dot 4 e q := by
    simp only [dot, mulVec4, sumRange]
    rw [← h0, ← h1, ← h2, ← h3]; ring
  intro i _
  unfold lineMeetPlane
  rw [hp, hq]
  simp only [mulVec4, sumRange]
  ring

/-- the same for `join(L, r)` = the plane through a line and a point, by duality: the three-point join is a determinant
    (`T07_2_join3_is_det`) and determinants are multiplicative (`T07_2_det4_mul`): incidence of the image plane with every image
    point `t x` is `det t` times the incidence of the plane with `x` -/
theorem T07_5_line_point_commutes (t : Nat → Nat → K) (p q r x : Nat → K) :
    det4 (mulVec4 t p) (mulVec4 t q) (mulVec4 t r) (mulVec4 t x)
      = det4 (t 0) (t 1) (t 2) (t 3) * det4 p q r x :=
  T07_2_det4_mul t p q r x
end

end Geo
