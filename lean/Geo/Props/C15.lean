/-
  C15 — degenerate quadrics split into their components; conics meet in their (at most four) common points.
-/
import Geo.Gen.Curve
import Geo.Props.C14
import Geo.Proofs.Lemmas
namespace Geo
open Spec

variable {K : Type} [CommRing K]

/-- `Conic.from_lines(g, h)` is degenerate: `det(g hᵀ + h gᵀ) = 0` -/
theorem T15_from_lines_degenerate (g h : Nat → K) :
    det3 (fun k => g 0 * h k + h 0 * g k) (fun k => g 1 * h k + h 1 * g k) (fun k => g 2 * h k + h 2 * g k) = 0 := by
  simp [det3]; ring

/-- … and its components are exactly g and h (T14.2: the rows / columns of `B + hat(±(g×h))`) -/
theorem T15_from_lines_components (g h : Nat → K) :
    ∀ j k, j < 3 → k < 3 → (g j * h k + h j * g k) + hat (cross g h) j k = 2 * (g j * h k) :=
  (T14_2_decomposition g h).2.1

/-- the pencil cubic of `Conic.intersect` (coefficients regenerated from the source): `det(x A + B) = αx³ + βx² + γx + δ` -/
theorem T15_pencil_cubic (a1 a2 a3 b1 b2 b3 : Nat → K) (x : K) :
    Gen.pencil_rows_ok = true →
    det3 (fun k => x * a1 k + b1 k) (fun k => x * a2 k + b2 k) (fun k => x * a3 k + b3 k)
      = det3 a1 a2 a3 * x ^ 3 + Gen.pencil_beta a1 a2 a3 b1 b2 b3 * x ^ 2 + Gen.pencil_gamma a1 a2 a3 b1 b2 b3 * x + det3 b1 b2 b3 := by
  intro _
  simp [Gen.pencil_beta, Gen.pencil_gamma, det3]
  ring

/-- a common point of the two conics lies on every member of the pencil, in particular on the degenerate member
    `x₀A + B`; since `pᵀ(ghᵀ + hgᵀ)p = 2 (g·p)(h·p)`, it lies on one of its two component lines (integral domain) — so every
    common point is found by intersecting one conic with the two components -/
theorem T15_common_point_on_component (g h p : Nat → K) :
    (sumRange 3 fun a => sumRange 3 fun b => p a * (g a * h b + h a * g b) * p b) = 2 * (dot 3 g p) * (dot 3 h p) := by
  simp [sumRange, dot]; ring

theorem T15_pencil_member (A B : Nat → Nat → K) (p : Nat → K) (x : K)
    (hA : (sumRange 3 fun a => sumRange 3 fun b => p a * A a b * p b) = 0)
    (hB : (sumRange 3 fun a => sumRange 3 fun b => p a * B a b * p b) = 0) :
    (sumRange 3 fun a => sumRange 3 fun b => p a * (x * A a b + B a b) * p b) = 0 := by
  simp only [sumRange] at hA hB ⊢
  linear_combination x * hA + hB

/-- plane pairs: the principal 2×2 minors of `e fᵀ + f eᵀ` are `−(e∧f)_{ij}²`; taking their square roots independently
    (what the n = 4 branch does) loses the relative signs of the Plücker coordinates — recorded finding KF-C15-1 -/
theorem T15_from_planes_minor (e f : Nat → K) (i j : Nat) :
    (e i * f i + f i * e i) * (e j * f j + f j * e j) - (e i * f j + f i * e j) * (e j * f i + f j * e i)
      = -((e i * f j - e j * f i) ^ 2) := by ring

end Geo
